package main

import (
	"bufio"
	"encoding/json"
	"flag"
	"fmt"
	"io"
	"io/fs"
	"os"
	"os/exec"
	"path/filepath"
	"sort"
	"strings"
	"sync"
)

// A mutant is a small patch of /repo that breaks one rule instance while still
// compiling. Catalogue: /verif/mutants/*.diff (header lines "# property:",
// "# rule:", "# expect:") and /verif/seeded/<id>/patch.diff + meta.json.
type mutant struct {
	Name   string
	Path   string
	Props  []string
	Rules  []string // rules expected to report it; empty = expected miss
	Expect string   // substring of the violated obligation's key (optional)
}

type selfResult struct {
	Total, Detected, Skipped, Missed int
	Lines                            []string
}

func splitList(s string) []string {
	var out []string
	for _, x := range strings.FieldsFunc(s, func(r rune) bool { return r == ',' || r == ' ' }) {
		if x != "" && x != "-" {
			out = append(out, x)
		}
	}
	return out
}

func loadMutants(verif string) []mutant {
	var out []mutant
	files, _ := filepath.Glob(filepath.Join(verif, "mutants", "*.diff"))
	sort.Strings(files)
	for _, f := range files {
		m := mutant{Name: strings.TrimSuffix(filepath.Base(f), ".diff"), Path: f}
		fh, err := os.Open(f)
		if err != nil {
			continue
		}
		sc := bufio.NewScanner(fh)
		for sc.Scan() {
			l := sc.Text()
			if !strings.HasPrefix(l, "#") {
				break
			}
			l = strings.TrimSpace(strings.TrimPrefix(l, "#"))
			switch {
			case strings.HasPrefix(l, "property:"):
				m.Props = splitList(strings.TrimPrefix(l, "property:"))
			case strings.HasPrefix(l, "rule:"):
				m.Rules = splitList(strings.TrimPrefix(l, "rule:"))
			case strings.HasPrefix(l, "expect:"):
				m.Expect = strings.TrimSpace(strings.TrimPrefix(l, "expect:"))
			}
		}
		fh.Close()
		out = append(out, m)
	}
	metas, _ := filepath.Glob(filepath.Join(verif, "seeded", "*", "meta.json"))
	sort.Strings(metas)
	for _, mf := range metas {
		b, err := os.ReadFile(mf)
		if err != nil {
			continue
		}
		var meta struct {
			Property   any      `json:"property"`
			DetectedBy []string `json:"detected_by"`
			Expect     string   `json:"expect"`
		}
		if json.Unmarshal(b, &meta) != nil {
			continue
		}
		dir := filepath.Dir(mf)
		m := mutant{Name: "seeded/" + filepath.Base(dir), Path: filepath.Join(dir, "patch.diff"), Rules: meta.DetectedBy, Expect: meta.Expect}
		switch v := meta.Property.(type) {
		case string:
			m.Props = splitList(v)
		case []any:
			for _, x := range v {
				if s, ok := x.(string); ok {
					m.Props = append(m.Props, s)
				}
			}
		}
		out = append(out, m)
	}
	return out
}

func copyTree(src, dst string) error {
	return filepath.WalkDir(src, func(path string, d fs.DirEntry, err error) error {
		if err != nil {
			return err
		}
		rel, _ := filepath.Rel(src, path)
		if rel == ".git" || strings.HasPrefix(rel, ".git"+string(filepath.Separator)) {
			if d.IsDir() {
				return filepath.SkipDir
			}
			return nil
		}
		if rel == "docs" || rel == "testdata" {
			return filepath.SkipDir
		}
		target := filepath.Join(dst, rel)
		if d.IsDir() {
			return os.MkdirAll(target, 0o755)
		}
		if !d.Type().IsRegular() {
			return nil
		}
		in, err := os.Open(path)
		if err != nil {
			return err
		}
		defer in.Close()
		out, err := os.Create(target)
		if err != nil {
			return err
		}
		defer out.Close()
		_, err = io.Copy(out, in)
		return err
	})
}

// runMutant returns "detected", "missed", "skipped" (does not apply) or
// "invalid" (does not type-check), plus a detail line.
func runMutant(self, repo, verif string, m mutant, prop string) (string, string) {
	dir, err := os.MkdirTemp("", "csvqsa-mut-")
	if err != nil {
		return "skipped", err.Error()
	}
	defer os.RemoveAll(dir)
	if err := copyTree(repo, dir); err != nil {
		return "skipped", "copy: " + err.Error()
	}
	ap := exec.Command("git", "apply", "--whitespace=nowarn", m.Path)
	ap.Dir = dir
	if out, err := ap.CombinedOutput(); err != nil {
		return "skipped", "patch does not apply: " + firstLine(string(out))
	}
	args := []string{"check", "--property", prop, "--repo", dir, "--verif", verif, "--no-evidence"}
	cmd := exec.Command(self, args...)
	out, _ := cmd.CombinedOutput()
	text := string(out)
	if strings.Contains(text, "cannot-analyse: type/load errors") || strings.Contains(text, "cannot-analyse: packages.Load") {
		return "invalid", "mutant does not type-check"
	}
	lines := strings.Split(text, "\n")
	for i, l := range lines {
		if !strings.HasPrefix(l, "VIOLATION ") || i+1 >= len(lines) {
			continue
		}
		d := strings.TrimSpace(lines[i+1])
		okRule := len(m.Rules) == 0
		for _, r := range m.Rules {
			if strings.Contains(d, " "+r+" ") {
				okRule = true
			}
		}
		if okRule && (m.Expect == "" || strings.Contains(d, m.Expect)) {
			return "detected", d
		}
	}
	return "missed", ""
}

func firstLine(s string) string {
	if i := strings.IndexByte(s, '\n'); i >= 0 {
		return s[:i]
	}
	return s
}

func runSelftest(verif, repo, prop, only string, verbose bool) *selfResult {
	self, err := os.Executable()
	if err != nil {
		return &selfResult{}
	}
	var todo []struct {
		m mutant
		p string
	}
	for _, m := range loadMutants(verif) {
		if only != "" && m.Name != only {
			continue
		}
		for _, p := range m.Props {
			if prop == "" || prop == "all" || p == prop {
				todo = append(todo, struct {
					m mutant
					p string
				}{m, p})
			}
		}
	}
	res := &selfResult{Total: len(todo)}
	lines := make([]string, len(todo))
	status := make([]string, len(todo))
	sem := make(chan struct{}, 6)
	var wg sync.WaitGroup
	for i, t := range todo {
		wg.Add(1)
		go func(i int, m mutant, p string) {
			defer wg.Done()
			sem <- struct{}{}
			defer func() { <-sem }()
			st, detail := runMutant(self, repo, verif, m, p)
			exp := "expected: " + strings.Join(m.Rules, ",")
			if len(m.Rules) == 0 {
				exp = "expected: miss (outside static reach)"
			}
			status[i] = st
			lines[i] = fmt.Sprintf("%s %s [%s] %s %s", st, m.Name, p, exp, detail)
		}(i, t.m, t.p)
	}
	wg.Wait()
	for i, st := range status {
		switch st {
		case "detected":
			res.Detected++
		case "skipped", "invalid":
			res.Skipped++
		default:
			if len(todo[i].m.Rules) > 0 {
				res.Missed++
			}
		}
		if verbose {
			fmt.Println(lines[i])
		}
	}
	res.Lines = lines
	return res
}

func cmdSelftest(args []string) int {
	fs := flag.NewFlagSet("selftest", flag.ExitOnError)
	prop := fs.String("property", "", "restrict to one property")
	only := fs.String("only", "", "run one mutant by name")
	repo := fs.String("repo", "/repo", "repository")
	verif := fs.String("verif", "/verif", "verification directory")
	fs.Parse(args)
	r := runSelftest(*verif, *repo, *prop, *only, true)
	fmt.Printf("selftest: total=%d detected=%d skipped=%d missed(expected to be caught)=%d\n", r.Total, r.Detected, r.Skipped, r.Missed)
	if r.Missed > 0 {
		return 1
	}
	return 0
}
