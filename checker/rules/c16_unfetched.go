package rules

import (
	"fmt"
	"go/constant"
	"go/token"
	"go/types"
	"sort"
	"strings"

	"golang.org/x/tools/go/ssa"

	"verif/checker/absint"
	"verif/checker/core"
)

// R-CUR-12 — the status of a cursor is a function of (open, fetched, position),
// in that order; what the result set holds comes last.
//
// Between OPEN and the first FETCH the pointer has no defined position: IS IN
// RANGE is UNKNOWN for every result, the empty one included, and COUNT is the
// size of the result in every state. The rule does not look for a particular
// statement order in IsInRange. It takes the state OPEN leaves behind from the
// code of Open (the constants it stores into the fields of the cursor: today
// index = -1, fetched = false), and executes the status methods on that state
// with everything about the snapshot left open (the record count is an opaque
// number, every test on it is answered both ways).

func init() {
	Register(&Rule{ID: "R-CUR-12", Props: []string{"C16"}, Floor: 2,
		Doc: "status table of a cursor by abstract execution of IsInRange and Count over {closed, just opened, fetched} × every answer to the tests the method makes on the snapshot (record count empty / non-empty, pointer against the count): " +
			"(closed) c.view == nil: both return a non-nil error in every world; " +
			"(just opened) the view is set and every field holds the constant that Open stores into it (collected from the stores of Open, its closures and the cursor methods it calls — today index = -1, fetched = false): IsInRange returns (UNKNOWN, nil) in every world, so no test on the result set may answer before the not-yet-fetched test; " +
			"(fetched) the boolean fields Open resets hold the opposite value, the pointer is an opaque integer: IsInRange returns TRUE or FALSE with a nil error, and both occur; " +
			"Count of an open cursor returns the same non-constant value (the record count of the snapshot) with a nil error in every world of every state — it consults neither the flag nor the pointer",
		Controls: []string{"CtlStatusEmptyFirstCursor", "CtlStatusCountCursor"},
		Run:      ruleCur12})
}

func ruleCur12(c *Ctx) {
	for _, ct := range curTypes(c) {
		var open, inRange *ssa.Function
		if ct.control {
			open, inRange = ct.methods["Open"], ct.methods["IsInRange"]
			if open == nil || inRange == nil {
				continue
			}
		} else {
			open, inRange = ct.method(c, "Open"), ct.method(c, "IsInRange")
			if open == nil || inRange == nil {
				continue
			}
		}
		c.Touch(open)
		c.Touch(inRange)
		negative := ct.control && strings.HasPrefix(ct.named.Obj().Name(), "Ok")
		state, amb := cur12OpenState(c, ct, open)
		key := c.KeyAt(inRange, "status by (open, fetched, position)")
		hasFlag := false
		for _, v := range state {
			if _, ok := v.BoolVal(); ok {
				hasFlag = true
			}
		}
		switch {
		case len(amb) > 0:
			c.Unknown(key, c.FnPos(open), "cannot-analyse: Open stores different constants into "+strings.Join(amb, ", ")+": the state it leaves behind is not a single one")
			continue
		case !hasFlag:
			c.Unknown(key, c.FnPos(open), "cannot-analyse: Open stores no boolean constant into a field of the cursor: the 'not fetched yet' state cannot be taken from it")
			continue
		}
		report := func(key, pos, why string) {
			c.Bad(key, pos, why)
			if negative {
				c.Unknown("negative-control:"+key, "-", "the rule reports "+ct.name+", a correct spelling: "+why)
			}
		}
		if bad, n := cur12InRange(c, inRange, state); len(bad) > 0 {
			report(key, c.FnPos(inRange), strings.Join(bad, " | "))
		} else {
			c.OkN(key, c.FnPos(inRange), fmt.Sprintf("%d abstract worlds over closed / just opened (%s) / fetched: error when closed, UNKNOWN until the first fetch whatever the snapshot holds, TRUE and FALSE afterwards", n, cur12StateString(state)), n)
		}
		cnt := ct.methods["Count"]
		if cnt == nil {
			if !ct.control {
				ct.method(c, "Count") // reports the missing anchor
			}
			continue
		}
		if len(cnt.Params) != 1 || cnt.Signature.Results().Len() != 2 {
			if !ct.control {
				c.Unknown(c.KeyAt(cnt, "count in every state"), c.FnPos(cnt), "cannot-analyse: expected func (c *Cursor) Count() (int, error)")
			}
			continue
		}
		c.Touch(cnt)
		ckey := c.KeyAt(cnt, "count in every state")
		if bad, n := cur12Count(c, cnt, state); len(bad) > 0 {
			report(ckey, c.FnPos(cnt), strings.Join(bad, " | "))
		} else {
			c.OkN(ckey, c.FnPos(cnt), fmt.Sprintf("%d abstract worlds: error when closed, otherwise one and the same value of the snapshot, before and after the first fetch", n), n)
		}
	}
}

func cur12StateString(state map[string]absint.Val) string {
	var p []string
	for f, v := range state {
		p = append(p, f+" = "+v.String())
	}
	sort.Strings(p)
	return strings.Join(p, ", ")
}

// cur12OpenState: the constants Open stores into fields of its receiver (in
// Open itself, its closures and the methods of the cursor type it calls,
// transitively). A field that receives two different constants is ambiguous.
func cur12OpenState(c *Ctx, ct *curType, open *ssa.Function) (map[string]absint.Val, []string) {
	state := map[string]absint.Val{}
	ambiguous := map[string]bool{}
	seen := map[*ssa.Function]bool{}
	isCur := func(t types.Type) bool {
		if p, ok := t.Underlying().(*types.Pointer); ok {
			t = p.Elem()
		}
		return types.Identical(t, ct.named)
	}
	var visit func(fn *ssa.Function)
	visit = func(fn *ssa.Function) {
		if fn == nil || fn.Blocks == nil || seen[fn] {
			return
		}
		seen[fn] = true
		for _, b := range fn.Blocks {
			for _, in := range b.Instrs {
				switch x := in.(type) {
				case *ssa.Store:
					fa, ok := x.Addr.(*ssa.FieldAddr)
					if !ok || !isCur(fa.X.Type()) {
						continue
					}
					k, ok := x.Val.(*ssa.Const)
					if !ok || k.Value == nil {
						continue
					}
					name := core.FieldName(fa)
					v := absint.Const(k.Value, k.Type())
					if old, ok := state[name]; ok && !constant.Compare(old.C, token.EQL, v.C) {
						ambiguous[name] = true
					}
					state[name] = v
				case ssa.CallInstruction:
					if g := core.StaticCallee(x); g != nil && g.Signature.Recv() != nil && isCur(g.Signature.Recv().Type()) {
						visit(g)
					}
					if mc, ok := x.Common().Value.(*ssa.MakeClosure); ok {
						visit(mc.Fn.(*ssa.Function))
					}
				case *ssa.MakeClosure:
					visit(x.Fn.(*ssa.Function))
				}
			}
		}
	}
	visit(open)
	return state, keysOf(ambiguous)
}

type cur12Run struct {
	name  string
	setup func(w *absint.World, it *absint.Interp)
}

// cur12Runs: the three states of a cursor as abstract initial heaps of the receiver "c".
func cur12Runs(state map[string]absint.Val) []cur12Run {
	fields := func(flip bool) func(obj, field string, t types.Type) (absint.Val, bool) {
		return func(obj, field string, t types.Type) (absint.Val, bool) {
			if obj != "c" {
				return absint.Val{}, false
			}
			v, ok := state[field]
			if !ok {
				return absint.Val{}, false
			}
			b, isBool := v.BoolVal()
			switch {
			case !flip:
				return absint.Const(v.C, t), true
			case isBool:
				return absint.Const(constant.MakeBool(!b), t), true
			}
			return absint.Val{}, false // the pointer after a fetch: any integer
		}
	}
	return []cur12Run{
		{"closed", func(w *absint.World, it *absint.Interp) { w.Assume("b:nil:c.view", 1) }},
		{"just opened", func(w *absint.World, it *absint.Interp) {
			w.Assume("b:nil:c.view", 0)
			it.FieldInit = fields(false)
		}},
		{"fetched", func(w *absint.World, it *absint.Interp) {
			w.Assume("b:nil:c.view", 0)
			it.FieldInit = fields(true)
		}},
	}
}

func cur12Interp(c *Ctx, w *absint.World) *absint.Interp {
	it := newInterp(c, w)
	ternaryModels(c, it.Models)
	// private helpers and closures of the package of the method are executed: a status method split
	// into helpers has the same table
	it.InlinePred = func(f *ssa.Function) bool {
		if f == nil || f.Blocks == nil {
			return false
		}
		if !c.P.InPkg(f, "lib/query") && !c.P.IsControl(f) {
			return false
		}
		if f.Parent() != nil {
			return true
		}
		return f.Object() != nil && !f.Object().Exported()
	}
	return it
}

func cur12World(w *absint.World) string {
	var a []string
	for _, s := range w.Asked() {
		a = append(a, strings.TrimPrefix(s, "b:"))
	}
	if len(a) == 0 {
		return "{}"
	}
	return "{" + strings.Join(a, " ") + "}"
}

func cur12InRange(c *Ctx, fn *ssa.Function, state map[string]absint.Val) ([]string, int) {
	if len(fn.Params) != 1 || fn.Signature.Results().Len() != 2 {
		return []string{"cannot-analyse: expected func (c *Cursor) IsInRange() (ternary.Value, error)"}, 0
	}
	var bad []string
	total := 0
	add := func(s string) {
		for _, b := range bad {
			if b == s {
				return
			}
		}
		if len(bad) < 4 {
			bad = append(bad, s)
		}
	}
	for _, run := range cur12Runs(state) {
		answers := map[string]bool{}
		n, err := absint.Enumerate(2000, func(w *absint.World) {
			it := cur12Interp(c, w)
			run.setup(w, it)
			r := it.Call(fn, []absint.Val{absint.Obj("c", fn.Params[0].Type())}, nil)
			if it.Err != nil {
				add(run.name + " " + cur12World(w) + ": cannot evaluate: " + it.Err.Error())
				return
			}
			if r.K != absint.KTuple || len(r.Elems) != 2 {
				add(run.name + ": unexpected result " + r.String())
				return
			}
			t, e := ternaryName(c, r.Elems[0]), r.Elems[1]
			switch run.name {
			case "closed":
				if e.K == absint.KNil {
					add(fmt.Sprintf("closed cursor %s: answers %s without an error", cur12World(w), t))
				}
			case "just opened":
				if e.K != absint.KNil {
					add(fmt.Sprintf("open cursor before the first fetch (%s) %s: returns the error %s", cur12StateString(state), cur12World(w), e))
				} else if t != "UNKNOWN" {
					add(fmt.Sprintf("open cursor before the first fetch (%s) %s: IS IN RANGE answers %s, must be UNKNOWN whatever the result set holds — the position is defined by the first FETCH only", cur12StateString(state), cur12World(w), t))
				}
			case "fetched":
				answers[t] = true
				if e.K != absint.KNil {
					add(fmt.Sprintf("fetched cursor %s: returns the error %s", cur12World(w), e))
				} else if t != "TRUE" && t != "FALSE" {
					add(fmt.Sprintf("fetched cursor %s: IS IN RANGE answers %s, must be TRUE or FALSE once a fetch has positioned the pointer", cur12World(w), t))
				}
			}
		})
		total += n
		if err != nil {
			add(run.name + ": " + err.Error())
		}
		if run.name == "fetched" && len(bad) == 0 && !(answers["TRUE"] && answers["FALSE"]) {
			add("fetched cursor: the answer does not depend on the position (only " + strings.Join(keysOf(answers), ", ") + " over all worlds)")
		}
	}
	return bad, total
}

func cur12Count(c *Ctx, fn *ssa.Function, state map[string]absint.Val) ([]string, int) {
	var bad []string
	total := 0
	add := func(s string) {
		for _, b := range bad {
			if b == s {
				return
			}
		}
		if len(bad) < 4 {
			bad = append(bad, s)
		}
	}
	values := map[string]bool{}
	for _, run := range cur12Runs(state) {
		n, err := absint.Enumerate(2000, func(w *absint.World) {
			it := cur12Interp(c, w)
			run.setup(w, it)
			r := it.Call(fn, []absint.Val{absint.Obj("c", fn.Params[0].Type())}, nil)
			if it.Err != nil {
				add(run.name + " " + cur12World(w) + ": cannot evaluate: " + it.Err.Error())
				return
			}
			if r.K != absint.KTuple || len(r.Elems) != 2 {
				add(run.name + ": unexpected result " + r.String())
				return
			}
			v, e := r.Elems[0], r.Elems[1]
			if run.name == "closed" {
				if e.K == absint.KNil {
					add(fmt.Sprintf("closed cursor %s: COUNT answers %s without an error", cur12World(w), v))
				}
				return
			}
			if e.K != absint.KNil {
				add(fmt.Sprintf("open cursor, %s %s: COUNT returns the error %s", run.name, cur12World(w), e))
				return
			}
			if v.K == absint.KConst {
				add(fmt.Sprintf("open cursor, %s %s: COUNT answers the constant %s, not the number of records of the snapshot", run.name, cur12World(w), v))
				return
			}
			values[v.String()] = true
		})
		total += n
		if err != nil {
			add(run.name + ": " + err.Error())
		}
	}
	if len(bad) == 0 && len(values) != 1 {
		add("COUNT of an open cursor is not one value of the snapshot in every state: " + strings.Join(keysOf(values), " / "))
	}
	return bad, total
}
