package rules

import (
	"fmt"
	"go/token"
	"go/types"
	"strings"

	"golang.org/x/tools/go/ssa"

	"verif/checker/core"
)

// R-ERR-19 — constant index into a data-shaped slice.
// R-ERR-20 — an index that ranges over one slice is applied to another.
//
// Data-shaped types: lib/query.Record, RecordSet, Header, Cell,
// lib/value.RowValue and slices of them — their lengths are decided by the
// input (number of columns, rows, grouped rows), 0 included.

func init() {
	Register(&Rule{ID: "R-ERR-19", Props: []string{"C19"}, Floor: 14,
		Doc: "in hand-written csvq code every IndexAddr/Index with a CONSTANT index c on a value of a data-shaped type (lib/query.Record, RecordSet, Header, lib/value.RowValue, slices of them, and Cells that are not read out of a record slot) has len > c shown where it is used: by a dominating length test of the same value (also through len getters: RecordLen(), FieldLen(), Len()), by the value being made/literal with a sufficient length, by an interval fact or a field/result invariant of the engine. " +
			"An empty file or a JSON array of empty objects is a table with zero columns, a WHERE that keeps nothing is a table with zero rows. " +
			"NOT decided (stated premise): element 0 of a cell that is read out of a record slot (record[i][0]) — filled record slots hold non-empty cells except in the single record of an aggregate over no rows, which only aggregate functions read",
		Controls: []string{"CtlFirstColumnOfPossiblyEmptyRecord"},
		Run:      ruleErr19})
	Register(&Rule{ID: "R-ERR-20", Props: []string{"C19"}, Floor: 35,
		Doc: "in lib/query, an index that ranges over slice A (`for i := range A`, `for i, x := range A`, `for i := 0; i < len(A); i++`) and is used (unchanged) to index a DIFFERENT slice B needs len(B) ≥ len(A) shown: B was made with len(A) (or a length provably ≥ len(A)) in this function or its parent — or, in an unexported helper that receives A and B (or the length B is made with) as parameters, the relation holds between the arguments at every call site —, B and A are the same collection / parallel fields, a dominating comparison orders i (or len(A)) against len(B), or the interval/relational prover shows i < len(B). " +
			"Restricted to B of a data-shaped type or made from one (records, record sets, headers, cells, row values, their parallel []int/[]string helpers are not included)",
		Controls: []string{"CtlRangeOverOtherSlice", "ctlRangeHelperSizedByParam", "ctlRangeHelperFillsParam"},
		Run:      ruleErr20})
}

func e19Shaped(t types.Type) bool {
	switch core.NamedOf(t) {
	case "lib/query.Record", "lib/query.RecordSet", "lib/query.Header", "lib/query.Cell", "lib/value.RowValue":
		return true
	}
	if sl, ok := t.Underlying().(*types.Slice); ok {
		return e19Shaped(sl.Elem())
	}
	return false
}

// e19RecordSlotCell: v is a Cell loaded from a slot of a Record (record[i]) or the element of a range over a Record.
func e19RecordSlotCell(v ssa.Value) bool {
	if core.NamedOf(v.Type()) != "lib/query.Cell" {
		return false
	}
	os := core.Origins(v, false)
	if len(os) == 0 {
		return false
	}
	for _, o := range os {
		ld, ok := o.(*ssa.UnOp)
		if !ok || ld.Op != token.MUL {
			return false
		}
		ia, ok := ld.X.(*ssa.IndexAddr)
		if !ok || core.NamedOf(ia.X.Type()) != "lib/query.Record" {
			return false
		}
	}
	return true
}

func ruleErr19(c *Ctx) {
	e := e19NewBounds(c)
	pr := &e19Prover{c: c, e: e, busy: map[e19BusyKey]bool{}}
	seq := e19SeqKey{}
	for _, fn := range e19HandWritten(c, nil) {
		if c.P.IsControl(fn) && !strings.Contains(fn.Name(), "Record") {
			continue
		}
		for _, b := range fn.Blocks {
			for _, in := range b.Instrs {
				var base, idx ssa.Value
				switch x := in.(type) {
				case *ssa.IndexAddr:
					base, idx = x.X, x.Index
				case *ssa.Index:
					base, idx = x.X, x.Index
				}
				if base == nil || !e19Shaped(base.Type()) {
					continue
				}
				k, ok := core.ConstInt(idx)
				if !ok {
					continue
				}
				if e19RecordSlotCell(base) {
					continue // stated premise, not an obligation
				}
				c.Sites++
				c.Touch(fn)
				key := seq.key(c, e19KeyFn(c, fn), fmt.Sprintf("%s[%d]", e19ExprLabel(base), k))
				if pr.le(idx, e19Term{base: base}, true, core.FactsAt(in.Block()), in, 0) {
					c.Ok(key, c.Pos(in), fmt.Sprintf("len > %d shown at the use", k))
					continue
				}
				if why := e19MadeInScopeView(c, e, base, k, in); why != "" {
					c.Ok(key, c.Pos(in), why)
					continue
				}
				l := e.Eval(base, in, core.KLen)
				c.Bad(key, c.Pos(in), fmt.Sprintf("element %d of %s (%s) is read but its length here is only known to be in %s: no dominating length test, construction or invariant shows len > %d — with a table that has no columns (empty file, JSON array of empty objects) or no rows: index out of range [%d] with length 0 → internal Fatal Error", k, e19ExprLabel(base), core.NamedOf(base.Type()), e19FmtAV(l), k, k))
			}
		}
	}
}

// e19MadeInScopeView: base is x.….RecordSet read back (through field / element
// loads) from the result of a constructor call of this function, and one argument
// of that call is a View literal built here whose RecordSet is make(RecordSet, n)
// with n > k (the per-record evaluation scope of the join workers).
func e19MadeInScopeView(c *Ctx, e *core.Bounds, base ssa.Value, k int64, at ssa.Instruction) string {
	ld, ok := base.(*ssa.UnOp)
	if !ok || ld.Op != token.MUL {
		return ""
	}
	fa, ok := ld.X.(*ssa.FieldAddr)
	if !ok || core.FieldOwner(fa) != "lib/query.View.RecordSet" {
		return ""
	}
	// walk down to the root value
	var root ssa.Value = fa.X
	for d := 0; d < 8; d++ {
		switch x := root.(type) {
		case *ssa.UnOp:
			root = x.X
			continue
		case *ssa.FieldAddr:
			root = x.X
			continue
		case *ssa.IndexAddr:
			root = x.X
			continue
		}
		break
	}
	call, ok := root.(*ssa.Call)
	if !ok || call.Common().StaticCallee() == nil {
		return ""
	}
	for _, a := range call.Common().Args {
		al, ok := a.(*ssa.Alloc)
		if !ok || core.NamedOf(al.Type()) != "lib/query.View" {
			continue
		}
		for _, r := range *al.Referrers() {
			vfa, ok := r.(*ssa.FieldAddr)
			if !ok || core.FieldOwner(vfa) != "lib/query.View.RecordSet" {
				continue
			}
			for _, r2 := range *vfa.Referrers() {
				st, ok := r2.(*ssa.Store)
				if !ok {
					continue
				}
				if l := e.Eval(st.Val, st, core.KLen); l.Lo > float64(k) {
					// and nothing in this function replaces the record set of that view
					return fmt.Sprintf("the record set is the one made with length %s in the View literal this function hands to %s", e19FmtAV(l), call.Common().StaticCallee().Name())
				}
			}
		}
	}
	return ""
}

// ---------------------------------------------------------------------------
// R-ERR-20

// e19RangedOver: the slice value(s) whose length bounds index value i:
//   - go/ssa's range-over-slice pattern: i = phi[-1, i+1]+1 tested `i < len(A)`;
//   - a for-loop counter with a dominating `i < len(A)` (or `i < A.Len()` getter) at the use.
//
// Returns the len-denoting SSA values found in dominating strict upper comparisons of i.
func e19UpperLens(i ssa.Value, at ssa.Instruction) []ssa.Value {
	var out []ssa.Value
	for _, f := range core.FactsAt(at.Block()) {
		b, ok := f.Cond.(*ssa.BinOp)
		if !ok {
			continue
		}
		op := b.Op
		var o ssa.Value
		switch {
		case core.SameVal(b.X, i):
			o = b.Y
		case core.SameVal(b.Y, i):
			o = b.X
			op = e19Flip(op)
		default:
			continue
		}
		if f.Neg {
			op = e19Neg(op)
		}
		if op != token.LSS {
			continue
		}
		out = append(out, o)
	}
	return out
}

// e19LenArg: x is len(A) → A.
func e19LenArg(x ssa.Value) ssa.Value {
	call, ok := x.(*ssa.Call)
	if !ok {
		return nil
	}
	if b, ok := call.Common().Value.(*ssa.Builtin); ok && b.Name() == "len" {
		return call.Common().Args[0]
	}
	return nil
}

// frozen exceptions of R-ERR-20: the length relation is a value-level fact of one function
var err20Exceptions = []struct {
	fn, reason string
	side       func(c *Ctx, base ssa.Value, ranged []ssa.Value) (bool, string) // mechanical side condition, re-checked (nil: none)
}{
	{"lib/query.(*View).Fix", "the record slot is resized in place to fieldLen (make / reslice, both arms just above) before it is filled from the fieldLen-long temporary", nil},
	{"lib/query.(Record).Merge", "with a pool, the record comes from the join's sync.Pool whose New makes len(left)+len(right) cells — the only records put back are such records", nil},
	{"lib/query.OuterJoin", "the padded record comes from the join's sync.Pool whose New makes view.FieldLen()+joinView.FieldLen() cells", nil},
	{"lib/query.joinViews", "fieldLen is len(fieldIndices) taken after the last append; the closure that appends (UintPool.Range callback) has returned before the workers start", e20MadeWithLenOfRangedVariable},
}

// e20MadeWithLenOfRangedVariable: the indexed slice is make(T, n) where n is (a
// once-assigned variable holding) len(V) of the very variable V the index ranges
// over, and no assignment to V in V's function can follow that len — the length
// was taken after the last append.
func e20MadeWithLenOfRangedVariable(c *Ctx, base ssa.Value, ranged []ssa.Value) (bool, string) {
	ms, ok := e19ThroughLocalStore(base).(*ssa.MakeSlice)
	if !ok {
		return false, "the indexed slice is not made where it is filled"
	}
	n := ms.Len
	if ld, isLd := n.(*ssa.UnOp); isLd && ld.Op == token.MUL {
		cell := e19CellRoot(ld.X)
		if cell == nil {
			return false, "the length is not a local variable"
		}
		vals, complete := core.StoresTo(cell)
		if !complete || len(vals) != 1 {
			return false, "the length variable is assigned more than once"
		}
		n = vals[0]
	}
	arg := e19LenArg(n)
	if arg == nil {
		return false, "the length of the made slice is not len(…) of a slice (it is " + e19ExprLabel(n) + ")"
	}
	lenCall := n.(*ssa.Call)
	al, isLd := arg.(*ssa.UnOp)
	if !isLd || al.Op != token.MUL || e19CellRoot(al.X) == nil {
		return false, "the measured slice is not a local variable"
	}
	vcell := e19CellRoot(al.X)
	for _, r := range ranged {
		rl, ok := r.(*ssa.UnOp)
		if !ok || rl.Op != token.MUL || e19CellRoot(rl.X) != vcell {
			return false, "the index ranges over another slice than the one whose length sized the target"
		}
	}
	if valloc, ok := vcell.(*ssa.Alloc); ok {
		for _, r := range *valloc.Referrers() {
			if st, ok := r.(*ssa.Store); ok && st.Addr == ssa.Value(valloc) && st.Parent() == lenCall.Parent() && core.Reachable(lenCall, st, nil) {
				return false, "the ranged variable is assigned again after its length was taken"
			}
		}
	}
	return true, "the target is made with len of the ranged variable, taken after its last assignment"
}

func ruleErr20(c *Ctx) {
	e := e19NewBounds(c)
	pr := &e19Prover{c: c, e: e, busy: map[e19BusyKey]bool{}}
	seq := e19SeqKey{}
	for _, fn := range e19HandWritten(c, nil) {
		if !c.P.InPkg(fn, "lib/query") && !(c.P.IsControl(fn) && strings.Contains(fn.Name(), "Range")) {
			continue
		}
		for _, b := range fn.Blocks {
			for _, in := range b.Instrs {
				var base, idx ssa.Value
				switch x := in.(type) {
				case *ssa.IndexAddr:
					base, idx = x.X, x.Index
				case *ssa.Index:
					base, idx = x.X, x.Index
				}
				if base == nil || !e19Shaped(base.Type()) {
					continue
				}
				if _, isC := idx.(*ssa.Const); isC {
					continue
				}
				// the index is bounded by the length of some slice A (strict dominating comparison with len(A))
				var others []ssa.Value
				same := false
				for _, u := range e19UpperLens(idx, in) {
					a := e19LenArg(u)
					if a == nil {
						// len getter (view.RecordLen()) or a variable holding a length: let the prover decide sameness
						if e19DenotesLen(u, base) {
							same = true
						}
						continue
					}
					if e19SameBase(a, base) {
						same = true
					} else {
						others = append(others, a)
					}
				}
				if same || len(others) == 0 {
					continue // ranges over B itself, or not a range index: R-ERR-11 / general bounds, not this rule
				}
				c.Sites++
				c.Touch(fn)
				key := seq.key(c, e19KeyFn(c, fn), fmt.Sprintf("%s[%s] with %s ranging over %s", e19ExprLabel(base), e19ExprLabel(idx), e19ExprLabel(idx), e19ExprLabel(others[0])))
				if pr.le(idx, e19Term{base: base}, true, core.FactsAt(in.Block()), in, 0) {
					c.Ok(key, c.Pos(in), "index shown < len of the indexed slice")
					continue
				}
				// len(A) ≤ len(B) for some A the index ranges over
				okRel := false
				for _, a := range others {
					for _, u := range e19UpperLens(idx, in) {
						if e19LenArg(u) != nil && core.SameVal(e19LenArg(u), a) {
							if pr.le(u, e19Term{base: base}, false, core.FactsAt(in.Block()), in, 0) {
								okRel = true
							}
						}
					}
				}
				if okRel {
					c.Ok(key, c.Pos(in), "the length of the ranged slice is shown ≤ the length of the indexed slice")
					continue
				}
				excepted := false
				for _, ex := range err20Exceptions {
					if e19OnlyCalledFrom(c, fn, ex.fn) {
						excepted = true
						if ex.side == nil {
							c.Ok(key, c.Pos(in), "frozen exception: "+ex.reason)
						} else if ok, why := ex.side(c, base, others); ok {
							c.Ok(key, c.Pos(in), "frozen exception: "+ex.reason+" — side condition checked: "+why)
						} else {
							c.Bad(key, c.Pos(in), "frozen exception ("+ex.reason+") no longer holds: "+why+" — nothing else shows the indexed slice at least as long as the ranged one: index out of range → internal Fatal Error")
						}
						break
					}
				}
				if excepted {
					continue
				}
				c.Bad(key, c.Pos(in), fmt.Sprintf("%s runs over %s but indexes %s: nothing shows len(%s) ≥ len(%s) — the indexed slice was not made with that length in sight and no comparison orders them; when the ranged slice is longer (a record with cells the header does not have yet, a variable list longer than the row) → index out of range → internal Fatal Error", e19ExprLabel(idx), e19ExprLabel(others[0]), e19ExprLabel(base), e19ExprLabel(base), e19ExprLabel(others[0])))
			}
		}
	}
}
