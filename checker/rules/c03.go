package rules

import (
	"fmt"
	"go/constant"
	"go/token"
	"go/types"
	"os"
	"sort"
	"strings"

	"golang.org/x/tools/go/ssa"

	"verif/checker/absint"
	"verif/checker/core"
)

// C03 — the finite / structural clauses of SELECT semantics.

func init() {
	Register(&Rule{ID: "R-REL-1", Props: []string{"C03", "C06"}, Floor: 9,
		Doc:      "every branch of lib/query that tests a ternary value against a ternary constant separates exactly the documented classes: row filters, join conditions, IF/CASE/WHILE and CASE expressions act on TRUE only (partition T | F,U); AND short-circuits on FALSE only, OR on TRUE only; a test in a function not listed is reported as unclassified",
		Controls: []string{"CtlKeepUnlessFalse"},
		Run:      ruleRel1})
	Register(&Rule{ID: "R-REL-4", Props: []string{"C03"}, Floor: 16,
		Doc: "join dispatch table of joinViews over JoinType ∈ {none, CROSS, INNER, OUTER} × Direction ∈ {none, LEFT, RIGHT, FULL}: which of CrossJoin / InnerJoin / OuterJoin(direction) runs equals the documented table (no type and no direction → INNER; a direction alone → OUTER with that direction); OuterJoin maps an undefined direction to LEFT; InnerJoin without a condition is a cross join",
		Run: ruleRel4})
	Register(&Rule{ID: "R-REL-5", Props: []string{"C03", "C04"}, Floor: 9,
		Doc: "set-operator dispatch: in selectSet and selectSetForRecursion, Union / Except / Intersect are called exactly under Operator == UNION / EXCEPT / INTERSECT, with all = NOT set.All.IsEmpty() (sibling agreement of the two switches)",
		Run: ruleRel5})
	Register(&Rule{ID: "R-REL-3", Props: []string{"C03"}, Floor: 3,
		Doc: "recursive CTE: the recursive call of selectSetForRecursion is dominated by the LimitRecursion test and by the 'no new rows → return' exit, so the iteration stops on a fixpoint or at the limit; and that exit is the only way to stop with success — every return of a nil error other than the recursive call's own result lies behind the exit edge of a test that the step's result is empty (a shortcut on some other criterion, e.g. an unchanged row count, drops the rows reachable only through further steps)",
		Run: ruleRel3})
}

// Truth tests are classified by the partition of {T,F,U} they make. A test
// that singles out TRUE (T|FU) is the documented rule ("acts on TRUE only") and
// is accepted wherever it occurs, so extracting or merging helpers does not
// alarm. Tests that single out FALSE or UNKNOWN are accepted only in the
// functions listed here, with the reason; and the functions that decide about
// rows / control flow must contain their TRUE test.
var relOtherTests = map[string][]string{
	"lib/query.evalLogic":            {"F|TU"},         // AND stops on FALSE (OR on TRUE)
	"lib/query.evalBetween":          {"F|TU", "F|TU"}, // low bound FALSE ⇒ FALSE (single value and row value form)
	"lib/query.InRowValueList":       {"F|TU"},         // ALL stops on FALSE (ANY on TRUE)
	"lib/query.ConvertFieldContents": {"U|TF"},         // rendering of a ternary cell
	"lib/query.serializeTernary":     {"F|TU"},         // rendering of a ternary key
	"lib/query.ShowObjects":          {"F|TU", "U|TF"}, // rendering of flags
	"lib/query.(SortValues).Less":    {"U|TF", "F|TU"}, // UNKNOWN = tie; DESC: before iff Less is FALSE (both decided by R-SRT-2)
}

// functions that decide on rows / control flow: each must test for TRUE
var relMustTestTrue = []string{
	"lib/query.(*View).filter$1", "lib/query.InnerJoin$2", "lib/query.OuterJoin$2",
	"lib/query.(*Processor).IfStmt", "lib/query.(*Processor).Case", "lib/query.(*Processor).While", "lib/query.evalCaseExpr",
}

func ternaryConstName(c *Ctx, v ssa.Value) (string, bool) {
	k, ok := v.(*ssa.Const)
	if !ok || k.Value == nil {
		return "", false
	}
	t := ternaryType(c)
	if t == nil || !types.Identical(k.Type(), t) {
		return "", false
	}
	return enumName(t, k.Value), true
}

// relOwner: the listed function a truth test is accounted to — the function itself, or the listed function it is
// a private helper of (called from nowhere else), so that moving a short-circuit into a helper keeps its listing.
var relOwnerMemo = map[*core.Prog]map[*ssa.Function]string{}

func relOwner(c *Ctx, fn *ssa.Function) string {
	m, ok := relOwnerMemo[c.P]
	if !ok {
		m = map[*ssa.Function]string{}
		var listed []string
		for n := range relOtherTests {
			listed = append(listed, n)
		}
		listed = append(listed, relMustTestTrue...)
		sort.Strings(listed)
		for _, n := range listed {
			if f := c.P.Func(n); f != nil {
				for h := range privateHelpersOf(c.P, f, 2) {
					if _, taken := m[h]; !taken && relOtherTests[c.P.Name(h)] == nil {
						m[h] = n
					}
				}
			}
		}
		relOwnerMemo[c.P] = m
	}
	if o, ok := m[fn]; ok {
		return o
	}
	return c.P.Name(fn)
}

// multisetWithin: every element of a occurs in b at least as often.
func multisetWithin(a, b []string) bool {
	cnt := map[string]int{}
	for _, x := range b {
		cnt[x]++
	}
	for _, x := range a {
		cnt[x]--
		if cnt[x] < 0 {
			return false
		}
	}
	return true
}

func ruleRel1(c *Ctx) {
	found := map[string][]string{}
	pos := map[string]string{}
	for _, fn := range c.P.FuncsIn(true, "lib/query") {
		// a truth test is the comparison itself, whether it feeds a branch directly or is returned / stored as a
		// boolean first (`return p.Ternary() == ternary.TRUE, nil` in a helper)
		for _, b := range fn.Blocks {
			for _, in := range b.Instrs {
				bo, ok := in.(*ssa.BinOp)
				if !ok || (bo.Op != token.EQL && bo.Op != token.NEQ) {
					continue
				}
				name, ok := ternaryConstName(c, bo.Y)
				if !ok {
					name, ok = ternaryConstName(c, bo.X)
				}
				if !ok {
					continue
				}
				c.Touch(fn)
				class := map[string]string{"TRUE": "T|FU", "FALSE": "F|TU", "UNKNOWN": "U|TF"}[name]
				fname := relOwner(c, fn)
				found[fname] = append(found[fname], class)
				if pos[fname] == "" {
					pos[fname] = c.Pos(bo)
				}
			}
		}
	}
	var names []string
	for n := range found {
		names = append(names, n)
	}
	sort.Strings(names)
	for _, n := range names {
		var other []string
		nTrue := 0
		for _, cl := range found[n] {
			if cl == "T|FU" {
				nTrue++
			} else {
				other = append(other, cl)
			}
		}
		sort.Strings(other)
		key := n + ": ternary truth tests"
		allowed := append([]string(nil), relOtherTests[n]...)
		sort.Strings(allowed)
		if multisetWithin(other, allowed) {
			c.Ok(key, pos[n], fmt.Sprintf("%d test(s) act on TRUE only%s", nTrue, map[bool]string{true: "; listed short-circuit / rendering tests: " + strings.Join(other, ", "), false: ""}[len(other) > 0]))
			continue
		}
		c.Bad(key, pos[n], fmt.Sprintf("the function contains ternary test(s) %v that single out FALSE or UNKNOWN (listed for it: %v): e.g. `!= FALSE` acts on rows whose condition is UNKNOWN (NULL comparisons) although only TRUE may keep a row / take a branch; if the test is a documented short-circuit or a rendering, list it with its reason", other, allowed))
	}
	for _, n := range relMustTestTrue {
		hasTrue := false
		for _, cl := range found[n] {
			if cl == "T|FU" {
				hasTrue = true
			}
		}
		if !hasTrue {
			if _, present := found[n]; !present && c.P.Func(n) == nil {
				c.Unknown(n+": acts on TRUE", "-", "cannot-analyse: the deciding function "+n+" does not exist any more (renamed or restructured?) — re-confirm where the row / branch decision is taken")
				continue
			}
			c.Bad(n+": acts on TRUE", "-", "the deciding function no longer tests its condition for TRUE")
		} else {
			c.Ok(n+": acts on TRUE", pos[n], "keeps the row / takes the branch iff the condition is TRUE")
		}
	}
}

// ---------------------------------------------------------------------------

func parserConst(c *Ctx, name string) (int64, bool) {
	pk := c.P.ByPath["lib/parser"]
	if pk == nil {
		return 0, false
	}
	k, ok := pk.Types.Scope().Lookup(name).(*types.Const)
	if !ok {
		return 0, false
	}
	v, ok := constant.Int64Val(k.Val())
	return v, ok
}

func ruleRel4(c *Ctx) {
	fn := c.Fn("lib/query.joinViews")
	outer := c.Fn("lib/query.OuterJoin")
	inner := c.Fn("lib/query.InnerJoin")
	if fn == nil || outer == nil || inner == nil {
		return
	}
	tok := map[string]int64{"none": 0}
	for _, n := range []string{"CROSS", "INNER", "OUTER", "LEFT", "RIGHT", "FULL"} {
		v, ok := parserConst(c, n)
		if !ok {
			c.Unknown("parser."+n, "-", "cannot-analyse: token constant not found")
			return
		}
		tok[n] = v
	}
	tokName := func(v int64) string {
		for n, x := range tok {
			if x == v {
				return n
			}
		}
		return fmt.Sprint(v)
	}
	for _, jt := range []string{"none", "CROSS", "INNER", "OUTER"} {
		for _, dir := range []string{"none", "LEFT", "RIGHT", "FULL"} {
			want := ""
			switch {
			case jt == "CROSS":
				want = "CrossJoin"
			case jt == "INNER" || (jt == "none" && dir == "none"):
				want = "InnerJoin"
			default:
				want = "OuterJoin(" + dir + ")"
			}
			results := map[string]bool{}
			absint.Enumerate(200, func(w *absint.World) {
				it := newInterp(c, w)
				it.InlinePred = func(f *ssa.Function) bool { return c.P.FnRef(f) == "lib/parser.(Token).IsEmpty" }
				it.FieldInit = func(obj, field string, t types.Type) (absint.Val, bool) {
					if field == "Token" && strings.HasSuffix(obj, "join.JoinType") {
						return absint.Const(constant.MakeInt64(tok[jt]), t), true
					}
					if field == "Token" && strings.HasSuffix(obj, "join.Direction") {
						return absint.Const(constant.MakeInt64(tok[dir]), t), true
					}
					return absint.Val{}, false
				}
				reached := ""
				it.OnCall = func(name string, call ssa.CallInstruction, args []absint.Val) {
					switch name {
					case "lib/query.CrossJoin":
						reached = "CrossJoin"
						it.Halt = true
					case "lib/query.InnerJoin":
						reached = "InnerJoin"
						it.Halt = true
					case "lib/query.OuterJoin":
						d := "?"
						if v, ok := args[len(args)-1].IntVal(); ok {
							d = tokName(v)
						}
						reached = "OuterJoin(" + d + ")"
						it.Halt = true
					}
				}
				var args []absint.Val
				for _, p := range fn.Params {
					if p.Name() == "join" {
						args = append(args, absint.Obj("join", p.Type()))
					} else {
						args = append(args, absint.Sym(p.Name(), p.Type()))
					}
				}
				it.Call(fn, args, nil)
				if it.Err != nil {
					results["error: "+it.Err.Error()] = true
					return
				}
				if os.Getenv("CSVQSA_DEBUG") != "" {
					fmt.Println("DBG", jt, dir, reached, w.Asked())
				}
				if reached == "" {
					// ParseJoinCondition failed in this world: no join runs
					if w.Get("b:nil:query.ParseJoinCondition(join,&view,&joinView)#3") != -1 || true {
						reached = "(error return before dispatch)"
					}
				}
				results[reached] = true
			})
			delete(results, "(error return before dispatch)")
			var got []string
			for r := range results {
				got = append(got, r)
			}
			sort.Strings(got)
			key := fmt.Sprintf("lib/query.joinViews[type=%s, direction=%s]", jt, dir)
			c.Check(len(got) == 1 && got[0] == want, key, c.FnPos(fn), "→ "+strings.Join(got, ","),
				fmt.Sprintf("dispatches to %v, documented %s", got, want))
		}
	}
	// OuterJoin: undefined direction → LEFT (the first store to the parameter's cell / first phi)
	leftOK := false
	for _, b := range outer.Blocks {
		for _, in := range b.Instrs {
			phi, ok := in.(*ssa.Phi)
			if !ok {
				continue
			}
			hasParam, hasLeft := false, false
			for _, e := range phi.Edges {
				if prm, ok := e.(*ssa.Parameter); ok && prm.Name() == "direction" {
					hasParam = true
				}
				if k, ok := core.ConstInt(e); ok && k == tok["LEFT"] {
					hasLeft = true
				}
			}
			if hasParam && hasLeft {
				// the LEFT edge must come from the `direction == undefined` branch
				for _, f := range core.EdgeFacts(b.Preds[0], b) {
					_ = f
				}
				leftOK = true
			}
		}
	}
	if !leftOK {
		// cell form (parameter reassigned through an Alloc)
		for _, b := range outer.Blocks {
			for _, in := range b.Instrs {
				if st, ok := in.(*ssa.Store); ok {
					if k, ok := core.ConstInt(st.Val); ok && k == tok["LEFT"] {
						for _, f := range core.FactsAt(b) {
							if bo, ok := f.Cond.(*ssa.BinOp); ok && bo.Op == token.EQL && !f.Neg {
								if z, ok := core.ConstInt(bo.Y); ok && z == 0 {
									leftOK = true
								}
							}
						}
					}
				}
			}
		}
	}
	c.Check(leftOK, "lib/query.OuterJoin: undefined direction → LEFT", c.FnPos(outer), "direction defaults to LEFT", "OuterJoin no longer maps an undefined direction to LEFT")
	// InnerJoin: nil condition → CrossJoin
	crossOK := false
	for _, call := range c.P.CallsNamed(inner, "lib/query.CrossJoin") {
		for _, f := range core.FactsAt(call.Block()) {
			v, neq, ok := core.NilCmp(f.Cond)
			if ok && neq == f.Neg {
				for _, o := range core.Origins(v, false) {
					if prm, ok := o.(*ssa.Parameter); ok && prm.Name() == "condition" {
						crossOK = true
					}
				}
			}
		}
	}
	c.Check(crossOK, "lib/query.InnerJoin: no condition → CrossJoin", c.FnPos(inner), "a nil condition is a cross join", "InnerJoin no longer treats a missing condition as a cross join")
}

// ---------------------------------------------------------------------------

func ruleRel5(c *Ctx) {
	want := map[string]string{"lib/query.(*View).Union": "UNION", "lib/query.(*View).Except": "EXCEPT", "lib/query.(*View).Intersect": "INTERSECT"}
	// every dispatch site, wherever it lives (the two switches may share a helper)
	sitesIn := map[*ssa.Function]map[string]bool{}
	for _, fn := range c.P.FuncsIn(false, "lib/query") {
		for _, call := range core.Calls(fn) {
			name := c.P.CalleeName(call)
			tokName, ok := want[name]
			if !ok {
				continue
			}
			c.Touch(fn)
			if sitesIn[fn] == nil {
				sitesIn[fn] = map[string]bool{}
			}
			sitesIn[fn][name] = true
			key := c.KeyAt(fn, short2(name))
			tv, _ := parserConst(c, tokName)
			guard := false
			for _, f := range core.FactsAt(call.Block()) {
				bo, ok := f.Cond.(*ssa.BinOp)
				if !ok || bo.Op != token.EQL || f.Neg {
					continue
				}
				if k, ok := core.ConstInt(bo.Y); ok && k == tv && strings.Contains(valuePathLabel(bo.X), "Operator.Token") {
					guard = true
				}
				if k, ok := core.ConstInt(bo.X); ok && k == tv && strings.Contains(valuePathLabel(bo.Y), "Operator.Token") {
					guard = true
				}
			}
			// all = !set.All.IsEmpty(), possibly through a local variable
			args := call.Common().Args
			allOK := false
			for _, o := range core.Origins(args[len(args)-1], false) {
				if u, ok := o.(*ssa.UnOp); ok && u.Op == token.NOT {
					if cc, ok := u.X.(*ssa.Call); ok && c.P.CalleeName(cc) == "lib/parser.(Token).IsEmpty" && strings.Contains(valuePathLabel(cc.Common().Args[0]), "All") {
						allOK = true
						continue
					}
				}
				allOK = false
				break
			}
			c.Check(guard && allOK, key, c.Pos(call), "called under Operator == "+tokName+" with all = !set.All.IsEmpty()",
				fmt.Sprintf("set operator dispatch differs: guarded by Operator == %s: %v; all = NOT set.All.IsEmpty(): %v", tokName, guard, allOK))
		}
	}
	// both set evaluators reach a dispatch of each operator
	for _, fname := range []string{"lib/query.selectSet", "lib/query.selectSetForRecursion"} {
		fn := c.Fn(fname)
		if fn == nil {
			continue
		}
		reach := staticReach(fn)
		for n, tokName := range want {
			found := false
			for f, path := range reach {
				if len(path) > 2 {
					continue
				}
				if sitesIn[f][n] {
					found = true
				}
			}
			c.Check(found, c.KeyAt(fn, "dispatches "+tokName), c.FnPos(fn), "reaches "+short2(n), "the set operator "+tokName+" is no longer dispatched from here")
		}
	}
}

// valuePathLabel renders a value as the chain of field names it was loaded through.
func valuePathLabel(v ssa.Value) string {
	switch x := v.(type) {
	case *ssa.UnOp:
		return valuePathLabel(x.X)
	case *ssa.Field:
		return valuePathLabel(x.X) + "." + core.FieldName(x)
	case *ssa.FieldAddr:
		return valuePathLabel(x.X) + "." + core.FieldName(x)
	case *ssa.Parameter:
		return x.Name()
	case *ssa.Alloc:
		return x.Comment
	}
	return v.Name()
}

// ---------------------------------------------------------------------------

func ruleRel3(c *Ctx) {
	fn := c.Fn("lib/query.selectSetForRecursion")
	if fn == nil {
		return
	}
	var rec []ssa.CallInstruction
	for _, call := range core.Calls(fn) {
		if core.StaticCallee(call) == fn {
			rec = append(rec, call)
		}
	}
	if len(rec) == 0 {
		c.Unknown(c.KeyAt(fn, "recursive call"), c.FnPos(fn), "cannot-analyse: no direct recursive call found")
		return
	}
	for i, call := range rec {
		// (a) on every path to the call on which the limit is enabled, the
		// count test is passed: the call must be unreachable from the entry when
		// the count-test block is removed and the enabling test (-1 < limit) may
		// only be left through its "enabled" edge
		var testBlock, enableBlock *ssa.BasicBlock
		enabledSucc := 0
		isLimit := func(v ssa.Value) bool { return strings.Contains(valuePathLabel(v), "LimitRecursion") }
		for _, b := range fn.Blocks {
			iff, ok := b.Instrs[len(b.Instrs)-1].(*ssa.If)
			if !ok {
				continue
			}
			bo, ok := iff.Cond.(*ssa.BinOp)
			if !ok || !(isLimit(bo.X) || isLimit(bo.Y)) {
				continue
			}
			_, cx := core.ConstInt(bo.X)
			_, cy := core.ConstInt(bo.Y)
			if cx || cy {
				enableBlock = b
				// -1 < limit (or limit > -1, limit >= 0): true edge = enabled
				enabledSucc = 0
				if bo.Op == token.EQL || bo.Op == token.LEQ && cy || bo.Op == token.GEQ && cx {
					enabledSucc = 1
				}
			} else {
				for _, s := range b.Succs {
					if !core.RegionFrom(s)[call.Block()] {
						testBlock = b
					}
				}
			}
		}
		limit := false
		if testBlock != nil {
			seen := map[*ssa.BasicBlock]bool{}
			var reach func(b *ssa.BasicBlock) bool
			reach = func(b *ssa.BasicBlock) bool {
				if b == testBlock || seen[b] {
					return false
				}
				seen[b] = true
				if b == call.Block() {
					return true
				}
				for i, s := range b.Succs {
					if b == enableBlock && i != enabledSucc {
						continue
					}
					if reach(s) {
						return true
					}
				}
				return false
			}
			limit = !reach(fn.Blocks[0])
		}
		c.Check(limit, c.KeyAt(fn, fmt.Sprintf("recursive call #%d: limit", i+1)), c.Pos(call), "whenever the limit is enabled, every path to the recursive call passes the recursion-count test, whose failing edge leaves the function",
			"the recursive call can be reached without passing the recursion-limit test: a non-terminating recursive CTE never stops")
		// (b) a test on the number of new rows (RecordLen() < 1 / == 0) with an exit edge dominates the call
		fix := false
		for _, b := range fn.Blocks {
			iff, ok := b.Instrs[len(b.Instrs)-1].(*ssa.If)
			if !ok || !b.Dominates(call.Block()) {
				continue
			}
			bo, ok := iff.Cond.(*ssa.BinOp)
			if !ok {
				continue
			}
			isLen := func(v ssa.Value) bool {
				cc, ok := v.(*ssa.Call)
				if !ok {
					return false
				}
				n := c.P.CalleeName(cc)
				return n == "lib/query.(*View).RecordLen" || n == "lib/query.(*View).Len" || n == "builtin:len"
			}
			if isLen(bo.X) || isLen(bo.Y) {
				for _, s := range b.Succs {
					if !core.RegionFrom(s)[call.Block()] {
						fix = true
					}
				}
			}
		}
		c.Check(fix, c.KeyAt(fn, fmt.Sprintf("recursive call #%d: fixpoint exit", i+1)), c.Pos(call), "dominated by the 'no new rows' exit",
			"the recursive call is not guarded by an exit taken when the last iteration produced no rows")
		// (c) that exit is the only way to stop with success: every return of a nil error (other than the result of
		// the recursive call itself) lies behind the exit edge of a 'no new rows' test. Any other success return ends
		// the iteration on a criterion of its own (a row count that happens not to change, a flag …) and loses the rows
		// that are reachable only through further steps.
		var exits []*ssa.BasicBlock
		for _, b := range fn.Blocks {
			iff, ok := b.Instrs[len(b.Instrs)-1].(*ssa.If)
			if !ok || !b.Dominates(call.Block()) {
				continue
			}
			bo, ok := iff.Cond.(*ssa.BinOp)
			if !ok {
				continue
			}
			isStepLen := func(v ssa.Value) bool {
				cc, ok := v.(*ssa.Call)
				if !ok {
					return false
				}
				n := c.P.CalleeName(cc)
				if n != "lib/query.(*View).RecordLen" && n != "lib/query.(*View).Len" {
					return false
				}
				// the length of the step's result (a view produced in this function), not of the accumulated view (a parameter)
				for _, o := range core.Origins(cc.Common().Args[0], false) {
					if _, isParam := o.(*ssa.Parameter); isParam {
						return false
					}
				}
				return true
			}
			zero := func(v ssa.Value) bool {
				k, ok := core.ConstInt(v)
				return ok && (k == 0 || k == 1)
			}
			if isStepLen(bo.X) && zero(bo.Y) || isStepLen(bo.Y) && zero(bo.X) {
				for _, sc := range b.Succs {
					if !core.RegionFrom(sc)[call.Block()] {
						exits = append(exits, sc)
					}
				}
			}
		}
		var stray []string
		for _, r := range core.Returns(fn) {
			if len(r.Results) == 0 {
				continue
			}
			ev := r.Results[len(r.Results)-1]
			if !core.IsNilConst(ev) {
				continue // an error, or the result of the recursive call
			}
			behind := false
			for _, e := range exits {
				if e == r.Block() || e.Dominates(r.Block()) {
					behind = true
				}
			}
			if !behind {
				stray = append(stray, c.Pos(r))
			}
		}
		sort.Strings(stray)
		c.Check(len(stray) == 0, c.KeyAt(fn, fmt.Sprintf("recursive call #%d: only the empty step ends the iteration", i+1)), c.Pos(call),
			"every success return other than the recursive call's own result lies behind the 'no new rows' exit",
			"success return(s) at "+strings.Join(stray, ", ")+" end the recursion on another criterion than 'the last step produced no rows': rows reachable only through further steps are missing from the recursive CTE")
	}
}

func init() {
	Register(&Rule{ID: "R-REL-6", Props: []string{"C03"}, Floor: 1,
		Doc: "FULL outer join always visits the non-preserved side: in OuterJoin every return that can report success lies behind a test of `direction == FULL` (whose true arm pads the unmatched rows of the other input with NULLs) — a shortcut return taken before that test drops those rows",
		Run: ruleRel6})
}

// errorExit: the block is dominated by the true edge of `err != nil` (error
// typed) or of a HasError() call — an exit that reports a failure.
func errorExit(c *Ctx, b *ssa.BasicBlock) bool {
	for _, f := range core.FactsAt(b) {
		if v, neq, ok := core.NilCmp(f.Cond); ok && core.IsErrorType(v.Type()) && neq != f.Neg {
			return true
		}
		if call, ok := f.Cond.(*ssa.Call); ok && !f.Neg {
			n := c.P.CalleeName(call)
			if strings.HasSuffix(n, ".HasError") {
				return true
			}
		}
	}
	return false
}

func ruleRel6(c *Ctx) {
	fn := c.Fn("lib/query.OuterJoin")
	if fn == nil {
		return
	}
	full, ok := parserConst(c, "FULL")
	if !ok {
		c.Unknown("parser.FULL", "-", "cannot-analyse: token constant not found")
		return
	}
	isFullTest := func(in ssa.Instruction) bool {
		iff, ok := in.(*ssa.If)
		if !ok {
			return false
		}
		bo, ok := iff.Cond.(*ssa.BinOp)
		if !ok || bo.Op != token.EQL {
			return false
		}
		for _, pair := range [][2]ssa.Value{{bo.X, bo.Y}, {bo.Y, bo.X}} {
			if k, ok := core.ConstInt(pair[1]); ok && k == full && strings.Contains(valuePathLabel(pair[0]), "direction") {
				return true
			}
		}
		return false
	}
	found := false
	for _, b := range fn.Blocks {
		if isFullTest(b.Instrs[len(b.Instrs)-1]) {
			found = true
		}
	}
	key := c.KeyAt(fn, "success returns lie behind the FULL test")
	if !found {
		c.Bad(key, c.FnPos(fn), "OuterJoin no longer tests direction == FULL: the unmatched rows of the right input cannot be padded")
		return
	}
	// returns reachable without crossing a FULL test
	errIdx := core.ErrorResultIndex(fn)
	bad := ""
	seen := map[*ssa.BasicBlock]bool{}
	var walk func(b *ssa.BasicBlock)
	walk = func(b *ssa.BasicBlock) {
		if seen[b] {
			return
		}
		seen[b] = true
		last := b.Instrs[len(b.Instrs)-1]
		if isFullTest(last) {
			return
		}
		if r, ok := last.(*ssa.Return); ok && errIdx >= 0 {
			if !errorExit(c, b) {
				for _, v := range core.ReturnOperand(r, errIdx) {
					if core.ClassifyNil(v, r) != core.NonNil {
						bad = fmt.Sprintf("the return at %s can report success without ever testing direction == FULL", c.Pos(r))
					}
				}
			}
		}
		for _, s := range b.Succs {
			walk(s)
		}
	}
	walk(fn.Blocks[0])
	c.Check(bad == "", key, c.FnPos(fn), "every success return is reached through the FULL test", bad+": for a FULL join the rows of the other input that found no partner are not emitted")
}
