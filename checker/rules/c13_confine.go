package rules

import (
	"fmt"
	"go/token"
	"go/types"
	"strings"

	"golang.org/x/tools/go/ssa"

	"verif/checker/core"
)

// R-PAR-4 — confinement of lock-free mutable helper objects.
//
// Worker goroutines build their own evaluation scope with scope constructors
// (functions returning *ReferenceScope that are called inside a concurrent
// region on the shared scope). A helper object that is mutated without a lock
// while expressions are evaluated (a type with a pointer-receiver method that
// writes its own fields, and no mutex) must be *fresh* in the new scope: copying
// a struct that holds a pointer to such a helper from the shared scope hands the
// same helper to every worker.

func init() {
	Register(&Rule{ID: "R-PAR-4", Props: []string{"C13"}, Floor: 2,
		Doc:      "scope constructors called inside concurrent regions give the new goroutine fresh instances of lock-free mutable helpers: no struct holding a pointer to a lock-free mutable type (a type whose pointer-receiver methods write its fields and that has no mutex, e.g. the field-index cache) is copied from the shared scope into the per-goroutine scope unless that pointer is replaced by a fresh object",
		Controls: []string{"ctlNewWorkerScope"},
		Run:      rulePar4})
}

// lockFreeMutable: named struct types (of the given package path) that have a
// pointer-receiver method storing into the receiver's fields and no mutex field.
func lockFreeMutable(c *Ctx) map[*types.Named]string {
	out := map[*types.Named]string{}
	for _, fn := range c.P.FuncsIn(true, "lib/query") {
		recv := fn.Signature.Recv()
		if recv == nil || fn.Parent() != nil || len(fn.Params) == 0 {
			continue
		}
		ptr, ok := recv.Type().(*types.Pointer)
		if !ok {
			continue
		}
		named, ok := ptr.Elem().(*types.Named)
		if !ok {
			continue
		}
		st, ok := named.Underlying().(*types.Struct)
		if !ok {
			continue
		}
		hasMutex := false
		for i := 0; i < st.NumFields(); i++ {
			if strings.Contains(st.Field(i).Type().String(), "sync.") {
				hasMutex = true
			}
		}
		if hasMutex {
			continue
		}
		self := fn.Params[0]
		for _, b := range fn.Blocks {
			for _, in := range b.Instrs {
				switch x := in.(type) {
				case *ssa.Store:
					if fa, ok := x.Addr.(*ssa.FieldAddr); ok && fa.X == self {
						out[named] = c.P.Name(fn) + " writes " + core.FieldName(fa)
					}
				case *ssa.MapUpdate:
					if u, ok := x.Map.(*ssa.UnOp); ok {
						if fa, ok := u.X.(*ssa.FieldAddr); ok && fa.X == self {
							out[named] = c.P.Name(fn) + " updates map " + core.FieldName(fa)
						}
					}
				}
			}
		}
	}
	return out
}

// mutatedThroughField: "pkg.Type.field" → the mutating method that is invoked on
// a receiver loaded from that field somewhere in lib/query (e.g.
// scope.Records[i].cache.Add(…)): the helper is changed through its holder.
func mutatedThroughField(c *Ctx, lfm map[*types.Named]string) map[string]string {
	mutators := map[*ssa.Function]bool{}
	for _, fn := range c.P.FuncsIn(true, "lib/query") {
		if fn.Signature.Recv() == nil || fn.Parent() != nil || len(fn.Params) == 0 {
			continue
		}
		self := fn.Params[0]
		for _, b := range fn.Blocks {
			for _, in := range b.Instrs {
				switch x := in.(type) {
				case *ssa.Store:
					if fa, ok := x.Addr.(*ssa.FieldAddr); ok && fa.X == self {
						mutators[fn] = true
					}
				case *ssa.MapUpdate:
					if u, ok := x.Map.(*ssa.UnOp); ok {
						if fa, ok := u.X.(*ssa.FieldAddr); ok && fa.X == self {
							mutators[fn] = true
						}
					}
				}
			}
		}
	}
	out := map[string]string{}
	for _, fn := range c.P.FuncsIn(true, "lib/query") {
		for _, call := range core.Calls(fn) {
			callee := call.Common().StaticCallee()
			if callee == nil || !mutators[callee] || len(call.Common().Args) == 0 {
				continue
			}
			recv := call.Common().Args[0]
			u, ok := recv.(*ssa.UnOp)
			if !ok || u.Op != token.MUL {
				continue
			}
			if fa, ok := u.X.(*ssa.FieldAddr); ok {
				if owner := core.FieldOwner(fa); owner != "" {
					out[owner] = c.P.Name(callee)
				}
			}
		}
	}
	return out
}

// helperFields: for struct type E, the pointer fields whose target is a
// lock-free mutable type AND which are used as the receiver of a mutating
// method somewhere (field-sensitive: a shared *View that is only read is fine).
func helperFields(e types.Type, lfm map[*types.Named]string, mtf map[string]string) map[int]string {
	out := map[int]string{}
	st, ok := e.Underlying().(*types.Struct)
	if !ok {
		return out
	}
	owner := core.NamedOf(e)
	for i := 0; i < st.NumFields(); i++ {
		if p, ok := st.Field(i).Type().(*types.Pointer); ok {
			if n, ok := p.Elem().(*types.Named); ok {
				if _, ok := lfm[n]; !ok {
					continue
				}
				if m, ok := mtf[owner+"."+st.Field(i).Name()]; ok {
					out[i] = st.Field(i).Name() + " *" + n.Obj().Name() + " (mutated without a lock through this field by " + m + ")"
				}
			}
		}
	}
	return out
}

func rulePar4(c *Ctx) {
	e := parAnalysis(c.P)
	lfm := lockFreeMutable(c)
	mtf := mutatedThroughField(c, lfm)
	// scope constructors: static callees in regions that return *ReferenceScope (or, for
	// controls, any pointer to a struct) and receive a shared value
	ctors := map[*ssa.Function]string{}
	walked := map[*ssa.Function]bool{}
	var visit func(fn *ssa.Function, region string, depth int)
	visit = func(fn *ssa.Function, region string, depth int) {
		if fn == nil || fn.Blocks == nil || depth > 3 {
			return
		}
		for _, call := range core.Calls(fn) {
			callee := call.Common().StaticCallee()
			if callee == nil || callee.Blocks == nil || !(c.P.InPkg(callee, "lib/query") || c.P.IsControl(callee)) {
				continue
			}
			res := callee.Signature.Results()
			isCtor := false
			if res.Len() == 1 {
				if p, ok := res.At(0).Type().(*types.Pointer); ok {
					if n, ok := p.Elem().(*types.Named); ok && (n.Obj().Name() == "ReferenceScope" || c.P.IsControl(callee)) {
						isCtor = true
					}
				}
			}
			if isCtor {
				if _, seen := ctors[callee]; !seen {
					ctors[callee] = region
					visit(callee, region, depth+1) // constructors delegate (createScope, CreateScopeForRecordEvaluation)
				}
			} else if !walked[callee] && depth < 2 {
				// helpers of the worker body (windowValues …) may build scopes too
				walked[callee] = true
				visit(callee, region, depth+1)
			}
		}
		for _, af := range fn.AnonFuncs {
			visit(af, region, depth)
		}
	}
	for _, fam := range e.families {
		for _, r := range fam.regions {
			visit(r.fn, c.P.Name(r.fn), 0)
		}
	}
	var fns []*ssa.Function
	for f := range ctors {
		fns = append(fns, f)
	}
	sortFuncs(c.P, fns)
	for _, fn := range fns {
		c.Touch(fn)
		n := 0
		for _, b := range fn.Blocks {
			for _, in := range b.Instrs {
				st, ok := in.(*ssa.Store)
				if !ok {
					continue
				}
				ia, ok := st.Addr.(*ssa.IndexAddr)
				if !ok {
					continue
				}
				hf := helperFields(st.Val.Type(), lfm, mtf)
				if len(hf) == 0 {
					continue
				}
				// the slice is made here (it becomes part of the new scope)
				fresh := true
				for _, o := range core.Origins(ia.X, true) {
					if _, ok := o.(*ssa.MakeSlice); !ok {
						fresh = false
					}
				}
				if !fresh {
					continue
				}
				n++
				key := c.KeyAt(fn, fmt.Sprintf("element store #%d into the new scope's %s", n, types.TypeString(st.Val.Type(), func(p *types.Package) string { return "" })))
				// where does the stored struct come from?
				copied := false
				for _, o := range core.Origins(st.Val, false) {
					if u, ok := o.(*ssa.UnOp); ok && u.Op == token.MUL {
						if _, isAlloc := u.X.(*ssa.Alloc); !isAlloc {
							copied = true // loaded from existing memory (the shared scope)
						}
					}
				}
				if !copied {
					c.Ok(key, c.Pos(st), "the element is built here (constructor call / literal)")
					continue
				}
				// is the helper pointer replaced afterwards?
				replaced := map[int]bool{}
				core.WalkFrom(st, func(x ssa.Instruction) bool {
					if s2, ok := x.(*ssa.Store); ok {
						if fa, ok := s2.Addr.(*ssa.FieldAddr); ok {
							if ia2, ok := fa.X.(*ssa.IndexAddr); ok && sameSliceVar(ia2.X, ia.X) {
								if _, isCall := core.Strip(s2.Val).(*ssa.Call); isCall {
									replaced[fa.Field] = true
								}
							}
						}
					}
					return true
				})
				var shared []string
				for idx, desc := range hf {
					if !replaced[idx] {
						shared = append(shared, desc)
					}
				}
				if len(shared) == 0 {
					c.Ok(key, c.Pos(st), "copied from the shared scope, helper pointers replaced by fresh objects")
					continue
				}
				c.Bad(key, c.Pos(st), fmt.Sprintf("the new per-goroutine scope (built inside %s) receives a copy of a struct of the shared scope including its pointer field %s: every worker mutates the same lock-free helper concurrently — data race", ctors[fn], strings.Join(dedup(shared), ", ")))
			}
		}
	}
	if len(fns) == 0 {
		c.Unknown("scope constructors", "-", "cannot-analyse: no scope constructor is called inside a concurrent region any more")
	}
}

func sameSliceVar(a, b ssa.Value) bool {
	if a == b {
		return true
	}
	oa, ob := core.Origins(a, true), core.Origins(b, true)
	return len(oa) == 1 && len(ob) == 1 && oa[0] == ob[0]
}
