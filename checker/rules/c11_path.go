package rules

// R-PATH-2 (seventh round, seed C11-14): a path that is used again after user
// statements may have run has been made absolute — CHDIR changes the working directory.

import (
	"fmt"
	"go/token"
	"strings"

	"golang.org/x/tools/go/ssa"

	"verif/checker/core"
)

func init() {
	Register(&Rule{ID: "R-PATH-2", Props: []string{"C11"}, Floor: 1,
		Doc:      "paths outlive CHDIR: in lib/action and lib/cli, in every function that can run user statements (it reaches Processor.Execute / ExecuteStatement), a path handed to os.Remove / RemoveAll / Rename / Truncate / Chmod — in the function body or in its deferred closures — is the result of filepath.Abs (the only other value it may hold is the text that was handed to that very Abs call, kept when Abs fails). The CHDIR statement changes the working directory of the process, so a relative --out path resolved again by the clean-up removes nothing (the empty out file stays) or removes a same-named file of the new directory",
		Controls: []string{"ctlPathRelativeCleanup"},
		Run:      rulePath2})
}

func rulePath2(c *Ctx) {
	fsCalls := map[string]int{"os.Remove": 0, "os.RemoveAll": 0, "os.Rename": 0, "os.Truncate": 0, "os.Chmod": 0}
	exec := c.Fn("lib/query.(*Processor).Execute")
	if exec == nil {
		return
	}
	runsStatements := func(fn *ssa.Function) bool {
		return c.P.FnReaches(fn, func(f *ssa.Function) bool {
			n := c.P.Name(f)
			return n == "lib/query.(*Processor).Execute" || n == "lib/query.(*Processor).ExecuteStatement" || strings.HasSuffix(n, ".ctlRunStatements")
		})
	}
	n := 0
	for _, fn := range c.P.FuncsIn(true, "lib/action", "lib/cli") {
		if fn.Parent() != nil {
			continue
		}
		if !runsStatements(fn) {
			continue
		}
		seenCall := map[ssa.CallInstruction]bool{}
		var scan func(g *ssa.Function)
		scan = func(g *ssa.Function) {
			for _, call := range core.Calls(g) {
				name := c.P.CalleeName(call)
				if _, ok := fsCalls[name]; !ok || len(call.Common().Args) == 0 || seenCall[call] {
					continue
				}
				seenCall[call] = true
				c.Sites++
				c.Touch(fn)
				in := call.(ssa.Instruction)
				key := c.KeyAt(fn, name+" in a function that runs statements")
				if !c.P.IsControl(fn) {
					n++
				}
				vals := path2Values(c, call.Common().Args[0], 0)
				var absArgs []ssa.Value
				nAbs := 0
				for _, v := range vals {
					if ex, ok := v.(*ssa.Extract); ok && ex.Index == 0 {
						if cl, ok := ex.Tuple.(*ssa.Call); ok && c.P.CalleeName(cl) == "path/filepath.Abs" {
							nAbs++
							absArgs = append(absArgs, path2Values(c, cl.Call.Args[0], 0)...)
						}
					}
				}
				bad := ""
				if nAbs == 0 {
					bad = "the path never passes through filepath.Abs"
				} else {
					for _, v := range vals {
						if ex, ok := v.(*ssa.Extract); ok {
							if cl, ok := ex.Tuple.(*ssa.Call); ok && c.P.CalleeName(cl) == "path/filepath.Abs" {
								continue
							}
						}
						isFallback := false
						for _, a := range absArgs {
							if a == v {
								isFallback = true
							}
						}
						if !isFallback {
							bad = "the path can hold a value (" + valueLabel(v) + ") that is neither the result of filepath.Abs nor the text handed to it"
						}
					}
				}
				if bad != "" {
					c.Bad(key, c.Pos(in), bad+": the statements run in between can change the working directory (CHDIR), so the clean-up resolves a relative path against another directory — the empty out file stays behind, or a same-named file elsewhere is removed")
				} else {
					c.Ok(key, c.Pos(in), fmt.Sprintf("the path is the result of filepath.Abs (%d value(s) examined)", len(vals)))
				}
			}
			for _, af := range g.AnonFuncs {
				scan(af)
			}
		}
		scan(fn)
		// private helpers of the function (clean-up moved into a named function)
		for h := range privateHelpersOf(c.P, fn, 2) {
			if c.P.InPkg(h, "lib/action", "lib/cli") || c.P.IsControl(h) {
				scan(h)
			}
		}
	}
	if n < 1 {
		c.Unknown("anchor:path clean-up of lib/action", "-", "cannot-analyse: expected the os.Remove of the empty --out file in action.Run")
	}
}

// path2Values: the values a string may hold, through phis, captured cells and
// local cells (all stores).
func path2Values(c *Ctx, v ssa.Value, depth int) []ssa.Value {
	if depth > 6 {
		return []ssa.Value{v}
	}
	switch x := v.(type) {
	case *ssa.Extract:
		// a result of a helper of the same packages: what the helper returns
		if cl, ok := x.Tuple.(*ssa.Call); ok {
			if g := core.StaticCallee(cl); g != nil && g.Blocks != nil && (c.P.InPkg(g, "lib/action", "lib/cli") || c.P.IsControl(g)) {
				var out []ssa.Value
				for _, rv := range core.ReturnedValues(g, x.Index) {
					out = append(out, path2Values(c, rv, depth+1)...)
				}
				if len(out) > 0 {
					return out
				}
			}
		}
	case *ssa.Call:
		if g := core.StaticCallee(x); g != nil && g.Blocks != nil && (c.P.InPkg(g, "lib/action", "lib/cli") || c.P.IsControl(g)) && g.Signature.Results().Len() == 1 {
			var out []ssa.Value
			for _, rv := range core.ReturnedValues(g, 0) {
				out = append(out, path2Values(c, rv, depth+1)...)
			}
			if len(out) > 0 {
				return out
			}
		}
	case *ssa.Parameter:
		// a parameter of a helper with static callers only: the callers' arguments
		fn := x.Parent()
		if fn == nil || fn.Parent() != nil {
			break
		}
		idx := -1
		for i, q := range fn.Params {
			if q == x {
				idx = i
			}
		}
		edges := c.P.RealCallers(fn)
		if idx < 0 || len(edges) == 0 || len(edges) > 4 {
			break
		}
		var out []ssa.Value
		for _, e := range edges {
			if e.Site == nil || core.StaticCallee(e.Site) != fn || idx >= len(e.Site.Common().Args) {
				return []ssa.Value{v}
			}
			out = append(out, path2Values(c, e.Site.Common().Args[idx], depth+1)...)
		}
		return out
	case *ssa.Phi:
		var out []ssa.Value
		for _, e := range x.Edges {
			out = append(out, path2Values(c, e, depth+1)...)
		}
		return out
	case *ssa.UnOp:
		if x.Op == token.MUL {
			switch cell := x.X.(type) {
			case *ssa.Alloc:
				vals, complete := core.StoresTo(cell)
				if complete && len(vals) > 0 {
					var out []ssa.Value
					for _, s := range vals {
						out = append(out, path2Values(c, s, depth+1)...)
					}
					return out
				}
			case *ssa.FreeVar:
				// the cell of the enclosing function
				fn := cell.Parent()
				if fn != nil && fn.Parent() != nil {
					for i, fv := range fn.FreeVars {
						if fv != cell {
							continue
						}
						for _, r := range *fn.Referrers() {
							if mc, ok := r.(*ssa.MakeClosure); ok && i < len(mc.Bindings) {
								if al, ok := mc.Bindings[i].(*ssa.Alloc); ok {
									vals, complete := core.StoresTo(al)
									if complete && len(vals) > 0 {
										var out []ssa.Value
										for _, s := range vals {
											out = append(out, path2Values(c, s, depth+1)...)
										}
										return out
									}
								}
							}
						}
					}
				}
			}
		}
	}
	return []ssa.Value{v}
}
