package rules

import (
	"fmt"
	"go/types"
	"sort"
	"strings"

	"golang.org/x/tools/go/ssa"

	"verif/checker/core"
)

// R-LOCK-14 — the wait for a control file never ends in *ContextDone (C09: a
// process that cannot get access within --wait-timeout fails with the
// lock-timeout error).
//
// The context of the wait carries the wait time as its deadline
// (GetTimeoutContext, R-LOCK-5 b). ConvertFileHandlerError turns *TimeoutError
// into the lock-timeout error and *ContextDone into the generic "[Context]"
// error, so a function that waits for a control file and answers an expired
// deadline with *ContextDone reports the end of the wait time as something
// else: with --wait-timeout 0 the context is expired on entry and every table
// access ended in "[Context] context deadline exceeded".

func init() {
	Register(&Rule{ID: "R-LOCK-14", Props: []string{"C09"}, Floor: 1,
		Doc:      "the end of the wait time is reported as the lock-timeout error: a function of lib/file in which a call that can create a control file lies on a cycle (the retry loops of R-LOCK-5) constructs no *lib/file.ContextDone — neither itself (MakeInterface of that type) nor through a callee of lib/file that can hand it one: a constructor (its last result is a *ContextDone at every return) or a helper that receives the context and returns a *ContextDone, or the result of such a callee, at one of its returns (helpers that do not see the context — the translation of go-file's errors — are not followed); its context's deadline is the wait time, and ConvertFileHandlerError maps only *TimeoutError to the lock-timeout error. One obligation per retry-loop function; expected violations: none",
		Controls: []string{"CtlLock14WaitEndsInContextDone"},
		Run:      ruleLock14})
}

func lock14IsContextDone(t types.Type) bool {
	pt, ok := t.(*types.Pointer)
	if !ok {
		return false
	}
	n, ok := pt.Elem().(*types.Named)
	return ok && n.Obj().Pkg() != nil && n.Obj().Name() == "ContextDone" && strings.HasSuffix(n.Obj().Pkg().Path(), "lib/file")
}

// lock14Builds: the instructions of fn that make an error value out of a *ContextDone.
func lock14Builds(fn *ssa.Function) []ssa.Instruction {
	var out []ssa.Instruction
	for _, b := range fn.Blocks {
		for _, in := range b.Instrs {
			if mi, ok := in.(*ssa.MakeInterface); ok && lock14IsContextDone(mi.X.Type()) {
				out = append(out, in)
			}
		}
	}
	return out
}

// lock14InFile: k is a function of lib/file (or a control).
func lock14InFile(k *ssa.Function) bool {
	if k == nil || len(k.Blocks) == 0 || k.Signature.Results().Len() == 0 || core.FnPkg(k) == nil {
		return false
	}
	path := core.FnPkg(k).Pkg.Path()
	return strings.HasSuffix(path, "lib/file") || strings.HasSuffix(path, "lib/zzverifpositive")
}

func lock14TakesCtx(k *ssa.Function) bool {
	for _, pa := range k.Params {
		if isCtxType(pa.Type()) {
			return true
		}
	}
	return false
}

// lock14Yields: k can hand a *ContextDone to its caller as its last result —
// it is a constructor (every return is a *ContextDone), or it receives the
// context (a helper of the wait: "the error for a finished context", "wait one
// round") and one of its returns is a *ContextDone or the result of such a
// callee. Helpers that do not see the context (tryCreateControlFile →
// ParseError, which translates go-file's errors) are not followed: what they
// return does not answer the context.
func lock14Yields(k *ssa.Function, seen map[*ssa.Function]bool) bool {
	if !lock14InFile(k) || seen[k] {
		return false
	}
	seen[k] = true
	vals := core.ReturnedValues(k, k.Signature.Results().Len()-1)
	all, some := len(vals) > 0, false
	for _, v := range vals {
		is := lock14IsContextDone(v.Type())
		if !is {
			call, ok := v.(*ssa.Call)
			if !ok {
				if cc, _, isExt := core.ExtractOf(v); isExt {
					call, ok = cc, true
				}
			}
			if ok {
				is = lock14Yields(core.StaticCallee(call), seen)
			}
		}
		if is {
			some = true
		} else {
			all = false
		}
	}
	return all || (some && lock14TakesCtx(k))
}

func ruleLock14(c *Ctx) {
	p := c.P
	creates := func(k ssa.CallInstruction) bool {
		if _, isDefer := k.(*ssa.Defer); isDefer {
			return false
		}
		return callReachesNamed(p, k, fnGoCreate)
	}
	n := 0
	for _, fn := range append(p.FuncsIn(false, "lib/file"), txnCtl(c, "Lock14")...) {
		loop := ssa.CallInstruction(nil)
		for _, k := range core.Calls(fn) {
			if creates(k) && reachAfter(k, k, nil, nil) {
				loop = k
				break
			}
		}
		if loop == nil {
			continue
		}
		c.Sites++
		c.Touch(fn)
		if !p.IsControl(fn) {
			n++
		}
		var at []string
		for _, in := range lock14Builds(fn) {
			at = append(at, c.Pos(in))
		}
		for _, k := range core.Calls(fn) {
			if lock14Yields(core.StaticCallee(k), map[*ssa.Function]bool{}) {
				at = append(at, c.Pos(k)+" ("+p.CalleeName(k)+")")
			}
		}
		sort.Strings(at)
		key := c.KeyAt(fn, "the wait for a control file ends in *TimeoutError / *ContextCanceled, never in *ContextDone")
		c.Check(len(at) == 0, key, c.Pos(loop), "the function that retries "+acqLabel(c, loop)+" builds no *ContextDone",
			fmt.Sprintf("this function waits for a control file (retry loop around %s) and builds a *lib/file.ContextDone at %s: the deadline of its context is the wait time (--wait-timeout), and ConvertFileHandlerError reports *ContextDone as \"[Context] context deadline exceeded\", not as the lock-timeout error — with --wait-timeout 0 the context is expired on entry and every table access fails that way", acqLabel(c, loop), strings.Join(at, ", ")))
	}
	if n == 0 {
		c.Unknown("anchor:retry loop", "-", "cannot-analyse: no loop of lib/file retries the creation of a control file any more")
	}
}
