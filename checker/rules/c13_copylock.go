package rules

// R-CPL-1 (tenth round, seeded change C13-19): a value that holds a lock is never copied.

import (
	"fmt"
	"go/types"
	"sort"
	"strings"

	"golang.org/x/tools/go/ssa"

	"verif/checker/core"
)

func init() {
	Register(&Rule{ID: "R-CPL-1", Props: []string{"C13", "C16", "C12"}, Floor: 5,
		Doc: "a value that holds a synchronisation primitive is never copied (what `go vet -copylocks` decides, on SSA and for the whole of csvq — the suite runs with -vet=off): " +
			"for every type that contains a sync.Mutex / RWMutex / WaitGroup / Once / Cond / Map / Pool or a sync/atomic value type BY VALUE (directly, in an embedded or nested struct field, in an array) " +
			"and that is declared in csvq or is the type of a variable, field or SSA value of csvq, no function of csvq (package initialisers included) produces a second copy of such a value: " +
			"no method has it as a value receiver, no function or closure takes it as a value parameter, it is not loaded as a whole from a variable, field, element or pointer that somebody else can reach " +
			"(assignment from a dereference or another variable, argument, value receiver call, range variable, return of a shared value, conversion to an interface), not read out of a map, a channel or an interface by value. " +
			"Every copy has its own lock while the copies share the maps, slices and pointers next to it: Lock / RLock on the copy excludes nobody. " +
			"Fresh values are no copies: the zero value, a call result, and the load of a local that was only built field by field (composite literal, no address of it or of one of its fields handed out) — the constructor idiom `return T{…}` / `x = T{…}`",
		Controls: []string{"ctlCplkMap"},
		Run:      ruleCpl1})
}

var cplkSync = map[string]bool{
	"sync.Mutex": true, "sync.RWMutex": true, "sync.WaitGroup": true, "sync.Once": true, "sync.Cond": true, "sync.Map": true, "sync.Pool": true,
	"sync/atomic.Int32": true, "sync/atomic.Int64": true, "sync/atomic.Uint32": true, "sync/atomic.Uint64": true, "sync/atomic.Uintptr": true,
	"sync/atomic.Bool": true, "sync/atomic.Value": true, "sync/atomic.Pointer": true,
}

type cplkTypes struct {
	memo map[types.Type]string
}

// path answers "" when t holds no lock by value, else the way to the first one (".mtx sync.RWMutex").
func (ct *cplkTypes) path(t types.Type) string {
	if t == nil {
		return ""
	}
	if r, ok := ct.memo[t]; ok {
		return r
	}
	ct.memo[t] = "" // recursion guard (a struct cannot contain itself by value anyway)
	r := ""
	switch x := t.(type) {
	case *types.Named:
		if o := x.Obj(); o != nil && o.Pkg() != nil && cplkSync[o.Pkg().Path()+"."+o.Name()] {
			r = o.Pkg().Path() + "." + o.Name()
		} else if _, isIface := x.Underlying().(*types.Interface); !isIface {
			r = ct.path(x.Underlying())
		}
	case *types.Alias:
		r = ct.path(types.Unalias(x))
	case *types.Struct:
		for i := 0; i < x.NumFields(); i++ {
			if p := ct.path(x.Field(i).Type()); p != "" {
				r = "." + x.Field(i).Name() + " " + strings.TrimPrefix(p, " ")
				if strings.HasPrefix(p, ".") {
					r = "." + x.Field(i).Name() + p
				}
				break
			}
		}
	case *types.Array:
		if p := ct.path(x.Elem()); p != "" {
			r = "[i]" + p
			if !strings.HasPrefix(p, ".") && !strings.HasPrefix(p, "[") {
				r = "[i] " + p
			}
		}
	}
	ct.memo[t] = r
	return r
}

func cplkQual(p *types.Package) string {
	if p == nil {
		return ""
	}
	return core.Short(p.Path())
}

func cplkTypeName(t types.Type) string { return types.TypeString(t, cplkQual) }

// cplkPrivate: the local is only built (whole-value stores, stores into its fields / elements) and read; no address of it or of
// a part of it is handed to a call, stored, captured or kept: nobody can have locked it or can share it.
func cplkPrivate(a *ssa.Alloc) bool {
	var okAddr func(v ssa.Value, depth int) bool
	okAddr = func(v ssa.Value, depth int) bool {
		if depth > 6 || v.Referrers() == nil {
			return false
		}
		for _, ref := range *v.Referrers() {
			switch r := ref.(type) {
			case *ssa.Store:
				if r.Addr != v || r.Val == v {
					return false
				}
			case *ssa.UnOp:
				// load (of the whole or of a part)
			case *ssa.FieldAddr:
				if !okAddr(r, depth+1) {
					return false
				}
			case *ssa.IndexAddr:
				if r.X != v || !okAddr(r, depth+1) {
					return false
				}
			case *ssa.DebugRef:
			default:
				return false
			}
		}
		return true
	}
	return okAddr(a, 0)
}

func cplkSource(p *core.Prog, v ssa.Value) string {
	for i := 0; i < 8; i++ {
		switch x := v.(type) {
		case *ssa.Global:
			return "the package variable " + x.Name()
		case *ssa.Alloc:
			if x.Comment != "" {
				return "the local " + x.Comment
			}
			return "a local"
		case *ssa.Parameter:
			return "*" + x.Name()
		case *ssa.FreeVar:
			return "the captured variable " + x.Name()
		case *ssa.FieldAddr:
			st, _ := cplkDeref(x.X.Type()).Underlying().(*types.Struct)
			if st != nil && x.Field < st.NumFields() {
				return "the field " + st.Field(x.Field).Name() + " of " + cplkTypeName(cplkDeref(x.X.Type()))
			}
			return "a field"
		case *ssa.IndexAddr:
			return "an element of " + cplkTypeName(cplkDeref(x.X.Type())) + " (range variable / index expression)"
		case *ssa.UnOp:
			v = x.X
		case *ssa.Call:
			return "the pointer returned by " + p.CalleeName(x)
		default:
			return "a pointer (" + fmt.Sprintf("%T", v) + ")"
		}
	}
	return "a pointer"
}

type cplkCopy struct {
	pos, what string
}

func ruleCpl1(c *Ctx) {
	ct := &cplkTypes{memo: map[types.Type]string{}}
	holders := map[string]int{}       // type name → places that hold such a value
	where := map[string]string{}      // type name → position of its declaration / first holder
	lockOf := map[string]string{}     // type name → path to the lock
	copies := map[string][]cplkCopy{} // type name → copying constructs
	note := func(t types.Type, pos string) string {
		n := cplkTypeName(t)
		if strings.Contains(pos, core.ControlPkg) && !strings.Contains(n, core.ControlPkg) {
			n += " (as used by the control package)" // keeps the verdict on the repository's own uses apart
		}
		holders[n]++
		if where[n] == "" || where[n] == "-" {
			where[n] = pos
		}
		lockOf[n] = ct.path(t)
		return n
	}
	// declared types and package variables
	var shorts []string
	for s := range c.P.ByPath {
		shorts = append(shorts, s)
	}
	sort.Strings(shorts)
	for _, s := range shorts {
		sc := c.P.ByPath[s].Types.Scope()
		for _, name := range sc.Names() {
			switch o := sc.Lookup(name).(type) {
			case *types.TypeName:
				if _, isNamed := o.Type().(*types.Named); isNamed && ct.path(o.Type()) != "" {
					n := note(o.Type(), c.P.Pos(o.Pos()))
					where[n] = c.P.Pos(o.Pos())
				}
			case *types.Var:
				if ct.path(o.Type()) != "" {
					note(o.Type(), c.P.Pos(o.Pos()))
				}
			}
		}
	}
	fns := append([]*ssa.Function(nil), c.P.SrcFuncs()...)
	for _, s := range shorts {
		if sp := c.P.SSAPkgs[s]; sp != nil {
			if f := sp.Func("init"); f != nil && f.Blocks != nil {
				fns = append(fns, f)
			}
		}
	}
	add := func(fn *ssa.Function, t types.Type, pos, what string) {
		n := note(t, pos)
		copies[n] = append(copies[n], cplkCopy{pos, c.P.Name(fn) + ": " + what})
		c.Touch(fn)
	}
	for _, fn := range fns {
		fnPos := c.FnPos(fn)
		for i, p := range fn.Params {
			if ct.path(p.Type()) == "" {
				continue
			}
			role := "parameter " + p.Name()
			if i == 0 && fn.Signature.Recv() != nil {
				role = "value receiver " + p.Name()
			}
			add(fn, p.Type(), fnPos, role+" (every call works on its own copy of the lock)")
		}
		for _, b := range fn.Blocks {
			for _, in := range b.Instrs {
				v, ok := in.(ssa.Value)
				if !ok {
					continue
				}
				if a, ok := v.(*ssa.Alloc); ok {
					if ct.path(cplkDeref(a.Type())) != "" {
						note(cplkDeref(a.Type()), c.Pos(in))
					}
					continue
				}
				if ct.path(v.Type()) == "" {
					continue
				}
				switch x := v.(type) {
				case *ssa.UnOp:
					if x.Op.String() == "<-" {
						add(fn, v.Type(), c.Pos(in), "received from a channel by value")
						continue
					}
					if x.Op.String() != "*" {
						continue
					}
					if a, ok := x.X.(*ssa.Alloc); ok && cplkPrivate(a) {
						continue // a fresh value: built here, its address never handed out
					}
					add(fn, v.Type(), c.Pos(in), "whole value loaded from "+cplkSource(c.P, x.X)+" (assigned, passed, ranged over, returned or boxed by value)")
				case *ssa.Lookup:
					add(fn, v.Type(), c.Pos(in), "map element read by value")
				case *ssa.TypeAssert:
					add(fn, v.Type(), c.Pos(in), "taken out of an interface by value")
				case *ssa.Extract:
					switch x.Tuple.(type) {
					case *ssa.Next:
						add(fn, v.Type(), c.Pos(in), "range variable of a map (element by value)")
					case *ssa.Lookup:
						add(fn, v.Type(), c.Pos(in), "map element read by value")
					case *ssa.TypeAssert:
						add(fn, v.Type(), c.Pos(in), "taken out of an interface by value")
					case *ssa.Select, *ssa.UnOp:
						add(fn, v.Type(), c.Pos(in), "received from a channel by value")
					}
				}
			}
		}
	}
	var names []string
	for n := range holders {
		names = append(names, n)
	}
	sort.Strings(names)
	real := 0
	for _, n := range names {
		key := "type " + n + ": a value that holds a lock is never copied"
		ctl := strings.Contains(n, core.ControlPkg) || strings.Contains(n, "control package")
		cs := copies[n]
		if len(cs) == 0 {
			if !ctl {
				real++
			}
			c.Ok(key, where[n], fmt.Sprintf("holds %s by value; %d declaration(s) / variable(s) / value(s) of this type in csvq, none is a copy of a value somebody else can reach", lockOf[n], holders[n]))
			continue
		}
		sort.Slice(cs, func(i, j int) bool {
			if cs[i].what != cs[j].what {
				return cs[i].what < cs[j].what
			}
			return cs[i].pos < cs[j].pos
		})
		var lines []string
		for i, k := range cs {
			if i == 8 {
				lines = append(lines, fmt.Sprintf("… and %d more", len(cs)-8))
				break
			}
			lines = append(lines, k.what+" @"+k.pos)
		}
		pos := where[n]
		if ctl {
			pos = cs[0].pos
		} else {
			real++
		}
		c.Bad(key, pos, fmt.Sprintf("%s holds %s by value and is copied by %d construct(s): %s — each copy has its own lock, while the maps / slices / pointers beside it stay shared: the lock excludes nobody (use a pointer receiver / pass *%s, or hold the lock through a pointer field that is created once)",
			n, lockOf[n], len(cs), strings.Join(lines, "; "), n))
	}
	if real < 3 {
		c.Unknown("anchor:lock-holding types of csvq", "-", fmt.Sprintf("cannot-analyse: expected at least 3 types that hold a sync primitive by value among the declarations, variables and SSA values of csvq, found %d", real))
	}
}

func cplkDeref(t types.Type) types.Type {
	if p, ok := t.Underlying().(*types.Pointer); ok {
		return p.Elem()
	}
	return t
}
