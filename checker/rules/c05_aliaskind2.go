package rules

// R-TMPKIND-2 (ninth round, second wave). The repair of D102 (9155d34) made the scope node remember
// for every alias whether it stands for a temporary table (AddTemporaryTableAlias) or for a file
// (AddAlias), and Update / Delete pick the working copy by that record. The loader of STDIN — an
// in-memory table kept with the temporary tables — went on registering its alias with AddAlias, so
// `UPDATE STDIN SET …` answered "inline table cannot be updated": a regression of the repair itself,
// invisible to the pinned suite, found when a stale seeded change was rebased. The clause: the kind
// recorded for an alias agrees with the container the view was taken from.

import (
	"fmt"
	"go/token"

	"golang.org/x/tools/go/ssa"

	"verif/checker/core"
)

func init() {
	Register(&Rule{ID: "R-TMPKIND-2", Props: []string{"C05", "C01", "C19"}, Floor: 5,
		Doc:      "the kind an alias is registered with agrees with the container its view came from: in every function of lib/query, a call of (*ReferenceScope).AddAlias whose path argument is the FileInfo.Path of a view obtained from a BlockScope.TemporaryTables map (Get / GetWithInternalId / Load on that field, also of the global block) is a violation — such a view is an in-memory table and must be registered with AddTemporaryTableAlias, or UPDATE / DELETE look for it among the cached files — and a call of AddTemporaryTableAlias whose name argument is the path of a view obtained from Transaction.CachedViews is one too; an empty path (inline tables, sub-queries) and a path that does not come out of a view are not judged",
		Controls: []string{"CtlAliasKindStdinAsFile"},
		Run:      ruleTmpKind2})
}

// tk2Container: v is (a load of) the field TemporaryTables / CachedViews → "temp" / "cache".
func tk2Container(v ssa.Value) string {
	name := ""
	switch x := v.(type) {
	case *ssa.Field:
		name = core.FieldName(x)
	case *ssa.UnOp:
		if x.Op == token.MUL {
			if fa, ok := x.X.(*ssa.FieldAddr); ok {
				name = core.FieldName(fa)
			}
		}
	}
	switch name {
	case "TemporaryTables":
		return "temp"
	case "CachedViews":
		return "cache"
	}
	return ""
}

// tk2ViewSource: the containers the view value may have been taken from.
func tk2ViewSource(v ssa.Value) map[string]bool {
	out := map[string]bool{}
	for _, o := range core.Origins(v, false) {
		call, _, ok := core.ExtractOf(o)
		if !ok {
			if c2, isCall := o.(*ssa.Call); isCall {
				call = c2
			} else {
				continue
			}
		}
		args := call.Common().Args
		if call.Common().IsInvoke() || len(args) == 0 {
			continue
		}
		if k := tk2Container(args[0]); k != "" {
			out[k] = true
		}
	}
	return out
}

// tk2PathOfView: v is view.FileInfo.Path → the view value.
func tk2PathOfView(v ssa.Value) ssa.Value {
	for _, o := range core.Origins(v, false) {
		u, ok := o.(*ssa.UnOp)
		if !ok || u.Op != token.MUL {
			continue
		}
		fa, ok := u.X.(*ssa.FieldAddr)
		if !ok || core.FieldName(fa) != "Path" || core.NamedOf(fa.X.Type()) != "lib/query.FileInfo" {
			continue
		}
		// fa.X = load of view.FileInfo
		for _, fo := range core.Origins(fa.X, false) {
			fu, ok := fo.(*ssa.UnOp)
			if !ok || fu.Op != token.MUL {
				continue
			}
			vfa, ok := fu.X.(*ssa.FieldAddr)
			if ok && core.FieldName(vfa) == "FileInfo" {
				return vfa.X
			}
		}
	}
	return nil
}

func ruleTmpKind2(c *Ctx) {
	p := c.P
	for _, fn := range p.FuncsIn(true, "lib/query") {
		n := map[string]int{}
		for _, call := range core.Calls(fn) {
			g := core.StaticCallee(call)
			if g == nil || g.Signature.Recv() == nil || core.NamedOf(g.Signature.Recv().Type()) != "lib/query.ReferenceScope" {
				continue
			}
			kind := ""
			switch g.Name() {
			case "AddAlias":
				kind = "file"
			case "AddTemporaryTableAlias":
				kind = "temp"
			default:
				continue
			}
			args := call.Common().Args
			if len(args) < 3 {
				continue
			}
			c.Touch(fn)
			c.Sites++
			n[g.Name()]++
			key := c.KeyAt(fn, fmt.Sprintf("%s #%d registers the kind of the container its view came from", g.Name(), n[g.Name()]))
			if s, ok := core.ConstString(args[2]); ok && s == "" {
				c.Ok(key, c.Pos(call), "empty path: an inline table or sub-query, not updatable under any kind")
				continue
			}
			view := tk2PathOfView(args[2])
			if view == nil {
				c.Ok(key, c.Pos(call), "the name does not come out of a loaded view (a name as written or a resolved file path)")
				continue
			}
			src := tk2ViewSource(view)
			switch {
			case kind == "file" && src["temp"]:
				c.Bad(key, c.Pos(call), fmt.Sprintf("AddAlias at %s registers as a FILE the path of a view taken from the temporary tables (an in-memory table such as STDIN): Update / Delete then look for it in the cached files and answer 'inline table cannot be updated'", c.Pos(call)))
			case kind == "temp" && src["cache"]:
				c.Bad(key, c.Pos(call), fmt.Sprintf("AddTemporaryTableAlias at %s registers as a TEMPORARY TABLE the path of a view taken from the cached files", c.Pos(call)))
			default:
				c.Ok(key, c.Pos(call), "the kind agrees with the container the view was taken from")
			}
		}
	}
}
