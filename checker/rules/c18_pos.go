package rules

import (
	"fmt"
	"go/token"
	"strings"

	"golang.org/x/tools/go/ssa"

	"verif/checker/core"
)

// R-POS-1 — the position stored in a token is the scanner's position after the
// token's first rune has been consumed.
//
// Scanner.next does not advance at the end of the input. Scan therefore reads
// s.line / s.char AFTER `ch := s.next()`: for a real token that is the position of
// its first rune, and for the EOF token it is the position of the last rune read —
// inside the input, which is where "unexpected termination" errors must point.
// Reading the position before the consuming call and adding one gives the same
// result for every real token but places the EOF token one column past the input.
// Decided structurally: every value stored into the Line / Char field of a token
// built by Scan is, unchanged (no arithmetic), a load of the scanner's line / char
// field, and that load is dominated by a call of the scanner's next() whose result
// is used (the call that consumes the token's first rune; the white-space loop
// discards its results).

func init() {
	Register(&Rule{ID: "R-POS-1", Props: []string{"C18"}, Floor: 6,
		Doc:      "in (*Scanner).Scan every value stored into the Line / Char field of a Token literal is — through phis and locals only, without arithmetic — a load of the scanner's own line / char field that is dominated by a call of (*Scanner).next whose result is used (the call consuming the token's first rune): the position is read after the rune was consumed, so the EOF token, for which next() does not advance, is reported at the last rune of the input and not one column past it",
		Controls: []string{"CtlTokenPositionBeforeConsume"},
		Run:      rulePos1})
}

func rulePos1(c *Ctx) {
	if fn := c.Fn("lib/parser.(*Scanner).Scan"); fn != nil {
		fxCheckTokenPosition(c, fn)
	}
	for _, fn := range fxCtlFuncs(c) {
		if strings.HasPrefix(fn.Name(), "CtlTokenPosition") || strings.HasPrefix(fn.Name(), "okTokenPosition") {
			c.Touch(fn)
			fxCheckTokenPosition(c, fn)
		}
	}
}

func fxCheckTokenPosition(c *Ctx, fn *ssa.Function) {
	if len(fn.Params) == 0 {
		c.Unknown(c.KeyAt(fn, "token position"), c.FnPos(fn), "cannot-analyse: no scanner parameter")
		return
	}
	scanner := fn.Params[0]
	stype := core.NamedOf(scanner.Type())
	// calls of the scanner's next() whose result is used
	var consuming []ssa.Instruction
	for _, ci := range core.Calls(fn) {
		call, ok := ci.(*ssa.Call)
		if !ok {
			continue
		}
		f := core.StaticCallee(call)
		if f == nil || f.Name() != "next" || f.Signature.Recv() == nil || core.NamedOf(f.Signature.Recv().Type()) != stype {
			continue
		}
		used := false
		if call.Referrers() != nil {
			for _, r := range *call.Referrers() {
				if _, isDbg := r.(*ssa.DebugRef); !isDbg {
					used = true
				}
			}
		}
		if used {
			consuming = append(consuming, call)
		}
	}
	n := map[string]int{}
	// judge one stored value; origins that are parameters of a helper are followed
	// to the arguments of the helper's call in fn (subst)
	var judge func(v ssa.Value, field string, subst map[*ssa.Parameter]ssa.Value, depth int) string
	judge = func(v ssa.Value, field string, subst map[*ssa.Parameter]ssa.Value, depth int) string {
		want := strings.ToLower(field)
		bad := ""
		for _, o := range core.Origins(v, false) {
			if p, isP := o.(*ssa.Parameter); isP && depth < 3 {
				if a, has := subst[p]; has {
					if w := judge(a, field, nil, depth+1); w != "" {
						bad = w
					}
					continue
				}
			}
			ld, isLoad := o.(*ssa.UnOp)
			var src *ssa.FieldAddr
			if isLoad && ld.Op == token.MUL {
				src, _ = ld.X.(*ssa.FieldAddr)
			}
			if src == nil || core.FieldName(src) != want || core.NamedOf(src.X.Type()) != stype {
				what := valueLabel(o)
				if bin, isBin := o.(*ssa.BinOp); isBin {
					what = "the result of an arithmetic operation (" + bin.Op.String() + ")"
				}
				bad = fmt.Sprintf("the %s stored in the token is %s, not the scanner's %s field as it stands after the token's first rune was consumed: a position computed ahead of next() is one past the input for the EOF token (next() does not advance at EOF), so \"unexpected termination\" errors point outside the input", field, what, want)
				continue
			}
			dominated := false
			for _, cn := range consuming {
				if ld.Parent() == fn && core.Dominates(cn, ld) {
					dominated = true
				}
			}
			if !dominated {
				bad = fmt.Sprintf("the scanner's %s field is read at %s, before the call of next() that consumes the token's first rune: the stored position is that of the previous rune (or needs a +1 that is wrong at EOF, where next() does not advance)", want, c.Pos(ld))
			}
		}
		return bad
	}
	// token literals of g: stores into the Line / Char field of a local struct
	literals := func(g *ssa.Function, subst map[*ssa.Parameter]ssa.Value) {
		for _, b := range g.Blocks {
			for _, in := range b.Instrs {
				st, ok := in.(*ssa.Store)
				if !ok {
					continue
				}
				fa, ok := st.Addr.(*ssa.FieldAddr)
				if !ok {
					continue
				}
				field := core.FieldName(fa)
				if field != "Line" && field != "Char" {
					continue
				}
				if _, isLocal := fa.X.(*ssa.Alloc); !isLocal {
					continue
				}
				n[field]++
				key := c.KeyAt(fn, fmt.Sprintf("token literal #%d: %s", n[field], field))
				if bad := judge(st.Val, field, subst, 0); bad != "" {
					c.Bad(key, c.Pos(st), bad)
				} else {
					c.Ok(key, c.Pos(st), "a plain load of the scanner's "+strings.ToLower(field)+" field after the consuming next()")
				}
			}
		}
	}
	literals(fn, nil)
	// helpers of the scanner that build a token from a position handed to them
	// (scanPlaceholder(ch, line, char)): judged at their call in fn
	for _, ci := range core.Calls(fn) {
		call, ok := ci.(*ssa.Call)
		if !ok {
			continue
		}
		h := core.StaticCallee(call)
		if h == nil || h == fn || h.Blocks == nil || core.FnPkg(h) != core.FnPkg(fn) {
			continue
		}
		subst := map[*ssa.Parameter]ssa.Value{}
		for i, a := range call.Common().Args {
			if i < len(h.Params) {
				subst[h.Params[i]] = a
			}
		}
		c.Touch(h)
		literals(h, subst)
	}
	if n["Line"]+n["Char"] == 0 {
		c.Unknown(c.KeyAt(fn, "token position"), c.FnPos(fn), "cannot-analyse: no token literal with Line / Char fields is built here")
	}
}
