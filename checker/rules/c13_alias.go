package rules

import (
	"fmt"
	"go/token"
	"go/types"
	"sort"
	"strings"

	"golang.org/x/tools/go/ssa"

	"verif/checker/core"
)

// R-ALIAS-1: spare capacity is never shared.
//
// A slice that some code grows in place with `x = append(x, …)` (or through a
// helper that appends to its parameter and returns it) must own the capacity
// behind its length. "Grown in place" is decided per named slice type (Header,
// Record, RecordSet …) and per slice-typed struct field (`x.f = append(x.f, …)`
// in some function of lib/query, whatever the field's type is called). Two ways
// of handing out capacity that belongs to someone else are recognised:
//   (a) alias: a freshly built object gets such a slice by plain assignment from
//       another object's field (no copy, no three-index cap), and
//   (b) slab: several such slices are carved out of one allocation with a
//       two-index slice expression, so each one's capacity runs into the next.
//       The allocation is looked for behind the sliced operand through φ, local
//       and captured variables (closure cells), parameters (to the arguments of
//       the callers) and results of helpers.
// An append then writes into memory another owner reads — a data race when the
// owners are worked on by different goroutines, a corrupted neighbour otherwise.

func init() {
	Register(&Rule{ID: "R-ALIAS-1", Props: []string{"C13", "C03", "C14", "C12"}, Floor: 1,
		Doc:      "spare capacity is never shared: for every named slice type of lib/query that is grown in place (a location is assigned append(<its own value>, …), directly or through a helper that appends to its parameter and returns it — today Header, Record, RecordSet …) and for every slice-typed struct field of lib/query that some function grows in place (x.f = append(x.f, …) — today FieldIndexCache.exprs/indices, HeaderField.Aliases, View.selectFields …), (a) a freshly built object never receives such a slice by plain assignment from another object's field (f = other.f, f = other.f[:n], or a copy of the whole struct that is not followed by a replacement of the field) without a copy or a three-index cap, when the new object is then handed to code that appends to that field in place, and (b) slices of such a type are never carved out of one shared allocation with a two-index slice expression (each one's capacity would run into its neighbour) — the allocation is found behind the sliced operand through local and captured variables, parameters (arguments of the callers) and results of helpers; several pieces = the expression sits in a loop that does not contain the allocation, in another function (closure, helper) at a variable offset, or the allocation is sliced more than once — an append through one owner would otherwise write what another owner reads (genuine defect repaired: the per-group views of aggregate evaluation shared the grouped view's header capacity across worker goroutines)",
		Controls: []string{"CtlSlabRecords", "CtlClosureSlab", "CtlHelperSlab", "CtlAliasedHeader", "CtlAliasedFieldSlice", "CtlAliasedFieldResliced", "CtlStructCopyAlias"},
		Run:      ruleAlias1})
}

// appendGrownTypes: named slice types T such that somewhere `loc = append(load loc, …)` with loc of type T, or
// loc = f(load loc, …) where f returns append(param, …); and, second result, the struct fields ("pkg.Type.field")
// of slice type that are the location of such a statement.
func appendGrownTypes(c *Ctx) (map[string]string, map[string]string, map[*ssa.Store]bool) {
	out := map[string]string{}
	fields := map[string]string{}
	stores := map[*ssa.Store]bool{}
	// helpers that return append(param…)
	appenders := map[*ssa.Function]int{}
	for _, fn := range c.P.FuncsIn(true, "lib/query") {
		if fn.Signature.Results().Len() == 0 {
			continue
		}
		for _, r := range core.Returns(fn) {
			for _, o := range core.Origins(r.Results[0], false) {
				if call, ok := o.(*ssa.Call); ok {
					if b, ok := call.Call.Value.(*ssa.Builtin); ok && b.Name() == "append" {
						for _, oo := range core.Origins(call.Call.Args[0], true) {
							if p, ok := oo.(*ssa.Parameter); ok {
								for i, q := range fn.Params {
									if q == p {
										appenders[fn] = i
									}
								}
							}
						}
					}
				}
			}
		}
	}
	named := func(t types.Type) string {
		if n, ok := t.(*types.Named); ok {
			if _, isSlice := n.Underlying().(*types.Slice); isSlice && n.Obj().Pkg() != nil {
				return core.Short(n.Obj().Pkg().Path()) + "." + n.Obj().Name()
			}
		}
		return ""
	}
	for _, fn := range c.P.FuncsIn(true, "lib/query") {
		for _, b := range fn.Blocks {
			for _, in := range b.Instrs {
				st, ok := in.(*ssa.Store)
				if !ok {
					continue
				}
				if _, isSlice := st.Val.Type().Underlying().(*types.Slice); !isSlice {
					continue
				}
				n := named(st.Val.Type())
				fo := ""
				if fa, ok := st.Addr.(*ssa.FieldAddr); ok {
					fo = core.FieldOwner(fa)
				}
				if n == "" && fo == "" {
					continue
				}
				var grown ssa.Value
				switch x := st.Val.(type) {
				case *ssa.Call:
					if bi, ok := x.Call.Value.(*ssa.Builtin); ok && bi.Name() == "append" {
						grown = x.Call.Args[0]
					} else if f := core.StaticCallee(x); f != nil {
						if i, ok := appenders[f]; ok && i < len(x.Call.Args) {
							grown = x.Call.Args[i]
						}
					}
				case *ssa.Extract:
					if call, ok := x.Tuple.(*ssa.Call); ok && x.Index == 0 {
						if f := core.StaticCallee(call); f != nil {
							if i, ok := appenders[f]; ok && i < len(call.Call.Args) {
								grown = call.Call.Args[i]
							}
						}
					}
				}
				if grown == nil {
					continue
				}
				// grown is a load of the location stored to
				if u, ok := grown.(*ssa.UnOp); ok && u.Op == token.MUL && (u.X == st.Addr || core.SameAddr(u.X, st.Addr) || sameElemAddr(u.X, st.Addr)) {
					stores[st] = true
					if _, seen := out[n]; !seen && n != "" {
						out[n] = c.Pos(st)
					}
					// a field counts as grown in place by what the repository does with it, not by what a control does
					if _, seen := fields[fo]; !seen && fo != "" && !c.P.IsControl(fn) {
						fields[fo] = c.Pos(st)
					}
				}
			}
		}
	}
	return out, fields, stores
}

func sameElemAddr(a, b ssa.Value) bool {
	x, ok1 := a.(*ssa.IndexAddr)
	y, ok2 := b.(*ssa.IndexAddr)
	if !ok1 || !ok2 || x.Index != y.Index {
		return false
	}
	return x.X == y.X || core.SameCell(x.X, y.X)
}

// aliasDeepOrigins is core.Origins continued across function boundaries inside lib/query: a parameter is replaced
// by the arguments of the callers (a function of the repository is not judged by what a control passes), the
// result of a helper by the values the helper returns. Leaves that cannot be followed stay as they are.
func aliasDeepOrigins(c *Ctx, v ssa.Value, throughSlice bool) []ssa.Value {
	var out []ssa.Value
	seen := map[ssa.Value]bool{}
	work := []ssa.Value{v}
	steps := 0
	for len(work) > 0 && steps < 400 {
		steps++
		x := work[0]
		work = work[1:]
		for _, o := range core.Origins(x, throughSlice) {
			if seen[o] {
				continue
			}
			seen[o] = true
			var next []ssa.Value
			switch y := o.(type) {
			case *ssa.Parameter:
				fn := y.Parent()
				idx := -1
				for i, q := range fn.Params {
					if q == y {
						idx = i
					}
				}
				if idx < 0 || !c.P.InPkg(fn, "lib/query", core.ControlPkg) {
					break
				}
				for _, e := range c.P.RealCallers(fn) {
					if e.Site == nil {
						continue
					}
					cc := e.Site.Common()
					args := cc.Args
					if cc.IsInvoke() {
						args = append([]ssa.Value{cc.Value}, args...)
					}
					if len(args) == len(fn.Params) {
						next = append(next, args[idx])
					}
				}
			case *ssa.Call, *ssa.Extract:
				call, idx, ok := core.ExtractOf(y)
				if !ok {
					break
				}
				g := core.StaticCallee(call)
				if g == nil || g.Blocks == nil || !c.P.InPkg(g, "lib/query", core.ControlPkg) {
					break
				}
				next = core.ReturnedValues(g, idx)
			}
			if len(next) == 0 {
				out = append(out, o)
				continue
			}
			work = append(work, next...)
		}
	}
	return out
}

// aliasStructOf: the struct type behind a pointer to a named struct type.
func aliasStructOf(t types.Type) *types.Struct {
	p, ok := t.Underlying().(*types.Pointer)
	if !ok {
		return nil
	}
	st, _ := p.Elem().Underlying().(*types.Struct)
	return st
}

// aliasFieldReassigned: after the whole-struct copy `cp`, fn stores something else into field #field of the same
// new object (on some path that the copy reaches — the usual "copy, then replace what must not be shared").
func aliasFieldReassigned(fn *ssa.Function, fresh map[ssa.Value]bool, growth map[*ssa.Store]bool, cp *ssa.Store, field int) bool {
	target := core.Origins(cp.Addr, false)
	for _, b := range fn.Blocks {
		for _, in := range b.Instrs {
			st, ok := in.(*ssa.Store)
			if !ok || st == cp {
				continue
			}
			fa, ok := st.Addr.(*ssa.FieldAddr)
			if !ok || fa.Field != field || !isFresh(fresh, fa.X) {
				continue
			}
			same := false
			for _, o := range core.Origins(fa.X, false) {
				for _, t := range target {
					if o == t {
						same = true
					}
				}
			}
			if !same {
				continue
			}
			if growth[st] {
				continue // grown, not replaced
			}
			val := st.Val
			for {
				if sl, ok := val.(*ssa.Slice); ok && sl.Max == nil {
					val = sl.X
				} else if ct, ok := val.(*ssa.ChangeType); ok {
					val = ct.X
				} else {
					break
				}
			}
			if u, ok := val.(*ssa.UnOp); ok && u.Op == token.MUL {
				if da, ok := u.X.(*ssa.FieldAddr); ok && da.Field == field {
					continue // the same slice again (its own, or the donor's by plain assignment)
				}
			}
			if core.Reachable(cp, st, nil) {
				return true
			}
		}
	}
	return false
}

// severalPieces: the two-index slice expression sl of the allocation slab is evaluated for more than one piece.
func severalPieces(sl *ssa.Slice, slab *ssa.MakeSlice, distinct int) bool {
	if distinct >= 2 {
		return true
	}
	pieces := 0
	for _, r := range *slab.Referrers() {
		if _, ok := r.(*ssa.Slice); ok {
			pieces++
		}
	}
	if pieces >= 2 {
		return true
	}
	if sl.Parent() != slab.Parent() {
		// another function (a closure that captured the allocation, a helper that was handed it): it runs once per
		// piece when the piece lies at a variable offset, or when the expression is in a loop of that function
		if inLoop(sl) {
			return true
		}
		if sl.Low == nil {
			return false
		}
		_, isConst := sl.Low.(*ssa.Const)
		return !isConst
	}
	// same function: in a loop that does not make a new allocation on every round
	for _, l := range core.NaturalLoops(sl.Parent()) {
		if l.Blocks[sl.Block()] && !l.Blocks[slab.Block()] {
			return true
		}
	}
	return false
}

func ruleAlias1(c *Ctx) {
	grown, grownFields, growth := appendGrownTypes(c)
	if len(grown) == 0 {
		c.Unknown("append-grown types", "-", "cannot-analyse: no named slice type of lib/query is grown in place with append")
		return
	}
	var names []string
	for n := range grown {
		names = append(names, n)
	}
	sort.Strings(names)
	var fnames []string
	for n := range grownFields {
		fnames = append(fnames, n)
	}
	sort.Strings(fnames)
	typeName := func(t types.Type) string {
		if n, ok := t.(*types.Named); ok && n.Obj().Pkg() != nil {
			return core.Short(n.Obj().Pkg().Path()) + "." + n.Obj().Name()
		}
		return ""
	}
	n := 0
	// (b) candidates are collected first: how many different pieces are cut out of one allocation is part of the test
	type slabCand struct {
		fn   *ssa.Function
		st   *ssa.Store
		sl   *ssa.Slice
		slab *ssa.MakeSlice
		tn   string
	}
	var cands []slabCand
	// the two-index slice expressions of a grown type whose operand is (part of) an allocation made in lib/query
	piecesOf := map[*ssa.MakeSlice]map[*ssa.Slice]bool{}
	slabOf := map[*ssa.Slice][]*ssa.MakeSlice{}
	for _, fn := range c.P.FuncsIn(true, "lib/query") {
		for _, b := range fn.Blocks {
			for _, in := range b.Instrs {
				sl, ok := in.(*ssa.Slice)
				if !ok || sl.Max != nil || sl.High == nil {
					continue
				}
				if _, isGrown := grown[typeName(sl.Type())]; !isGrown {
					continue
				}
				for _, oo := range aliasDeepOrigins(c, sl.X, true) {
					slab, ok := oo.(*ssa.MakeSlice)
					if !ok {
						continue
					}
					if piecesOf[slab] == nil {
						piecesOf[slab] = map[*ssa.Slice]bool{}
					}
					piecesOf[slab][sl] = true
					slabOf[sl] = append(slabOf[sl], slab)
				}
			}
		}
	}
	for _, fn := range c.P.FuncsIn(true, "lib/query") {
		fresh := freshObjects(fn)
		ka := 0
		for _, b := range fn.Blocks {
			for _, in := range b.Instrs {
				st, ok := in.(*ssa.Store)
				if !ok {
					continue
				}
				tn := typeName(st.Val.Type())
				_, isGrown := grown[tn]
				// (a) fresh.F = donor.F, and the new object can reach code that appends to its F
				if fa, ok := st.Addr.(*ssa.FieldAddr); ok && isFresh(fresh, fa.X) {
					what, eg := tn+" values are", grown[tn]
					if !isGrown {
						if pos, ok := grownFields[core.FieldOwner(fa)]; ok {
							what, eg = "the field "+core.FieldOwner(fa)+" is", pos
						} else {
							what = ""
						}
					}
					// donor.F, donor.F[:], donor.F[:n] all come with the donor's spare capacity; donor.F[:n:n] does not
					val := st.Val
					for {
						if sl, ok := val.(*ssa.Slice); ok && sl.Max == nil {
							val = sl.X
						} else if ct, ok := val.(*ssa.ChangeType); ok {
							val = ct.X
						} else {
							break
						}
					}
					if u, ok := val.(*ssa.UnOp); ok && what != "" && u.Op == token.MUL {
						if da, ok := u.X.(*ssa.FieldAddr); ok && !isFresh(fresh, da.X) {
							sink := appendReachable(c, growth, fa.X, core.FieldOwner(fa))
							if sink == "" {
								continue
							}
							ka++
							n++
							c.Touch(fn)
							label := tn
							if !isGrown {
								label = core.FieldOwner(fa)
							}
							key := c.KeyAt(fn, fmt.Sprintf("alias #%d: %s of a new object taken from another object's field", ka, label))
							c.Bad(key, c.Pos(st), "the new object reaches "+sink+"; "+fmt.Sprintf("the new object's %s is the other object's slice itself (same backing array, same spare capacity); %s grown in place (e.g. %s), so an append through the new object writes into capacity the donor — and every sibling built from it — also owns: copy it or cap it with a three-index slice", core.FieldName(fa), what, eg))
							continue
						}
					}
				}
				// (a') *fresh = *donor: every slice field comes along, unless the function gives the new object its own
				if u, ok := st.Val.(*ssa.UnOp); ok && u.Op == token.MUL && isFresh(fresh, st.Addr) {
					if sty := aliasStructOf(st.Addr.Type()); sty != nil && !isFresh(fresh, u.X) && core.NamedOf(st.Addr.Type()) != "" {
						for i := 0; i < sty.NumFields(); i++ {
							owner := core.NamedOf(st.Addr.Type()) + "." + sty.Field(i).Name()
							eg, isF := grownFields[owner]
							if !isF {
								if eg, isF = grown[typeName(sty.Field(i).Type())]; !isF {
									continue
								}
							}
							if aliasFieldReassigned(fn, fresh, growth, st, i) {
								continue
							}
							sink := appendReachable(c, growth, st.Addr, owner)
							if sink == "" {
								continue
							}
							ka++
							n++
							c.Touch(fn)
							key := c.KeyAt(fn, fmt.Sprintf("alias #%d: %s of a new object taken from another object's field", ka, owner))
							c.Bad(key, c.Pos(st), "the new object reaches "+sink+"; "+fmt.Sprintf("the new object is a copy of the whole struct, so its %s is the other object's slice itself (same backing array, same spare capacity), and the function does not replace it afterwards; %s is grown in place (e.g. %s), so an append through the new object writes into capacity the donor — and every sibling built from it — also owns: copy it or cap it with a three-index slice", sty.Field(i).Name(), owner, eg))
						}
					}
				}
				if !isGrown {
					continue
				}
				// (b) slab: a two-index slice of an allocation stored as an element / field / variable
				if len(slabOf) == 0 {
					continue
				}
				for _, o := range aliasDeepOrigins(c, st.Val, false) {
					sl, ok := o.(*ssa.Slice)
					if !ok {
						continue
					}
					for _, slab := range slabOf[sl] {
						cands = append(cands, slabCand{fn, st, sl, slab, tn})
					}
				}
			}
		}
	}
	reported := map[*ssa.Slice]bool{}
	kb := map[*ssa.Function]int{}
	for _, cd := range cands {
		if reported[cd.sl] || !severalPieces(cd.sl, cd.slab, len(piecesOf[cd.slab])) {
			continue
		}
		reported[cd.sl] = true
		kb[cd.fn]++
		n++
		c.Touch(cd.fn)
		tn := cd.tn
		key := c.KeyAt(cd.fn, fmt.Sprintf("slab #%d: %s carved out of one allocation", kb[cd.fn], tn))
		where := ""
		if cd.sl.Parent() != cd.fn {
			where = fmt.Sprintf(" (the slice expression is at %s)", c.Pos(cd.sl))
		}
		c.Bad(key, c.Pos(cd.st), fmt.Sprintf("pieces of one allocation (made at %s) are handed out as %s values with a two-index slice expression%s: the capacity of each piece runs into the next piece, and %s values are grown in place (e.g. %s) — an append to one record overwrites the first cells of its neighbour; use slab[lo:hi:hi]", c.Pos(cd.slab), tn, where, tn, grown[tn]))
	}
	c.Ok("append-grown slice types: "+strings.Join(names, ", "), "-", fmt.Sprintf("%d types and %d struct fields (%s) are grown in place; %d capacity-sharing stores found", len(names), len(fnames), strings.Join(fnames, ", "), n))
}

// freshObjects: pointers to objects allocated in fn (Alloc of a struct, or the result of a New… constructor call).
func freshObjects(fn *ssa.Function) map[ssa.Value]bool {
	out := map[ssa.Value]bool{}
	for _, b := range fn.Blocks {
		for _, in := range b.Instrs {
			switch x := in.(type) {
			case *ssa.Alloc:
				if x.Heap {
					out[x] = true
				}
			case *ssa.Call:
				if f := core.StaticCallee(x); f != nil && strings.HasPrefix(f.Name(), "New") {
					if _, ok := x.Type().(*types.Pointer); ok {
						out[x] = true
					}
				}
			}
		}
	}
	return out
}

func isFresh(fresh map[ssa.Value]bool, v ssa.Value) bool {
	os := core.Origins(v, false)
	if len(os) == 0 {
		return false
	}
	for _, o := range os {
		if !fresh[o] {
			return false
		}
	}
	return true
}

// appendReachable follows the object `start` (a pointer) through lib/query — results to callers, arguments to
// parameters, φ and cells, and, field-based, through every struct field it is stored into — and returns a
// description of a place where the slice field `owner` of the followed object is grown in place, or "".
func appendReachable(c *Ctx, growth map[*ssa.Store]bool, start ssa.Value, owner string) string {
	tracked := map[ssa.Value]bool{}
	heapFields := map[string]bool{} // "pkg.Type.field" the object was stored into
	var work []ssa.Value
	add := func(v ssa.Value) {
		if v != nil && !tracked[v] {
			tracked[v] = true
			work = append(work, v)
		}
	}
	for _, o := range core.Origins(start, false) {
		add(o)
	}
	add(start)
	fns := c.P.FuncsIn(true, "lib/query")
	loadsOf := func(field string) []ssa.Value {
		var out []ssa.Value
		for _, fn := range fns {
			for _, b := range fn.Blocks {
				for _, in := range b.Instrs {
					switch x := in.(type) {
					case *ssa.UnOp:
						if fa, ok := x.X.(*ssa.FieldAddr); ok && x.Op == token.MUL && core.FieldOwner(fa) == field {
							out = append(out, x)
						}
					case *ssa.Field:
						if core.FieldOwner(x) == field {
							out = append(out, x)
						}
					}
				}
			}
		}
		return out
	}
	steps := 0
	for len(work) > 0 && steps < 5000 {
		steps++
		v := work[0]
		work = work[1:]
		if v.Referrers() == nil {
			continue
		}
		for _, r := range *v.Referrers() {
			switch x := r.(type) {
			case *ssa.Phi:
				add(x)
			case *ssa.ChangeType:
				add(x)
			case *ssa.MakeInterface:
				add(x)
			case *ssa.Store:
				if x.Val != v {
					continue
				}
				switch a := x.Addr.(type) {
				case *ssa.Alloc:
					for _, rr := range *a.Referrers() {
						if u, ok := rr.(*ssa.UnOp); ok && u.Op == token.MUL {
							add(u)
						}
					}
				case *ssa.FieldAddr:
					f := core.FieldOwner(a)
					if !heapFields[f] {
						heapFields[f] = true
						for _, l := range loadsOf(f) {
							add(l)
						}
					}
				}
			case *ssa.FieldAddr:
				if x.X == v && core.FieldOwner(x) == owner {
					// a store of append(…)/appender result into tracked.F
					for _, rr := range *x.Referrers() {
						if st, ok := rr.(*ssa.Store); ok && st.Addr == ssa.Value(x) {
							if growth[st] {
								return fmt.Sprintf("%s, which grows its %s in place (%s)", c.P.Name(x.Parent()), core.FieldName(x), c.Pos(st))
							}
						}
					}
				}
			case *ssa.Return:
				fn := x.Parent()
				for _, e := range c.P.Callers(fn) {
					if e.Site == nil {
						continue
					}
					if cv, ok := e.Site.(ssa.Value); ok {
						if _, isTuple := cv.Type().(*types.Tuple); isTuple {
							for _, rr := range *cv.Referrers() {
								if ex, ok := rr.(*ssa.Extract); ok && ex.Index < len(x.Results) && x.Results[ex.Index] == v {
									add(ex)
								}
							}
						} else {
							add(cv)
						}
					}
				}
			case ssa.CallInstruction:
				for _, g := range c.P.Callees(x) {
					if g == nil || g.Blocks == nil || !c.P.InPkg(g, "lib/query", core.ControlPkg) {
						continue
					}
					args := x.Common().Args
					params := g.Params
					if x.Common().IsInvoke() {
						if len(params) > 0 && x.Common().Value == v {
							add(params[0])
						}
						params = params[1:]
					}
					for i, a := range args {
						if a == v && i < len(params) {
							add(params[i])
						}
					}
				}
			case *ssa.MakeClosure:
				cf, _ := x.Fn.(*ssa.Function)
				for i, b := range x.Bindings {
					if b == v && cf != nil && i < len(cf.FreeVars) {
						add(cf.FreeVars[i])
					}
				}
			}
		}
	}
	return ""
}

// R-PAR-12 --------------------------------------------------------------------

func init() {
	Register(&Rule{ID: "R-PAR-12", Props: []string{"C12", "C03"}, Floor: 1,
		Doc:      "per-worker results are folded before they are acted on: where worker goroutines fill the slots xs[thIdx] of a local slice of slices and the parent combines them afterwards, the loop over the workers' slots only updates loop-carried accumulators (and may break) — when that loop is nested inside a loop over the items (a per-item decision across the workers) it does not append to or store into a result collection, because an effect taken inside it happens once per worker slot and makes the outcome depend on how the rows were split among the workers (FULL OUTER JOIN: a right row is unmatched only if NO worker matched it)",
		Controls: []string{"CtlActsPerWorkerSlot"},
		Run:      rulePar12})
}

func rulePar12(c *Ctx) {
	n := 0
	for _, parent := range c.P.FuncsIn(true, "lib/query") {
		if parent.Parent() != nil || len(parent.AnonFuncs) == 0 {
			continue
		}
		// slot collections: a local make([]S, …) with S a slice type, whose elements are stored inside a closure of
		// this function at an index that is a parameter of the closure (the worker's number) — the closure is the
		// worker body, however it is started (go statement here, or a helper that runs it)
		slots := map[ssa.Value]bool{}
		for _, cl := range parent.AnonFuncs {
			for _, f := range funcAndClosures(cl) {
				for _, b := range f.Blocks {
					for _, in := range b.Instrs {
						st, ok := in.(*ssa.Store)
						if !ok {
							continue
						}
						ia, ok := st.Addr.(*ssa.IndexAddr)
						if !ok {
							continue
						}
						sl, ok := ia.X.Type().Underlying().(*types.Slice)
						if !ok {
							continue
						}
						if _, inner := sl.Elem().Underlying().(*types.Slice); !inner {
							continue
						}
						byParam := false
						for _, o := range core.Origins(ia.Index, false) {
							if p, ok := o.(*ssa.Parameter); ok && p.Parent() == cl {
								byParam = true
							}
						}
						if !byParam {
							continue
						}
						for _, o := range core.Origins(ia.X, true) {
							if ms, ok := o.(*ssa.MakeSlice); ok && ms.Parent() == parent {
								slots[ms] = true
							}
						}
					}
				}
			}
		}
		if len(slots) == 0 {
			continue
		}
		// the slot collection is followed from the function that makes it into the helpers it is handed to
		type item struct {
			fn       *ssa.Function
			coll     ssa.Value
			fromLoop bool
			depth    int
		}
		var work []item
		for sv := range slots {
			work = append(work, item{parent, sv, false, 0})
		}
		sort.Slice(work, func(i, j int) bool { return c.P.Pos(work[i].coll.Pos()) < c.P.Pos(work[j].coll.Pos()) })
		visited := map[string]bool{}
		for len(work) > 0 {
			it := work[0]
			work = work[1:]
			vk := fmt.Sprintf("%p/%p/%v", it.fn, it.coll, it.fromLoop)
			if visited[vk] || it.depth > 3 {
				continue
			}
			visited[vk] = true
			isColl := func(x ssa.Value) bool {
				for _, o := range core.Origins(x, true) {
					if o == it.coll {
						return true
					}
				}
				return false
			}
			loops := core.NaturalLoops(it.fn)
			// hand-over to helpers
			for _, call := range core.Calls(it.fn) {
				g := call.Common().StaticCallee()
				if g == nil || g.Blocks == nil || !c.P.InPkg(g, "lib/query", core.ControlPkg) {
					continue
				}
				for i, a := range call.Common().Args {
					if isColl(a) && i < len(g.Params) {
						inLp := it.fromLoop || core.InnermostLoop(loops, call.Block()) != nil
						work = append(work, item{g, g.Params[i], inLp, it.depth + 1})
					}
				}
			}
			k := 0
			for _, l := range loops {
				// the loop ranges over the slot collection: it reads coll[w] with w the loop's induction variable
				found := false
				for b := range l.Blocks {
					for _, in := range b.Instrs {
						var x, idx ssa.Value
						switch y := in.(type) {
						case *ssa.IndexAddr:
							x, idx = y.X, y.Index
						case *ssa.Index:
							x, idx = y.X, y.Index
						default:
							continue
						}
						if !isColl(x) {
							continue
						}
						if bo, ok := idx.(*ssa.BinOp); ok { // range loops index with φ+1
							idx = bo.X
						}
						if ph, ok := idx.(*ssa.Phi); ok && ph.Block() == l.Header {
							found = true
						}
					}
				}
				if !found {
					continue
				}
				// per-item decision: the loop over the slots is nested inside a loop over the items — in this function
				// or in the caller that hands the slots over from inside a loop (a loop over the slots that is not
				// nested concatenates or merges whole slots, which is the fold itself)
				nested := it.fromLoop
				for _, o := range loops {
					if o != l && o.Blocks[l.Header] && len(o.Blocks) > len(l.Blocks) {
						nested = true
					}
				}
				if !nested {
					continue
				}
				k++
				n++
				c.Touch(it.fn)
				key := c.KeyAt(it.fn, fmt.Sprintf("loop #%d over the workers' result slots only folds", k))
				bad := ""
				scan := map[*ssa.BasicBlock]bool{}
				for b := range l.Blocks {
					scan[b] = true
				}
				for _, e := range l.ExitEdges(false) {
					for x := e[1]; x != nil && !scan[x] && len(x.Preds) == 1; {
						scan[x] = true
						if len(x.Succs) != 1 {
							break
						}
						x = x.Succs[0]
					}
				}
				for b := range scan {
					for _, in := range b.Instrs {
						switch y := in.(type) {
						case *ssa.Call:
							if bi, ok := y.Call.Value.(*ssa.Builtin); ok && bi.Name() == "append" {
								bad = fmt.Sprintf("append at %s", c.Pos(in))
							}
						case *ssa.Store:
							if _, local := y.Addr.(*ssa.Alloc); !local {
								bad = fmt.Sprintf("store at %s", c.Pos(in))
							}
						case *ssa.MapUpdate:
							bad = fmt.Sprintf("map update at %s", c.Pos(in))
						}
					}
				}
				c.Check(bad == "", key, c.Pos(l.Header.Instrs[0]), "only loop-carried accumulators are updated inside the loop", "an effect is taken inside the loop over the per-worker slots ("+bad+"): it happens once per worker whose slot satisfies the test, so the result depends on the number of goroutines the rows were split over")
			}
		}
	}
	if n == 0 {
		c.Unknown("worker slots", "-", "cannot-analyse: no loop over per-worker result slots found (OuterJoin's match lists are expected)")
	}
}
