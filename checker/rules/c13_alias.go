package rules

import (
	"fmt"
	"go/token"
	"go/types"
	"sort"
	"strings"

	"golang.org/x/tools/go/ssa"

	"verif/checker/core"
)

// R-ALIAS-1: spare capacity is never shared.
//
// A slice that some code grows in place with `x = append(x, …)` (or through a
// helper that appends to its parameter and returns it) must own the capacity
// behind its length. Two ways of handing out capacity that belongs to someone
// else are recognised:
//   (a) alias: a freshly built object gets such a slice by plain assignment from
//       another object's field (no copy, no three-index cap), and
//   (b) slab: several such slices are carved out of one allocation with a
//       two-index slice expression, so each one's capacity runs into the next.
// An append then writes into memory another owner reads — a data race when the
// owners are worked on by different goroutines, a corrupted neighbour otherwise.

func init() {
	Register(&Rule{ID: "R-ALIAS-1", Props: []string{"C13", "C03", "C14", "C12"}, Floor: 1,
		Doc:      "spare capacity is never shared: for every named slice type of lib/query that is grown in place (a location is assigned append(<its own value>, …), directly or through a helper that appends to its parameter and returns it — today Header, Record, RecordSet …), (a) a freshly built object never receives such a slice by plain assignment from another object's field without a copy or a three-index cap, when the new object is then handed to code that may append, and (b) slices of such a type are never carved out of one shared allocation with a two-index slice expression (each one's capacity would run into its neighbour) — an append through one owner would otherwise write what another owner reads (genuine defect repaired: the per-group views of aggregate evaluation shared the grouped view's header capacity across worker goroutines)",
		Controls: []string{"CtlSlabRecords", "CtlAliasedHeader"},
		Run:      ruleAlias1})
}

// appendGrownTypes: named slice types T such that somewhere `loc = append(load loc, …)` with loc of type T, or
// loc = f(load loc, …) where f returns append(param, …).
func appendGrownTypes(c *Ctx) map[string]string {
	out := map[string]string{}
	// helpers that return append(param…)
	appenders := map[*ssa.Function]int{}
	for _, fn := range c.P.FuncsIn(true, "lib/query") {
		if fn.Signature.Results().Len() == 0 {
			continue
		}
		for _, r := range core.Returns(fn) {
			for _, o := range core.Origins(r.Results[0], false) {
				if call, ok := o.(*ssa.Call); ok {
					if b, ok := call.Call.Value.(*ssa.Builtin); ok && b.Name() == "append" {
						for _, oo := range core.Origins(call.Call.Args[0], true) {
							if p, ok := oo.(*ssa.Parameter); ok {
								for i, q := range fn.Params {
									if q == p {
										appenders[fn] = i
									}
								}
							}
						}
					}
				}
			}
		}
	}
	named := func(t types.Type) string {
		if n, ok := t.(*types.Named); ok {
			if _, isSlice := n.Underlying().(*types.Slice); isSlice && n.Obj().Pkg() != nil {
				return core.Short(n.Obj().Pkg().Path()) + "." + n.Obj().Name()
			}
		}
		return ""
	}
	for _, fn := range c.P.FuncsIn(true, "lib/query") {
		for _, b := range fn.Blocks {
			for _, in := range b.Instrs {
				st, ok := in.(*ssa.Store)
				if !ok {
					continue
				}
				n := named(st.Val.Type())
				if n == "" {
					continue
				}
				var grown ssa.Value
				switch x := st.Val.(type) {
				case *ssa.Call:
					if bi, ok := x.Call.Value.(*ssa.Builtin); ok && bi.Name() == "append" {
						grown = x.Call.Args[0]
					} else if f := core.StaticCallee(x); f != nil {
						if i, ok := appenders[f]; ok && i < len(x.Call.Args) {
							grown = x.Call.Args[i]
						}
					}
				case *ssa.Extract:
					if call, ok := x.Tuple.(*ssa.Call); ok && x.Index == 0 {
						if f := core.StaticCallee(call); f != nil {
							if i, ok := appenders[f]; ok && i < len(call.Call.Args) {
								grown = call.Call.Args[i]
							}
						}
					}
				}
				if grown == nil {
					continue
				}
				// grown is a load of the location stored to
				if u, ok := grown.(*ssa.UnOp); ok && u.Op == token.MUL && (u.X == st.Addr || core.SameAddr(u.X, st.Addr) || sameElemAddr(u.X, st.Addr)) {
					if _, seen := out[n]; !seen {
						out[n] = c.Pos(st)
					}
				}
			}
		}
	}
	return out
}

func sameElemAddr(a, b ssa.Value) bool {
	x, ok1 := a.(*ssa.IndexAddr)
	y, ok2 := b.(*ssa.IndexAddr)
	if !ok1 || !ok2 || x.Index != y.Index {
		return false
	}
	return x.X == y.X || core.SameCell(x.X, y.X)
}

func ruleAlias1(c *Ctx) {
	grown := appendGrownTypes(c)
	if len(grown) == 0 {
		c.Unknown("append-grown types", "-", "cannot-analyse: no named slice type of lib/query is grown in place with append")
		return
	}
	var names []string
	for n := range grown {
		names = append(names, n)
	}
	sort.Strings(names)
	typeName := func(t types.Type) string {
		if n, ok := t.(*types.Named); ok && n.Obj().Pkg() != nil {
			return core.Short(n.Obj().Pkg().Path()) + "." + n.Obj().Name()
		}
		return ""
	}
	n := 0
	for _, fn := range c.P.FuncsIn(true, "lib/query") {
		fresh := freshObjects(fn)
		ka, kb := 0, 0
		for _, b := range fn.Blocks {
			for _, in := range b.Instrs {
				st, ok := in.(*ssa.Store)
				if !ok {
					continue
				}
				tn := typeName(st.Val.Type())
				if _, isGrown := grown[tn]; !isGrown {
					continue
				}
				// (a) fresh.F = donor.F, and the new object can reach code that appends to its F
				if fa, ok := st.Addr.(*ssa.FieldAddr); ok && isFresh(fresh, fa.X) {
					if u, ok := st.Val.(*ssa.UnOp); ok && u.Op == token.MUL {
						if da, ok := u.X.(*ssa.FieldAddr); ok && !isFresh(fresh, da.X) {
							sink := appendReachable(c, fa.X, core.FieldOwner(fa))
							if sink == "" {
								continue
							}
							ka++
							n++
							c.Touch(fn)
							key := c.KeyAt(fn, fmt.Sprintf("alias #%d: %s of a new object taken from another object's field", ka, tn))
							c.Bad(key, c.Pos(st), "the new object reaches "+sink+"; "+fmt.Sprintf("the new object's %s is the other object's slice itself (same backing array, same spare capacity); %s values are grown in place (e.g. %s), so an append through the new object writes into capacity the donor — and every sibling built from it — also owns: copy it or cap it with a three-index slice", core.FieldName(fa), tn, grown[tn]))
							continue
						}
					}
				}
				// (b) slab: two-index slice of a local allocation stored as an element / field
				sl, ok := st.Val.(*ssa.Slice)
				if !ok || sl.Max != nil || sl.High == nil {
					continue
				}
				slab, ok := sl.X.(*ssa.MakeSlice)
				if !ok {
					if ct, ok2 := sl.X.(*ssa.ChangeType); ok2 {
						slab, ok = ct.X.(*ssa.MakeSlice)
					}
				}
				if !ok || slab == nil {
					continue
				}
				// several pieces: the slice expression sits in a loop, or the slab is sliced more than once
				pieces := 0
				for _, r := range *slab.Referrers() {
					if _, ok := r.(*ssa.Slice); ok {
						pieces++
					}
				}
				if pieces < 2 && !inLoop(sl) {
					continue
				}
				kb++
				n++
				c.Touch(fn)
				key := c.KeyAt(fn, fmt.Sprintf("slab #%d: %s carved out of one allocation", kb, tn))
				c.Bad(key, c.Pos(st), fmt.Sprintf("pieces of one allocation (made at %s) are handed out as %s values with a two-index slice expression: the capacity of each piece runs into the next piece, and %s values are grown in place (e.g. %s) — an append to one record overwrites the first cells of its neighbour; use slab[lo:hi:hi]", c.Pos(slab), tn, tn, grown[tn]))
			}
		}
	}
	c.Ok("append-grown slice types: "+strings.Join(names, ", "), "-", fmt.Sprintf("%d types are grown in place; %d capacity-sharing stores found", len(names), n))
}

// freshObjects: pointers to objects allocated in fn (Alloc of a struct, or the result of a New… constructor call).
func freshObjects(fn *ssa.Function) map[ssa.Value]bool {
	out := map[ssa.Value]bool{}
	for _, b := range fn.Blocks {
		for _, in := range b.Instrs {
			switch x := in.(type) {
			case *ssa.Alloc:
				if x.Heap {
					out[x] = true
				}
			case *ssa.Call:
				if f := core.StaticCallee(x); f != nil && strings.HasPrefix(f.Name(), "New") {
					if _, ok := x.Type().(*types.Pointer); ok {
						out[x] = true
					}
				}
			}
		}
	}
	return out
}

func isFresh(fresh map[ssa.Value]bool, v ssa.Value) bool {
	os := core.Origins(v, false)
	if len(os) == 0 {
		return false
	}
	for _, o := range os {
		if !fresh[o] {
			return false
		}
	}
	return true
}

// appendReachable follows the object `start` (a pointer) through lib/query — results to callers, arguments to
// parameters, φ and cells, and, field-based, through every struct field it is stored into — and returns a
// description of a place where the slice field `owner` of the followed object is grown in place, or "".
func appendReachable(c *Ctx, start ssa.Value, owner string) string {
	tracked := map[ssa.Value]bool{}
	heapFields := map[string]bool{} // "pkg.Type.field" the object was stored into
	var work []ssa.Value
	add := func(v ssa.Value) {
		if v != nil && !tracked[v] {
			tracked[v] = true
			work = append(work, v)
		}
	}
	for _, o := range core.Origins(start, false) {
		add(o)
	}
	add(start)
	fns := c.P.FuncsIn(true, "lib/query")
	loadsOf := func(field string) []ssa.Value {
		var out []ssa.Value
		for _, fn := range fns {
			for _, b := range fn.Blocks {
				for _, in := range b.Instrs {
					switch x := in.(type) {
					case *ssa.UnOp:
						if fa, ok := x.X.(*ssa.FieldAddr); ok && x.Op == token.MUL && core.FieldOwner(fa) == field {
							out = append(out, x)
						}
					case *ssa.Field:
						if core.FieldOwner(x) == field {
							out = append(out, x)
						}
					}
				}
			}
		}
		return out
	}
	steps := 0
	for len(work) > 0 && steps < 5000 {
		steps++
		v := work[0]
		work = work[1:]
		if v.Referrers() == nil {
			continue
		}
		for _, r := range *v.Referrers() {
			switch x := r.(type) {
			case *ssa.Phi:
				add(x)
			case *ssa.ChangeType:
				add(x)
			case *ssa.MakeInterface:
				add(x)
			case *ssa.Store:
				if x.Val != v {
					continue
				}
				switch a := x.Addr.(type) {
				case *ssa.Alloc:
					for _, rr := range *a.Referrers() {
						if u, ok := rr.(*ssa.UnOp); ok && u.Op == token.MUL {
							add(u)
						}
					}
				case *ssa.FieldAddr:
					f := core.FieldOwner(a)
					if !heapFields[f] {
						heapFields[f] = true
						for _, l := range loadsOf(f) {
							add(l)
						}
					}
				}
			case *ssa.FieldAddr:
				if x.X == v && core.FieldOwner(x) == owner {
					// a store of append(…)/appender result into tracked.F
					for _, rr := range *x.Referrers() {
						if st, ok := rr.(*ssa.Store); ok && st.Addr == ssa.Value(x) {
							if isGrowth(st.Val) {
								return fmt.Sprintf("%s, which grows its %s in place (%s)", c.P.Name(x.Parent()), core.FieldName(x), c.Pos(st))
							}
						}
					}
				}
			case *ssa.Return:
				fn := x.Parent()
				for _, e := range c.P.Callers(fn) {
					if e.Site == nil {
						continue
					}
					if cv, ok := e.Site.(ssa.Value); ok {
						if _, isTuple := cv.Type().(*types.Tuple); isTuple {
							for _, rr := range *cv.Referrers() {
								if ex, ok := rr.(*ssa.Extract); ok && ex.Index < len(x.Results) && x.Results[ex.Index] == v {
									add(ex)
								}
							}
						} else {
							add(cv)
						}
					}
				}
			case ssa.CallInstruction:
				for _, g := range c.P.Callees(x) {
					if g == nil || g.Blocks == nil || !c.P.InPkg(g, "lib/query", core.ControlPkg) {
						continue
					}
					args := x.Common().Args
					params := g.Params
					if x.Common().IsInvoke() {
						if len(params) > 0 && x.Common().Value == v {
							add(params[0])
						}
						params = params[1:]
					}
					for i, a := range args {
						if a == v && i < len(params) {
							add(params[i])
						}
					}
				}
			case *ssa.MakeClosure:
				cf, _ := x.Fn.(*ssa.Function)
				for i, b := range x.Bindings {
					if b == v && cf != nil && i < len(cf.FreeVars) {
						add(cf.FreeVars[i])
					}
				}
			}
		}
	}
	return ""
}

// isGrowth: append(…) or the result of a helper call (the store sites were selected by appendGrownTypes' criteria).
func isGrowth(v ssa.Value) bool {
	switch x := v.(type) {
	case *ssa.Call:
		if b, ok := x.Call.Value.(*ssa.Builtin); ok {
			return b.Name() == "append"
		}
		return true
	case *ssa.Extract:
		_, ok := x.Tuple.(*ssa.Call)
		return ok
	}
	return false
}

// R-PAR-12 --------------------------------------------------------------------

func init() {
	Register(&Rule{ID: "R-PAR-12", Props: []string{"C12", "C03"}, Floor: 1,
		Doc:      "per-worker results are folded before they are acted on: where worker goroutines fill the slots xs[thIdx] of a local slice of slices and the parent combines them afterwards, the loop over the workers' slots only updates loop-carried accumulators (and may break) — when that loop is nested inside a loop over the items (a per-item decision across the workers) it does not append to or store into a result collection, because an effect taken inside it happens once per worker slot and makes the outcome depend on how the rows were split among the workers (FULL OUTER JOIN: a right row is unmatched only if NO worker matched it)",
		Controls: []string{"CtlActsPerWorkerSlot"},
		Run:      rulePar12})
}

func rulePar12(c *Ctx) {
	n := 0
	for _, parent := range c.P.FuncsIn(true, "lib/query") {
		if parent.Parent() != nil || len(parent.AnonFuncs) == 0 {
			continue
		}
		// slot collections: a local make([]S, …) with S a slice type, whose elements are stored inside a closure of
		// this function at an index that is a parameter of the closure (the worker's number) — the closure is the
		// worker body, however it is started (go statement here, or a helper that runs it)
		slots := map[ssa.Value]bool{}
		for _, cl := range parent.AnonFuncs {
			for _, f := range funcAndClosures(cl) {
				for _, b := range f.Blocks {
					for _, in := range b.Instrs {
						st, ok := in.(*ssa.Store)
						if !ok {
							continue
						}
						ia, ok := st.Addr.(*ssa.IndexAddr)
						if !ok {
							continue
						}
						sl, ok := ia.X.Type().Underlying().(*types.Slice)
						if !ok {
							continue
						}
						if _, inner := sl.Elem().Underlying().(*types.Slice); !inner {
							continue
						}
						byParam := false
						for _, o := range core.Origins(ia.Index, false) {
							if p, ok := o.(*ssa.Parameter); ok && p.Parent() == cl {
								byParam = true
							}
						}
						if !byParam {
							continue
						}
						for _, o := range core.Origins(ia.X, true) {
							if ms, ok := o.(*ssa.MakeSlice); ok && ms.Parent() == parent {
								slots[ms] = true
							}
						}
					}
				}
			}
		}
		if len(slots) == 0 {
			continue
		}
		// the slot collection is followed from the function that makes it into the helpers it is handed to
		type item struct {
			fn       *ssa.Function
			coll     ssa.Value
			fromLoop bool
			depth    int
		}
		var work []item
		for sv := range slots {
			work = append(work, item{parent, sv, false, 0})
		}
		sort.Slice(work, func(i, j int) bool { return c.P.Pos(work[i].coll.Pos()) < c.P.Pos(work[j].coll.Pos()) })
		visited := map[string]bool{}
		for len(work) > 0 {
			it := work[0]
			work = work[1:]
			vk := fmt.Sprintf("%p/%p/%v", it.fn, it.coll, it.fromLoop)
			if visited[vk] || it.depth > 3 {
				continue
			}
			visited[vk] = true
			isColl := func(x ssa.Value) bool {
				for _, o := range core.Origins(x, true) {
					if o == it.coll {
						return true
					}
				}
				return false
			}
			loops := core.NaturalLoops(it.fn)
			// hand-over to helpers
			for _, call := range core.Calls(it.fn) {
				g := call.Common().StaticCallee()
				if g == nil || g.Blocks == nil || !c.P.InPkg(g, "lib/query", core.ControlPkg) {
					continue
				}
				for i, a := range call.Common().Args {
					if isColl(a) && i < len(g.Params) {
						inLp := it.fromLoop || core.InnermostLoop(loops, call.Block()) != nil
						work = append(work, item{g, g.Params[i], inLp, it.depth + 1})
					}
				}
			}
			k := 0
			for _, l := range loops {
				// the loop ranges over the slot collection: it reads coll[w] with w the loop's induction variable
				found := false
				for b := range l.Blocks {
					for _, in := range b.Instrs {
						var x, idx ssa.Value
						switch y := in.(type) {
						case *ssa.IndexAddr:
							x, idx = y.X, y.Index
						case *ssa.Index:
							x, idx = y.X, y.Index
						default:
							continue
						}
						if !isColl(x) {
							continue
						}
						if bo, ok := idx.(*ssa.BinOp); ok { // range loops index with φ+1
							idx = bo.X
						}
						if ph, ok := idx.(*ssa.Phi); ok && ph.Block() == l.Header {
							found = true
						}
					}
				}
				if !found {
					continue
				}
				// per-item decision: the loop over the slots is nested inside a loop over the items — in this function
				// or in the caller that hands the slots over from inside a loop (a loop over the slots that is not
				// nested concatenates or merges whole slots, which is the fold itself)
				nested := it.fromLoop
				for _, o := range loops {
					if o != l && o.Blocks[l.Header] && len(o.Blocks) > len(l.Blocks) {
						nested = true
					}
				}
				if !nested {
					continue
				}
				k++
				n++
				c.Touch(it.fn)
				key := c.KeyAt(it.fn, fmt.Sprintf("loop #%d over the workers' result slots only folds", k))
				bad := ""
				scan := map[*ssa.BasicBlock]bool{}
				for b := range l.Blocks {
					scan[b] = true
				}
				for _, e := range l.ExitEdges(false) {
					for x := e[1]; x != nil && !scan[x] && len(x.Preds) == 1; {
						scan[x] = true
						if len(x.Succs) != 1 {
							break
						}
						x = x.Succs[0]
					}
				}
				for b := range scan {
					for _, in := range b.Instrs {
						switch y := in.(type) {
						case *ssa.Call:
							if bi, ok := y.Call.Value.(*ssa.Builtin); ok && bi.Name() == "append" {
								bad = fmt.Sprintf("append at %s", c.Pos(in))
							}
						case *ssa.Store:
							if _, local := y.Addr.(*ssa.Alloc); !local {
								bad = fmt.Sprintf("store at %s", c.Pos(in))
							}
						case *ssa.MapUpdate:
							bad = fmt.Sprintf("map update at %s", c.Pos(in))
						}
					}
				}
				c.Check(bad == "", key, c.Pos(l.Header.Instrs[0]), "only loop-carried accumulators are updated inside the loop", "an effect is taken inside the loop over the per-worker slots ("+bad+"): it happens once per worker whose slot satisfies the test, so the result depends on the number of goroutines the rows were split over")
			}
		}
	}
	if n == 0 {
		c.Unknown("worker slots", "-", "cannot-analyse: no loop over per-worker result slots found (OuterJoin's match lists are expected)")
	}
}
