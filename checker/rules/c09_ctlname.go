package rules

import (
	"fmt"
	"go/token"
	"go/types"
	"sort"
	"strings"

	"golang.org/x/tools/go/ssa"

	"verif/checker/core"
)

// R-LOCK-22 — the writer's search for read-lock files and the readers' naming
// of them are one naming scheme (C09: while a process reads a table none can
// start writing it).
//
// A read-lock file has a random part in its name, so the writer cannot probe
// one path: it lists the directory of the table and matches every entry against
// a prefix and a suffix. The prefix / suffix and the name the creators give the
// file are built at two places; each looks fine alone. When one of them gets a
// conditional piece (the hiding dot only for names that do not start with one),
// an added or dropped separator, or another suffix constant, the matcher
// answers "no reader" for every table the difference applies to, and the lock
// file is granted while the table is being read.
//
// Both sides are string concatenations over constants, the base name of the
// path parameter and opaque calls (the random part). The rule flattens them to
// token sequences (a Phi gives alternatives; a callee with one unconditional
// result is inlined, any other call is a token `f(args)` — two sides that go
// through the same helper therefore agree) and compares them.

func init() {
	Register(&Rule{ID: "R-LOCK-22", Props: []string{"C09"}, Floor: 1,
		Doc:      "matcher and creator of control-file names use one naming scheme: for every function of lib/file with a single bool result that lists a directory (role of R-LOCK-11; RLockExists must be among them) and compares the entry names with strings.HasPrefix / strings.HasSuffix, the prefix and suffix patterns — flattened to sequences of constants, path/filepath.Base(parameter) and opaque call tokens, a callee with a single unconditional result inlined, a Phi expanded into alternatives — are compared with the names of the creators: the calls from lib/file functions to a name builder (a lib/file function that returns path/filepath.Join(…, name)), the builder's name expression flattened with the call's arguments substituted. A creator belongs to the matcher when one of its alternatives ends with one of the matcher's suffixes; then EVERY alternative of the creator's name must start with every prefix pattern and, after the prefix, end with every suffix pattern (no overlap). A conditional piece on one side only, an added or dropped separator, or a different suffix constant is a violation; a matcher to which no creator belongs is one too",
		Controls: []string{"CtlLock22ConditionalDotExists", "CtlLock22SeparatorDroppedExists"},
		Run:      ruleLock22})
}

type nmTok struct {
	lit bool
	s   string
}

type nmSeq []nmTok

func (s nmSeq) String() string {
	var parts []string
	for _, t := range s {
		if t.lit {
			parts = append(parts, fmt.Sprintf("%q", t.s))
		} else {
			parts = append(parts, t.s)
		}
	}
	if len(parts) == 0 {
		return `""`
	}
	return strings.Join(parts, " + ")
}

func nmNorm(s nmSeq) nmSeq {
	var out nmSeq
	for _, t := range s {
		if t.lit && t.s == "" {
			continue
		}
		if t.lit && len(out) > 0 && out[len(out)-1].lit {
			out[len(out)-1].s += t.s
			continue
		}
		out = append(out, t)
	}
	return out
}

const nmMaxAlts = 16

type nmFlat struct {
	p   *core.Prog
	top *ssa.Function // the function whose parameters stand for themselves (arg#i)
}

type nmEnv map[*ssa.Parameter][]nmSeq

func nmCross(a, b []nmSeq) []nmSeq {
	var out []nmSeq
	for _, x := range a {
		for _, y := range b {
			s := append(append(nmSeq{}, x...), y...)
			out = append(out, nmNorm(s))
			if len(out) >= nmMaxAlts {
				return out
			}
		}
	}
	return out
}

func nmDedupe(in []nmSeq) []nmSeq {
	seen := map[string]bool{}
	var out []nmSeq
	for _, s := range in {
		k := s.String()
		if !seen[k] {
			seen[k] = true
			out = append(out, s)
		}
	}
	return out
}

func nmOpaque(in []nmSeq) bool {
	for _, s := range in {
		for _, t := range s {
			if !t.lit && strings.HasPrefix(t.s, "?") {
				return true
			}
		}
	}
	return false
}

// flatten expands a string value into its alternatives. top is the function
// whose parameters stand for themselves (`arg#i`).
func (f *nmFlat) flatten(v ssa.Value, env nmEnv, depth int, seen map[ssa.Value]bool) []nmSeq {
	if s, ok := core.ConstString(v); ok {
		return []nmSeq{nmNorm(nmSeq{{lit: true, s: s}})}
	}
	if depth > 8 || seen[v] {
		return []nmSeq{{{s: "?cycle"}}}
	}
	switch x := v.(type) {
	case *ssa.Parameter:
		if a, ok := env[x]; ok {
			return a
		}
		for i, pa := range x.Parent().Params {
			if pa == x && x.Parent() == f.top {
				return []nmSeq{{{s: fmt.Sprintf("arg#%d", i)}}}
			}
		}
	case *ssa.BinOp:
		if x.Op == token.ADD {
			return nmDedupe(nmCross(f.flatten(x.X, env, depth+1, seen), f.flatten(x.Y, env, depth+1, seen)))
		}
	case *ssa.Phi:
		seen[v] = true
		defer delete(seen, v)
		var out []nmSeq
		for _, e := range x.Edges {
			out = append(out, f.flatten(e, env, depth+1, seen)...)
		}
		out = nmDedupe(out)
		if len(out) > nmMaxAlts {
			out = out[:nmMaxAlts]
		}
		return out
	case *ssa.ChangeType:
		return f.flatten(x.X, env, depth+1, seen)
	case *ssa.FreeVar:
		// a value captured by a closure: the binding at the (single) MakeClosure
		fn := x.Parent()
		idx := -1
		for i, fv := range fn.FreeVars {
			if fv == x {
				idx = i
			}
		}
		if par := fn.Parent(); par != nil && idx >= 0 {
			var bound ssa.Value
			n := 0
			for _, b := range par.Blocks {
				for _, in := range b.Instrs {
					if mc, ok := in.(*ssa.MakeClosure); ok && mc.Fn == fn && idx < len(mc.Bindings) {
						bound = mc.Bindings[idx]
						n++
					}
				}
			}
			if n == 1 {
				return f.flatten(bound, env, depth+1, seen)
			}
		}
	case *ssa.UnOp:
		if x.Op == token.MUL {
			// a local cell (captured variable) with visible stores
			if vals := core.Origins(x, false); len(vals) > 0 && !(len(vals) == 1 && vals[0] == v) {
				seen[v] = true
				defer delete(seen, v)
				var out []nmSeq
				for _, o := range vals {
					out = append(out, f.flatten(o, env, depth+1, seen)...)
				}
				return nmDedupe(out)
			}
		}
	case *ssa.Call:
		g := core.StaticCallee(x)
		if g == nil {
			break
		}
		name := f.p.Name(g)
		var args []string
		single := true
		var argAlts [][]nmSeq
		for _, a := range x.Call.Args {
			if b, ok := a.Type().Underlying().(*types.Basic); ok && b.Info()&types.IsString != 0 {
				alts := f.flatten(a, env, depth+1, seen)
				argAlts = append(argAlts, alts)
				if len(alts) != 1 {
					single = false
					args = append(args, "?")
				} else {
					args = append(args, alts[0].String())
				}
			} else {
				argAlts = append(argAlts, nil)
				if c, ok := a.(*ssa.Const); ok {
					args = append(args, c.Value.String())
				} else {
					args = append(args, "_")
				}
			}
		}
		// inline a repository callee whose result is one unconditional concatenation
		if len(g.Blocks) > 0 && g.Signature.Results().Len() == 1 && (f.p.InPkg(g, "lib/file") || f.p.IsControl(g)) {
			sub := nmEnv{}
			for i, pa := range g.Params {
				if i < len(argAlts) && argAlts[i] != nil {
					sub[pa] = argAlts[i]
				}
			}
			var res []nmSeq
			for _, r := range core.Returns(g) {
				res = append(res, f.flatten(r.Results[0], sub, depth+1, seen)...)
			}
			res = nmDedupe(res)
			if len(res) == 1 && !nmOpaque(res) {
				return res
			}
		}
		if !single {
			return []nmSeq{{{s: "?" + name + "(…)"}}}
		}
		return []nmSeq{{{s: name + "(" + strings.Join(args, ", ") + ")"}}}
	}
	return []nmSeq{{{s: "?" + v.Name()}}}
}

// nmStripPrefix: name starts with pat; the rest of name is returned.
func nmStripPrefix(name, pat nmSeq) (nmSeq, bool) {
	rest := append(nmSeq{}, name...)
	for i, t := range pat {
		if len(rest) == 0 {
			return nil, false
		}
		h := rest[0]
		if t.lit != h.lit {
			return nil, false
		}
		if t.lit && i == len(pat)-1 {
			if !strings.HasPrefix(h.s, t.s) {
				return nil, false
			}
			rest[0] = nmTok{lit: true, s: h.s[len(t.s):]}
			return nmNorm(rest), true
		}
		if t.s != h.s {
			return nil, false
		}
		rest = rest[1:]
	}
	return rest, true
}

func nmHasSuffix(name, pat nmSeq) bool {
	n := len(name)
	for i := len(pat) - 1; i >= 0; i-- {
		n--
		if n < 0 {
			return false
		}
		t, h := pat[i], name[n]
		if t.lit != h.lit {
			return false
		}
		if t.lit && i == 0 {
			return strings.HasSuffix(h.s, t.s)
		}
		if t.s != h.s {
			return false
		}
	}
	return true
}

// nmVariadicLast: the last element of the slice literal passed as a variadic argument.
func nmVariadicLast(v ssa.Value) ssa.Value {
	sl, ok := v.(*ssa.Slice)
	if !ok {
		return nil
	}
	al, ok := sl.X.(*ssa.Alloc)
	if !ok {
		return nil
	}
	var last ssa.Value
	max := int64(-1)
	for _, r := range *al.Referrers() {
		ia, ok := r.(*ssa.IndexAddr)
		if !ok {
			continue
		}
		idx, ok := core.ConstInt(ia.Index)
		if !ok {
			return nil
		}
		for _, rr := range *ia.Referrers() {
			if st, ok := rr.(*ssa.Store); ok && st.Addr == ia && idx > max {
				max, last = idx, st.Val
			}
		}
	}
	return last
}

// nmBuilderName: fn returns filepath.Join(…, name): the name expression.
func nmBuilderName(p *core.Prog, fn *ssa.Function) ssa.Value {
	if len(fn.Blocks) == 0 || fn.Signature.Results().Len() != 1 {
		return nil
	}
	var name ssa.Value
	for _, r := range core.Returns(fn) {
		call, ok := r.Results[0].(*ssa.Call)
		if !ok || p.CalleeName(call) != "path/filepath.Join" || len(call.Call.Args) != 1 {
			return nil
		}
		n := nmVariadicLast(call.Call.Args[0])
		if n == nil || name != nil {
			return nil
		}
		name = n
	}
	return name
}

type nmScheme struct {
	label   string
	pos     string
	control bool
	alts    []nmSeq
}

func ruleLock22(c *Ctx) {
	p := c.P
	anchor := c.Fn("lib/file.RLockExists")
	fl := &nmFlat{p: p}
	fns := p.FuncsIn(true, "lib/file")
	sortFuncs(p, fns)

	// the creators
	builders := map[*ssa.Function]ssa.Value{}
	for _, fn := range fns {
		if fn.Parent() != nil {
			continue
		}
		if n := nmBuilderName(p, fn); n != nil {
			builders[fn] = n
		}
	}
	var schemes []*nmScheme
	used := map[*ssa.Function]bool{}
	for _, fn := range fns {
		for _, k := range core.Calls(fn) {
			call, ok := k.(*ssa.Call)
			if !ok {
				continue
			}
			b := core.StaticCallee(call)
			name, isB := builders[b]
			if !isB || b == fn {
				continue
			}
			used[b] = true
			fl.top = fn
			env := nmEnv{}
			for i, pa := range b.Params {
				if i < len(call.Call.Args) {
					if bt, ok := pa.Type().Underlying().(*types.Basic); ok && bt.Info()&types.IsString != 0 {
						env[pa] = fl.flatten(call.Call.Args[i], nmEnv{}, 0, map[ssa.Value]bool{})
					}
				}
			}
			schemes = append(schemes, &nmScheme{label: p.Name(fn) + " → " + p.Name(b), pos: c.Pos(call), control: p.IsControl(fn),
				alts: fl.flatten(name, env, 0, map[ssa.Value]bool{})})
		}
	}
	var bl []*ssa.Function
	for b := range builders {
		bl = append(bl, b)
	}
	sortFuncs(p, bl)
	for _, b := range bl {
		if !used[b] {
			fl.top = b
			schemes = append(schemes, &nmScheme{label: p.Name(b), pos: c.FnPos(b), control: p.IsControl(b),
				alts: fl.flatten(builders[b], nmEnv{}, 0, map[ssa.Value]bool{})})
		}
	}
	sort.SliceStable(schemes, func(i, j int) bool { return schemes[i].label < schemes[j].label })

	// the matchers
	sawAnchor := false
	for _, fn := range fns {
		if fn.Blocks == nil || fn.Parent() != nil || !isBoolResult(fn) || len(listingCalls(p, fn)) == 0 {
			continue
		}
		if p.IsControl(fn) && !strings.Contains(p.Name(fn), "Lock22") {
			continue // the controls of other rules list directories too
		}
		if fn == anchor {
			sawAnchor = true
		}
		c.Touch(fn)
		key := c.KeyAt(fn, "the prefix / suffix the directory entries are matched against is the naming scheme of the creators")
		var prefixes, suffixes []nmSeq
		var first ssa.Instruction
		// the comparisons of fn, of its closures and of the lib/file helpers the
		// pattern is handed to (a predicate extracted from the loop body): the
		// helper's string parameters stand for the arguments of the call
		visited := map[*ssa.Function]bool{}
		var collect func(g *ssa.Function, env nmEnv, depth int)
		collect = func(g *ssa.Function, env nmEnv, depth int) {
			if visited[g] || depth > 3 {
				return
			}
			visited[g] = true
			all := []*ssa.Function{g}
			for i := 0; i < len(all); i++ {
				all = append(all, all[i].AnonFuncs...)
			}
			for _, h := range all {
				for _, k := range core.Calls(h) {
					call, ok := k.(*ssa.Call)
					if !ok {
						continue
					}
					name := p.CalleeName(call)
					if name == "strings.HasPrefix" || name == "strings.HasSuffix" {
						// the subject must be an entry of the listing, i.e. not a value that
						// is computed from the path and constants alone (such a comparison
						// belongs to the building of the pattern, not to the matching)
						if !nmOpaque(fl.flatten(call.Call.Args[0], env, 0, map[ssa.Value]bool{})) {
							continue
						}
					}
					switch name {
					case "strings.HasPrefix":
						prefixes = append(prefixes, fl.flatten(call.Call.Args[1], env, 0, map[ssa.Value]bool{})...)
					case "strings.HasSuffix":
						suffixes = append(suffixes, fl.flatten(call.Call.Args[1], env, 0, map[ssa.Value]bool{})...)
					default:
						callee := core.StaticCallee(call)
						if callee == nil || len(callee.Blocks) == 0 || callee.Parent() != nil || !(p.InPkg(callee, "lib/file") || p.IsControl(callee)) {
							continue
						}
						if _, isBuilder := builders[callee]; isBuilder {
							continue
						}
						sub := nmEnv{}
						for i, pa := range callee.Params {
							if bt, ok := pa.Type().Underlying().(*types.Basic); ok && bt.Info()&types.IsString != 0 && i < len(call.Call.Args) {
								sub[pa] = fl.flatten(call.Call.Args[i], env, 0, map[ssa.Value]bool{})
							}
						}
						if len(sub) > 0 {
							collect(callee, sub, depth+1)
						}
						continue
					}
					if first == nil {
						first = call
					}
				}
			}
		}
		fl.top = fn
		collect(fn, nmEnv{}, 0)
		prefixes, suffixes = nmDedupe(prefixes), nmDedupe(suffixes)
		if first == nil {
			c.Unknown(key, c.FnPos(fn), "cannot-analyse: the function lists a directory but compares the entry names neither with strings.HasPrefix nor with strings.HasSuffix: the pattern it matches cannot be read off")
			continue
		}
		c.Sites++
		isCtl := p.IsControl(fn)
		var mine []*nmScheme
		for _, s := range schemes {
			if s.control != isCtl {
				continue
			}
			belongs := false
			for _, a := range s.alts {
				pats := suffixes
				if len(pats) == 0 {
					pats = nil
					for _, pr := range prefixes {
						if _, ok := nmStripPrefix(a, pr); ok {
							belongs = true
						}
					}
				}
				for _, su := range pats {
					if nmHasSuffix(a, su) {
						belongs = true
					}
				}
			}
			if belongs {
				mine = append(mine, s)
			}
		}
		descr := func(ss []nmSeq) string {
			var out []string
			for _, s := range ss {
				out = append(out, "<"+s.String()+">")
			}
			return strings.Join(out, " | ")
		}
		if len(mine) == 0 {
			c.Bad(key, c.Pos(first), fmt.Sprintf("the entries are matched against prefix %s and suffix %s, but no creator of control files in lib/file (a call of a function that returns filepath.Join(dir, name)) gives a name that ends with this suffix: the matcher finds none of the files the readers create", descr(prefixes), descr(suffixes)))
			continue
		}
		bad := ""
		var agree []string
		for _, s := range mine {
			ok := true
			for _, a := range s.alts {
				for _, pr := range prefixes {
					rest, m := nmStripPrefix(a, pr)
					if !m {
						ok = false
						if bad == "" {
							bad = fmt.Sprintf("%s (%s) can name the file <%s>, which does not start with the prefix <%s> this function matches the directory entries against", s.label, s.pos, a.String(), pr.String())
						}
						continue
					}
					for _, su := range suffixes {
						if !nmHasSuffix(rest, su) && bad == "" {
							ok = false
							bad = fmt.Sprintf("%s (%s) can name the file <%s>; after the prefix <%s> what is left of it, <%s>, does not end with the suffix <%s>", s.label, s.pos, a.String(), pr.String(), rest.String(), su.String())
						}
					}
				}
				if len(prefixes) == 0 {
					for _, su := range suffixes {
						if !nmHasSuffix(a, su) && bad == "" {
							ok = false
							bad = fmt.Sprintf("%s (%s) can name the file <%s>, which does not end with the suffix <%s>", s.label, s.pos, a.String(), su.String())
						}
					}
				}
			}
			if ok {
				agree = append(agree, fmt.Sprintf("%s: %s", s.label, descr(s.alts)))
			}
		}
		if bad != "" {
			c.Bad(key, c.Pos(first), bad+": the two sides of the naming scheme are built from different pieces (a conditional piece, a separator or a suffix constant on one side only), so for the tables the difference applies to the search answers \"no reader\" while read-lock files exist, and the lock file is granted while the table is being read")
			continue
		}
		c.Ok(key, c.Pos(first), fmt.Sprintf("prefix %s, suffix %s; every alternative of %s starts with the prefix and, after it, ends with the suffix", descr(prefixes), descr(suffixes), strings.Join(agree, "; ")))
	}
	if anchor != nil && !sawAnchor {
		c.Bad(c.KeyAt(anchor, "the prefix / suffix the directory entries are matched against is the naming scheme of the creators"), c.FnPos(anchor),
			"RLockExists lists no directory into a slice with an error result any more: the read-lock files, whose names have a random part, cannot be found by a probe of one path")
	}
}
