package rules

import (
	"fmt"
	"go/token"
	"go/types"
	"strings"

	"golang.org/x/tools/go/ssa"

	"verif/checker/core"
)

// C05 — data-changing statements change exactly what they say.
// R-CNT-1 (value origin): in Processor.ExecuteStatement the number printed in
// each "N record(s)/field(s) …" log line and the number stored in
// Tx.AffectedRows is the very count returned by the statement function executed
// in that arm (or, for multi-table UPDATE/DELETE, an element / the sum of the
// elements of its count slice).

func init() {
	Register(&Rule{ID: "R-CNT-1", Props: []string{"C05"}, Floor: 11,
		Doc:      "in Processor.ExecuteStatement every argument of FormatCount (the \"N record(s) …\" log lines) and every value stored into Transaction.AffectedRows originates — through phi nodes, element loads, additions and the int result of a lib/query helper that computes it from its arguments (judged with the helper's parameters replaced by the arguments of the call) only — from the count result (#1, int or []int) of a statement function (signature (*FileInfo|[]*FileInfo, int|[]int, error)); sites inside a lib/query helper that is handed the count (e.g. one helper shared by the INSERT and REPLACE arms) are judged per call of the helper with its parameters replaced by the arguments; a store to AffectedRows and the log line of the same arm derive from the same call; constants other than the loop-initial 0 (and the literal 1 of RENAME COLUMN) do not enter",
		Controls: []string{"CtlCountFromElsewhere", "CtlCountHelperOffByOne", "CtlCountTotalHelperCountsFiles"},
		Run:      ruleCnt1})
}

// fxIsStmtFn: a statement function returns (*FileInfo | []*FileInfo, int | []int, error).
func fxIsStmtFn(f *ssa.Function) bool {
	if f == nil {
		return false
	}
	res := f.Signature.Results()
	if res.Len() != 3 || !core.IsErrorType(res.At(2).Type()) {
		return false
	}
	t0, t1 := res.At(0).Type(), res.At(1).Type()
	if s, ok := t0.(*types.Slice); ok {
		t0 = s.Elem()
	}
	if core.NamedOf(t0) != "lib/query.FileInfo" {
		return false
	}
	if s, ok := t1.(*types.Slice); ok {
		t1 = s.Elem()
	}
	b, ok := t1.Underlying().(*types.Basic)
	return ok && b.Kind() == types.Int
}

// fxCountOrigin walks a count expression back to its leaves. It returns the
// statement-function calls whose count result feeds v, the constants that
// enter, and other leaves (anything else).
type fxCnt struct {
	calls  map[*ssa.Call]bool
	consts []int64
	other  []ssa.Value
}

// subst maps the parameters of a helper the count was handed to back to the
// arguments at the helper's call site (DML arms merged into a helper such as
// recordTableChange(fileInfo, cnt, verb)); nil when the site is in the
// statement dispatcher itself.
func fxCountOrigin(v ssa.Value, subst map[*ssa.Parameter]ssa.Value) *fxCnt {
	return fxCountOriginAt(v, subst, 0)
}

// fxCountHelper: call is a static call of a lib/query (or control) function with a
// body that is not itself a statement function — a helper whose result #idx may
// be a count computed from what it was handed (e.g. the total of the per-file
// counts). Returns the helper, or nil.
func fxCountHelper(call *ssa.Call, idx int) *ssa.Function {
	H := core.StaticCallee(call)
	if H == nil || H.Blocks == nil || H.Pkg == nil || fxIsStmtFn(H) {
		return nil
	}
	path := H.Pkg.Pkg.Path()
	if path != core.ModPath+"/lib/query" && !strings.HasSuffix(path, core.ControlPkg) {
		return nil
	}
	res := H.Signature.Results()
	if idx >= res.Len() {
		return nil
	}
	if b, ok := res.At(idx).Type().Underlying().(*types.Basic); !ok || b.Kind() != types.Int {
		return nil
	}
	return H
}

func fxCountOriginAt(v ssa.Value, subst map[*ssa.Parameter]ssa.Value, depth int) *fxCnt {
	r := &fxCnt{calls: map[*ssa.Call]bool{}}
	seen := map[ssa.Value]bool{}
	var walk func(v ssa.Value)
	// the int result #idx of a helper: the leaves of what the helper returns, with
	// its parameters replaced by the arguments of this call (two levels)
	intoHelper := func(call *ssa.Call, idx int) bool {
		H := fxCountHelper(call, idx)
		if H == nil || depth >= 2 {
			return false
		}
		inner := map[*ssa.Parameter]ssa.Value{}
		for p, a := range subst {
			inner[p] = a
		}
		for i, a := range call.Common().Args {
			if i < len(H.Params) {
				if _, rec := inner[H.Params[i]]; rec {
					return false // recursion: the parameter is already bound
				}
				inner[H.Params[i]] = a
			}
		}
		rets := core.Returns(H)
		if len(rets) == 0 {
			return false
		}
		for _, ret := range rets {
			if idx >= len(ret.Results) {
				return false
			}
			o := fxCountOriginAt(ret.Results[idx], inner, depth+1)
			for k := range o.calls {
				r.calls[k] = true
			}
			r.consts = append(r.consts, o.consts...)
			r.other = append(r.other, o.other...)
		}
		return true
	}
	walk = func(v ssa.Value) {
		if seen[v] {
			return
		}
		seen[v] = true
		switch x := v.(type) {
		case *ssa.Call:
			if !intoHelper(x, 0) {
				r.other = append(r.other, v)
			}
		case *ssa.Parameter:
			if a, ok := subst[x]; ok {
				walk(a)
				return
			}
			r.other = append(r.other, v)
		case *ssa.Phi:
			for _, e := range x.Edges {
				walk(e)
			}
		case *ssa.BinOp:
			if x.Op == token.ADD {
				walk(x.X)
				walk(x.Y)
				return
			}
			r.other = append(r.other, v)
		case *ssa.Const:
			if i, ok := core.ConstInt(x); ok {
				r.consts = append(r.consts, i)
			} else {
				r.other = append(r.other, v)
			}
		case *ssa.Extract:
			if call, ok := x.Tuple.(*ssa.Call); ok && x.Index == 1 && fxIsStmtFn(core.StaticCallee(call)) {
				r.calls[call] = true
				return
			}
			if call, ok := x.Tuple.(*ssa.Call); ok && intoHelper(call, x.Index) {
				return
			}
			r.other = append(r.other, v)
		case *ssa.UnOp:
			if x.Op == token.MUL {
				switch a := x.X.(type) {
				case *ssa.IndexAddr: // cnts[i]
					walk(a.X)
					return
				case *ssa.Alloc, *ssa.FreeVar:
					vals, complete := core.StoresTo(a)
					if complete && len(vals) > 0 {
						for _, s := range vals {
							walk(s)
						}
						return
					}
				}
			}
			r.other = append(r.other, v)
		case *ssa.Convert, *ssa.ChangeType:
			walk(fxStripConv(v))
		default:
			r.other = append(r.other, v)
		}
	}
	walk(v)
	return r
}

func ruleCnt1(c *Ctx) {
	if fn := c.Fn("lib/query.(*Processor).ExecuteStatement"); fn != nil {
		if c.Fn("lib/query.FormatCount") == nil {
			return
		}
		fxCheckCounts(c, fn)
	}
	for _, fn := range fxCtlFuncs(c) {
		if strings.HasPrefix(fn.Name(), "CtlCount") || strings.HasPrefix(fn.Name(), "okCount") {
			c.Touch(fn)
			fxCheckCounts(c, fn)
		}
	}
}

// fxArmStatement names the statement executed in the arm an instruction belongs
// to: the closest dominating call of a lib/query function whose first result is a
// (*FileInfo | []*FileInfo) and whose last result is an error.
func fxArmStatement(fn *ssa.Function, at ssa.Instruction) string {
	var best *ssa.Call
	for _, ci := range core.Calls(fn) {
		call, ok := ci.(*ssa.Call)
		if !ok {
			continue
		}
		f := core.StaticCallee(call)
		if f == nil {
			continue
		}
		res := f.Signature.Results()
		if res.Len() < 2 || !core.IsErrorType(res.At(res.Len()-1).Type()) {
			continue
		}
		t0 := res.At(0).Type()
		if sl, ok := t0.(*types.Slice); ok {
			t0 = sl.Elem()
		}
		if core.NamedOf(t0) != "lib/query.FileInfo" || !core.Dominates(call, at) {
			continue
		}
		if best == nil || core.Dominates(best, call) {
			best = call
		}
	}
	if best == nil {
		return "?"
	}
	return core.StaticCallee(best).Name()
}

func fxCheckCounts(c *Ctx, fn *ssa.Function) {
	calleeOf := func(cs map[*ssa.Call]bool) (string, *ssa.Call) {
		// the first call in source order (several calls are a violation anyway; the
		// name in the message must not depend on map iteration)
		var best *ssa.Call
		for call := range cs {
			if best == nil || call.Pos() < best.Pos() {
				best = call
			}
		}
		if best == nil {
			return "", nil
		}
		return core.StaticCallee(best).Name(), best
	}
	judge := func(o *fxCnt, allowOne bool) (ok bool, why string) {
		if len(o.other) > 0 {
			return false, fmt.Sprintf("the number derives from %s, not from the count a statement function returned", valueLabel(o.other[0]))
		}
		if len(o.calls) > 1 {
			return false, "the number mixes the counts of several statement calls"
		}
		for _, k := range o.consts {
			if k == 0 && len(o.calls) == 1 {
				continue // initial value of a running total
			}
			if k == 1 && allowOne && len(o.calls) == 0 {
				continue
			}
			return false, fmt.Sprintf("the constant %d enters the number: it is not the count the statement returned", k)
		}
		if len(o.calls) == 0 && !(allowOne && len(o.consts) > 0) {
			return false, "no statement function's count reaches this number"
		}
		return true, ""
	}
	// reporting sites: FormatCount calls and AffectedRows stores of this function
	// and of the lib/query helpers it hands a statement's count to (two levels);
	// a site in a helper is judged once per call of the helper, with the helper's
	// parameters replaced by that call's arguments, and is named after the arm the
	// call sits in — so merging arms into a helper changes neither verdicts nor keys.
	type site struct {
		val    ssa.Value
		at     ssa.Instruction // the site itself (position)
		anchor ssa.Instruction // instruction of fn that determines the arm
		subst  map[*ssa.Parameter]ssa.Value
		isLog  bool
	}
	var sites []site
	var collect func(g *ssa.Function, subst map[*ssa.Parameter]ssa.Value, anchor ssa.Instruction, depth int)
	collect = func(g *ssa.Function, subst map[*ssa.Parameter]ssa.Value, anchor ssa.Instruction, depth int) {
		c.Touch(g)
		for _, b := range g.Blocks {
			for _, in := range b.Instrs {
				an := anchor
				if an == nil {
					an = in
				}
				switch x := in.(type) {
				case *ssa.Call:
					if c.P.CalleeName(x) == "lib/query.FormatCount" {
						c.Sites++
						sites = append(sites, site{x.Common().Args[0], x, an, subst, true})
						continue
					}
					H := core.StaticCallee(x)
					if depth == 0 || H == nil || H == g || H == fn || H.Blocks == nil || !c.P.InPkg(H, "lib/query", core.ControlPkg) || fxIsStmtFn(H) {
						continue
					}
					// follow only helpers that receive (something derived from) a statement's count
					args := x.Common().Args
					takesCount := false
					inner := map[*ssa.Parameter]ssa.Value{}
					for p, a := range subst {
						inner[p] = a
					}
					for i, a := range args {
						if i >= len(H.Params) {
							break
						}
						inner[H.Params[i]] = a
						if o := fxCountOrigin(a, subst); len(o.calls) > 0 {
							takesCount = true
						}
					}
					if takesCount {
						collect(H, inner, an, depth-1)
					}
				case *ssa.Store:
					fa, ok := x.Addr.(*ssa.FieldAddr)
					if ok && core.FieldOwner(fa) == "lib/query.Transaction.AffectedRows" {
						sites = append(sites, site{x.Val, x, an, subst, false})
					}
				}
			}
		}
	}
	collect(fn, nil, nil, 2)
	via := func(st site) string {
		if g := st.at.Parent(); g != fn {
			return " (in helper " + g.Name() + ")"
		}
		return ""
	}
	logged := map[*ssa.Call]bool{}
	n := map[string]int{}
	for _, st := range sites {
		if !st.isLog {
			continue
		}
		o := fxCountOrigin(st.val, st.subst)
		name, sc := calleeOf(o.calls)
		arm := fxArmStatement(fn, st.anchor)
		n[arm]++
		key := c.KeyAt(fn, fmt.Sprintf("log line count after %s #%d", arm, n[arm]))
		// a constant count is legitimate only where the statement function returns no count (RENAME COLUMN: always 1 field)
		if good, why := judge(o, true); good {
			if sc != nil {
				logged[sc] = true
				c.Ok(key, c.Pos(st.at), "the printed number is result #1 of "+name+via(st))
			} else {
				c.Ok(key, c.Pos(st.at), "constant count (the statement changes exactly one object)")
			}
		} else {
			c.Bad(key, c.Pos(st.at), "log line \"N … on file\""+via(st)+": "+why)
		}
	}
	m := map[string]int{}
	for _, st := range sites {
		if st.isLog {
			continue
		}
		o := fxCountOrigin(st.val, st.subst)
		if len(o.calls) == 0 && len(o.other) == 0 && len(o.consts) == 1 && o.consts[0] == 0 {
			continue // a reset to zero reports nothing
		}
		name, sc := calleeOf(o.calls)
		arm := fxArmStatement(fn, st.anchor)
		m[arm]++
		key := c.KeyAt(fn, fmt.Sprintf("AffectedRows after %s #%d", arm, m[arm]))
		good, why := judge(o, false)
		switch {
		case !good:
			c.Bad(key, c.Pos(st.at), "Tx.AffectedRows"+via(st)+": "+why)
		case !logged[sc]:
			c.Bad(key, c.Pos(st.at), fmt.Sprintf("Tx.AffectedRows is the count of %s, but the log line of this arm does not print that call's count: the two reports disagree", name))
		default:
			c.Ok(key, c.Pos(st.at), "stored number is (the sum of) result #1 of "+name+", the same call the log line reports"+via(st))
		}
	}
}

// R-CNT-2 (added after seeded change C05-2, DESIGN §8): multi-table UPDATE /
// DELETE count records, not joined rows.
func init() {
	Register(&Rule{ID: "R-CNT-2", Props: []string{"C05"}, Floor: 2,
		Doc: "the per-table counts returned by the multi-table forms of UPDATE and DELETE count distinct records: each returned count is the size of a set (len of a map), or a counter whose every increment is dominated by a 'this record id was not seen before' test (a failed membership lookup keyed by the record id) — a target record that matches several rows of the joined view must be counted once",
		Run: ruleCnt2})
}

func ruleCnt2(c *Ctx) {
	for _, fname := range []string{"lib/query.Update", "lib/query.Delete"} {
		fn := c.Fn(fname)
		if fn == nil {
			continue
		}
		// values appended to the returned []int
		var counted []ssa.Value
		for _, r := range core.Returns(fn) {
			for i, res := range r.Results {
				sl, ok := res.Type().Underlying().(*types.Slice)
				if !ok {
					continue
				}
				if b, ok := sl.Elem().Underlying().(*types.Basic); !ok || b.Kind() != types.Int {
					continue
				}
				_ = i
				seen := map[ssa.Value]bool{}
				var walk func(v ssa.Value)
				walk = func(v ssa.Value) {
					if v == nil || seen[v] {
						return
					}
					seen[v] = true
					switch x := v.(type) {
					case *ssa.Phi:
						for _, e := range x.Edges {
							walk(e)
						}
					case *ssa.Call:
						if bi, ok := x.Common().Value.(*ssa.Builtin); ok && bi.Name() == "append" {
							walk(x.Common().Args[0])
							if len(x.Common().Args) > 1 {
								if s2, ok := x.Common().Args[1].(*ssa.Slice); ok {
									if al, ok := s2.X.(*ssa.Alloc); ok {
										for _, rr := range *al.Referrers() {
											if ia, ok := rr.(*ssa.IndexAddr); ok {
												for _, r3 := range *ia.Referrers() {
													if st, ok := r3.(*ssa.Store); ok {
														counted = append(counted, st.Val)
													}
												}
											}
										}
									}
								}
							}
						}
					case *ssa.UnOp:
						for _, o := range core.Origins(x, false) {
							if o != v {
								walk(o)
							}
						}
					}
				}
				for _, v := range core.ReturnOperand(r, i) {
					walk(v)
				}
			}
		}
		if len(counted) == 0 {
			c.Unknown(c.KeyAt(fn, "returned counts"), c.FnPos(fn), "cannot-analyse: no value appended to a returned []int found")
			continue
		}
		for n, v := range counted {
			key := c.KeyAt(fn, fmt.Sprintf("returned count #%d", n+1))
			// (a) len of a map
			if call, ok := v.(*ssa.Call); ok {
				if bi, ok := call.Common().Value.(*ssa.Builtin); ok && bi.Name() == "len" {
					if _, isMap := call.Common().Args[0].Type().Underlying().(*types.Map); isMap {
						c.Ok(key, c.Pos(call), "size of a set of record ids")
						continue
					}
				}
			}
			// (b) a counter kept in a map: every increment is guarded by a failed membership test
			lk, ok := v.(*ssa.Lookup)
			if !ok {
				c.Unknown(key, c.FnPos(fn), "cannot classify the source of the returned count (neither len of a set nor a counter map)")
				continue
			}
			counterCell := cellOf(lk.X)
			bad := ""
			incs := 0
			for _, b := range fn.Blocks {
				for _, in := range b.Instrs {
					mu, ok := in.(*ssa.MapUpdate)
					if !ok {
						continue
					}
					cc := cellOf(mu.Map)
					if !(mu.Map == lk.X || (cc != nil && counterCell != nil && (cc == counterCell || core.SameAddr(cc, counterCell)))) {
						continue
					}
					if _, isConst := mu.Value.(*ssa.Const); isConst {
						continue // initialisation
					}
					incs++
					guarded := false
					for _, f := range core.FactsAt(b) {
						if !f.Neg {
							continue
						}
						// failed comma-ok lookup, or a false bool element
						switch x := f.Cond.(type) {
						case *ssa.Extract:
							if _, ok := x.Tuple.(*ssa.Lookup); ok && x.Index == 1 {
								guarded = true
							}
						case *ssa.Lookup:
							guarded = true
						case *ssa.UnOp:
							if _, ok := x.X.(*ssa.IndexAddr); ok {
								guarded = true
							}
						}
					}
					if !guarded {
						bad = fmt.Sprintf("the counter is incremented at %s without a 'record not seen before' test", c.Pos(mu))
					}
				}
			}
			if incs == 0 {
				c.Unknown(key, c.Pos(lk), "cannot-analyse: no increment of the counter map found")
				continue
			}
			c.Check(bad == "", key, c.Pos(lk), "counter incremented only for a record id not seen before", bad+": a target record that matches several rows of the joined view is counted several times — the reported number of affected records is too high")
		}
	}
}
