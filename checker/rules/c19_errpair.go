package rules

import (
	"fmt"
	"go/types"

	"golang.org/x/tools/go/ssa"

	"verif/checker/core"
)

// R-ERR-14 — a value returned together with an error must not outlive the
// error check.
//
// For every call `v, …, err := f(…)` (last result of type error, v a pointer,
// interface, map, slice, func or chan — the kinds whose failure value is nil)
// each use of v that makes it longer-lived than the function's frame:
//   (a) a store into a field of a non-local object, a slice/array element, a
//       global or a captured variable,
//   (b) a map update, a channel send,
//   (c) an argument of a function that retains the parameter (stores it, puts
//       it into a map / sync.Map, directly or through callees),
//   (d) a return as the success value: the function returns v next to a nil
//       error constant,
// must lie where err is known to be nil (dominated by the nil outcome of a
// test of that err). `return v, err`, uses after `if err != nil { return }`,
// and uses of v only inside the `err != nil` branch for diagnostics are fine.

func init() {
	Register(&Rule{ID: "R-ERR-14", Props: []string{"C19", "C16"}, Floor: 30,
		Doc: "for every call whose results are (v, …, error) with v of a nil-able kind: each use of v that publishes it — store into a field of a non-local object, slice element, global or captured variable; map update; channel send; argument of a function that retains its parameter (followed through callees; sync.Map.Store & co.); return as the success value next to a nil error — lies where that error is known to be nil. " +
			"Otherwise a failed call's nil/partial result is cached or handed out as a hit and dereferenced later. `return v, err` and uses after the early return are accepted",
		Controls: []string{"CtlCachedBeforeErrorCheck", "CtlReturnedAsSuccess"},
		Run:      ruleErr14})
}

func e19Nilable(t types.Type) bool {
	switch t.Underlying().(type) {
	case *types.Pointer, *types.Interface, *types.Map, *types.Signature, *types.Chan:
		return true // a nil slice is harmless to len/range, so slices are not tracked
	}
	return false
}

var e19RetainMemo = map[*ssa.Parameter]int{}

var e19ExternalRetain = map[string]bool{
	"(*sync.Map).Store": true, "(*sync.Map).LoadOrStore": true, "(*sync.Map).Swap": true,
	"(*sync.Pool).Put": false,
}

// e19Retains: fn keeps parameter p beyond the call.
func e19Retains(c *Ctx, p *ssa.Parameter, depth int) bool {
	switch e19RetainMemo[p] {
	case 1:
		return true
	case 2:
		return false
	}
	if depth > 3 || p.Referrers() == nil {
		return false
	}
	e19RetainMemo[p] = 2
	res := false
	var visit func(v ssa.Value, d int)
	visit = func(v ssa.Value, d int) {
		if res || d > 4 || v.Referrers() == nil {
			return
		}
		for _, r := range *v.Referrers() {
			if how := e19Publishes(c, r, v, depth+1); how != "" {
				res = true
				return
			}
			switch x := r.(type) {
			case *ssa.MakeInterface:
				visit(x, d+1)
			case *ssa.ChangeInterface:
				visit(x, d+1)
			case *ssa.ChangeType:
				visit(x, d+1)
			case *ssa.Phi:
				visit(x, d+1)
			}
		}
	}
	visit(p, 0)
	if res {
		e19RetainMemo[p] = 1
	}
	return res
}

// e19NonLocalAddr: the address is not a cell of the current frame.
func e19NonLocalAddr(addr ssa.Value) bool {
	switch a := addr.(type) {
	case *ssa.Alloc:
		return false
	case *ssa.FreeVar, *ssa.Global:
		return true
	case *ssa.FieldAddr:
		// field of a struct allocated in this function that has not been published: treat as local
		if al, ok := a.X.(*ssa.Alloc); ok {
			_ = al
			return false
		}
		return true
	case *ssa.IndexAddr:
		if al, ok := a.X.(*ssa.Alloc); ok {
			_ = al
			return false
		}
		return true
	}
	return true
}

// e19Publishes: instruction `in` makes value v longer-lived; returns a description or "".
func e19Publishes(c *Ctx, in ssa.Instruction, v ssa.Value, depth int) string {
	switch x := in.(type) {
	case *ssa.Store:
		if x.Val == v && e19NonLocalAddr(x.Addr) {
			return "stored into " + valueLabel(core.Strip(x.Addr))
		}
	case *ssa.MapUpdate:
		if x.Value == v || x.Key == v {
			return "stored into a map"
		}
	case *ssa.Send:
		if x.X == v {
			return "sent on a channel"
		}
	case ssa.CallInstruction:
		com := x.Common()
		if com.IsInvoke() {
			return ""
		}
		f := com.StaticCallee()
		if f == nil {
			return ""
		}
		name := c.P.FnRef(f)
		for i, a := range com.Args {
			if a != v {
				continue
			}
			if f.Blocks == nil || !c.P.InPkg(f, "lib/query", "lib/file", "lib/json", "lib/value", "lib/option", "lib/parser", "lib/action", "lib/cli", "lib/terminal", "lib/doc", "lib/syntax", "lib/excmd", "lib/constant", "main", core.ControlPkg) {
				if e19ExternalRetain[name] && i > 0 {
					return "passed to " + name
				}
				continue
			}
			if i < len(f.Params) && e19Retains(c, f.Params[i], depth) {
				return "passed to " + e19ShortFn(name) + ", which retains it"
			}
		}
	}
	return ""
}

func ruleErr14(c *Ctx) {
	seq := e19SeqKey{}
	for _, fn := range c.P.SrcFuncs() {
		if e19IsGeneratedFn(c.P, fn) {
			continue
		}
		for _, b := range fn.Blocks {
			for _, in := range b.Instrs {
				call, ok := in.(*ssa.Call)
				if !ok {
					continue
				}
				tup, ok := call.Type().(*types.Tuple)
				if !ok || tup.Len() < 2 || !core.IsErrorType(tup.At(tup.Len()-1).Type()) {
					continue
				}
				var errV ssa.Value
				var vals []*ssa.Extract
				for _, r := range *call.Referrers() {
					ex, ok := r.(*ssa.Extract)
					if !ok {
						continue
					}
					if ex.Index == tup.Len()-1 {
						errV = ex
					} else if e19Nilable(ex.Type()) {
						vals = append(vals, ex)
					}
				}
				if len(vals) == 0 || errV == nil || len(e19NonDebugRefs(errV)) == 0 {
					continue // error discarded: a different clause (R-ERR-4 for index lookups); nothing to order the use against
				}
				if f := call.Common().StaticCallee(); f != nil && f.Blocks != nil {
					// a callee whose result is non-nil even when it fails has no failure value to leak
				}
				for _, v := range vals {
					if f := call.Common().StaticCallee(); f != nil && f.Blocks != nil && core.AlwaysNonNil(f, v.Index) {
						continue
					}
					// follow the value through interface conversions and phis of the same variable
					type use struct {
						in  ssa.Instruction
						how string
					}
					var uses []use
					seen := map[ssa.Value]bool{}
					var walk func(x ssa.Value, d int)
					walk = func(x ssa.Value, d int) {
						if seen[x] || d > 3 || x.Referrers() == nil {
							return
						}
						seen[x] = true
						for _, r := range *x.Referrers() {
							if how := e19Publishes(c, r, x, 0); how != "" {
								uses = append(uses, use{r, how})
								continue
							}
							switch y := r.(type) {
							case *ssa.MakeInterface:
								walk(y, d+1)
							case *ssa.ChangeInterface:
								walk(y, d+1)
							case *ssa.ChangeType:
								walk(y, d+1)
							case *ssa.Return:
								// success value next to a nil error constant
								ei := core.ErrorResultIndex(fn)
								if ei < 0 || ei >= len(y.Results) {
									continue
								}
								for _, ev := range core.ReturnOperand(y, ei) {
									if ev == nil || core.IsNilConst(ev) {
										uses = append(uses, use{y, "returned as the success value (next to a nil error)"})
									}
								}
							}
						}
					}
					walk(v, 0)
					if len(uses) == 0 {
						continue
					}
					c.Touch(fn)
					for _, u := range uses {
						c.Sites++
						key := seq.key(c, fn, fmt.Sprintf("result #%d of %s %s", v.Index, calleeLabel(call), u.how))
						switch {
						case e19ErrKnownNil(errV, u.in):
							c.Ok(key, c.Pos(u.in), "the call's error is known to be nil here")
						case e19LocalContainer(u.in) && core.EscapeWithout(u.in, func(i ssa.Instruction) bool { return e19TestsErr(i, errV) }, nil) == nil:
							c.Ok(key, c.Pos(u.in), "assigned into a container built by this function, and every path from here to an exit tests the error first")
						default:
							c.Bad(key, c.Pos(u.in), fmt.Sprintf("result #%d of %s is %s at a point where the error returned with it has not been shown nil: when the call fails, its nil result is published and later used as a valid value (nil dereference on the next hit)", v.Index, calleeLabel(call), u.how))
						}
					}
				}
			}
		}
	}
}

// e19ErrCells: local/captured variables the error value is stored into.
func e19ErrCells(errV ssa.Value) []*ssa.Store {
	var out []*ssa.Store
	if errV.Referrers() == nil {
		return nil
	}
	for _, r := range *errV.Referrers() {
		if st, ok := r.(*ssa.Store); ok && st.Val == errV {
			switch st.Addr.(type) {
			case *ssa.Alloc, *ssa.FreeVar:
				out = append(out, st)
			}
		}
	}
	return out
}

// e19NilFactOn: a fact among facts states that value x is nil.
func e19NilFactOn(facts []core.Fact, match func(ssa.Value) bool) bool {
	for _, f := range facts {
		x, neq, ok := core.NilCmp(f.Cond)
		if ok && neq == f.Neg && match(x) {
			return true
		}
	}
	return false
}

// e19ErrKnownNil: at `use` the error returned by the call is known to be nil —
// by a test of the value itself or of the variable it was assigned to (no other
// assignment to the variable between the assignment and the tested load).
func e19ErrKnownNil(errV ssa.Value, use ssa.Instruction) bool {
	if core.NilAt(errV, use) {
		return true
	}
	facts := core.FactsAt(use.Block())
	for _, st := range e19ErrCells(errV) {
		ok := e19NilFactOn(facts, func(x ssa.Value) bool {
			ld, isLd := x.(*ssa.UnOp)
			if !isLd || ld.X != st.Addr || !core.Dominates(st, ld) {
				return false
			}
			return !e19StoreBetween(st, ld)
		})
		if ok {
			return true
		}
	}
	return false
}

func e19StoreBetween(st *ssa.Store, ld *ssa.UnOp) bool {
	for _, b := range st.Parent().Blocks {
		for _, in := range b.Instrs {
			s2, ok := in.(*ssa.Store)
			if !ok || s2 == st || s2.Addr != st.Addr {
				continue
			}
			if core.Reachable(st, s2, func(i ssa.Instruction) bool { return i == ld }) && core.Reachable(s2, ld, nil) {
				return true
			}
		}
	}
	return false
}

// e19TestsErr: the instruction branches on the nil-ness of errV (or of the variable holding it).
func e19TestsErr(in ssa.Instruction, errV ssa.Value) bool {
	iff, ok := in.(*ssa.If)
	if !ok {
		return false
	}
	x, _, ok := core.NilCmp(iff.Cond)
	if !ok {
		return false
	}
	if x == errV {
		return true
	}
	if ld, isLd := x.(*ssa.UnOp); isLd {
		for _, st := range e19ErrCells(errV) {
			if ld.X == st.Addr && !e19StoreBetween(st, ld) {
				return true
			}
		}
	}
	return false
}

// e19LocalContainer: the publishing instruction writes an element of a slice or
// map that this function created itself.
func e19LocalContainer(in ssa.Instruction) bool {
	var cont ssa.Value
	switch x := in.(type) {
	case *ssa.Store:
		ia, ok := x.Addr.(*ssa.IndexAddr)
		if !ok {
			return false
		}
		cont = ia.X
	case *ssa.MapUpdate:
		cont = x.Map
	default:
		return false
	}
	os := core.Origins(cont, true)
	if len(os) == 0 {
		return false
	}
	for _, o := range os {
		switch o.(type) {
		case *ssa.MakeSlice, *ssa.MakeMap:
		default:
			return false
		}
	}
	return true
}
