package rules

import (
	"fmt"

	"golang.org/x/tools/go/ssa"

	"verif/checker/core"
)

// R-CLEAN-8 — a handler leaves the container only after it has been released.
//
// The container's map is what Rollback → ReleaseResources, CloseAll and
// CloseAllWithErrors enumerate. A handler that is dropped from the map while it
// still owns its .lock / .temp files (its close or commit failed, or has not
// run yet) can never be cleaned up again.

func init() {
	Register(&Rule{ID: "R-CLEAN-8", Props: []string{"C11", "C09"}, Floor: 2,
		Doc:      "every instruction that unregisters a handler from file.Container.m (a delete on that map, or a call of a function that reaches such a delete without releasing anything — Container.Remove) is dominated by a call that releases the handler (reaches Handler.close / commit / closeWithErrors) in the same function; when that call can run the fail-fast terminal methods close or commit, the unregistering is reachable only through the call's err == nil edge (a handler whose close or commit failed stays registered, so the final release can still find it); only after the error-collecting closeWithErrors, which has already tried to remove every file, may the handler be dropped unconditionally. The unregistering primitive itself is judged at its call sites",
		Controls: []string{"CtlUnregisterBeforeRelease"},
		Run:      ruleClean8})
}

// deletesFromContainer: `delete(c.m, key)` on the map of a file.Container.
func deletesFromContainer(in ssa.Instruction) bool {
	call, ok := in.(*ssa.Call)
	if !ok {
		return false
	}
	b, ok := call.Call.Value.(*ssa.Builtin)
	return ok && b.Name() == "delete" && len(call.Call.Args) == 2 && chainEndsWith(call.Call.Args[0], "lib/file.Container.m")
}

func ruleClean8(c *Ctx) {
	p := c.P
	for _, n := range []string{fnHClose, fnHCommit, fnHCloseErrs} {
		c.Fn(n)
	}
	direct := func(f *ssa.Function) bool {
		for _, b := range f.Blocks {
			for _, in := range b.Instrs {
				if deletesFromContainer(in) {
					return true
				}
			}
		}
		return false
	}
	unreg := reachers(p, "unregisters from Container.m", direct)
	term := reachers(p, "handler terminal methods", p.NameIs(fnHClose, fnHCommit, fnHCloseErrs))
	strictSet := reachers(p, "fail-fast terminal methods", p.NameIs(fnHClose, fnHCommit))
	releases := func(k ssa.CallInstruction) bool {
		if _, isDefer := k.(*ssa.Defer); isDefer {
			return false
		}
		return callReachesSet(p, k, term)
	}
	// unregOnly: reaches the delete and releases nothing (the primitive and wrappers of it)
	unregOnly := func(f *ssa.Function) bool { return f != nil && unreg[f] && !term[f] && p.Name(f) != f.String() }
	isUnregister := func(in ssa.Instruction) bool {
		if deletesFromContainer(in) {
			return true
		}
		k, ok := in.(ssa.CallInstruction)
		if !ok {
			return false
		}
		callees := p.Callees(k)
		if len(callees) == 0 {
			return false
		}
		for _, f := range callees {
			if !unregOnly(f) {
				return false
			}
		}
		return true
	}
	n := 0
	for _, fn := range p.SrcFuncs() {
		idx := 0
		for _, b := range fn.Blocks {
			for _, in := range b.Instrs {
				if !isUnregister(in) {
					continue
				}
				idx++
				n++
				c.Sites++
				c.Touch(fn)
				key := c.KeyAt(fn, "handler unregistered only after its release succeeded")
				if idx > 1 {
					key += " " + ordinal(idx)
				}
				if unregOnly(rootOf(fn)) {
					c.Ok(key, c.Pos(in), "the unregistering primitive (releases nothing itself): judged at each of its call sites")
					continue
				}
				var dom []ssa.CallInstruction
				for _, f := range funcAndClosures(rootOf(fn)) {
					for _, k := range core.Calls(f) {
						if ki, ok := k.(ssa.Instruction); ok && ki != in && releases(k) && k.Parent() == fn && core.Dominates(k, in) {
							dom = append(dom, k)
						}
					}
				}
				if len(dom) == 0 {
					c.Bad(key, c.Pos(in), "the handler is removed from the container's map at a point that no releasing call (Handler.close / commit / closeWithErrors) dominates: if the release that follows fails — or never happens — the handler still owns its .lock / .temp files but Rollback → ReleaseResources, CloseAll and CloseAllWithErrors can no longer find it, so the control files stay behind")
					continue
				}
				okStrict, anyStrict := false, false
				var strictAt ssa.CallInstruction
				for _, k := range dom {
					if callReachesSet(p, k, strictSet) {
						anyStrict = true
						strictAt = k
						if succeededAt(k, in) {
							okStrict = true
						}
					}
				}
				switch {
				case okStrict:
					c.Ok(key, c.Pos(in), "reached only through the err == nil edge of the releasing call")
				case !anyStrict:
					c.Ok(key, c.Pos(in), "after the error-collecting closeWithErrors, which has tried to remove every file of the handler")
				default:
					c.Bad(key, c.Pos(in), fmt.Sprintf("the handler is removed from the container's map whether or not %s at %s succeeded: when close / commit fails (a rename or a remove fails) it stops at the first error and the handler keeps its remaining .lock / .temp files, but no later clean-up can find it any more", describeCall(p, strictAt), c.Pos(strictAt)))
				}
			}
		}
	}
	if n == 0 {
		c.Unknown("anchor:delete on Container.m", "-", "cannot-analyse: nothing removes entries from file.Container.m any more")
	}
}
