package rules

// R-TXN-12 (seventh round, seed C01-14): what COMMIT writes and what it stores as restore
// points is a partition of what may be registered as changed.

import (
	"fmt"
	"go/constant"
	"go/token"
	"go/types"
	"sort"
	"strings"

	"golang.org/x/tools/go/ssa"

	"verif/checker/core"
)

func init() {
	Register(&Rule{ID: "R-TXN-12", Props: []string{"C01", "C05"}, Floor: 4,
		Doc:      "the uncommitted views are partitioned: the methods of UncommittedViews that select from the Updated / Created maps (returning a map) each filter by one FileInfo predicate; evaluated over every ViewType constant, each view type for which FileInfo.IsUpdatable holds satisfies exactly one of the predicates the Updated-selectors use — so every changed table is either written to its file by COMMIT or stored / restored as an in-memory table, none is skipped (STDIN is an in-memory table that is not a temporary table) and none is handled twice; the counting methods use one of the selectors' predicates",
		Controls: []string{"CtlUncommittedSkipsStdin"},
		Run:      ruleTxn12})
}

// txn12EvalPredicate evaluates a `func (f *FileInfo) IsX() bool` whose conditions compare the
// ViewType field with constants, for ViewType = v.
func txn12EvalPredicate(fn *ssa.Function, fieldName string, v int64) (res bool, ok bool) {
	if fn == nil || len(fn.Blocks) == 0 {
		return false, false
	}
	isField := func(x ssa.Value) bool {
		u, isU := x.(*ssa.UnOp)
		if !isU || u.Op != token.MUL {
			return false
		}
		fa, isFA := u.X.(*ssa.FieldAddr)
		return isFA && core.FieldName(fa) == fieldName
	}
	var evalBool func(x ssa.Value, pred, blk *ssa.BasicBlock, depth int) (bool, bool)
	evalBool = func(x ssa.Value, pred, blk *ssa.BasicBlock, depth int) (bool, bool) {
		if depth > 12 {
			return false, false
		}
		switch y := x.(type) {
		case *ssa.Const:
			if y.Value != nil && y.Value.Kind() == constant.Bool {
				return constant.BoolVal(y.Value), true
			}
		case *ssa.BinOp:
			var k int64
			var has bool
			if isField(y.X) {
				k, has = core.ConstInt(y.Y)
			} else if isField(y.Y) {
				k, has = core.ConstInt(y.X)
			}
			if has {
				switch y.Op {
				case token.EQL:
					return v == k, true
				case token.NEQ:
					return v != k, true
				}
			}
		case *ssa.UnOp:
			if y.Op == token.NOT {
				b, ok := evalBool(y.X, pred, blk, depth+1)
				return !b, ok
			}
		case *ssa.Call:
			// a predicate calling another predicate on the same receiver
			if g := core.StaticCallee(y); g != nil && g.Signature.Recv() != nil && len(y.Call.Args) == 1 {
				return txn12EvalPredicate(g, fieldName, v)
			}
		}
		return false, false
	}
	blk := fn.Blocks[0]
	var prev *ssa.BasicBlock
	for steps := 0; steps < 64; steps++ {
		last := blk.Instrs[len(blk.Instrs)-1]
		switch x := last.(type) {
		case *ssa.Return:
			if len(x.Results) != 1 {
				return false, false
			}
			r := x.Results[0]
			if phi, isPhi := r.(*ssa.Phi); isPhi && phi.Block() == blk && prev != nil {
				for i, p := range blk.Preds {
					if p == prev {
						r = phi.Edges[i]
					}
				}
			}
			return evalBool(r, prev, blk, 0)
		case *ssa.If:
			c, ok := evalBool(x.Cond, prev, blk, 0)
			if !ok {
				return false, false
			}
			prev = blk
			if c {
				blk = blk.Succs[0]
			} else {
				blk = blk.Succs[1]
			}
		case *ssa.Jump:
			prev = blk
			blk = blk.Succs[0]
		default:
			return false, false
		}
	}
	return false, false
}

func ruleTxn12(c *Ctx) {
	start := len(c.Obs)
	pk := c.P.ByPath["lib/query"]
	if pk == nil {
		c.Unknown("anchor:lib/query", "-", "cannot-analyse: package not loaded")
		return
	}
	// the ViewType constants
	type vt struct {
		name string
		val  int64
	}
	var vts []vt
	for _, n := range pk.Types.Scope().Names() {
		k, ok := pk.Types.Scope().Lookup(n).(*types.Const)
		if !ok || core.NamedOf(k.Type()) != "lib/query.ViewType" {
			continue
		}
		if v, ok := constant.Int64Val(k.Val()); ok {
			vts = append(vts, vt{n, v})
		}
	}
	sort.Slice(vts, func(i, j int) bool { return vts[i].val < vts[j].val })
	if len(vts) < 4 {
		c.Unknown("anchor:lib/query.ViewType constants", "-", fmt.Sprintf("cannot-analyse: expected the ViewType constants, found %d", len(vts)))
		return
	}
	updatable := c.Fn("lib/query.(*FileInfo).IsUpdatable")
	if updatable == nil {
		return
	}
	// selectors: methods (of the real type and of control types *Uncommitted…) that range over a
	// map field named Updated / Created and filter by a FileInfo predicate
	type sel struct {
		fn      *ssa.Function
		mapName string
		pred    *ssa.Function
		retMap  bool
	}
	var sels []sel
	for _, fn := range c.P.FuncsIn(true, "lib/query") {
		if fn.Signature.Recv() == nil || fn.Parent() != nil {
			continue
		}
		rn := core.NamedOf(fn.Signature.Recv().Type())
		if p, ok := fn.Signature.Recv().Type().(*types.Pointer); ok {
			rn = core.NamedOf(p.Elem())
		}
		if !strings.HasSuffix(rn, "UncommittedViews") {
			continue
		}
		// closed under private helpers: a selector may delegate the loop
		fns := []*ssa.Function{fn}
		for h := range privateHelpersOf(c.P, fn, 2) {
			fns = append(fns, h)
		}
		sort.Slice(fns[1:], func(i, j int) bool { return c.P.Name(fns[1+i]) < c.P.Name(fns[1+j]) })
		for _, g := range fns {
			for _, b := range g.Blocks {
				for _, in := range b.Instrs {
					rg, ok := in.(*ssa.Range)
					if !ok {
						continue
					}
					ld, ok := rg.X.(*ssa.UnOp)
					if !ok {
						continue
					}
					fa, ok := ld.X.(*ssa.FieldAddr)
					if !ok {
						continue
					}
					mapName := core.FieldName(fa)
					if mapName != "Updated" && mapName != "Created" {
						continue
					}
					// the predicate: a call of a no-argument bool method of *FileInfo in g that feeds an If
					for _, call := range core.Calls(g) {
						p := core.StaticCallee(call)
						cv, isCall := call.(*ssa.Call)
						if p == nil || !isCall || p.Signature.Recv() == nil || p.Signature.Params().Len() != 0 || p.Signature.Results().Len() != 1 {
							continue
						}
						if bt, ok := p.Signature.Results().At(0).Type().Underlying().(*types.Basic); !ok || bt.Kind() != types.Bool {
							continue
						}
						feedsIf := false
						for _, r := range *cv.Referrers() {
							if _, ok := r.(*ssa.If); ok {
								feedsIf = true
							}
						}
						if !feedsIf {
							continue
						}
						_, retMap := fn.Signature.Results().At(0).Type().Underlying().(*types.Map)
						sels = append(sels, sel{fn, mapName, p, retMap})
					}
				}
			}
		}
	}
	if len(sels) == 0 {
		c.Unknown("anchor:selectors of UncommittedViews", "-", "cannot-analyse: no method of UncommittedViews filters Updated / Created by a FileInfo predicate")
		return
	}
	// group by receiver type (the real type and each control type are judged separately)
	byType := map[string][]sel{}
	var typeNames []string
	for _, s := range sels {
		tn := core.NamedOf(s.fn.Signature.Recv().Type())
		if p, ok := s.fn.Signature.Recv().Type().(*types.Pointer); ok {
			tn = core.NamedOf(p.Elem())
		}
		if _, ok := byType[tn]; !ok {
			typeNames = append(typeNames, tn)
		}
		byType[tn] = append(byType[tn], s)
	}
	sort.Strings(typeNames)
	real := 0
	for _, tn := range typeNames {
		group := byType[tn]
		// distinct predicates of the map-returning selectors of Updated
		preds := map[*ssa.Function]bool{}
		var predList []*ssa.Function
		var anchor *ssa.Function
		for _, s := range group {
			c.Touch(s.fn)
			if s.retMap && s.mapName == "Updated" && !preds[s.pred] {
				preds[s.pred] = true
				predList = append(predList, s.pred)
				anchor = s.fn
			}
		}
		if anchor == nil {
			continue
		}
		sort.Slice(predList, func(i, j int) bool { return predList[i].Name() < predList[j].Name() })
		var names []string
		for _, p := range predList {
			names = append(names, p.Name())
		}
		for _, t := range vts {
			up, ok := txn12EvalPredicate(updatable, "ViewType", t.val)
			key := fmt.Sprintf("%s: %s is selected exactly once", tn, t.name)
			pos := c.FnPos(anchor)
			if !c.isCtlPos(pos) {
				real++
			}
			if !ok {
				c.Unknown(key, pos, "cannot evaluate FileInfo.IsUpdatable for "+t.name)
				continue
			}
			n, undecided := 0, false
			var by []string
			for _, p := range predList {
				r, ok := txn12EvalPredicate(p, "ViewType", t.val)
				if !ok {
					undecided = true
				}
				if r {
					n++
					by = append(by, p.Name())
				}
			}
			switch {
			case undecided:
				c.Unknown(key, pos, "a selector predicate could not be evaluated over the ViewType constants")
			case !up:
				c.OkN(key, pos, "not updatable: never registered as changed", len(predList))
			case n == 1:
				c.OkN(key, pos, "selected by "+by[0], len(predList))
			case n == 0:
				c.Bad(key, pos, fmt.Sprintf("a changed table of type %s is updatable but none of the selectors of the Updated map (%s) takes it: COMMIT neither writes it nor stores its restore point, ROLLBACK does not restore it", t.name, strings.Join(names, ", ")))
			default:
				c.Bad(key, pos, fmt.Sprintf("a changed table of type %s is taken by %d selectors (%s)", t.name, n, strings.Join(by, ", ")))
			}
		}
		// counters use a selector predicate
		for _, s := range group {
			if s.retMap || s.mapName != "Updated" {
				continue
			}
			key := c.KeyAt(s.fn, "counts what a selector selects")
			c.Check(preds[s.pred], key, c.FnPos(s.fn), "filters by "+s.pred.Name(), "counts the entries of Updated that satisfy "+s.pred.Name()+", which no selector uses ("+strings.Join(names, ", ")+"): the reported number of changed tables differs from what COMMIT handles")
		}
	}
	c.negControls(start, "OkPartitionUncommittedViews")
	if real < 4 {
		c.Unknown("anchor:view types judged", "-", fmt.Sprintf("cannot-analyse: expected one obligation per ViewType constant, got %d", real))
	}
}
