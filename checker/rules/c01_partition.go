package rules

// R-TXN-12 (seventh round, seed C01-14): what COMMIT writes and what it stores as restore
// points is a partition of what may be registered as changed.

import (
	"fmt"
	"go/constant"
	"go/token"
	"go/types"
	"sort"
	"strings"

	"golang.org/x/tools/go/ssa"

	"verif/checker/core"
)

func init() {
	Register(&Rule{ID: "R-TXN-12", Props: []string{"C01", "C05"}, Floor: 4,
		Doc:      "the uncommitted views are partitioned: the methods of UncommittedViews that select from the Updated / Created maps (returning a map) each filter by one FileInfo predicate; evaluated over every ViewType constant, each view type for which FileInfo.IsUpdatable holds satisfies exactly one of the predicates the Updated-selectors use — so every changed table is either written to its file by COMMIT or stored / restored as an in-memory table, none is skipped (STDIN is an in-memory table that is not a temporary table) and none is handled twice; the counting methods use one of the selectors' predicates",
		Controls: []string{"CtlUncommittedSkipsStdin", "CtlCountsOtherPredicate"},
		Run:      ruleTxn12})
}

// txn12EvalPredicate evaluates a `func (f *FileInfo) IsX() bool` whose conditions compare the
// ViewType field with constants, for ViewType = v.
func txn12EvalPredicate(fn *ssa.Function, fieldName string, v int64) (res bool, ok bool) {
	if fn == nil || len(fn.Blocks) == 0 {
		return false, false
	}
	isField := func(x ssa.Value) bool {
		u, isU := x.(*ssa.UnOp)
		if !isU || u.Op != token.MUL {
			return false
		}
		fa, isFA := u.X.(*ssa.FieldAddr)
		return isFA && core.FieldName(fa) == fieldName
	}
	var evalBool func(x ssa.Value, pred, blk *ssa.BasicBlock, depth int) (bool, bool)
	evalBool = func(x ssa.Value, pred, blk *ssa.BasicBlock, depth int) (bool, bool) {
		if depth > 12 {
			return false, false
		}
		switch y := x.(type) {
		case *ssa.Const:
			if y.Value != nil && y.Value.Kind() == constant.Bool {
				return constant.BoolVal(y.Value), true
			}
		case *ssa.BinOp:
			var k int64
			var has bool
			if isField(y.X) {
				k, has = core.ConstInt(y.Y)
			} else if isField(y.Y) {
				k, has = core.ConstInt(y.X)
			}
			if has {
				switch y.Op {
				case token.EQL:
					return v == k, true
				case token.NEQ:
					return v != k, true
				}
			}
		case *ssa.UnOp:
			if y.Op == token.NOT {
				b, ok := evalBool(y.X, pred, blk, depth+1)
				return !b, ok
			}
		case *ssa.Call:
			// a predicate calling another predicate on the same receiver
			if g := core.StaticCallee(y); g != nil && g.Signature.Recv() != nil && len(y.Call.Args) == 1 {
				return txn12EvalPredicate(g, fieldName, v)
			}
		}
		return false, false
	}
	blk := fn.Blocks[0]
	var prev *ssa.BasicBlock
	for steps := 0; steps < 64; steps++ {
		last := blk.Instrs[len(blk.Instrs)-1]
		switch x := last.(type) {
		case *ssa.Return:
			if len(x.Results) != 1 {
				return false, false
			}
			r := x.Results[0]
			if phi, isPhi := r.(*ssa.Phi); isPhi && phi.Block() == blk && prev != nil {
				for i, p := range blk.Preds {
					if p == prev {
						r = phi.Edges[i]
					}
				}
			}
			return evalBool(r, prev, blk, 0)
		case *ssa.If:
			c, ok := evalBool(x.Cond, prev, blk, 0)
			if !ok {
				return false, false
			}
			prev = blk
			if c {
				blk = blk.Succs[0]
			} else {
				blk = blk.Succs[1]
			}
		case *ssa.Jump:
			prev = blk
			blk = blk.Succs[0]
		default:
			return false, false
		}
	}
	return false, false
}

// txn12Env: what the parameters of a helper denote on one call path from a selector.
type txn12Env struct {
	maps  map[*ssa.Parameter]string        // parameter → "Updated" / "Created"
	preds map[*ssa.Parameter]*ssa.Function // function-typed parameter → FileInfo predicate
}

func txn12IsBool(t types.Type) bool {
	bt, ok := t.Underlying().(*types.Basic)
	return ok && bt.Kind() == types.Bool
}

// txn12IsPredicateMethod: `func (recv) IsX() bool`.
func txn12IsPredicateMethod(p *ssa.Function) bool {
	return p != nil && p.Signature.Recv() != nil && p.Signature.Params().Len() == 0 && p.Signature.Results().Len() == 1 && txn12IsBool(p.Signature.Results().At(0).Type())
}

// txn12UnwrapPredicate: the predicate method a function value stands for — the method itself, or the
// single predicate method that a thunk / bound-method wrapper / one-line literal calls on its own
// argument and whose result it returns unchanged.
func txn12UnwrapPredicate(f *ssa.Function) *ssa.Function {
	if f == nil {
		return nil
	}
	if txn12IsPredicateMethod(f) {
		return f
	}
	if f.Blocks == nil || f.Signature.Results().Len() != 1 || !txn12IsBool(f.Signature.Results().At(0).Type()) {
		return nil
	}
	var found *ssa.Function
	for _, b := range f.Blocks {
		for _, in := range b.Instrs {
			switch x := in.(type) {
			case *ssa.Return:
				call, ok := x.Results[0].(*ssa.Call)
				if !ok {
					return nil
				}
				p := core.StaticCallee(call)
				if !txn12IsPredicateMethod(p) || len(call.Call.Args) != 1 || found != nil {
					return nil
				}
				switch r := call.Call.Args[0].(type) {
				case *ssa.Parameter:
				case *ssa.UnOp:
					if _, isFV := r.X.(*ssa.FreeVar); !isFV {
						return nil
					}
				case *ssa.FreeVar:
				default:
					return nil
				}
				found = p
			case *ssa.Store, *ssa.MapUpdate, *ssa.Send, *ssa.Go:
				return nil
			}
		}
	}
	return found
}

func ruleTxn12(c *Ctx) {
	start := len(c.Obs)
	pk := c.P.ByPath["lib/query"]
	if pk == nil {
		c.Unknown("anchor:lib/query", "-", "cannot-analyse: package not loaded")
		return
	}
	// the ViewType constants
	type vt struct {
		name string
		val  int64
	}
	var vts []vt
	for _, n := range pk.Types.Scope().Names() {
		k, ok := pk.Types.Scope().Lookup(n).(*types.Const)
		if !ok || core.NamedOf(k.Type()) != "lib/query.ViewType" {
			continue
		}
		if v, ok := constant.Int64Val(k.Val()); ok {
			vts = append(vts, vt{n, v})
		}
	}
	sort.Slice(vts, func(i, j int) bool { return vts[i].val < vts[j].val })
	if len(vts) < 4 {
		c.Unknown("anchor:lib/query.ViewType constants", "-", fmt.Sprintf("cannot-analyse: expected the ViewType constants, found %d", len(vts)))
		return
	}
	updatable := c.Fn("lib/query.(*FileInfo).IsUpdatable")
	if updatable == nil {
		return
	}
	// selectors: methods (of the real type and of control types *Uncommitted…) that range over a
	// map field named Updated / Created and filter by a FileInfo predicate
	type sel struct {
		fn      *ssa.Function
		mapName string
		pred    *ssa.Function
		retMap  bool
	}
	var sels []sel
	for _, fn := range c.P.FuncsIn(true, "lib/query") {
		if fn.Signature.Recv() == nil || fn.Parent() != nil {
			continue
		}
		rn := core.NamedOf(fn.Signature.Recv().Type())
		if p, ok := fn.Signature.Recv().Type().(*types.Pointer); ok {
			rn = core.NamedOf(p.Elem())
		}
		if !strings.HasSuffix(rn, "UncommittedViews") {
			continue
		}
		// closed under helpers, context-sensitively: a selector may delegate the loop to a method of the
		// same receiver or to a function that receives the map (m.Updated) and / or the predicate
		// ((*FileInfo).IsFile) as arguments; the arguments are resolved per call path from the selector
		root := fn
		retMap := false
		if root.Signature.Results().Len() > 0 {
			_, retMap = root.Signature.Results().At(0).Type().Underlying().(*types.Map)
		}
		var collect func(g *ssa.Function, env txn12Env, depth int)
		collect = func(g *ssa.Function, env txn12Env, depth int) {
			mapOf := func(v ssa.Value) string {
				switch x := v.(type) {
				case *ssa.UnOp:
					if fa, ok := x.X.(*ssa.FieldAddr); ok && x.Op == token.MUL {
						if n := core.FieldName(fa); n == "Updated" || n == "Created" {
							return n
						}
					}
				case *ssa.Parameter:
					return env.maps[x]
				}
				return ""
			}
			predOf := func(v ssa.Value) *ssa.Function {
				if prm, ok := v.(*ssa.Parameter); ok {
					return env.preds[prm]
				}
				os := core.Origins(v, false)
				if len(os) != 1 {
					return nil
				}
				switch x := os[0].(type) {
				case *ssa.Function:
					return txn12UnwrapPredicate(x)
				case *ssa.MakeClosure:
					f, _ := x.Fn.(*ssa.Function)
					return txn12UnwrapPredicate(f)
				case *ssa.Parameter:
					return env.preds[x]
				}
				return nil
			}
			var mapNames []string
			for _, b := range g.Blocks {
				for _, in := range b.Instrs {
					if rg, ok := in.(*ssa.Range); ok {
						if n := mapOf(rg.X); n != "" {
							mapNames = append(mapNames, n)
						}
					}
				}
			}
			if len(mapNames) > 0 {
				// the predicate: a call of a no-argument bool method of *FileInfo in g — directly or through a
				// function-typed parameter bound to it — that feeds an If
				for _, call := range core.Calls(g) {
					cv, isCall := call.(*ssa.Call)
					if !isCall {
						continue
					}
					feedsIf := false
					for _, r := range *cv.Referrers() {
						if _, ok := r.(*ssa.If); ok {
							feedsIf = true
						}
					}
					if !feedsIf {
						continue
					}
					var pred *ssa.Function
					if p := core.StaticCallee(call); p != nil {
						if !txn12IsPredicateMethod(p) {
							continue
						}
						pred = p
					} else if prm, ok := call.Common().Value.(*ssa.Parameter); ok && !call.Common().IsInvoke() {
						sig, _ := prm.Type().Underlying().(*types.Signature)
						if sig == nil || sig.Params().Len() != 1 || sig.Results().Len() != 1 || !txn12IsBool(sig.Results().At(0).Type()) {
							continue
						}
						pred = env.preds[prm]
						if pred == nil && depth == 0 {
							// the method itself is the parameterised helper: it is judged on the paths from the methods that call it
							continue
						}
						if pred == nil {
							c.Unknown(c.KeyAt(root, "predicate of the loop over "+mapNames[0]+" in "+g.Name()), c.Pos(call), "cannot-analyse: the filter is the function-typed parameter "+prm.Name()+" and the function passed for it on the path from "+root.Name()+" is not a FileInfo predicate (method expression, method value or a literal returning one)")
							continue
						}
					} else {
						continue
					}
					for _, mapName := range mapNames {
						sels = append(sels, sel{root, mapName, pred, retMap})
					}
				}
			}
			if depth >= 3 {
				return
			}
			for _, call := range core.Calls(g) {
				h := core.StaticCallee(call)
				if h == nil || h.Blocks == nil || h == g || h == root || !inModule(h) || txn12IsPredicateMethod(h) {
					continue
				}
				env2 := txn12Env{maps: map[*ssa.Parameter]string{}, preds: map[*ssa.Parameter]*ssa.Function{}}
				for i, a := range call.Common().Args {
					if i >= len(h.Params) {
						break
					}
					if n := mapOf(a); n != "" {
						env2.maps[h.Params[i]] = n
					}
					if _, isFn := h.Params[i].Type().Underlying().(*types.Signature); isFn {
						if pr := predOf(a); pr != nil {
							env2.preds[h.Params[i]] = pr
						}
					}
				}
				sameRecv := h.Signature.Recv() != nil && types.Identical(h.Signature.Recv().Type(), root.Signature.Recv().Type())
				if sameRecv || len(env2.maps)+len(env2.preds) > 0 {
					collect(h, env2, depth+1)
				}
			}
		}
		collect(root, txn12Env{}, 0)
	}
	if len(sels) == 0 {
		c.Unknown("anchor:selectors of UncommittedViews", "-", "cannot-analyse: no method of UncommittedViews filters Updated / Created by a FileInfo predicate")
		return
	}
	// group by receiver type (the real type and each control type are judged separately)
	byType := map[string][]sel{}
	var typeNames []string
	for _, s := range sels {
		tn := core.NamedOf(s.fn.Signature.Recv().Type())
		if p, ok := s.fn.Signature.Recv().Type().(*types.Pointer); ok {
			tn = core.NamedOf(p.Elem())
		}
		if _, ok := byType[tn]; !ok {
			typeNames = append(typeNames, tn)
		}
		byType[tn] = append(byType[tn], s)
	}
	sort.Strings(typeNames)
	real := 0
	for _, tn := range typeNames {
		group := byType[tn]
		// distinct predicates of the map-returning selectors of Updated
		preds := map[*ssa.Function]bool{}
		var predList []*ssa.Function
		var anchor *ssa.Function
		for _, s := range group {
			c.Touch(s.fn)
			if s.retMap && s.mapName == "Updated" && !preds[s.pred] {
				preds[s.pred] = true
				predList = append(predList, s.pred)
				anchor = s.fn
			}
		}
		if anchor == nil {
			continue
		}
		sort.Slice(predList, func(i, j int) bool { return predList[i].Name() < predList[j].Name() })
		var names []string
		for _, p := range predList {
			names = append(names, p.Name())
		}
		for _, t := range vts {
			up, ok := txn12EvalPredicate(updatable, "ViewType", t.val)
			key := fmt.Sprintf("%s: %s is selected exactly once", tn, t.name)
			pos := c.FnPos(anchor)
			if !c.isCtlPos(pos) {
				real++
			}
			if !ok {
				c.Unknown(key, pos, "cannot evaluate FileInfo.IsUpdatable for "+t.name)
				continue
			}
			n, undecided := 0, false
			var by []string
			for _, p := range predList {
				r, ok := txn12EvalPredicate(p, "ViewType", t.val)
				if !ok {
					undecided = true
				}
				if r {
					n++
					by = append(by, p.Name())
				}
			}
			switch {
			case undecided:
				c.Unknown(key, pos, "a selector predicate could not be evaluated over the ViewType constants")
			case !up:
				c.OkN(key, pos, "not updatable: never registered as changed", len(predList))
			case n == 1:
				c.OkN(key, pos, "selected by "+by[0], len(predList))
			case n == 0:
				c.Bad(key, pos, fmt.Sprintf("a changed table of type %s is updatable but none of the selectors of the Updated map (%s) takes it: COMMIT neither writes it nor stores its restore point, ROLLBACK does not restore it", t.name, strings.Join(names, ", ")))
			default:
				c.Bad(key, pos, fmt.Sprintf("a changed table of type %s is taken by %d selectors (%s)", t.name, n, strings.Join(by, ", ")))
			}
		}
		// counters use a selector predicate
		for _, s := range group {
			if s.retMap || s.mapName != "Updated" {
				continue
			}
			key := c.KeyAt(s.fn, "counts what a selector selects")
			c.Check(preds[s.pred], key, c.FnPos(s.fn), "filters by "+s.pred.Name(), "counts the entries of Updated that satisfy "+s.pred.Name()+", which no selector uses ("+strings.Join(names, ", ")+"): the reported number of changed tables differs from what COMMIT handles")
		}
	}
	c.negControls(start, "OkPartitionUncommittedViews", "OkPartitionArgsUncommittedViews")
	if real < 4 {
		c.Unknown("anchor:view types judged", "-", fmt.Sprintf("cannot-analyse: expected one obligation per ViewType constant, got %d", real))
	}
}
