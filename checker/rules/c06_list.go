package rules

import (
	"fmt"
	"go/constant"
	"go/types"
	"sort"
	"strings"

	"golang.org/x/tools/go/ssa"

	"verif/checker/absint"
	"verif/checker/core"
)

// R-CMP-7 — quantified comparison over a list (IN, NOT IN, op ANY, op ALL):
// InRowValueList as a function of the element comparison results equals the
// Kleene fold, for every list length up to cmp7MaxLen, the empty list included.

const (
	cmp7Target = "lib/query.InRowValueList"
	cmp7Oracle = "lib/value.CompareRowValues"
	cmp7Ternry = "github.com/mithrandie/ternary"
	cmp7MaxLen = 3
)

func init() {
	Register(&Rule{ID: "R-CMP-7", Props: []string{"C06", "C03"}, Floor: 12,
		Doc: "InRowValueList (IN, NOT IN, op ANY, op ALL) is executed by finite-domain abstract interpretation for list lengths 0…3, each match type constant its callers pass (parser.ANY, parser.ALL) and an arbitrary left operand (its length and value.IsNull of its members are world atoms answered both ways; a function that loops over the operand is decided on operands of one and of two opaque members instead): " +
			"value.CompareRowValues is an uninterpreted oracle whose answer per list element is chosen among TRUE / FALSE / UNKNOWN / error, every other condition is decided on concrete data " +
			"(make / element stores / append / len act on concrete slices; the bodies of github.com/mithrandie/ternary — Any, All, And, Or … — are the dependency's real SSA bodies and are executed, not modelled; unexported helpers of lib/query are inlined). " +
			"Decided in every world: each oracle call compares the operand with one list element using the caller's operator; with no error answered the function returns a nil error and exactly the Kleene fold of the element results " +
			"(ANY = OR, FALSE for the empty list; ALL = AND, TRUE for the empty list), and it may leave an element uncompared only when the fold is already absorbed (TRUE for ANY, FALSE for ALL); " +
			"when an oracle call answers an error the function returns a non-nil error value. A shortcut that presumes what CompareRowValues would answer is reported (the oracle is uninterpreted)",
		Controls: []string{"CtlInListDropsUnknown"},
		Run:      ruleCmp7})
}

// cmp7Sig: the roles of the parameters, resolved by type (never by name).
type cmp7Sig struct {
	operand, list, match, operator int
}

func cmp7Signature(c *Ctx, fn *ssa.Function) (cmp7Sig, string) {
	rowT := c.P.Type("lib/value", "RowValue")
	if rowT == nil {
		return cmp7Sig{}, "type lib/value.RowValue not found"
	}
	s := cmp7Sig{-1, -1, -1, -1}
	set := func(slot *int, i int, what string) string {
		if *slot >= 0 {
			return "more than one " + what + " parameter"
		}
		*slot = i
		return ""
	}
	for i, p := range fn.Params {
		t := p.Type()
		msg := ""
		switch {
		case types.Identical(t, rowT):
			msg = set(&s.operand, i, "value.RowValue")
		case types.Identical(t, types.NewSlice(rowT)):
			msg = set(&s.list, i, "[]value.RowValue")
		case types.Identical(t, types.Typ[types.Int]):
			msg = set(&s.match, i, "int (match type)")
		case types.Identical(t, types.Typ[types.String]):
			msg = set(&s.operator, i, "string (operator)")
		}
		if msg != "" {
			return s, msg
		}
	}
	if s.operand < 0 || s.list < 0 || s.match < 0 || s.operator < 0 {
		return s, "expected parameters (value.RowValue, []value.RowValue, int match type, string operator, …)"
	}
	res := fn.Signature.Results()
	tt := ternaryType(c)
	if res.Len() != 2 || tt == nil || !types.Identical(res.At(0).Type(), tt) {
		return s, "expected results (ternary.Value, error)"
	}
	return s, ""
}

type cmp7Match struct {
	name string // "ANY" / "ALL"
	tok  int64
}

func ruleCmp7(c *Ctx) {
	fn := c.Fn(cmp7Target)
	anyT, ok1 := parserConst(c, "ANY")
	allT, ok2 := parserConst(c, "ALL")
	if !ok1 || !ok2 || ternaryType(c) == nil {
		c.Unknown("parser tokens", "-", "cannot-analyse: parser.ANY / parser.ALL / ternary.Value not found")
		return
	}
	matches := []cmp7Match{{"ANY", anyT}, {"ALL", allT}}
	if fn != nil {
		sig, msg := cmp7Signature(c, fn)
		if msg != "" {
			c.Unknown(cmp7Target+": signature", c.FnPos(fn), "cannot-analyse: "+msg)
		} else {
			cmp7Callers(c, fn, sig, matches)
			cmp7Check(c, fn, sig, matches, false)
		}
	}
	// controls: wrong (Ctl…) and correct (Ok…) copies in the overlay package,
	// analysed by the same code
	for _, cf := range c.P.FuncsIn(true) {
		if !c.P.IsControl(cf) || cf.Parent() != nil {
			continue
		}
		neg := strings.HasPrefix(cf.Name(), "OkInList")
		if !neg && !strings.HasPrefix(cf.Name(), "CtlInList") {
			continue
		}
		sig, msg := cmp7Signature(c, cf)
		if msg != "" {
			c.Unknown("control:"+cf.Name(), "-", "control "+cf.Name()+" does not have the shape of InRowValueList: "+msg)
			continue
		}
		c.Touch(cf)
		cmp7Check(c, cf, sig, matches, neg)
	}
}

// cmp7Callers: every caller passes a constant match type that is ANY or ALL,
// and both are passed by somebody.
func cmp7Callers(c *Ctx, fn *ssa.Function, sig cmp7Sig, matches []cmp7Match) {
	seen := map[int64][]string{}
	n := 0
	for _, f := range c.P.SrcFuncs() {
		if c.P.IsControl(f) {
			continue
		}
		for _, call := range c.P.CallsNamed(f, cmp7Target) {
			n++
			c.Sites++
			args := call.Common().Args
			key := c.KeyAt(f, "match type passed to InRowValueList")
			if sig.match >= len(args) {
				c.Unknown(key, c.Pos(call), "call with fewer arguments than parameters")
				continue
			}
			k, ok := args[sig.match].(*ssa.Const)
			if !ok || k.Value == nil || k.Value.Kind() != constant.Int {
				c.Unknown(key, c.Pos(call), "the match type is not a constant here; the enumeration over {parser.ANY, parser.ALL} does not cover this caller")
				continue
			}
			v := k.Int64()
			name := ""
			for _, m := range matches {
				if m.tok == v {
					name = m.name
				}
			}
			seen[v] = append(seen[v], c.P.Name(f))
			c.Check(name != "", key, c.Pos(call), "parser."+name,
				fmt.Sprintf("passes match type %d, which is neither parser.ANY nor parser.ALL (InRowValueList treats it like ALL)", v))
		}
	}
	if n == 0 {
		c.Unknown(cmp7Target+": callers", c.FnPos(fn), "cannot-analyse: no call of InRowValueList found")
		return
	}
	for _, m := range matches {
		c.Check(len(seen[m.tok]) > 0, cmp7Target+": parser."+m.name+" caller", c.FnPos(fn),
			"passed by "+strings.Join(dedup(seen[m.tok]), ", "), "no caller passes parser."+m.name+": op "+m.name+" is not evaluated by InRowValueList any more")
	}
}

func cmp7Fold(match string, rs []string) string {
	acc := "FALSE"
	f := kleeneOr
	if match == "ALL" {
		acc, f = "TRUE", kleeneAnd
	}
	for _, r := range rs {
		acc = f(acc, r)
	}
	return acc
}

// cmp7Check: one obligation per match type and list length.
func cmp7Check(c *Ctx, fn *ssa.Function, sig cmp7Sig, matches []cmp7Match, negative bool) {
	tt := ternaryType(c)
	tconsts := enumConstsOf(tt)
	if len(tconsts) != 3 {
		c.Unknown(c.KeyAt(fn, "ternary values"), c.FnPos(fn), fmt.Sprintf("cannot-analyse: expected the 3 ternary constants, found %d", len(tconsts)))
		return
	}
	answers := []string{}
	for _, k := range tconsts {
		answers = append(answers, k.Name())
	}
	answers = append(answers, "error")
	errT := fn.Signature.Results().At(1).Type()
	primT := c.P.Type("lib/value", "Primary")
	lq, ctl := inlineHelpers(c, "lib/query"), inlineHelpers(c, core.ControlPkg)
	inline := func(f *ssa.Function) bool {
		if f == nil || f.Blocks == nil {
			return false
		}
		if f.Pkg != nil && f.Pkg.Pkg.Path() == cmp7Ternry {
			return true
		}
		return lq(f) || ctl(f)
	}
	for _, m := range matches {
		for n := 0; n <= cmp7MaxLen; n++ {
			key := c.KeyAt(fn, fmt.Sprintf("%s over a list of %d element(s)", m.name, n))
			absorbing := map[string]string{"ANY": "TRUE", "ALL": "FALSE"}[m.name]
			fold := map[string]string{"ANY": "Kleene OR", "ALL": "Kleene AND"}[m.name]
			var bad []string
			nbad := 0
			evalErr := ""
			report := func(s string) {
				nbad++
				if len(bad) < 3 {
					bad = append(bad, s)
				}
			}
			// run: the operand is an opaque row value (members == 0: its length and
			// members are atoms) or a concrete row value of `members` opaque members
			run := func(members int) (int, error) {
				limit := 2000
				if members == 0 {
					limit = 600 // a loop over the opaque operand asks a fresh atom per iteration: give up early
				}
				return absint.Enumerate(limit, func(w *absint.World) {
					if evalErr != "" {
						return // already undecidable: asking nothing ends the enumeration
					}
					it := newInterp(c, w)
					it.ConcreteSlices = true
					it.InlinePred = inline
					it.MaxDepth = 8
					it.MaxSteps = 4000
					elems := make([]absint.Val, n)
					for i := range elems {
						elems[i] = absint.Sym(fmt.Sprintf("list[%d]", i), c.P.Type("lib/value", "RowValue"))
					}
					var args []absint.Val
					for i, p := range fn.Params {
						switch i {
						case sig.list:
							s := absint.Slice(elems...)
							s.T = p.Type()
							args = append(args, s)
						case sig.match:
							args = append(args, absint.Const(constant.MakeInt64(m.tok), p.Type()))
						case sig.operand:
							if members == 0 {
								args = append(args, absint.Sym(p.Name(), p.Type()))
								break
							}
							var ms []absint.Val
							for k := 0; k < members; k++ {
								ms = append(ms, absint.Sym(fmt.Sprintf("%s[%d]", p.Name(), k), primT))
							}
							s := absint.Slice(ms...)
							s.T = p.Type()
							args = append(args, s)
						default:
							args = append(args, absint.Sym(p.Name(), p.Type()))
						}
					}
					operand, operator := args[sig.operand], args[sig.operator]
					opName := fn.Params[sig.operand].Name()
					isOperand := func(v absint.Val) bool {
						if v.K != operand.K || v.Sym != operand.Sym || len(v.Elems) != len(operand.Elems) {
							return false
						}
						for i := range v.Elems {
							if v.Elems[i].K != absint.KSym || v.Elems[i].Sym != operand.Elems[i].Sym {
								return false
							}
						}
						return true
					}
					res := make([]string, n) // answer of the oracle per element ("" = never compared)
					var order []int
					var misuse []string
					it.Models[cmp7Oracle] = func(it *absint.Interp, call ssa.CallInstruction, a []absint.Val) (absint.Val, bool) {
						j := -1
						if len(a) >= 3 && isOperand(a[0]) && a[1].K == absint.KSym {
							for i := range elems {
								if elems[i].Sym == a[1].Sym {
									j = i
								}
							}
						}
						if j < 0 || len(a) < 3 || a[2].K != absint.KSym || a[2].Sym != operator.Sym {
							misuse = append(misuse, "CompareRowValues("+joinAbs(a)+") at "+c.Pos(call))
							j = -1
						}
						k := fmt.Sprintf("cmp:%v", a)
						if j >= 0 {
							k = fmt.Sprintf("cmp[%d]", j)
						}
						ch := it.W.Choose(k, len(answers))
						if j >= 0 && res[j] == "" {
							res[j] = answers[ch]
							order = append(order, j)
						}
						if answers[ch] == "error" {
							// a definitely non-nil error: the nil-ness atom of the object is
							// answered "not nil" before the code can ask
							e := absint.Obj(fmt.Sprintf("cmpErr[%d]", len(order)), errT)
							it.W.Choose("b:nil:"+e.Sym, 1)
							return absint.Val{K: absint.KTuple, Elems: []absint.Val{absint.Const(tconsts[1].Val(), tt), e}}, true
						}
						return absint.Val{K: absint.KTuple, Elems: []absint.Val{absint.Const(tconsts[ch].Val(), tt), absint.Nil(errT)}}, true
					}
					r := it.Call(fn, args, nil)
					// the world, for diagnostics
					var el []string
					for _, j := range order {
						el = append(el, fmt.Sprintf("%s %s list[%d] → %s", opName, operator.Sym, j, res[j]))
					}
					var atoms []string
					for _, a := range w.Asked() {
						if !strings.HasPrefix(a, "cmp[") && !strings.HasPrefix(a, "cmp:") && !strings.HasPrefix(a, "b:nil:cmpErr[") {
							atoms = append(atoms, strings.TrimPrefix(a, "b:"))
						}
					}
					world := fmt.Sprintf("match type %s, %d element(s), comparisons [%s]", m.name, n, strings.Join(el, "; "))
					if members > 0 {
						world += fmt.Sprintf(", operand of %d member(s)", members)
					}
					if len(atoms) > 0 {
						world += ", operand atoms {" + strings.Join(atoms, " ") + "} (1 = true)"
					}
					if it.Err != nil {
						if evalErr == "" {
							evalErr = world + ": " + it.Err.Error()
						}
						return
					}
					if len(misuse) > 0 {
						report(world + ": " + strings.Join(dedup(misuse), ", ") + " does not compare the left operand with a list element under the caller's operator")
						return
					}
					if r.K != absint.KTuple || len(r.Elems) != 2 {
						report(world + ": unexpected result " + r.String())
						return
					}
					got := ternaryName(c, r.Elems[0])
					gotErr := "nil"
					if r.Elems[1].K != absint.KNil {
						gotErr = r.Elems[1].String()
					}
					returned := fmt.Sprintf("returns (%s, %s)", got, gotErr)
					var made []string
					hasErr := false
					var skipped []string
					for j := 0; j < n; j++ {
						switch res[j] {
						case "":
							skipped = append(skipped, fmt.Sprintf("list[%d]", j))
						case "error":
							hasErr = true
						default:
							made = append(made, res[j])
						}
					}
					if hasErr {
						if r.Elems[1].K == absint.KNil {
							report(world + ": " + returned + " although CompareRowValues reported an error; expected a non-nil error")
						}
						return
					}
					if r.Elems[1].K != absint.KNil {
						report(world + ": " + returned + " although no comparison failed; expected a nil error")
						return
					}
					if r.Elems[0].K != absint.KConst {
						report(world + ": " + returned + ", a result that is not one of the three ternaries")
						return
					}
					part := cmp7Fold(m.name, made)
					if len(skipped) > 0 && part != absorbing {
						report(fmt.Sprintf("%s: %s without comparing %s; the %s of the results so far is %s, which the remaining element(s) can still change (only %s absorbs)",
							world, returned, strings.Join(skipped, ", "), fold, part, absorbing))
						return
					}
					if got != part {
						report(fmt.Sprintf("%s: %s, expected %s = %s of the element results%s", world, returned, part, fold,
							map[bool]string{true: " (the empty fold)", false: ""}[n == 0]))
					}
				})
			}
			domain := "operand atoms"
			worlds, err := run(0)
			if err != nil || evalErr != "" {
				// not evaluable on an operand of unknown length (a loop over it):
				// decide on concrete operands of one and of two members instead
				first := evalErr
				if err != nil {
					first = "operand of unknown length: " + err.Error()
				}
				bad, nbad, evalErr = nil, 0, ""
				w1, e1 := run(1)
				w2, e2 := run(2)
				worlds, err = w1+w2, e1
				if err == nil {
					err = e2
				}
				if evalErr != "" {
					evalErr = first
				}
				domain = "operands of 1 and 2 members, atoms of the members"
			}
			switch {
			case err != nil:
				c.Unknown(key, c.FnPos(fn), err.Error())
			case evalErr != "":
				c.Unknown(key, c.FnPos(fn), "cannot evaluate: "+evalErr)
			case nbad > 0:
				sort.Strings(bad)
				why := fmt.Sprintf("%d of %d worlds deviate from the documented expansion (%s = %s over the element comparisons): %s", nbad, worlds, m.name, fold, strings.Join(bad, " | "))
				c.Bad(key, c.FnPos(fn), why)
				if negative {
					c.Unknown("negative-control:"+key, "-", "the rule reports "+fn.Name()+", a correct spelling of the quantified comparison: "+why)
				}
			default:
				c.OkN(key, c.FnPos(fn), fmt.Sprintf("all %d worlds (element results in {TRUE, FALSE, UNKNOWN, error}^%d × %s) return the %s of the compared elements, a nil error without / an error with a failed comparison", worlds, n, domain, fold), worlds)
			}
		}
	}
}

func joinAbs(vs []absint.Val) string {
	var p []string
	for _, v := range vs {
		p = append(p, v.String())
	}
	return strings.Join(p, ", ")
}
