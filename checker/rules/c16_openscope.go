package rules

// Tenth round (DESIGN §8):
//
//	R-CUR-13  OPEN evaluates the cursor's query in the scope of the OPEN statement: along the whole
//	          chain statement executor → … → (*Cursor).Open → Select / EvaluateReplaceValues the
//	          *ReferenceScope handed on is the function's own scope (its receiver / parameter, or the
//	          scope of the processor that executes the statement) — never a value derived from it
//	          (re-sliced Blocks, a new ReferenceScope, the result of a call, a scope remembered in a
//	          field), and no function of the chain rewrites a field of the scope
//	R-SCP-13  every invocation of a user-defined function binds every declared name in its own block:
//	          the declaration calls of the invocation prologue are passed on every path to the body
//	          (no guard on the argument values), the aggregate entry binds the list name, the loop
//	          over Parameters binds every element and is bounded by len(Parameters)

import (
	"fmt"
	"go/token"
	"go/types"
	"sort"
	"strings"

	"golang.org/x/tools/go/ssa"

	"verif/checker/core"
)

func init() {
	Register(&Rule{ID: "R-CUR-13", Props: []string{"C16"}, Floor: 8,
		Doc:      "OPEN materialises the cursor's query as it evaluates at the OPEN statement: at every call site of the chain that ends in (*Cursor).Open (found through the static callers, starting at Cursor.Open and going up while the caller itself has a *ReferenceScope parameter), and at every call inside Cursor.Open and its private helpers that takes a *ReferenceScope, the scope handed on is the caller's own scope — its receiver / parameter itself, or the ReferenceScope field of the *Processor that executes the statement; a value derived from it (Blocks re-sliced, a ReferenceScope built in place, the result of a call, a scope loaded from another object) is reported, and so is a store into a field of a ReferenceScope in a function of the chain",
		Controls: []string{"ctlCurOpenTrimmedScope", "ctlCurOpenChildScope"},
		Run:      ruleCur13})
	Register(&Rule{ID: "R-SCP-13", Props: []string{"C16", "C15"}, Floor: 5,
		Doc:      "every invocation of a user-defined function binds every declared name in its own block. (a) In each function that calls UserDefinedFunction.execute, every call that declares something (reaches CursorMap.Store / VariableMap.Store without reaching the statement executor) lies on every path from the entry to the call that runs the body, and its callee stores on every path to a successful return (a failing return may skip it); (b) ExecuteAggregate has such a call for the cursor map and the name it binds is the Cursor field; (c) in execute or the private helper (two levels, called on every path to the body) that holds the loop, from the read of an element of Parameters neither the next element nor the run of the body is reachable without a call that stores a variable on every successful path, and the loop's bound len(Parameters) is tested on every path to the body",
		Controls: []string{"ctlUdfBindGuardedList"},
		Run:      ruleScp13})
}

// ---------------------------------------------------------------------------
// R-CUR-13

func curOpenIsScopePtr(t types.Type) bool { return scpIsPtrTo(t, scpTRefScope) }

// curOpenOwn classifies a *ReferenceScope value seen in fn: "param" (a parameter / receiver of fn or of
// the function that encloses the closure fn), "proc" (the scope of the processor fn runs on), or "" with
// a description of what it is instead.
func curOpenOwn(c *Ctx, fn *ssa.Function, v ssa.Value, depth int) (kind string, owner *ssa.Function, what string) {
	v = scpResolveCell(core.Strip(v))
	if depth > 6 {
		return "", nil, "a value that could not be resolved"
	}
	switch x := v.(type) {
	case *ssa.Parameter:
		return "param", fn, ""
	case *ssa.FreeVar:
		par := fn.Parent()
		idx := -1
		for i, fv := range fn.FreeVars {
			if fv == x {
				idx = i
			}
		}
		if par == nil || idx < 0 {
			return "", nil, "a captured variable that could not be resolved"
		}
		for _, b := range par.Blocks {
			for _, in := range b.Instrs {
				if mc, ok := in.(*ssa.MakeClosure); ok && mc.Fn == ssa.Value(fn) && idx < len(mc.Bindings) {
					return curOpenOwn(c, par, mc.Bindings[idx], depth+1)
				}
			}
		}
		return "", nil, "a captured variable that could not be resolved"
	case *ssa.UnOp:
		if x.Op == token.MUL {
			if fa, ok := x.X.(*ssa.FieldAddr); ok && scpIsPtrTo(fa.X.Type(), scpTProcessor) {
				if _, isParam := scpResolveCell(core.Strip(fa.X)).(*ssa.Parameter); isParam {
					return "proc", fn, ""
				}
				if _, isFree := scpResolveCell(core.Strip(fa.X)).(*ssa.FreeVar); isFree {
					return "proc", fn, ""
				}
				return "", nil, "the scope of a processor other than the one that executes the statement"
			}
			if fa, ok := x.X.(*ssa.FieldAddr); ok {
				return "", nil, "a scope loaded from the field " + core.FieldOwner(fa)
			}
		}
		return "", nil, "a loaded value"
	case *ssa.Phi:
		kind := ""
		for _, e := range x.Edges {
			k, o, w := curOpenOwn(c, fn, e, depth+1)
			if k == "" {
				return "", nil, "on one path " + w
			}
			if kind == "" || k == "param" {
				kind, owner = k, o
			}
		}
		return kind, owner, ""
	case *ssa.Alloc:
		return "", nil, "a ReferenceScope built in " + c.P.Name(fn)
	case *ssa.Call:
		return "", nil, "the result of " + callDesc(c.P, x)
	case *ssa.Extract:
		if call, ok := x.Tuple.(*ssa.Call); ok {
			return "", nil, "a result of " + callDesc(c.P, call)
		}
	}
	return "", nil, fmt.Sprintf("a derived value (%T)", v)
}

func curOpenOuter(fn *ssa.Function) *ssa.Function {
	for fn.Parent() != nil {
		fn = fn.Parent()
	}
	return fn
}

func ruleCur13(c *Ctx) {
	open := c.Fn("lib/query.(*Cursor).Open")
	if open == nil {
		return
	}
	all := c.P.FuncsIn(true, "lib/query", "lib/action", "lib/cli")
	inChain := map[*ssa.Function]bool{open: true}
	chain := []*ssa.Function{open}
	nSites := 0
	from := len(c.Obs)
	perKey := map[string]int{}
	mkKey := func(fn *ssa.Function, callee string) string {
		k := c.KeyAt(curOpenOuter(fn), "scope handed to "+callee)
		perKey[k]++
		if perKey[k] > 1 {
			k = fmt.Sprintf("%s #%d", k, perKey[k])
		}
		return k
	}
	// judge one call site: every *ReferenceScope argument is the caller's own scope
	judge := func(fn *ssa.Function, call ssa.CallInstruction, calleeName string) (passesParam bool) {
		in := call.(ssa.Instruction)
		for _, a := range call.Common().Args {
			if !curOpenIsScopePtr(a.Type()) {
				continue
			}
			c.Sites++
			key := mkKey(fn, calleeName)
			kind, _, what := curOpenOwn(c, fn, a, 0)
			switch kind {
			case "param":
				passesParam = true
				c.Ok(key, c.Pos(in), "the scope handed on is the function's own scope parameter")
			case "proc":
				c.Ok(key, c.Pos(in), "the scope handed on is the scope of the processor that executes the statement")
			default:
				c.Bad(key, c.Pos(in), fmt.Sprintf("%s hands %s to %s on the way to the evaluation of the cursor's query: OPEN must evaluate the query in the scope of the OPEN statement itself (the function's own scope parameter), so that a variable, table or function an inner block declares is the one the query sees; a scope cut down to the declaring block, rebuilt or taken from elsewhere makes FETCH walk another result", c.P.Name(curOpenOuter(fn)), what, calleeName))
			}
			if !c.P.IsControl(fn) {
				nSites++
			}
		}
		return passesParam
	}
	// upstream: callers of the chain, up to the function that has no scope parameter of its own
	for i := 0; i < len(chain); i++ {
		g := chain[i]
		for _, fn := range all {
			for _, call := range core.Calls(fn) {
				if core.StaticCallee(call) != g {
					continue
				}
				judge(fn, call, g.Name())
				outer := curOpenOuter(fn)
				hasScope := false
				for _, p := range outer.Params {
					if curOpenIsScopePtr(p.Type()) {
						hasScope = true
					}
				}
				for _, p := range outer.Params {
					// the function that is handed the OPEN statement executes it: its scope is the statement's scope
					if n := core.NamedOf(p.Type()); n == "lib/parser.Statement" || n == "lib/parser.OpenCursor" {
						hasScope = false
					}
				}
				// a caller that has a scope of its own was handed it by its callers: they are judged too
				if hasScope && !c.P.IsControl(fn) {
					if !inChain[outer] {
						inChain[outer] = true
						chain = append(chain, outer)
					}
				}
			}
		}
		// a dynamic call of a chain function cannot be followed
		for _, e := range scpCallers(c, g, false) {
			if core.StaticCallee(e.Site) != g && !c.P.IsControl(e.Caller.Func) {
				c.Unknown(c.KeyAt(e.Caller.Func, "dynamic call of "+g.Name()), c.Pos(e.Site.(ssa.Instruction)), "cannot-analyse: "+g.Name()+" is called through a function value or an interface; the scope handed to it is not followed")
			}
		}
	}
	// downstream: what Cursor.Open (its closures and private helpers) hands the scope to
	down := []*ssa.Function{open}
	inDown := map[*ssa.Function]bool{open: true}
	depthOf := map[*ssa.Function]int{open: 0}
	for i := 0; i < len(down); i++ {
		f := down[i]
		for _, af := range f.AnonFuncs {
			if !inDown[af] {
				inDown[af] = true
				depthOf[af] = depthOf[f]
				down = append(down, af)
			}
		}
		for _, call := range core.Calls(f) {
			g := core.StaticCallee(call)
			has := false
			for _, a := range call.Common().Args {
				if curOpenIsScopePtr(a.Type()) {
					has = true
				}
			}
			if !has {
				continue
			}
			name := callDesc(c.P, call)
			if g != nil {
				name = g.Name()
			}
			judge(f, call, name)
			if g == nil || g.Blocks == nil || inDown[g] || inChain[g] || depthOf[f] >= 3 || !c.P.InPkg(g, "lib/query") {
				continue
			}
			callers := scpCallers(c, g, false)
			private := len(callers) > 0
			for _, e := range callers {
				if !inDown[curOpenOuter(e.Caller.Func)] {
					private = false
				}
			}
			if private {
				inDown[g] = true
				depthOf[g] = depthOf[f] + 1
				down = append(down, g)
			}
		}
	}
	c.negControls(from, "okCurOpenOwnScope", "okCurOpenProcessorScope")
	// no function of the chain rewrites the scope in place
	var fns []*ssa.Function
	seen := map[*ssa.Function]bool{}
	for _, f := range append(append([]*ssa.Function{}, chain...), down...) {
		if !seen[f] {
			seen[f] = true
			fns = append(fns, f)
		}
	}
	sortFuncs(c.P, fns)
	for _, f := range fns {
		c.Touch(f)
		var off ssa.Instruction
		field := ""
		var scan func(g *ssa.Function)
		scan = func(g *ssa.Function) {
			for _, b := range g.Blocks {
				for _, in := range b.Instrs {
					st, ok := in.(*ssa.Store)
					if !ok {
						continue
					}
					if fa, ok := st.Addr.(*ssa.FieldAddr); ok && curOpenIsScopePtr(fa.X.Type()) {
						if _, fresh := fa.X.(*ssa.Alloc); fresh {
							continue // a scope under construction is judged where it is handed on
						}
						if off == nil {
							off, field = in, core.FieldName(fa)
						}
					}
				}
			}
			for _, af := range g.AnonFuncs {
				scan(af)
			}
		}
		scan(f)
		key := c.KeyAt(f, "scope of the OPEN statement is not rewritten")
		if off != nil {
			c.Bad(key, c.Pos(off), fmt.Sprintf("%s stores into the field %s of a ReferenceScope on the way to the evaluation of the cursor's query: the scope of the OPEN statement is changed in place (the query no longer sees the blocks the statement stands in, and neither does the rest of the procedure)", c.P.Name(f), field))
		} else {
			c.Ok(key, c.FnPos(f), "no store into a field of a ReferenceScope")
		}
	}
	if nSites < 4 {
		c.Unknown("anchor:chain of OPEN", "-", fmt.Sprintf("cannot-analyse: expected the chain ExecuteStatement → OpenCursor → CursorMap.Open → Cursor.Open → Select, found %d scope hand-overs", nSites))
	}
}

// ---------------------------------------------------------------------------
// R-SCP-13

type udfBindModel struct {
	c     *Ctx
	memo  map[[2]*ssa.Function]int
	reach map[*ssa.Function]map[*ssa.Function]bool
}

// staticReach: the functions f can call through statically resolved calls (and its closures). The
// points-to call graph is of no use here: every error constructor formats an expression through an
// interface and so "reaches" half of the package.
func (m *udfBindModel) staticReach(f *ssa.Function) map[*ssa.Function]bool {
	if r, ok := m.reach[f]; ok {
		return r
	}
	seen := map[*ssa.Function]bool{}
	stack := []*ssa.Function{f}
	seen[f] = true
	for len(stack) > 0 {
		g := stack[len(stack)-1]
		stack = stack[:len(stack)-1]
		push := func(h *ssa.Function) {
			if h != nil && !seen[h] {
				seen[h] = true
				// only functions of the repository are descended into
				if pk := core.FnPkg(h); h.Blocks != nil && pk != nil && (strings.Contains(pk.Pkg.Path(), "mithrandie/csvq") || m.c.P.IsControl(h)) {
					stack = append(stack, h)
				}
			}
		}
		for _, call := range core.Calls(g) {
			push(core.StaticCallee(call))
		}
		for _, af := range g.AnonFuncs {
			push(af)
		}
	}
	m.reach[f] = seen
	return seen
}

func udfFailingReturn(f *ssa.Function, r *ssa.Return) bool {
	idx := core.ErrorResultIndex(f)
	if idx < 0 {
		return false
	}
	vals := core.ReturnOperand(r, idx)
	if len(vals) == 0 {
		return false
	}
	for _, v := range vals {
		if v == nil || core.ClassifyNil(v, r) != core.NonNil {
			return false
		}
	}
	return true
}

// mustBind: every path of f from its entry to a return that can report success passes a call that
// (recursively) must reach prim. Failing returns may skip it.
func (m *udfBindModel) mustBind(f, prim *ssa.Function, depth int) bool {
	if f == prim {
		return true
	}
	if f == nil || f.Blocks == nil || depth > 4 {
		return false
	}
	k := [2]*ssa.Function{f, prim}
	if v, ok := m.memo[k]; ok {
		return v == 1
	}
	m.memo[k] = 2
	targets := map[ssa.Instruction]bool{}
	for _, call := range core.Calls(f) {
		if _, plain := call.(*ssa.Call); !plain {
			continue
		}
		g := core.StaticCallee(call)
		if g == nil || g == f {
			continue
		}
		if g == prim || (m.staticReach(g)[prim] && m.mustBind(g, prim, depth+1)) {
			targets[call.(ssa.Instruction)] = true
		}
	}
	ok := len(targets) > 0
	if ok {
		core.WalkFromEntry(f, func(in ssa.Instruction) bool {
			if targets[in] {
				return false
			}
			if r, isRet := in.(*ssa.Return); isRet && !udfFailingReturn(f, r) {
				ok = false
			}
			return true
		})
	}
	if ok {
		m.memo[k] = 1
	}
	return ok
}

func udfReachFromEntry(fn *ssa.Function, to ssa.Instruction, stop func(ssa.Instruction) bool) bool {
	found := false
	core.WalkFromEntry(fn, func(in ssa.Instruction) bool {
		if in == to {
			found = true
			return false
		}
		return !stop(in)
	})
	return found
}

func udfFieldLoad(v ssa.Value, field string) bool {
	u, ok := scpResolveCell(core.Strip(v)).(*ssa.UnOp)
	if !ok || u.Op != token.MUL {
		return false
	}
	return core.FieldOwner(u.X) == "lib/query.UserDefinedFunction."+field
}

func ruleScp13(c *Ctx) {
	udfBody := c.Fn("lib/query.(*UserDefinedFunction).execute")
	exec := c.Fn("lib/query.(*Processor).execute")
	aggEntry := c.Fn("lib/query.(*UserDefinedFunction).ExecuteAggregate")
	curStore := c.Fn("lib/query.(CursorMap).Store")
	varStore := c.Fn("lib/query.(VariableMap).Store")
	if udfBody == nil || exec == nil || aggEntry == nil || curStore == nil || varStore == nil {
		return
	}
	m := &udfBindModel{c: c, memo: map[[2]*ssa.Function]int{}, reach: map[*ssa.Function]map[*ssa.Function]bool{}}
	prims := []*ssa.Function{curStore, varStore}
	// a call that declares: reaches a store of a cursor / variable map, is not part of the evaluation machinery
	declares := func(call ssa.CallInstruction) *ssa.Function {
		if _, plain := call.(*ssa.Call); !plain {
			return nil
		}
		g := core.StaticCallee(call)
		if g == nil {
			return nil
		}
		r := m.staticReach(g)
		if r[exec] || r[udfBody] {
			return nil
		}
		for _, p := range prims {
			if r[p] {
				return p
			}
		}
		return nil
	}

	// (a) entries
	var entries []*ssa.Function
	isEntry := map[*ssa.Function]bool{}
	for _, fn := range c.P.FuncsIn(false, "lib/query") {
		if fn == udfBody {
			continue
		}
		for _, call := range core.Calls(fn) {
			if core.StaticCallee(call) == udfBody && !isEntry[fn] {
				isEntry[fn] = true
				entries = append(entries, fn)
			}
		}
	}
	realEntries := len(entries)
	for _, fn := range c.P.FuncsIn(true) {
		if c.P.IsControl(fn) && (strings.HasPrefix(fn.Name(), "ctlUdfBind") || strings.HasPrefix(fn.Name(), "okUdfBind")) {
			entries = append(entries, fn)
		}
	}
	if realEntries < 2 {
		c.Unknown("anchor:callers of UserDefinedFunction.execute", "-", fmt.Sprintf("cannot-analyse: expected Execute and ExecuteAggregate, found %d", realEntries))
	}
	sortFuncs(c.P, entries)
	from := len(c.Obs)
	for _, fn := range entries {
		c.Touch(fn)
		var bodyCalls []ssa.Instruction
		for _, call := range core.Calls(fn) {
			g := core.StaticCallee(call)
			if g != nil && (g == udfBody || (isEntry[g] && g != fn)) {
				bodyCalls = append(bodyCalls, call.(ssa.Instruction))
			}
		}
		keyB := c.KeyAt(fn, "runs the body")
		if len(bodyCalls) == 0 {
			c.Unknown(keyB, c.FnPos(fn), "no call that runs the body of the function")
			continue
		}
		nBind, curBinds := 0, 0
		perKey := map[string]int{}
		for _, call := range core.Calls(fn) {
			prim := declares(call)
			if prim == nil {
				continue
			}
			in := call.(ssa.Instruction)
			isBody := false
			for _, b := range bodyCalls {
				if b == in {
					isBody = true
				}
			}
			if isBody {
				continue
			}
			g := core.StaticCallee(call)
			nBind++
			c.Sites++
			key := c.KeyAt(fn, "declares through "+g.Name()+" before the body")
			perKey[key]++
			if perKey[key] > 1 {
				key = fmt.Sprintf("%s #%d", key, perKey[key])
			}
			if !m.mustBind(g, prim, 0) {
				c.Bad(key, c.Pos(in), fmt.Sprintf("%s reaches %s only on some of its successful paths: an invocation can start its body with a declared name left unbound in its own block, and the name then resolves to an object of the caller", g.Name(), prim.Name()))
				continue
			}
			skipped := ssa.Instruction(nil)
			for _, b := range bodyCalls {
				if udfReachFromEntry(fn, b, func(x ssa.Instruction) bool { return x == in }) {
					skipped = b
				}
			}
			if skipped != nil {
				c.Bad(key, c.Pos(in), fmt.Sprintf("the run of the body at %s is reachable from the entry of %s without the declaration through %s: whether the name is bound in the invocation's own block depends on a test of the arguments; on the other path the name is unbound there and FETCH / WHILE … IN / a variable reference in the body fall through to an object of the same name in a block of the caller", c.Pos(skipped), c.P.Name(fn), g.Name()))
				continue
			}
			if prim == curStore {
				named := true
				for _, a := range call.Common().Args {
					if core.NamedOf(a.Type()) == "lib/parser.Identifier" && !udfFieldLoad(a, "Cursor") {
						named = false
					}
				}
				if !named {
					c.Bad(key, c.Pos(in), "the name bound to the list of values is not the Cursor field of the function (the name its body fetches from)")
					continue
				}
				curBinds++
			}
			c.Ok(key, c.Pos(in), "passed on every path from the entry to the run of the body; the callee stores on every path to a successful return")
		}
		if fn == aggEntry {
			c.Check(curBinds > 0, c.KeyAt(fn, "the list name is bound in the invocation's block"), c.FnPos(fn),
				"a call that must reach CursorMap.Store lies on every path to the body",
				"ExecuteAggregate runs the body without a call that binds the list of values under the name of the Cursor field: FETCH / WHILE … IN in the body address a cursor of the caller")
		} else if nBind == 0 {
			c.Ok(keyB, c.FnPos(fn), "no declaration in the prologue (the parameters are bound by the body runner)")
		}
	}
	c.negControls(from, "okUdfBindFailingGuard")

	// (c) the loop over Parameters in the body runner, or in a private helper it is moved into
	var runs []ssa.Instruction
	for _, call := range core.Calls(udfBody) {
		if g := core.StaticCallee(call); g != nil && (g == exec || c.P.FnRef(g) == "lib/query.(*Processor).Execute") {
			runs = append(runs, call.(ssa.Instruction))
		}
	}
	keyL := c.KeyAt(udfBody, "every element of Parameters is bound")
	if len(runs) == 0 {
		c.Unknown(keyL, c.FnPos(udfBody), "cannot-analyse: no run of the statements in the body runner")
		return
	}
	elemReadsOf := func(f *ssa.Function) (reads []*ssa.IndexAddr, lens []ssa.Value) {
		for _, b := range f.Blocks {
			for _, in := range b.Instrs {
				switch x := in.(type) {
				case *ssa.IndexAddr:
					if udfFieldLoad(x.X, "Parameters") {
						reads = append(reads, x)
					}
				case *ssa.Call:
					if bi, ok := x.Call.Value.(*ssa.Builtin); ok && bi.Name() == "len" && len(x.Call.Args) == 1 && udfFieldLoad(x.Call.Args[0], "Parameters") {
						lens = append(lens, x)
					}
				}
			}
		}
		return
	}
	// the functions of the prologue: the body runner and the private helpers it calls before the body (two levels)
	type link struct {
		fn     *ssa.Function
		parent *ssa.Function
		site   ssa.Instruction // the call in parent
	}
	family := []link{{fn: udfBody}}
	inFamily := map[*ssa.Function]bool{udfBody: true}
	linkOf := map[*ssa.Function]link{udfBody: family[0]}
	depth := map[*ssa.Function]int{udfBody: 0}
	for i := 0; i < len(family); i++ {
		f := family[i].fn
		if depth[f] >= 2 {
			continue
		}
		for _, call := range core.Calls(f) {
			g := core.StaticCallee(call)
			if _, plain := call.(*ssa.Call); !plain || g == nil || g.Blocks == nil || inFamily[g] || !c.P.InPkg(g, "lib/query") {
				continue
			}
			callers := scpCallers(c, g, false)
			private := len(callers) > 0
			for _, e := range callers {
				if !inFamily[e.Caller.Func] {
					private = false
				}
			}
			if private {
				l := link{fn: g, parent: f, site: call.(ssa.Instruction)}
				inFamily[g] = true
				depth[g] = depth[f] + 1
				linkOf[g] = l
				family = append(family, l)
			}
		}
	}
	// goals of a function of the family: the run of the body, or (helper) the returns that can report success
	goalsOf := func(f *ssa.Function) []ssa.Instruction {
		if f == udfBody {
			return runs
		}
		var out []ssa.Instruction
		for _, r := range core.Returns(f) {
			if !udfFailingReturn(f, r) {
				out = append(out, r)
			}
		}
		return out
	}
	nLoops := 0
	for _, l := range family {
		L := l.fn
		elemReads, lens := elemReadsOf(L)
		if len(elemReads) == 0 {
			continue
		}
		nLoops++
		c.Touch(L)
		goals := goalsOf(L)
		bindVar := map[ssa.Instruction]bool{}
		for _, call := range core.Calls(L) {
			if declares(call) == varStore && m.mustBind(core.StaticCallee(call), varStore, 0) {
				bindVar[call.(ssa.Instruction)] = true
			}
		}
		stop := func(in ssa.Instruction) bool { return bindVar[in] }
		keyE := c.KeyAt(L, "every element of Parameters is bound")
		for i, r := range elemReads {
			key := keyE
			if i > 0 {
				key = fmt.Sprintf("%s #%d", keyE, i+1)
			}
			if core.Reachable(r, r, stop) {
				c.Bad(key, c.Pos(r), "from the read of a parameter the next parameter is reachable without a call that stores a variable on every successful path: the parameter is left unbound in the invocation's block and the name resolves to a variable of the caller")
				continue
			}
			bad := ""
			for _, g := range goals {
				if core.Reachable(r, g, stop) {
					bad = c.Pos(g)
				}
			}
			if bad != "" {
				c.Bad(key, c.Pos(r), "from the read of a parameter the way on to the body at "+bad+" is reachable without a call that stores a variable: the parameter is left unbound in the invocation's block")
			} else {
				c.Ok(key, c.Pos(r), fmt.Sprintf("every path to the next element or on to the body passes one of the %d binding call(s)", len(bindVar)))
			}
		}
		// the bound of the loop: a test against len(Parameters) on the loop dominates every way on to the body
		keyN := c.KeyAt(L, "loop over all Parameters precedes the body")
		var heads []*ssa.BasicBlock
		for _, ln := range lens {
			for _, ref := range *ln.Referrers() {
				bo, ok := ref.(*ssa.BinOp)
				if !ok {
					continue
				}
				for _, r2 := range *bo.Referrers() {
					if iff, ok := r2.(*ssa.If); ok {
						for _, er := range elemReads {
							if core.Reachable(iff, er, nil) && core.Reachable(er, iff, nil) {
								heads = append(heads, iff.Block())
							}
						}
					}
				}
			}
		}
		sort.Slice(heads, func(i, j int) bool { return heads[i].Index < heads[j].Index })
		okN := len(heads) > 0 && len(goals) > 0
		for _, g := range goals {
			dom := false
			for _, h := range heads {
				if h.Dominates(g.Block()) {
					dom = true
				}
			}
			if !dom {
				okN = false
			}
		}
		// … and the helper is called on every path to the goals of its caller, up to the body runner
		why := "no loop test against len(Parameters) dominates the way on to the body: the parameters are bound only up to another bound (the number of arguments) or only under a guard, and an omitted optional parameter is left unbound in the invocation's block"
		for cur := l; okN && cur.parent != nil; cur = linkOf[cur.parent] {
			site := cur.site
			for _, g := range goalsOf(cur.parent) {
				if udfReachFromEntry(cur.parent, g, func(x ssa.Instruction) bool { return x == site }) {
					okN = false
					why = fmt.Sprintf("%s reaches the way on to the body at %s without the call of %s that binds the parameters", c.P.Name(cur.parent), c.Pos(g), cur.fn.Name())
				}
			}
		}
		c.Check(okN, keyN, c.FnPos(L), "the loop head that compares the index with len(Parameters) dominates every way on to the run of the body", why)
	}
	if nLoops == 0 {
		c.Unknown(keyL, c.FnPos(udfBody), "cannot-analyse: no read of an element of Parameters in the body runner or its private helpers")
	}
}
