package rules

import (
	"fmt"
	"go/token"
	"go/types"
	"sort"
	"strings"

	"golang.org/x/tools/go/ssa"

	"verif/checker/core"
)

// R-ESC-5 — printed operators do not merge with what follows them.
//
// The String() methods of the lib/parser syntax tree print a query that csvq
// parses again (labels of expressions, stored statements, SHOW output). The
// scanner forms some tokens from two adjacent characters: "--" starts a line
// comment, "/*" a block comment, and any run of operator runes (= > < ! | :) is
// one operator. A String() method that writes the text of an operator token (or a
// constant ending in such a character) immediately before the text of a child
// expression therefore prints `- -1` as `--1` (a comment) and `! !x` as `!!x`
// (one unknown operator). The pair table is extracted from the scanner
// (isOperatorRune, isCommentRune, isLineCommentRune); the concatenations are
// found in the SSA of the String() methods and of the lib/parser helpers they
// call. A child's text may begin with a dangerous character only if the child is
// itself a prefix-operator node (the grammar gives prefix operators the highest
// precedence, so their operand is a primary expression or another prefix
// operator), hence a concatenation is discharged when a separator constant or a
// parenthesis lies between, or when it is reached only after type tests have
// excluded every prefix-operator node type.

func init() {
	Register(&Rule{ID: "R-ESC-5", Props: []string{"C18"}, Floor: 4,
		Doc:      "in the String() methods of lib/parser syntax-tree types (and the lib/parser string helpers they call, parameters resolved at the call sites) no string concatenation puts a text that may end in the first character of a two-character token of the scanner — the text of a parser.Token, or a constant ending in '-', '/' or an operator rune; table extracted from Scanner.isOperatorRune / isCommentRune / isLineCommentRune — directly before a text that may begin with the second: a constant beginning so, another Token text, or the String() of a child that can be a prefix-operator node (the node types that themselves print Token text + child text); a separating constant, parentheses, or dominating negative type tests for all prefix-operator node types discharge the site",
		Controls: []string{"CtlPrefixOperatorGlued"},
		Run:      ruleEsc5})
}

// ---------------------------------------------------------------------------
// the scanner's two-character table

type fxGlueTable struct {
	opRunes map[rune]bool
	pairs   [][2]rune // comment starters
}

func (t *fxGlueTable) first(r rune) bool {
	if t.opRunes[r] {
		return true
	}
	for _, p := range t.pairs {
		if p[0] == r {
			return true
		}
	}
	return false
}

func (t *fxGlueTable) second(r rune) bool {
	if t.opRunes[r] {
		return true
	}
	for _, p := range t.pairs {
		if p[1] == r {
			return true
		}
	}
	return false
}

func (t *fxGlueTable) combine(a, b rune) bool {
	if t.opRunes[a] && t.opRunes[b] {
		return true
	}
	for _, p := range t.pairs {
		if p[0] == a && p[1] == b {
			return true
		}
	}
	return false
}

func (t *fxGlueTable) String() string {
	var ops []string
	for r := range t.opRunes {
		ops = append(ops, string(r))
	}
	sort.Strings(ops)
	s := "runs of {" + strings.Join(ops, " ") + "}"
	for _, p := range t.pairs {
		s += fmt.Sprintf(", %q", string(p[0])+string(p[1]))
	}
	return s
}

func fxScannerGlueTable(c *Ctx) *fxGlueTable {
	t := &fxGlueTable{opRunes: map[rune]bool{}}
	op := c.Fn("lib/parser.(*Scanner).isOperatorRune")
	cm := c.Fn("lib/parser.(*Scanner).isCommentRune")
	lc := c.Fn("lib/parser.(*Scanner).isLineCommentRune")
	if op == nil || cm == nil || lc == nil {
		return nil
	}
	// operator runes: the constants for which the classifier returns true
	for _, d := range core.Dispatches(op) {
		if _, isP := d.Key.(*ssa.Parameter); !isP {
			continue
		}
		for _, a := range d.Arms {
			yes := false
			for _, in := range d.RegionInstrs(a) {
				if r, ok := in.(*ssa.Return); ok && len(r.Results) == 1 {
					if v, isB := core.ConstBool(r.Results[0]); isB && v {
						yes = true
					}
				}
			}
			if yes && !a.Default {
				for _, k := range a.Keys {
					if r, ok := core.ConstRune(k); ok {
						t.opRunes[r] = true
					}
				}
			}
		}
	}
	// comment starters: the classifier answers true only where `ch == c1` and
	// `s.peek() == c2` are both known — whichever way the test is spelled
	// (`if ch == c1 && s.peek() == c2 { …; return true }`, or the negated test
	// `if ch != c1 || s.peek() != c2 { return false }` first)
	runeEq := func(f core.Fact) (x ssa.Value, r rune, ok bool) {
		fb, isB := f.Cond.(*ssa.BinOp)
		if !isB || (fb.Op != token.EQL && fb.Op != token.NEQ) || (fb.Op == token.EQL) == f.Neg {
			return nil, 0, false
		}
		if k, isK := core.ConstRune(fb.Y); isK {
			return fb.X, k, true
		}
		if k, isK := core.ConstRune(fb.X); isK {
			return fb.Y, k, true
		}
		return nil, 0, false
	}
	for _, fn := range []*ssa.Function{cm, lc} {
		seen := map[[2]rune]bool{}
		for _, ret := range core.Returns(fn) {
			if len(ret.Results) != 1 {
				continue
			}
			if v, isB := core.ConstBool(ret.Results[0]); !isB || !v {
				continue
			}
			var firsts, seconds []rune
			for _, f := range core.FactsAt(ret.Block()) {
				x, k, ok := runeEq(f)
				if !ok {
					continue
				}
				if _, isP := x.(*ssa.Parameter); isP {
					firsts = append(firsts, k)
				} else if call, isC := x.(*ssa.Call); isC && c.P.CalleeName(call) == "lib/parser.(*Scanner).peek" {
					seconds = append(seconds, k)
				}
			}
			for _, c1 := range firsts {
				for _, c2 := range seconds {
					if pr := [2]rune{c1, c2}; !seen[pr] {
						seen[pr] = true
						t.pairs = append(t.pairs, pr)
					}
				}
			}
		}
	}
	if len(t.opRunes) == 0 || len(t.pairs) < 2 {
		c.Unknown("lib/parser.(*Scanner): two-character token table", c.FnPos(op), fmt.Sprintf("cannot-analyse: extracted %d operator runes and %d comment starters from isOperatorRune / isCommentRune / isLineCommentRune", len(t.opRunes), len(t.pairs)))
		return nil
	}
	return t
}

// ---------------------------------------------------------------------------
// what a string value may begin / end with

const (
	fxTxSafe  = iota // text that neither begins nor ends with a token character (identifier, literal, joined list …)
	fxTxEmpty        // the empty constant
	fxTxConst        // constant: r is its first / last rune
	fxTxToken        // text of a parser.Token
	fxTxExpr         // String() of a syntax-tree child: x is the child value, at the call
	fxTxParam        // string parameter #idx of the enclosing helper
)

type fxTxt struct {
	kind int
	r    rune
	x    ssa.Value
	at   *ssa.Call
	idx  int
}

func fxIsStringType(t types.Type) bool {
	b, ok := t.Underlying().(*types.Basic)
	return ok && b.Info()&types.IsString != 0
}

type fxTextAn struct {
	c *Ctx
}

// edge: start==true → what v may begin with, else what it may end with.
func (a *fxTextAn) edge(v ssa.Value, start bool, depth int) []fxTxt {
	switch x := v.(type) {
	case *ssa.Const:
		s, ok := core.ConstString(x)
		if !ok {
			return []fxTxt{{kind: fxTxSafe}}
		}
		rs := []rune(s)
		if len(rs) == 0 {
			return []fxTxt{{kind: fxTxEmpty}}
		}
		if start {
			return []fxTxt{{kind: fxTxConst, r: rs[0]}}
		}
		return []fxTxt{{kind: fxTxConst, r: rs[len(rs)-1]}}
	case *ssa.BinOp:
		if x.Op != token.ADD {
			return []fxTxt{{kind: fxTxSafe}}
		}
		near, far := x.X, x.Y
		if !start {
			near, far = x.Y, x.X
		}
		var out []fxTxt
		for _, t := range a.edge(near, start, depth) {
			if t.kind == fxTxEmpty {
				out = append(out, a.edge(far, start, depth)...)
			} else {
				out = append(out, t)
			}
		}
		return out
	case *ssa.Phi:
		var out []fxTxt
		for _, e := range x.Edges {
			if e != v {
				out = append(out, a.edge(e, start, depth)...)
			}
		}
		return out
	case *ssa.Parameter:
		for i, p := range x.Parent().Params {
			if p == x {
				return []fxTxt{{kind: fxTxParam, idx: i}}
			}
		}
	case *ssa.Call:
		com := x.Common()
		if com.IsInvoke() {
			if com.Method.Name() == "String" && len(com.Args) == 0 {
				if start {
					return []fxTxt{{kind: fxTxExpr, x: com.Value, at: x}}
				}
				return []fxTxt{{kind: fxTxSafe}} // an expression text ends with an operand
			}
			return []fxTxt{{kind: fxTxSafe}}
		}
		f := core.StaticCallee(x)
		if f == nil {
			return []fxTxt{{kind: fxTxSafe}}
		}
		if a.c.P.FnRef(f) == "lib/parser.(Token).String" {
			return []fxTxt{{kind: fxTxToken}}
		}
		if !a.c.P.InPkg(f, "lib/parser", core.ControlPkg) || f.Blocks == nil {
			return []fxTxt{{kind: fxTxSafe}}
		}
		if f.Name() == "String" && f.Signature.Recv() != nil && len(com.Args) == 1 {
			if start {
				return []fxTxt{{kind: fxTxExpr, x: com.Args[0], at: x}}
			}
			return []fxTxt{{kind: fxTxSafe}}
		}
		if depth == 0 {
			return []fxTxt{{kind: fxTxSafe}}
		}
		// a string helper: what its returns begin / end with, parameters resolved here
		var out []fxTxt
		for _, r := range core.Returns(f) {
			if len(r.Results) == 0 {
				continue
			}
			for _, t := range a.edge(r.Results[0], start, depth-1) {
				if t.kind == fxTxParam {
					if t.idx < len(com.Args) {
						out = append(out, a.edge(com.Args[t.idx], start, depth-1)...)
					}
					continue
				}
				out = append(out, t)
			}
		}
		if len(out) == 0 {
			out = []fxTxt{{kind: fxTxSafe}}
		}
		return out
	}
	return []fxTxt{{kind: fxTxSafe}}
}

// fxNodeTypeOf: the syntax-tree type a child value statically has ("" for an
// interface-typed child).
func fxNodeTypeOf(v ssa.Value) string {
	t := v.Type()
	if _, isI := t.Underlying().(*types.Interface); isI {
		return ""
	}
	return core.NamedOf(t)
}

// fxExcludedTypes: the named types the child x is known NOT to have at call `at`
// (dominating failed `x.(T)` tests — the default arm of a type switch).
func fxExcludedTypes(x ssa.Value, at *ssa.Call) map[string]bool {
	out := map[string]bool{}
	for _, f := range core.FactsAt(at.Block()) {
		if !f.Neg {
			continue
		}
		ex, ok := f.Cond.(*ssa.Extract)
		if !ok || ex.Index != 1 {
			continue
		}
		ta, ok := ex.Tuple.(*ssa.TypeAssert)
		if !ok || !ta.CommaOk {
			continue
		}
		if ta.X == x || core.SameCell(ta.X, x) {
			out[core.NamedOf(ta.AssertedType)] = true
		}
	}
	return out
}

// ---------------------------------------------------------------------------

type fxGlueSite struct {
	fn     *ssa.Function
	bin    *ssa.BinOp
	ends   []fxTxt
	starts []fxTxt
}

func ruleEsc5(c *Ctx) {
	tab := fxScannerGlueTable(c)
	if tab == nil {
		return
	}
	an := &fxTextAn{c: c}
	// scope: String() methods of lib/parser named types, and the lib/parser functions they call (2 levels)
	var roots []*ssa.Function
	for _, fn := range c.P.FuncsIn(true, "lib/parser") {
		if fn.Name() != "String" || fn.Signature.Recv() == nil || fn.Signature.Params().Len() != 0 {
			if c.P.IsControl(fn) && (strings.HasPrefix(fn.Name(), "CtlPrefixOperator") || strings.HasPrefix(fn.Name(), "okPrefixOperator")) {
				roots = append(roots, fn)
			}
			continue
		}
		if core.NamedOf(fn.Signature.Recv().Type()) == "lib/parser.Token" {
			continue
		}
		roots = append(roots, fn)
	}
	scope := map[*ssa.Function]bool{}
	var order []*ssa.Function
	var add func(fn *ssa.Function, depth int)
	add = func(fn *ssa.Function, depth int) {
		if scope[fn] {
			return
		}
		scope[fn] = true
		order = append(order, fn)
		if depth == 0 {
			return
		}
		for _, ci := range core.Calls(fn) {
			f := core.StaticCallee(ci)
			if f != nil && f.Blocks != nil && c.P.InPkg(f, "lib/parser", core.ControlPkg) && fxIsStringResult(f) && !(f.Name() == "String" && f.Signature.Recv() != nil) {
				add(f, depth-1)
			}
		}
	}
	for _, r := range roots {
		add(r, 2)
	}
	sortFuncs(c.P, order)
	// concatenation sites; a site whose operands are parameters is judged at each call of the helper
	var sites []fxGlueSite
	for _, fn := range order {
		for _, b := range fn.Blocks {
			for _, in := range b.Instrs {
				bin, ok := in.(*ssa.BinOp)
				if !ok || bin.Op != token.ADD || !fxIsStringType(bin.Type()) {
					continue
				}
				ends, starts := an.edge(bin.X, false, 2), an.edge(bin.Y, true, 2)
				hasParam := false
				for _, t := range append(append([]fxTxt(nil), ends...), starts...) {
					if t.kind == fxTxParam {
						hasParam = true
					}
				}
				if !hasParam {
					sites = append(sites, fxGlueSite{fn, bin, ends, starts})
					continue
				}
				// resolve parameters at every call of fn inside the scope
				for _, caller := range order {
					for _, ci := range core.Calls(caller) {
						if core.StaticCallee(ci) != fn {
							continue
						}
						args := ci.Common().Args
						resolve := func(ts []fxTxt, start bool) []fxTxt {
							var out []fxTxt
							for _, t := range ts {
								if t.kind == fxTxParam && t.idx < len(args) {
									for _, r := range an.edge(args[t.idx], start, 1) {
										if r.kind != fxTxParam {
											out = append(out, r)
										}
									}
									continue
								}
								out = append(out, t)
							}
							return out
						}
						sites = append(sites, fxGlueSite{caller, bin, resolve(ends, false), resolve(starts, true)})
					}
				}
			}
		}
	}
	leftDanger := func(t fxTxt) bool {
		return t.kind == fxTxToken || (t.kind == fxTxConst && tab.first(t.r))
	}
	// prefix-operator node types: receivers of String() methods with a site "token text + child text"
	prefix := map[string]bool{}
	for _, s := range sites {
		if s.fn.Name() != "String" || s.fn.Signature.Recv() == nil {
			continue
		}
		l, r := false, false
		for _, t := range s.ends {
			if leftDanger(t) {
				l = true
			}
		}
		for _, t := range s.starts {
			if t.kind == fxTxExpr {
				r = true
			}
		}
		if l && r {
			prefix[core.NamedOf(s.fn.Signature.Recv().Type())] = true
		}
	}
	var pnames []string
	for n := range prefix {
		pnames = append(pnames, n[strings.LastIndex(n, ".")+1:])
	}
	sort.Strings(pnames)
	n := map[*ssa.Function]int{}
	for _, s := range sites {
		relevant := false
		for _, t := range s.ends {
			if leftDanger(t) {
				relevant = true
			}
		}
		if !relevant {
			continue
		}
		c.Touch(s.fn)
		n[s.fn]++
		key := c.KeyAt(s.fn, fmt.Sprintf("operator text followed by operand text #%d", n[s.fn]))
		pos := c.Pos(s.bin)
		why := ""
		for _, e := range s.ends {
			if !leftDanger(e) {
				continue
			}
			endWhat := "the text of a Token (an operator such as '-', '!', …)"
			if e.kind == fxTxConst {
				endWhat = fmt.Sprintf("a constant ending in %q", e.r)
			}
			for _, st := range s.starts {
				switch st.kind {
				case fxTxConst:
					if (e.kind == fxTxConst && tab.combine(e.r, st.r)) || (e.kind == fxTxToken && tab.second(st.r)) {
						why = fmt.Sprintf("%s is followed directly by a constant beginning with %q", endWhat, st.r)
					}
				case fxTxToken:
					why = fmt.Sprintf("%s is followed directly by the text of another Token", endWhat)
				case fxTxExpr:
					if len(prefix) == 0 {
						continue
					}
					if nt := fxNodeTypeOf(st.x); nt != "" {
						if prefix[nt] {
							why = fmt.Sprintf("%s is followed directly by the String() of a %s, which begins with an operator itself", endWhat, nt)
						}
						continue
					}
					ex := fxExcludedTypes(st.x, st.at)
					var open []string
					for p := range prefix {
						if !ex[p] {
							open = append(open, p[strings.LastIndex(p, ".")+1:])
						}
					}
					sort.Strings(open)
					if len(open) > 0 {
						why = fmt.Sprintf("%s is followed directly by the String() of a child expression that may be a %s, whose text begins with an operator: the two characters merge into one token when the printed query is parsed again (scanner: %s) — e.g. `- -1` is printed as `--1`, a line comment", endWhat, strings.Join(open, " / "), tab)
					}
				}
			}
		}
		if why != "" {
			c.Bad(key, pos, why)
		} else {
			c.Ok(key, pos, fmt.Sprintf("a separator, a parenthesis or type tests excluding %s lie between the operator text and what follows", strings.Join(pnames, "/")))
		}
	}
}

func fxIsStringResult(f *ssa.Function) bool {
	r := f.Signature.Results()
	return r.Len() == 1 && fxIsStringType(r.At(0).Type())
}
