package rules

import (
	"fmt"
	"go/token"
	"go/types"
	"sort"

	"golang.org/x/tools/go/ssa"

	"verif/checker/core"
)

// R-CUR-8 — what IS IN RANGE consults agrees with the pointer on every exit
// of Fetch.
//
// IsInRange answers UNKNOWN while "no fetch happened yet"; it decides that from
// a flag of the cursor (today `fetched`). Fetch moves the pointer (stores to
// Cursor.index, including the parking stores −1 / record count). If an exit of
// Fetch leaves with the pointer moved but the flag not set, IS IN RANGE says
// UNKNOWN although the cursor stands before the first / after the last row.

func init() {
	Register(&Rule{ID: "R-CUR-8", Props: []string{"C16"}, Floor: 4,
		Doc:      "the boolean field(s) of Cursor that IsInRange branches on (found in IsInRange's own code) are must-set-true on every non-error return of Fetch that is reachable after the pointer moved (a store to Cursor.index, directly or in a called method of the cursor): relational forward data-flow over (pointer moved?, flag true?) with stores, helper-method summaries (may move / must set / may clear), deferred closures and methods, and the branch fact of a test of the flag itself (`if !c.fetched { c.fetched = true }`)",
		Controls: []string{"CtlFlagCursor).Fetch"},
		Run:      ruleCur8})
}

// c8Flags: bool fields of the cursor type that IsInRange uses as a branch condition.
func c8Flags(ct *curType, isInRange *ssa.Function) []string {
	set := map[string]bool{}
	for _, b := range isInRange.Blocks {
		if len(b.Instrs) == 0 {
			continue
		}
		iff, ok := b.Instrs[len(b.Instrs)-1].(*ssa.If)
		if !ok {
			continue
		}
		if f, _, ok := c8FlagCond(ct, iff.Cond); ok {
			set[f] = true
		}
	}
	var out []string
	for f := range set {
		out = append(out, f)
	}
	sort.Strings(out)
	return out
}

// c8FlagCond: cond is `<cursor>.<boolfield>` (negated=false) or its negation.
func c8FlagCond(ct *curType, cond ssa.Value) (field string, negated bool, ok bool) {
	if u, isU := cond.(*ssa.UnOp); isU && u.Op == token.NOT {
		f, n, ok := c8FlagCond(ct, u.X)
		return f, !n, ok
	}
	u, isU := cond.(*ssa.UnOp)
	if !isU || u.Op != token.MUL {
		return "", false, false
	}
	fa, isFA := u.X.(*ssa.FieldAddr)
	if !isFA {
		return "", false, false
	}
	if b, isB := u.Type().Underlying().(*types.Basic); !isB || b.Kind() != types.Bool {
		return "", false, false
	}
	owner := core.FieldOwner(fa)
	name := core.FieldName(fa)
	if owner != ct.field(name) {
		return "", false, false
	}
	return name, false, true
}

// state: set of (moved, set) pairs as a 4-bit mask; bit = moved*2 + set
type c8State uint8

func c8Pair(moved, set bool) c8State {
	i := 0
	if moved {
		i += 2
	}
	if set {
		i++
	}
	return 1 << uint(i)
}

func (s c8State) mapPairs(f func(moved, set bool) (bool, bool)) c8State {
	var out c8State
	for i := 0; i < 4; i++ {
		if s&(1<<uint(i)) == 0 {
			continue
		}
		m, t := f(i&2 != 0, i&1 != 0)
		out |= c8Pair(m, t)
	}
	return out
}

type c8Summary struct {
	mayMove  bool
	mustSet  bool
	mayClear bool
}

type c8Analysis struct {
	c     *Ctx
	ct    *curType
	flag  string
	memo  map[*ssa.Function]*c8Summary
	stack map[*ssa.Function]bool
}

// receiverIsCursor: the call passes a value of the cursor type (pointer) as receiver/first arg.
func (a *c8Analysis) cursorCallee(call ssa.CallInstruction) *ssa.Function {
	com := call.Common()
	var g *ssa.Function
	if mc, ok := com.Value.(*ssa.MakeClosure); ok {
		g, _ = mc.Fn.(*ssa.Function)
		return g // closures of the method: they work on the captured cursor
	}
	g = com.StaticCallee()
	if g == nil || g.Blocks == nil || len(com.Args) == 0 {
		return nil
	}
	if core.NamedOf(com.Args[0].Type()) != a.ct.name {
		return nil
	}
	return g
}

func (a *c8Analysis) summary(g *ssa.Function) *c8Summary {
	if s, ok := a.memo[g]; ok {
		return s
	}
	if a.stack[g] || len(a.stack) > 4 {
		return &c8Summary{mayMove: true, mayClear: true} // recursion / too deep: assume the worst
	}
	a.stack[g] = true
	defer delete(a.stack, g)
	s := &c8Summary{mustSet: true}
	exitsFromUnset := a.run(g, c8Pair(false, false), nil)
	exitsFromSet := a.run(g, c8Pair(false, true), nil)
	if exitsFromUnset == 0 {
		s.mustSet = false
	}
	for i := 0; i < 4; i++ {
		if exitsFromUnset&(1<<uint(i)) != 0 {
			if i&2 != 0 {
				s.mayMove = true
			}
			if i&1 == 0 {
				s.mustSet = false
			}
		}
		if exitsFromSet&(1<<uint(i)) != 0 && i&1 == 0 {
			s.mayClear = true
		}
	}
	a.memo[g] = s
	return s
}

// run propagates `init` from the entry of fn; it returns the union of the states
// at the returns and, if atReturn != nil, reports the state before each return.
func (a *c8Analysis) run(fn *ssa.Function, init c8State, atReturn func(r *ssa.Return, s c8State)) c8State {
	in := map[*ssa.BasicBlock]c8State{}
	if len(fn.Blocks) == 0 {
		return init
	}
	in[fn.Blocks[0]] = init
	work := []*ssa.BasicBlock{fn.Blocks[0]}
	out := map[*ssa.BasicBlock]c8State{}
	transfer := func(b *ssa.BasicBlock, s c8State) c8State {
		for _, ins := range b.Instrs {
			switch x := ins.(type) {
			case *ssa.Store:
				fa, ok := x.Addr.(*ssa.FieldAddr)
				if !ok {
					continue
				}
				switch core.FieldOwner(fa) {
				case a.ct.field("index"):
					s = s.mapPairs(func(m, t bool) (bool, bool) { return true, t })
				case a.ct.field(a.flag):
					v, isConst := core.ConstBool(x.Val)
					val := isConst && v
					s = s.mapPairs(func(m, t bool) (bool, bool) { return m, val })
				}
			case ssa.CallInstruction:
				g := a.cursorCallee(x)
				if g == nil {
					continue
				}
				sum := a.summary(g)
				_, isDefer := ins.(*ssa.Defer)
				var res c8State
				for i := 0; i < 4; i++ {
					if s&(1<<uint(i)) == 0 {
						continue
					}
					m, t := i&2 != 0, i&1 != 0
					if sum.mustSet {
						t = true
					}
					if sum.mayMove {
						res |= c8Pair(true, t)
						if isDefer {
							// runs at exit: whatever it moves, it also had to set
							continue
						}
						if !sum.mustSet && sum.mayClear {
							res |= c8Pair(true, false)
						}
						continue
					}
					res |= c8Pair(m, t)
					if !sum.mustSet && sum.mayClear {
						res |= c8Pair(m, false)
					}
				}
				s = res
			}
		}
		return s
	}
	for len(work) > 0 {
		b := work[len(work)-1]
		work = work[:len(work)-1]
		s := transfer(b, in[b])
		if old, ok := out[b]; ok && old == s {
			continue
		}
		out[b] = s
		for k, succ := range b.Succs {
			es := s
			// the branch fact of a test of the flag itself
			if iff, ok := b.Instrs[len(b.Instrs)-1].(*ssa.If); ok && len(b.Succs) == 2 && b.Succs[0] != b.Succs[1] {
				if f, neg, ok := c8FlagCond(a.ct, iff.Cond); ok && f == a.flag {
					flagTrueEdge := 0
					if neg {
						flagTrueEdge = 1
					}
					if k == flagTrueEdge {
						es = es.mapPairs(func(m, t bool) (bool, bool) { return m, true })
					}
				}
			}
			if in[succ]|es != in[succ] {
				in[succ] |= es
				work = append(work, succ)
			} else if _, seen := out[succ]; !seen {
				work = append(work, succ)
			}
		}
	}
	var exits c8State
	for _, b := range fn.Blocks {
		if len(b.Instrs) == 0 {
			continue
		}
		if r, ok := b.Instrs[len(b.Instrs)-1].(*ssa.Return); ok {
			if s, ok := out[b]; ok {
				exits |= s
				if atReturn != nil {
					atReturn(r, s)
				}
			}
		}
	}
	return exits
}

func ruleCur8(c *Ctx) {
	start := len(c.Obs)
	for _, ct := range curTypes(c) {
		fetch := ct.method(c, "Fetch")
		inRange := ct.methods["IsInRange"]
		if inRange == nil {
			if !ct.control {
				ct.method(c, "IsInRange")
			}
			continue
		}
		if fetch == nil {
			continue
		}
		c.Touch(fetch)
		c.Touch(inRange)
		flags := c8Flags(ct, inRange)
		keyF := c.KeyAt(inRange, "flag consulted for 'no fetch yet'")
		if len(flags) == 0 {
			if ct.control {
				continue
			}
			c.Unknown(keyF, c.FnPos(inRange), "cannot-analyse: IsInRange branches on no boolean field of the cursor: the state that stands for 'no fetch happened yet' is not recognisable")
			continue
		}
		c.Ok(keyF, c.FnPos(inRange), fmt.Sprintf("IsInRange branches on %v", flags))
		errIdx := core.ErrorResultIndex(fetch)
		for _, flag := range flags {
			a := &c8Analysis{c: c, ct: ct, flag: flag, memo: map[*ssa.Function]*c8Summary{}, stack: map[*ssa.Function]bool{}}
			n := 0
			a.run(fetch, c8Pair(false, false), func(r *ssa.Return, s c8State) {
				if errIdx >= 0 {
					mayNil := false
					for _, v := range core.ReturnOperand(r, errIdx) {
						if v == nil || curErrKind(c, v, r) != core.NonNil {
							mayNil = true
						}
					}
					if !mayNil {
						return // an error return: the statement failed
					}
				}
				n++
				key := c.KeyAt(fetch, fmt.Sprintf("non-error return #%d leaves %s consistent with the pointer", n, flag))
				if s&c8Pair(true, false) != 0 {
					c.Bad(key, c.Pos(r), fmt.Sprintf("the return at %s is reachable with Cursor.index stored (the pointer moved or was parked before the first / after the last row) but %s not set to true: %s reads %s and answers UNKNOWN — IS [NOT] IN RANGE disagrees with the position of the cursor", c.Pos(r), flag, c.P.Name(inRange), flag))
				} else if s&(c8Pair(true, true)|c8Pair(true, false)) == 0 {
					c.Ok(key, c.Pos(r), "the pointer is not moved on any path to this return")
				} else {
					c.Ok(key, c.Pos(r), fmt.Sprintf("on every path on which the pointer moved, %s is true at this return", flag))
				}
			})
			if n == 0 {
				c.Unknown(c.KeyAt(fetch, "non-error returns"), c.FnPos(fetch), "no return of Fetch with a possibly-nil error")
			}
		}
	}
	c.negControls(start, "OkFlagTopCursor).Fetch", "OkFlagDeferCursor).Fetch", "OkFlagMoveCursor).Fetch")
}
