package rules

// R-FMT-12 (seventh round, D78): what is written behind the encoder's back is encoded too.

import (
	"fmt"
	"go/token"
	"strings"

	"golang.org/x/tools/go/ssa"

	"verif/checker/core"
)

func init() {
	Register(&Rule{ID: "R-FMT-12", Props: []string{"C02"}, Floor: 3,
		Doc:      "no raw bytes in an encoded stream: in every lib/query function that hands a writer to EncodeView (itself, or through a private helper whose writer parameter is followed to the argument of each of its static call sites), every direct Write / WriteString into that same writer — in the function or in such a helper, one obligation per calling context — (the closing line break of a table file or of a result) writes bytes that come out of go-text's Encode — directly, or through a lib/query helper whose returned bytes all come out of it — never a []byte(string) conversion or a constant. The encoders of EncodeView write in the character encoding of the file (UTF-16, Shift_JIS, with or without a byte order mark); a line break appended as a single 0x0A byte makes a UTF-16 file read back with U+FFFD glued to its last field",
		Controls: []string{"ctlRawLineBreakAfterEncode", "ctlRawLineBreakAfterHelperEncode"},
		Run:      ruleFmt12})
}

// fmt12Encoded: every origin of the bytes v passes through go-text.Encode.
func fmt12Encoded(c *Ctx, v ssa.Value, depth int, seen map[ssa.Value]bool) (ok bool, why string) {
	if depth > 10 || seen[v] {
		return true, ""
	}
	seen[v] = true
	switch x := v.(type) {
	case *ssa.Extract:
		return fmt12Encoded(c, x.Tuple, depth+1, seen)
	case *ssa.Phi:
		for _, e := range x.Edges {
			if ok, why := fmt12Encoded(c, e, depth+1, seen); !ok {
				return false, why
			}
		}
		return true, ""
	case *ssa.ChangeType:
		return fmt12Encoded(c, x.X, depth+1, seen)
	case *ssa.Slice:
		return fmt12Encoded(c, x.X, depth+1, seen)
	case *ssa.UnOp:
		if x.Op == token.MUL {
			switch a := x.X.(type) {
			case *ssa.Alloc, *ssa.FreeVar:
				vals, complete := core.StoresTo(a)
				if complete && len(vals) > 0 {
					for _, sv := range vals {
						if core.IsNilConst(sv) {
							continue
						}
						if ok, why := fmt12Encoded(c, sv, depth+1, seen); !ok {
							return false, why
						}
					}
					return true, ""
				}
			}
		}
	case *ssa.Const:
		if core.IsNilConst(x) {
			return true, ""
		}
		return false, "a constant"
	case *ssa.Convert:
		return false, "a []byte(…) conversion of a text"
	case *ssa.Call:
		f := core.StaticCallee(x)
		if f != nil && f.Name() == "Encode" && f.Pkg != nil && strings.HasSuffix(f.Pkg.Pkg.Path(), "mithrandie/go-text") {
			return true, ""
		}
		if f != nil && f.Blocks != nil && (c.P.InPkg(f, "lib/query") || c.P.IsControl(f)) {
			for _, rv := range core.ReturnedValues(f, 0) {
				if core.IsNilConst(rv) {
					continue
				}
				if ok, why := fmt12Encoded(c, rv, depth+1, seen); !ok {
					return false, why + " (returned by " + c.P.Name(f) + ")"
				}
			}
			return true, ""
		}
		return false, "the result of " + c.P.CalleeName(x)
	}
	return false, valueLabel(v)
}

func ruleFmt12(c *Ctx) {
	start := len(c.Obs)
	defer func() { c.negControls(start, "okEncodedLineBreakAfterEncode", "okEncodedLineBreakAfterHelperEncode") }()
	var tops []*ssa.Function
	for _, fn := range c.P.FuncsIn(true, "lib/query") {
		if fn.Parent() == nil {
			tops = append(tops, fn)
		}
	}
	// the writers handed to EncodeView, per function that decides them: the function that
	// holds the call (with its closures) or, when the writer is a parameter of a private
	// helper, each calling context of the helper (parameter -> argument)
	hostWriters := map[*ssa.Function][]ssa.Value{}
	flushes := map[ssa.CallInstruction]bool{}
	for _, fn := range tops {
		for _, g := range fxWithClosures(fn) {
			for _, call := range core.Calls(g) {
				f := core.StaticCallee(call)
				if f == nil || len(call.Common().Args) < 2 {
					continue
				}
				if c.P.Name(f) == "lib/query.EncodeView" || (c.P.IsControl(f) && strings.HasPrefix(f.Name(), "ctlEncodeView")) {
					// the result may be encoded into a local buffer first: the writer is then the
					// stream the buffer is written to, and that write is EncodeView's own output
					ws, fl := fxBufferedWriters(c, g, call.Common().Args[1])
					for f := range fl {
						flushes[f] = true
					}
					for _, w := range ws {
						for _, ctx := range fxLift(c, w, g, 3) {
							h := fxRootFn(ctx.Fn)
							hostWriters[h] = append(hostWriters[h], ctx.V)
						}
					}
				}
			}
		}
	}
	sameWriter := func(host *ssa.Function, w ssa.Value) bool {
		for _, ew := range hostWriters[host] {
			if w == ew || core.SameVal(w, ew) {
				return true
			}
			// an interface made from the same file, or the same origins
			ow, oe := core.Origins(w, false), core.Origins(ew, false)
			for _, a := range ow {
				for _, b := range oe {
					if a == b || core.SameVal(core.Strip(a), core.Strip(b)) {
						return true
					}
				}
			}
		}
		return false
	}
	n := 0
	perHost := map[*ssa.Function]int{}
	for _, fn := range tops {
		if c.P.IsControl(fn) && strings.HasPrefix(fn.Name(), "ctlEncodeView") {
			continue // the stand-in of EncodeView in the controls: its writes are the encoder's own output
		}
		for _, g := range fxWithClosures(fn) {
			for _, call := range core.Calls(g) {
				recv, data, ok := fxFileWrite(c, call)
				if !ok || flushes[call] {
					continue
				}
				// a write into a parameter of a private helper is a write into what each caller hands over
				for _, ctx := range fxLift(c, recv, g, 3) {
					host := fxRootFn(ctx.Fn)
					if !sameWriter(host, ctx.V) {
						continue
					}
					perHost[host]++
					c.Sites++
					c.Touch(host)
					c.Touch(fn)
					if !c.P.IsControl(host) {
						n++
					}
					key := c.KeyAt(host, fmt.Sprintf("direct write #%d into the writer of EncodeView", perHost[host]))
					in := ctx.At(call.(ssa.Instruction))
					bytes, _ := fxMapUp(ctx.Chain, data, len(ctx.Chain))
					if enc, why := fmt12Encoded(c, bytes, 0, map[ssa.Value]bool{}); enc {
						c.Ok(key, c.Pos(in), "the bytes come out of go-text.Encode")
					} else {
						c.Bad(key, c.Pos(in), "the bytes written next to EncodeView's output are "+why+", not the output of go-text.Encode: the encoders write in the character encoding of the file, so in a UTF-16 (or other multi-byte) file these raw bytes are not the characters they were meant to be — a closing line break written as the single byte 0x0A is read back as U+FFFD glued to the last field")
					}
				}
			}
		}
	}
	if n < 3 {
		c.Unknown("anchor:direct writes next to EncodeView", "-", fmt.Sprintf("cannot-analyse: expected the closing line breaks of Commit (2) and of the result output (1), found %d", n))
	}
}
