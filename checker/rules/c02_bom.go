package rules

// R-FMT-14 (round 8, seed C02-15): what is appended to a file does not start a second byte order mark.

import (
	"fmt"
	"go/constant"
	"go/token"
	"go/types"
	"sort"
	"strings"

	"golang.org/x/tools/go/ssa"

	"verif/checker/core"
)

func init() {
	Register(&Rule{ID: "R-FMT-14", Props: []string{"C02"}, Floor: 1,
		Doc:      "a byte order mark belongs to the head of a file only: every lib/query function that encodes bytes for appending with go-text's Encode and takes the character encoding as a parameter is evaluated for every constant of go-text's Encoding type (the switch / if-chain over the parameter is decided, φs follow the path): the encoding that reaches Encode is never one that writes a byte order mark (UTF8M, UTF16BEM, UTF16LEM) — Encode starts a fresh encoder, which would emit the mark again in front of the closing line break, and the decoder, which strips a mark at the head of the stream only, would glue U+FEFF to the last cell of the file",
		Controls: []string{"ctlBomEncodesTailWithMark"},
		Run:      ruleFmt14})
}

func ruleFmt14(c *Ctx) {
	start := len(c.Obs)
	defer func() { c.negControls(start, "okBomTailWithoutMark") }()
	// the Encoding constants of go-text
	var tpk *types.Package
	for _, pk := range c.P.SSA.AllPackages() {
		if strings.HasSuffix(pk.Pkg.Path(), "mithrandie/go-text") {
			tpk = pk.Pkg
		}
	}
	if tpk == nil {
		c.Unknown("anchor:go-text", "-", "cannot-analyse: package go-text not loaded")
		return
	}
	type enc struct {
		name string
		val  int64
	}
	var encs []enc
	bom := map[int64]string{}
	for _, n := range tpk.Scope().Names() {
		k, ok := tpk.Scope().Lookup(n).(*types.Const)
		if !ok || !strings.HasSuffix(core.NamedOf(k.Type()), "go-text.Encoding") {
			continue
		}
		v, ok := constant.Int64Val(k.Val())
		if !ok {
			continue
		}
		encs = append(encs, enc{n, v})
		if n == "UTF8M" || n == "UTF16BEM" || n == "UTF16LEM" {
			bom[v] = n
		}
	}
	sort.Slice(encs, func(i, j int) bool { return encs[i].val < encs[j].val })
	if len(bom) != 3 || len(encs) < 6 {
		c.Unknown("anchor:go-text.Encoding constants", "-", fmt.Sprintf("cannot-analyse: expected the Encoding constants incl. UTF8M, UTF16BEM, UTF16LEM; found %d constants, %d with a byte order mark", len(encs), len(bom)))
		return
	}
	isEncode := func(call ssa.CallInstruction) bool {
		f := core.StaticCallee(call)
		return f != nil && f.Name() == "Encode" && f.Pkg != nil && strings.HasSuffix(f.Pkg.Pkg.Path(), "mithrandie/go-text") && len(call.Common().Args) == 2
	}
	n := 0
	for _, fn := range c.P.FuncsIn(true, "lib/query") {
		var encParam *ssa.Parameter
		for _, p := range fn.Params {
			if strings.HasSuffix(core.NamedOf(p.Type()), "go-text.Encoding") {
				encParam = p
			}
		}
		if encParam == nil {
			continue
		}
		var encodeCalls []ssa.CallInstruction
		for _, call := range core.Calls(fn) {
			if isEncode(call) {
				encodeCalls = append(encodeCalls, call)
			}
		}
		if len(encodeCalls) == 0 {
			continue
		}
		c.Touch(fn)
		if !c.P.IsControl(fn) {
			n++
		}
		key := c.KeyAt(fn, "no byte order mark in front of appended bytes")
		bad := ""
		cells := 0
		for _, e := range encs {
			// explore the paths with encParam = e.val
			type st struct {
				blk, pred *ssa.BasicBlock
				phis      map[*ssa.Phi]ssa.Value
				depth     int
			}
			var reach func(s st)
			resolve := func(v ssa.Value, phis map[*ssa.Phi]ssa.Value) (int64, bool) {
				for i := 0; i < 8; i++ {
					if p, ok := v.(*ssa.Phi); ok {
						if r, ok := phis[p]; ok {
							v = r
							continue
						}
						return 0, false
					}
					break
				}
				if v == ssa.Value(encParam) {
					return e.val, true
				}
				return core.ConstInt(v)
			}
			reach = func(s st) {
				if s.depth > 64 || bad != "" {
					return
				}
				phis := map[*ssa.Phi]ssa.Value{}
				for k, v := range s.phis {
					phis[k] = v
				}
				if s.pred != nil {
					idx := -1
					for i, q := range s.blk.Preds {
						if q == s.pred {
							idx = i
						}
					}
					for _, in := range s.blk.Instrs {
						p, ok := in.(*ssa.Phi)
						if !ok {
							break
						}
						if idx >= 0 {
							e0 := p.Edges[idx]
							if q, ok := e0.(*ssa.Phi); ok {
								if r, ok := s.phis[q]; ok {
									e0 = r
								}
							}
							phis[p] = e0
						}
					}
				}
				for _, in := range s.blk.Instrs {
					if call, ok := in.(ssa.CallInstruction); ok && isEncode(call) {
						cells++
						if v, ok := resolve(call.Common().Args[1], phis); ok {
							if name, isBom := bom[v]; isBom {
								bad = fmt.Sprintf("for the file encoding %s the bytes are encoded with %s: go-text.Encode starts a fresh encoder, which writes the byte order mark again in front of them", e.name, name)
							}
						} else {
							bad = "the encoding handed to go-text.Encode is not decided by the encoding parameter (for " + e.name + ")"
						}
					}
				}
				last := s.blk.Instrs[len(s.blk.Instrs)-1]
				switch x := last.(type) {
				case *ssa.If:
					decided, val := false, false
					if cmp, ok := x.Cond.(*ssa.BinOp); ok && (cmp.Op == token.EQL || cmp.Op == token.NEQ) {
						a, ok1 := resolve(cmp.X, phis)
						b, ok2 := resolve(cmp.Y, phis)
						if ok1 && ok2 {
							decided, val = true, (a == b) == (cmp.Op == token.EQL)
						}
					}
					for i, succ := range s.blk.Succs {
						if decided && (i == 0) != val {
							continue
						}
						reach(st{succ, s.blk, phis, s.depth + 1})
					}
				case *ssa.Jump:
					reach(st{s.blk.Succs[0], s.blk, phis, s.depth + 1})
				}
			}
			reach(st{fn.Blocks[0], nil, map[*ssa.Phi]ssa.Value{}, 0})
			if bad != "" {
				break
			}
		}
		if bad != "" {
			c.Bad(key, c.Pos(encodeCalls[0].(ssa.Instruction)), bad+"; the decoder strips a mark at the head of the stream only, so U+FEFF is read back as part of the last cell of the file")
		} else {
			c.OkN(key, c.Pos(encodeCalls[0].(ssa.Instruction)), fmt.Sprintf("evaluated for the %d constants of go-text.Encoding: the encoding that reaches Encode never writes a byte order mark", len(encs)), cells)
		}
	}
	if n < 1 {
		c.Unknown("anchor:tail encoders of lib/query", "-", "cannot-analyse: no lib/query function with an Encoding parameter calls go-text.Encode")
	}
}
