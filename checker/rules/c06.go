package rules

import (
	"fmt"
	"go/constant"
	"go/token"
	"go/types"
	"sort"
	"strings"

	"golang.org/x/tools/go/ssa"

	"verif/checker/absint"
	"verif/checker/core"
)

// C06 — comparison, ternary logic, arithmetic: everything that is a finite
// table is enumerated completely with the abstract interpreter (engine E6).

func init() {
	Register(&Rule{ID: "R-CMP-1", Props: []string{"C06"}, Floor: 2,
		Doc: "three-way kernels compareInteger / compareFloat return IsLess/IsEqual/IsGreater exactly for lt/eq/gt and IsNotEqual whenever an operand is NaN (all orderings × NaN flags enumerated)",
		Run: ruleCmp1})
	Register(&Rule{ID: "R-CMP-2", Props: []string{"C06"}, Floor: 36,
		Doc: "the six operators Equal…GreaterOrEqual as functions of the 6-valued ComparisonResult equal the documented table, and satisfy: NotEqual=¬Equal, Less[r]=Greater[mirror r], LessOrEqual[r]=GreaterOrEqual[mirror r], Equal symmetric, a<=b ⇔ a<b ∨ a=b on ordered results, UNKNOWN exactly on incommensurable classes; Compare's operator literal → function table is the documented one",
		Run: ruleCmp2})
	Register(&Rule{ID: "R-CMP-3", Props: []string{"C06", "C04"}, Floor: 1,
		Doc: "CompareCombinedly follows the documented coercion ladder in every abstract world: NULL → incommensurable; then integer-strict, float, datetime, boolean, string rungs in that order, the same conversion applied to both operands, each rung mapped to its kernel",
		Run: ruleCmp3})
	Register(&Rule{ID: "R-CMP-4", Props: []string{"C06"}, Floor: 10,
		Doc: "Calculate: integer rung, then float rung, else NULL; integer / and % return the division-by-zero error exactly when the divisor is 0; integer and float kernels map + - * / to the same Go operator and % to the truncated remainder (math.Mod), so that float and integer arithmetic agree on integral operands",
		Run: ruleCmp4})
}

func newInterp(c *Ctx, w *absint.World) *absint.Interp {
	return &absint.Interp{
		W:      w,
		Name:   func(call ssa.CallInstruction) string { return c.P.CalleeName(call) },
		Models: map[string]absint.Model{},
	}
}

// inlineHelpers: unexported plain functions (no methods) of the given package
// are executed rather than treated as opaque, so that extracting a helper from
// an analysed function does not change the extracted table; `except` names
// (FnRef) stay opaque (marked kernels, modelled functions).
func inlineHelpers(c *Ctx, pkgShort string, except ...string) func(f *ssa.Function) bool {
	ex := map[string]bool{}
	for _, e := range except {
		ex[e] = true
	}
	return func(f *ssa.Function) bool {
		if f == nil || f.Blocks == nil || !c.P.InPkg(f, pkgShort) {
			return false
		}
		if ex[c.P.FnRef(f)] {
			return false
		}
		if f.Parent() != nil {
			return true // local closures
		}
		if f.Signature.Recv() != nil {
			return false
		}
		return f.Object() != nil && !f.Object().Exported()
	}
}

// enumConstsOf returns the declared constants of a named type, sorted by value.
var enumConstsMemo = map[types.Type][]*types.Const{}

func enumConstsOf(t types.Type) []*types.Const {
	if r, ok := enumConstsMemo[t]; ok {
		return r
	}
	r := enumConstsOfUncached(t)
	enumConstsMemo[t] = r
	return r
}

func enumConstsOfUncached(t types.Type) []*types.Const {
	n, ok := t.(*types.Named)
	if !ok || n.Obj().Pkg() == nil {
		return nil
	}
	if b, ok := n.Underlying().(*types.Basic); !ok || b.Info()&types.IsInteger == 0 {
		return nil
	}
	var out []*types.Const
	sc := n.Obj().Pkg().Scope()
	for _, name := range sc.Names() {
		if cst, ok := sc.Lookup(name).(*types.Const); ok && types.Identical(cst.Type(), t) {
			out = append(out, cst)
		}
	}
	sort.Slice(out, func(i, j int) bool { return constant.Compare(out[i].Val(), token.LSS, out[j].Val()) })
	return out
}

func enumName(t types.Type, v constant.Value) string {
	for _, c := range enumConstsOf(t) {
		if constant.Compare(c.Val(), token.EQL, v) {
			return c.Name()
		}
	}
	return v.ExactString()
}

// ternaryType finds github.com/mithrandie/ternary.Value through lib/value's imports.
func ternaryType(c *Ctx) types.Type {
	pk := c.P.ByPath["lib/value"]
	if pk == nil {
		return nil
	}
	for _, imp := range pk.Types.Imports() {
		if imp.Path() == "github.com/mithrandie/ternary" {
			if o := imp.Scope().Lookup("Value"); o != nil {
				return o.Type()
			}
		}
	}
	return nil
}

func ternaryConst(c *Ctx, name string) absint.Val {
	t := ternaryType(c)
	for _, k := range enumConstsOf(t) {
		if k.Name() == name {
			return absint.Const(k.Val(), t)
		}
	}
	return absint.Val{}
}

func ternaryName(c *Ctx, v absint.Val) string {
	if v.K != absint.KConst {
		return v.String()
	}
	return enumName(ternaryType(c), v.C)
}

// ternaryModels: ConvertFromBool / Not / And / Or on concrete values.
func ternaryModels(c *Ctx, m map[string]absint.Model) {
	T, F, U := ternaryConst(c, "TRUE"), ternaryConst(c, "FALSE"), ternaryConst(c, "UNKNOWN")
	rank := func(v absint.Val) int {
		switch ternaryName(c, v) {
		case "FALSE":
			return -1
		case "TRUE":
			return 1
		}
		return 0
	}
	fromRank := func(r int) absint.Val {
		switch r {
		case -1:
			return F
		case 1:
			return T
		}
		return U
	}
	m["github.com/mithrandie/ternary.ConvertFromBool"] = func(it *absint.Interp, call ssa.CallInstruction, a []absint.Val) (absint.Val, bool) {
		b := it.Decide(a[0])
		if b {
			return T, true
		}
		return F, true
	}
	m["github.com/mithrandie/ternary.Not"] = func(it *absint.Interp, call ssa.CallInstruction, a []absint.Val) (absint.Val, bool) {
		if a[0].K != absint.KConst {
			return absint.Val{}, false
		}
		return fromRank(-rank(a[0])), true
	}
	m["github.com/mithrandie/ternary.And"] = func(it *absint.Interp, call ssa.CallInstruction, a []absint.Val) (absint.Val, bool) {
		if a[0].K != absint.KConst || a[1].K != absint.KConst {
			return absint.Val{}, false
		}
		r := rank(a[0])
		if rank(a[1]) < r {
			r = rank(a[1])
		}
		return fromRank(r), true
	}
	m["github.com/mithrandie/ternary.Or"] = func(it *absint.Interp, call ssa.CallInstruction, a []absint.Val) (absint.Val, bool) {
		if a[0].K != absint.KConst || a[1].K != absint.KConst {
			return absint.Val{}, false
		}
		r := rank(a[0])
		if rank(a[1]) > r {
			r = rank(a[1])
		}
		return fromRank(r), true
	}
}

func mathModels(m map[string]absint.Model) {
	m["math.IsNaN"] = func(it *absint.Interp, call ssa.CallInstruction, a []absint.Val) (absint.Val, bool) {
		return it.IsNaN(a[0]), true
	}
}

// ---------------------------------------------------------------------------

func ruleCmp1(c *Ctx) {
	crT := c.P.Type("lib/value", "ComparisonResult")
	for _, name := range []string{"lib/value.compareInteger", "lib/value.compareFloat"} {
		fn := c.Fn(name)
		if fn == nil {
			continue
		}
		isFloat := strings.HasSuffix(name, "Float")
		var bad []string
		worlds, err := absint.Enumerate(1000, func(w *absint.World) {
			it := newInterp(c, w)
			mathModels(it.Models)
			a := absint.Sym("v1", fn.Params[0].Type())
			b := absint.Sym("v2", fn.Params[1].Type())
			r := it.Call(fn, []absint.Val{a, b}, nil)
			if it.Err != nil {
				bad = append(bad, "cannot evaluate: "+it.Err.Error())
				return
			}
			want := ""
			n1, n2 := false, false
			if isFloat {
				n1, _ = it.IsNaN(a).BoolVal()
				n2, _ = it.IsNaN(b).BoolVal()
			}
			if n1 || n2 {
				want = "IsNotEqual"
			} else {
				switch it.Order(a, b) {
				case -1:
					want = "IsLess"
				case 0:
					want = "IsEqual"
				default:
					want = "IsGreater"
				}
			}
			got := r.String()
			if r.K == absint.KConst {
				got = enumName(crT, r.C)
			}
			if got != want {
				bad = append(bad, fmt.Sprintf("world {%s}: returns %s, expected %s", strings.Join(w.Asked(), " "), got, want))
			}
		})
		if err != nil {
			c.Unknown(name, c.FnPos(fn), err.Error())
			continue
		}
		if len(bad) > 0 {
			c.Bad(name, c.FnPos(fn), "three-way kernel deviates from {lt→IsLess, eq→IsEqual, gt→IsGreater, NaN→IsNotEqual}: "+strings.Join(bad, "; "))
		} else {
			c.OkN(name, c.FnPos(fn), fmt.Sprintf("all %d abstract worlds (orderings × NaN flags) give the specified result", worlds), worlds)
		}
	}
}

// operator spec: rows = operator, columns = ComparisonResult
var cmpSpec = map[string]map[string]string{
	"Equal":          {"IsEqual": "TRUE", "IsBoolEqual": "TRUE", "IsNotEqual": "FALSE", "IsLess": "FALSE", "IsGreater": "FALSE", "IsIncommensurable": "UNKNOWN"},
	"NotEqual":       {"IsEqual": "FALSE", "IsBoolEqual": "FALSE", "IsNotEqual": "TRUE", "IsLess": "TRUE", "IsGreater": "TRUE", "IsIncommensurable": "UNKNOWN"},
	"Less":           {"IsEqual": "FALSE", "IsBoolEqual": "UNKNOWN", "IsNotEqual": "UNKNOWN", "IsLess": "TRUE", "IsGreater": "FALSE", "IsIncommensurable": "UNKNOWN"},
	"Greater":        {"IsEqual": "FALSE", "IsBoolEqual": "UNKNOWN", "IsNotEqual": "UNKNOWN", "IsLess": "FALSE", "IsGreater": "TRUE", "IsIncommensurable": "UNKNOWN"},
	"LessOrEqual":    {"IsEqual": "TRUE", "IsBoolEqual": "UNKNOWN", "IsNotEqual": "UNKNOWN", "IsLess": "TRUE", "IsGreater": "FALSE", "IsIncommensurable": "UNKNOWN"},
	"GreaterOrEqual": {"IsEqual": "TRUE", "IsBoolEqual": "UNKNOWN", "IsNotEqual": "UNKNOWN", "IsLess": "FALSE", "IsGreater": "TRUE", "IsIncommensurable": "UNKNOWN"},
}

var cmpMirror = map[string]string{"IsEqual": "IsEqual", "IsBoolEqual": "IsBoolEqual", "IsNotEqual": "IsNotEqual", "IsLess": "IsGreater", "IsGreater": "IsLess", "IsIncommensurable": "IsIncommensurable"}

func ruleCmp2(c *Ctx) {
	crT := c.P.Type("lib/value", "ComparisonResult")
	consts := enumConstsOf(crT)
	if len(consts) != 6 {
		c.Unknown("ComparisonResult", "-", fmt.Sprintf("expected the 6 documented comparison classes, found %d", len(consts)))
		return
	}
	table := map[string]map[string]string{}
	ops := []string{"Equal", "NotEqual", "Less", "Greater", "LessOrEqual", "GreaterOrEqual"}
	for _, op := range ops {
		fn := c.Fn("lib/value." + op)
		if fn == nil {
			continue
		}
		table[op] = map[string]string{}
		for _, k := range consts {
			var got string
			_, err := absint.Enumerate(50, func(w *absint.World) {
				it := newInterp(c, w)
				ternaryModels(c, it.Models)
				it.InlinePred = inlineHelpers(c, "lib/value")
				it.Models["lib/value.CompareCombinedly"] = func(it *absint.Interp, call ssa.CallInstruction, a []absint.Val) (absint.Val, bool) {
					return absint.Const(k.Val(), crT), true
				}
				var args []absint.Val
				for _, p := range fn.Params {
					args = append(args, absint.Sym(p.Name(), p.Type()))
				}
				r := it.Call(fn, args, nil)
				if it.Err != nil {
					got = "error: " + it.Err.Error()
					return
				}
				if got != "" && got != ternaryName(c, r) {
					got = "depends on more than the comparison class"
					return
				}
				got = ternaryName(c, r)
			})
			if err != nil {
				got = err.Error()
			}
			table[op][k.Name()] = got
			key := fmt.Sprintf("lib/value.%s[%s]", op, k.Name())
			want := cmpSpec[op][k.Name()]
			c.Check(got == want, key, c.FnPos(fn), "= "+got+" as documented", fmt.Sprintf("%s on comparison class %s yields %s, documented %s", op, k.Name(), got, want))
		}
	}
	if len(table) != 6 {
		return
	}
	// algebraic laws, cell by cell
	not := map[string]string{"TRUE": "FALSE", "FALSE": "TRUE", "UNKNOWN": "UNKNOWN"}
	law := func(name string, ok bool, detail string) {
		c.Check(ok, "law: "+name, "-", "holds on all 6 classes", detail)
	}
	var v []string
	for _, k := range consts {
		r := k.Name()
		if table["NotEqual"][r] != not[table["Equal"][r]] {
			v = append(v, r)
		}
	}
	law("a<>b = NOT(a=b)", len(v) == 0, "fails for "+strings.Join(v, ","))
	v = nil
	for _, k := range consts {
		r := k.Name()
		if table["Less"][r] != table["Greater"][cmpMirror[r]] {
			v = append(v, r)
		}
	}
	law("a<b = b>a", len(v) == 0, "fails for "+strings.Join(v, ","))
	v = nil
	for _, k := range consts {
		r := k.Name()
		if table["LessOrEqual"][r] != table["GreaterOrEqual"][cmpMirror[r]] {
			v = append(v, r)
		}
	}
	law("a<=b = b>=a", len(v) == 0, "fails for "+strings.Join(v, ","))
	v = nil
	for _, k := range consts {
		r := k.Name()
		if table["Equal"][r] != table["Equal"][cmpMirror[r]] {
			v = append(v, r)
		}
	}
	law("= symmetric", len(v) == 0, "fails for "+strings.Join(v, ","))
	v = nil
	for _, r := range []string{"IsEqual", "IsLess", "IsGreater"} {
		or := "FALSE"
		if table["Less"][r] == "TRUE" || table["Equal"][r] == "TRUE" {
			or = "TRUE"
		}
		if table["LessOrEqual"][r] != or {
			v = append(v, r)
		}
	}
	law("a<=b = (a<b OR a=b) on ordered operands", len(v) == 0, "fails for "+strings.Join(v, ","))

	// Compare: operator literal → callee
	if fn := c.Fn("lib/value.Compare"); fn != nil {
		want := map[string]string{"=": "Equal", "==": "Identical", ">": "Greater", "<": "Less", ">=": "GreaterOrEqual", "<=": "LessOrEqual", "<>": "NotEqual", "!=": "NotEqual"}
		var lits []string
		for l := range want {
			lits = append(lits, l)
		}
		sort.Strings(lits)
		for _, lit := range lits {
			called := ""
			absint.Enumerate(10, func(w *absint.World) {
				it := newInterp(c, w)
				it.OnCall = func(name string, call ssa.CallInstruction, args []absint.Val) {
					if strings.HasPrefix(name, "lib/value.") {
						called = strings.TrimPrefix(name, "lib/value.")
					}
				}
				var args []absint.Val
				for _, p := range fn.Params {
					if p.Name() == "operator" {
						args = append(args, absint.Const(constant.MakeString(lit), p.Type()))
					} else {
						args = append(args, absint.Sym(p.Name(), p.Type()))
					}
				}
				it.Call(fn, args, nil)
			})
			c.Check(called == want[lit], fmt.Sprintf("lib/value.Compare[%q]", lit), c.FnPos(fn), "→ "+called, fmt.Sprintf("operator %q dispatches to %s, documented %s", lit, called, want[lit]))
		}
	}
}

// ---------------------------------------------------------------------------
// R-CMP-3: ladder of CompareCombinedly

func symCall(fn string, args ...string) string { return fn + "(" + strings.Join(args, ",") + ")" }

func ruleCmp3(c *Ctx) {
	fn := c.Fn("lib/value.CompareCombinedly")
	if fn == nil {
		return
	}
	crT := c.P.Type("lib/value", "ComparisonResult")
	type rung struct {
		conv  string
		extra string // additional args of the conversion
		raw   string // accessor that yields the compared scalar
		float bool
		bool_ bool
	}
	rungs := []rung{
		{"value.ToIntegerStrictly", "", "value.(Integer).Raw", false, false},
		{"value.ToFloat", "", "value.(Float).Raw", true, false},
		{"value.ToDatetime", ",datetimeFormats,location", "value.(Datetime).Raw", false, false},
		{"value.ToBoolean", "", "value.(Boolean).Raw", false, true},
	}
	var bad []string
	seenResults := map[string]bool{}
	worlds, err := absint.Enumerate(200000, func(w *absint.World) {
		it := newInterp(c, w)
		mathModels(it.Models)
		it.InlinePred = inlineHelpers(c, "lib/value")
		ord := func(it *absint.Interp, a []absint.Val) int { return it.Order(a[0], a[1]) }
		it.Models["(time.Time).Equal"] = func(it *absint.Interp, call ssa.CallInstruction, a []absint.Val) (absint.Val, bool) {
			return absint.Bool(ord(it, a) == 0), true
		}
		it.Models["(time.Time).Before"] = func(it *absint.Interp, call ssa.CallInstruction, a []absint.Val) (absint.Val, bool) {
			return absint.Bool(ord(it, a) < 0), true
		}
		it.Models["(time.Time).After"] = func(it *absint.Interp, call ssa.CallInstruction, a []absint.Val) (absint.Val, bool) {
			return absint.Bool(ord(it, a) > 0), true
		}
		var args []absint.Val
		for _, p := range fn.Params {
			args = append(args, absint.Sym(p.Name(), p.Type()))
		}
		r := it.Call(fn, args, nil)
		if it.Err != nil {
			bad = append(bad, "cannot evaluate: "+it.Err.Error())
			return
		}
		got := r.String()
		if r.K == absint.KConst {
			got = enumName(crT, r.C)
		}
		seenResults[got] = true
		// specification, evaluated on the same world; a key the code never asked
		// means the code took a different route than the documented ladder
		missing := ""
		ask := func(key string) int {
			v := w.Get(key)
			if v < 0 && missing == "" {
				missing = key
			}
			return v
		}
		isNull := func(x string) bool { return ask("b:"+symCall("value.IsNull", x)) == 1 }
		want := func() string {
			if isNull("p1") || isNull("p2") {
				return "IsIncommensurable"
			}
			for _, rg := range rungs {
				c1 := symCall(rg.conv, "p1"+rg.extra)
				if isNull(c1) {
					continue
				}
				c2 := symCall(rg.conv, "p2"+rg.extra)
				if isNull(c2) {
					continue
				}
				s1, s2 := symCall(rg.raw, "&"+c1), symCall(rg.raw, "&"+c2)
				if rg.bool_ {
					// booleans: identity of the two raw values
					if o := ask("ord:" + minmaxStr(s1, s2)); o == 1 {
						return "IsBoolEqual"
					}
					return "IsNotEqual"
				}
				if rg.float {
					if ask("nan:"+s1) == 1 || ask("nan:"+s2) == 1 {
						return "IsNotEqual"
					}
				}
				o := ask("ord:" + minmaxStr(s1, s2))
				if o < 0 {
					return "?"
				}
				if s1 > s2 {
					o = 2 - o
				}
				return []string{"IsLess", "IsEqual", "IsGreater"}[o]
			}
			if ask("b:is:*"+core.ModPath+"/lib/value.String:p1") == 1 && ask("b:is:*"+core.ModPath+"/lib/value.String:p2") == 1 {
				norm := func(p string) string {
					return symCall("strings.ToUpper", symCall("option.TrimSpace", symCall("value.(String).Raw", "&"+p)))
				}
				s1, s2 := norm("p1"), norm("p2")
				o := ask("ord:" + minmaxStr(s1, s2))
				if o < 0 {
					return "?"
				}
				if s1 > s2 {
					o = 2 - o
				}
				return []string{"IsLess", "IsEqual", "IsGreater"}[o]
			}
			return "IsIncommensurable"
		}()
		if missing != "" && len(bad) < 5 {
			bad = append(bad, fmt.Sprintf("world {%s}: the documented ladder needs %q here but the code never evaluated it (different rung order or operand)", strings.Join(w.Asked(), " "), missing))
			return
		}
		if got != want && len(bad) < 5 {
			bad = append(bad, fmt.Sprintf("world {%s}: returns %s, ladder prescribes %s", strings.Join(w.Asked(), " "), got, want))
		}
	})
	key := "lib/value.CompareCombinedly: ladder"
	if err != nil {
		c.Unknown(key, c.FnPos(fn), err.Error())
		return
	}
	if len(bad) > 0 {
		c.Bad(key, c.FnPos(fn), strings.Join(bad, "; "))
		return
	}
	if len(seenResults) != 6 {
		c.Bad(key, c.FnPos(fn), fmt.Sprintf("only %d of the 6 comparison classes are ever produced", len(seenResults)))
		return
	}
	c.OkN(key, c.FnPos(fn), fmt.Sprintf("%d abstract worlds (null-ness × convertibility of both operands × orderings × NaN) agree with the documented ladder", worlds), worlds)
}

func minmaxStr(a, b string) string {
	if a > b {
		a, b = b, a
	}
	return a + "|" + b
}

// ---------------------------------------------------------------------------
// R-CMP-4: Calculate

func ruleCmp4(c *Ctx) {
	intK := c.Fn("lib/query.calculateInteger")
	fltK := c.Fn("lib/query.calculateFloat")
	calc := c.Fn("lib/query.Calculate")
	if intK == nil || fltK == nil || calc == nil {
		return
	}
	ops := []rune{'+', '-', '*', '/', '%'}
	intWant := map[rune]string{'+': "(i1+i2)", '-': "(i1-i2)", '*': "(i1*i2)", '/': "(i1/i2)", '%': "(i1%i2)"}
	fltWant := map[rune]string{'+': "(f1+f2)", '-': "(f1-f2)", '*': "(f1*f2)", '/': "(f1/f2)", '%': "math.Mod(f1,f2)"}
	for _, op := range ops {
		// integer kernel
		var results []string
		absint.Enumerate(20, func(w *absint.World) {
			it := newInterp(c, w)
			r := it.Call(intK, []absint.Val{absint.Sym("i1", intK.Params[0].Type()), absint.Sym("i2", intK.Params[1].Type()), absint.Const(constant.MakeInt64(int64(op)), intK.Params[2].Type())}, nil)
			if it.Err != nil {
				results = append(results, "error:"+it.Err.Error())
				return
			}
			zero := w.Get("b:i2==0")
			results = append(results, fmt.Sprintf("zero=%d:%s", zero, r.String()))
		})
		sort.Strings(results)
		got := strings.Join(results, " ; ")
		key := fmt.Sprintf("lib/query.calculateInteger[%c]", op)
		okExpr := "[value.NewInteger(" + intWant[op] + "),nil]"
		var want string
		if op == '/' || op == '%' {
			want = "zero=0:" + okExpr + " ; zero=1:[nil,&global:errIntegerDevidedByZero]"
		} else {
			want = "zero=-1:" + okExpr
		}
		c.Check(normalizeErr(got) == normalizeErr(want), key, c.FnPos(intK), "= "+got, fmt.Sprintf("integer %c evaluates to {%s}, specified {%s}", op, got, want))

		// float kernel
		results = nil
		absint.Enumerate(20, func(w *absint.World) {
			it := newInterp(c, w)
			r := it.Call(fltK, []absint.Val{absint.Sym("f1", fltK.Params[0].Type()), absint.Sym("f2", fltK.Params[1].Type()), absint.Const(constant.MakeInt64(int64(op)), fltK.Params[2].Type())}, nil)
			if it.Err != nil {
				results = append(results, "error:"+it.Err.Error())
				return
			}
			results = append(results, r.String())
		})
		got = strings.Join(results, " ; ")
		key = fmt.Sprintf("lib/query.calculateFloat[%c]", op)
		want = "value.NewFloat(" + fltWant[op] + ")"
		c.Check(normalizeErr(got) == want, key, c.FnPos(fltK), "= "+got,
			fmt.Sprintf("float %c evaluates to %s, specified %s (the float and the integer operator must agree on integral operands; %% is the truncated remainder with the sign of the dividend)", op, got, want))
	}
	// Calculate: rung order
	var bad []string
	worlds, err := absint.Enumerate(5000, func(w *absint.World) {
		it := newInterp(c, w)
		it.InlinePred = inlineHelpers(c, "lib/query", "lib/query.calculateInteger", "lib/query.calculateFloat")
		var reached string
		it.OnCall = func(name string, call ssa.CallInstruction, args []absint.Val) {
			switch name {
			case "lib/query.calculateInteger", "lib/query.calculateFloat":
				reached = strings.TrimPrefix(name, "lib/query.") + "(" + args[0].String() + "," + args[1].String() + ")"
			case "lib/value.NewNull":
				reached = "NULL"
			}
		}
		var args []absint.Val
		for _, p := range calc.Params {
			args = append(args, absint.Sym(p.Name(), p.Type()))
		}
		it.Call(calc, args, nil)
		if it.Err != nil {
			bad = append(bad, it.Err.Error())
			return
		}
		isNull := func(x string) int { return w.Get("b:" + symCall("value.IsNull", x)) }
		i1, i2 := symCall("value.ToIntegerStrictly", "p1"), symCall("value.ToIntegerStrictly", "p2")
		f1, f2 := symCall("value.ToFloat", "p1"), symCall("value.ToFloat", "p2")
		want := "NULL"
		switch {
		case isNull(i1) == 0 && isNull(i2) == 0:
			want = "calculateInteger(" + symCall("value.(Integer).Raw", "&"+i1) + "," + symCall("value.(Integer).Raw", "&"+i2) + ")"
		case isNull(f1) == 0 && isNull(f2) == 0:
			want = "calculateFloat(" + symCall("value.(Float).Raw", "&"+f1) + "," + symCall("value.(Float).Raw", "&"+f2) + ")"
		case isNull(f1) < 0 || (isNull(f1) == 0 && isNull(f2) < 0):
			want = "?float rung not evaluated"
		}
		if reached != want && len(bad) < 4 {
			bad = append(bad, fmt.Sprintf("world {%s}: reaches %s, specified %s", strings.Join(w.Asked(), " "), reached, want))
		}
	})
	key := "lib/query.Calculate: rungs"
	if err != nil {
		c.Unknown(key, c.FnPos(calc), err.Error())
	} else if len(bad) > 0 {
		c.Bad(key, c.FnPos(calc), strings.Join(bad, "; "))
	} else {
		c.OkN(key, c.FnPos(calc), fmt.Sprintf("%d worlds: integer rung when both operands are strict integers, else float rung when both convert to float, else NULL", worlds), worlds)
	}
}

func normalizeErr(s string) string { return strings.ReplaceAll(s, "&", "") }
