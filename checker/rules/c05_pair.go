package rules

import (
	"fmt"
	"go/token"
	"go/types"
	"sort"
	"strings"

	"golang.org/x/tools/go/ssa"

	"verif/checker/core"
)

// R-VIEW-1: a View's Header and RecordSet change together.
//
// Every evaluator resolves a column reference against view.Header and then
// reads view.RecordSet[row][index]. A function that replaces both (ALTER TABLE
// ADD / DROP, the loaders, joins, SELECT's projection) therefore has a window,
// between its two stores, in which the header describes rows that are not
// there yet. Nothing may look at the view inside that window: an expression
// evaluated there is resolved against the new layout and reads the old cells —
// `ADD n DEFAULT v FIRST` fills n from the column behind v, or the index runs
// past the old record.

func init() {
	Register(&Rule{ID: "R-VIEW-1", Props: []string{"C05", "C03", "C08"}, Floor: 12,
		Doc:      "Header and RecordSet of a view are replaced back to back: in every lib/query function that stores both the Header and the RecordSet field of the same *View object, no call that is handed that view — as receiver or argument, or through a closure that captures it — lies on a path between the two stores (either order). Field reads in the function itself and calls that do not receive the view (building the records, NewCell, Merge of the record sets …) are not restricted. Decides that no evaluation observes a view whose header and rows disagree, not that the new header and rows themselves agree (R-CNT / R-FIX rules)",
		Controls: []string{"CtlEvaluateBetweenHeaderAndRows"},
		Run:      ruleView1})
}

// viewFieldStores: stores to field `name` of a struct that also has the sibling field, grouped by object key
func ruleView1(c *Ctx) {
	viewT := c.P.Type("lib/query", "View")
	if viewT == nil {
		c.Unknown("anchor: lib/query.View", "-", "cannot-analyse: type View not found")
		return
	}
	isPairedStruct := func(t types.Type) (hIdx, rIdx int, ok bool) {
		p, isPtr := t.Underlying().(*types.Pointer)
		if !isPtr {
			return 0, 0, false
		}
		st, isSt := p.Elem().Underlying().(*types.Struct)
		if !isSt {
			return 0, 0, false
		}
		hIdx, rIdx = -1, -1
		for i := 0; i < st.NumFields(); i++ {
			switch st.Field(i).Name() {
			case "Header":
				hIdx = i
			case "RecordSet":
				rIdx = i
			}
		}
		return hIdx, rIdx, hIdx >= 0 && rIdx >= 0
	}
	pairs := 0
	for _, fn := range c.P.FuncsIn(true, "lib/query") {
		type st struct {
			in    *ssa.Store
			field string
		}
		byObj := map[ssa.Value][]st{}
		var order []ssa.Value
		for _, b := range fn.Blocks {
			for _, in := range b.Instrs {
				s, ok := in.(*ssa.Store)
				if !ok {
					continue
				}
				fa, ok := s.Addr.(*ssa.FieldAddr)
				if !ok {
					continue
				}
				h, r, ok := isPairedStruct(fa.X.Type())
				if !ok || (fa.Field != h && fa.Field != r) {
					continue
				}
				k := viewObjKey(fa.X)
				if _, seen := byObj[k]; !seen {
					order = append(order, k)
				}
				name := "Header"
				if fa.Field == h {
					// fields appended to the view's own header keep the position of every existing column
					hf := h
					own := func(v ssa.Value) bool {
						u, ok := v.(*ssa.UnOp)
						if !ok || u.Op != token.MUL {
							return false
						}
						ofa, ok := u.X.(*ssa.FieldAddr)
						return ok && ofa.Field == hf && viewObjKey(ofa.X) == k
					}
					if extendsOwn(s.Val, own) {
						continue
					}
				}
				if fa.Field == r {
					name = "RecordSet"
					// rows added to / cut from the view's own record set keep the layout the header describes
					if viewOwnRows(s.Val, k, r, map[ssa.Value]bool{}) {
						continue
					}
				}
				byObj[k] = append(byObj[k], st{s, name})
			}
		}
		n := 0
		for _, obj := range order {
			stores := byObj[obj]
			var hs, rs []*ssa.Store
			for _, s := range stores {
				if s.field == "Header" {
					hs = append(hs, s.in)
				} else {
					rs = append(rs, s.in)
				}
			}
			if len(hs) == 0 || len(rs) == 0 {
				continue
			}
			n++
			pairs++
			c.Touch(fn)
			label := valuePathLabel(obj)
			key := c.KeyAt(fn, fmt.Sprintf("Header and RecordSet of %s #%d change together", viewObjLabel(obj, label), n))
			var bad []string
			badPos := ""
			isStoreOf := func(set []*ssa.Store) func(ssa.Instruction) bool {
				return func(in ssa.Instruction) bool {
					for _, s := range set {
						if in == ssa.Instruction(s) {
							return true
						}
					}
					return false
				}
			}
			calls := core.Calls(fn)
			check := func(first []*ssa.Store, second []*ssa.Store, what string) {
				for _, a := range first {
					for _, b := range second {
						if !core.Reachable(a, b, isStoreOf(first)) && !(a.Block() == b.Block() && core.InstrIndex(a) < core.InstrIndex(b)) {
							continue
						}
						for _, call := range calls {
							if _, isDefer := call.(*ssa.Defer); isDefer {
								continue
							}
							if !viewCallReceives(call, obj) || viewLeafGetter(call) {
								continue
							}
							after := core.Reachable(a, call, isStoreOf(second))
							before := core.Reachable(call, b, isStoreOf(first))
							if after && before {
								bad = append(bad, fmt.Sprintf("%s is handed to %s at %s %s", viewObjLabel(obj, label), ctxCalleeLabel(c, call), c.Pos(call), what))
								if badPos == "" {
									badPos = c.Pos(call)
								}
							}
						}
					}
				}
			}
			check(hs, rs, "after its Header was replaced and before its RecordSet is: the callee resolves columns against the new header and reads the old rows (wrong column, or an index past the old record)")
			check(rs, hs, "after its RecordSet was replaced and before its Header is: the callee resolves columns against the old header and reads the new rows")
			if len(bad) > 0 {
				sort.Strings(bad)
				c.Bad(key, badPos, strings.Join(dedup(bad), "; "))
			} else {
				c.Ok(key, c.Pos(hs[0]), fmt.Sprintf("%d Header store(s) and %d RecordSet store(s); no call receives the view between them", len(hs), len(rs)))
			}
		}
	}
	c.Sites += pairs
}

func viewObjLabel(obj ssa.Value, label string) string {
	if label == "" || strings.HasPrefix(label, "t") && len(label) < 5 {
		if a, ok := obj.(*ssa.Alloc); ok && a.Comment != "" {
			return a.Comment
		}
		return "the view"
	}
	return label
}

// viewObjKey: the object a field address is taken of — the local cell for a variable, else the value itself
func viewObjKey(v ssa.Value) ssa.Value {
	if u, ok := v.(*ssa.UnOp); ok && u.Op == token.MUL {
		switch c := u.X.(type) {
		case *ssa.Alloc, *ssa.FreeVar:
			return c
		}
	}
	return v
}

// viewCallReceives: the call gets obj as receiver / argument, or a closure that captures it
func viewCallReceives(call ssa.CallInstruction, obj ssa.Value) bool {
	is := func(v ssa.Value) bool {
		for _, o := range core.Origins(v, false) {
			if o == obj || viewObjKey(o) == obj {
				return true
			}
		}
		return v == obj || viewObjKey(v) == obj
	}
	var closureHas func(v ssa.Value, depth int) bool
	closureHas = func(v ssa.Value, depth int) bool {
		if depth > 3 {
			return false
		}
		for _, o := range core.Origins(v, false) {
			mc, ok := o.(*ssa.MakeClosure)
			if !ok {
				continue
			}
			for _, b := range mc.Bindings {
				if b == obj || is(b) || closureHas(b, depth+1) {
					return true
				}
			}
		}
		return false
	}
	com := call.Common()
	if !com.IsInvoke() {
		if closureHas(com.Value, 0) {
			return true
		}
	} else if is(com.Value) {
		return true
	}
	for _, a := range com.Args {
		if is(a) || closureHas(a, 0) {
			return true
		}
	}
	return false
}

// viewOwnRows: v is the object's own RecordSet, resliced, appended to, or passed through a method of it (Merge)
func viewOwnRows(v ssa.Value, obj ssa.Value, field int, seen map[ssa.Value]bool) bool {
	if v == nil || seen[v] {
		return false
	}
	seen[v] = true
	switch x := v.(type) {
	case *ssa.UnOp:
		if x.Op == token.MUL {
			if fa, ok := x.X.(*ssa.FieldAddr); ok && fa.Field == field && viewObjKey(fa.X) == obj {
				return true
			}
		}
	case *ssa.Slice:
		return viewOwnRows(x.X, obj, field, seen)
	case *ssa.Phi:
		for _, e := range x.Edges {
			if !viewOwnRows(e, obj, field, seen) {
				return false
			}
		}
		return len(x.Edges) > 0
	case *ssa.Call:
		com := x.Common()
		if b, ok := com.Value.(*ssa.Builtin); ok && b.Name() == "append" {
			return viewOwnRows(com.Args[0], obj, field, seen)
		}
		if f := com.StaticCallee(); f != nil && f.Signature.Recv() != nil && len(com.Args) > 0 {
			return viewOwnRows(com.Args[0], obj, field, seen)
		}
	}
	return false
}

// viewLeafGetter: a leaf method that reads one side only (RecordLen: len(view.RecordSet)) cannot observe a
// disagreement between header and rows
func viewLeafGetter(call ssa.CallInstruction) bool {
	f := call.Common().StaticCallee()
	if f == nil || f.Blocks == nil {
		return false
	}
	fields := map[string]bool{}
	for _, b := range f.Blocks {
		for _, in := range b.Instrs {
			switch x := in.(type) {
			case ssa.CallInstruction:
				if _, ok := x.Common().Value.(*ssa.Builtin); !ok {
					return false
				}
			case *ssa.Store, *ssa.MapUpdate, *ssa.Send, *ssa.MakeClosure:
				return false
			case *ssa.FieldAddr:
				if st, ok := x.X.Type().Underlying().(*types.Pointer); ok {
					if s, ok := st.Elem().Underlying().(*types.Struct); ok {
						fields[s.Field(x.Field).Name()] = true
					}
				}
			case *ssa.Field:
				if s, ok := x.X.Type().Underlying().(*types.Struct); ok {
					fields[s.Field(x.Field).Name()] = true
				}
			}
		}
	}
	return !(fields["Header"] && fields["RecordSet"]) && len(fields) <= 1
}

// extendsOwn: v is append(<own>, …), or the result of a helper that is given <own> and returns append(<that
// parameter>, …) on every path
func extendsOwn(v ssa.Value, own func(ssa.Value) bool) bool {
	appendOf := func(v ssa.Value, base func(ssa.Value) bool) bool {
		ok := false
		for _, o := range core.Origins(v, false) {
			call, isCall := o.(*ssa.Call)
			if !isCall {
				return false
			}
			b, isB := call.Call.Value.(*ssa.Builtin)
			if !isB || b.Name() != "append" || !base(call.Call.Args[0]) {
				return false
			}
			ok = true
		}
		return ok
	}
	if appendOf(v, own) {
		return true
	}
	call, idx, ok := core.ExtractOf(v)
	if !ok {
		return false
	}
	g := call.Common().StaticCallee()
	if g == nil || g.Blocks == nil {
		return false
	}
	for i, a := range call.Common().Args {
		if !own(a) || i >= len(g.Params) {
			continue
		}
		param := g.Params[i]
		rets := core.Returns(g)
		all := len(rets) > 0
		for _, r := range rets {
			if idx >= len(r.Results) || !appendOf(r.Results[idx], func(x ssa.Value) bool { return x == ssa.Value(param) }) {
				all = false
			}
		}
		if all {
			return true
		}
	}
	return false
}
