package rules

import (
	"fmt"
	"go/token"
	"go/types"
	"sort"
	"strings"

	"golang.org/x/tools/go/ssa"

	"verif/checker/core"
)

// C20 — a loaded table is stable within a transaction (rules shared with C08:
// R-ISO-1/2/3/4 give "readers get copies, nobody writes the cached object").
//
//	R-CACHE-2  who may evict entries of Transaction.CachedViews
//	R-CACHE-3  publishers store under the key the readers use, and that key cannot change

func init() {
	Register(&Rule{ID: "R-CACHE-2", Props: []string{"C20", "C08", "C09"}, Floor: 3,
		Doc:      "entries of Transaction.CachedViews are removed (sync.Map Delete/LoadAndDelete/CompareAndDelete/Clear reached through a map value derived from that field, directly or via callees that delete from their map parameter) only by Transaction.ReleaseResources / ReleaseResourcesWithErrors and by the lock-upgrade arm of cacheViewFromFile, where every path from the eviction to a return either stores the reloaded view back (CachedViews.Set) or has branched on a non-nil error; the field itself is assigned only in the constructor",
		Controls: []string{"CtlEvictCached", "CtlEvictCachedViaHelper"},
		Run:      ruleCache2})
	Register(&Rule{ID: "R-CACHE-3", Props: []string{"C20", "C01"}, Floor: 7,
		Doc:      "every (ViewMap).Store call files the view under FileInfo.IdentifiedPath() of that same view (or re-files a Range entry under its own key), IdentifiedPath depends only on FileInfo.Path/ArchivePath, and none of the sanctioned writers of a shared FileInfo (R-ISO-1 b) nor any FileInfo method stores to the identity fields Path, ArchivePath or ViewType — so a statement's publication replaces exactly the entry its readers look up",
		Controls: []string{"CtlStoreUnderOtherKey"},
		Run:      ruleCache3})
}

func isMapCarrier(t types.Type) bool {
	if p, ok := t.(*types.Pointer); ok {
		t = p.Elem()
	}
	if isQueryNamed(t, "ViewMap", "SyncMap") {
		return true
	}
	if n, ok := t.(*types.Named); ok && n.Obj().Pkg() != nil && n.Obj().Pkg().Path() == "sync" && n.Obj().Name() == "Map" {
		return true
	}
	return false
}

// mapRoots walks a map-carrying value (ViewMap, SyncMap, *SyncMap, *sync.Map)
// back to where it comes from: parameters of fn (or of the enclosing function
// for captured variables) and/or the field Transaction.CachedViews.
type mapRoot struct {
	fn     *ssa.Function // function whose parameter it is
	param  int           // -1 if none
	cached bool          // derived from Transaction.CachedViews
}

func mapRoots(v ssa.Value) []mapRoot {
	var out []mapRoot
	seen := map[ssa.Value]bool{}
	var walk func(v ssa.Value)
	walk = func(v ssa.Value) {
		if v == nil || seen[v] {
			return
		}
		seen[v] = true
		switch x := v.(type) {
		case *ssa.Parameter:
			fn := x.Parent()
			for i, p := range fn.Params {
				if p == x {
					out = append(out, mapRoot{fn: fn, param: i})
				}
			}
		case *ssa.FieldAddr:
			if core.FieldOwner(x) == "lib/query.Transaction.CachedViews" {
				out = append(out, mapRoot{param: -1, cached: true})
				return
			}
			walk(x.X)
		case *ssa.Field:
			if core.FieldOwner(x) == "lib/query.Transaction.CachedViews" {
				out = append(out, mapRoot{param: -1, cached: true})
				return
			}
			walk(x.X)
		case *ssa.UnOp:
			if x.Op != token.MUL {
				return
			}
			switch c := x.X.(type) {
			case *ssa.Alloc, *ssa.FreeVar:
				root := rootCellOf(c)
				vals, _ := core.StoresTo(root)
				for _, s := range vals {
					walk(s)
				}
				if al, ok := root.(*ssa.Alloc); ok {
					// struct variable filled field by field
					for _, r := range *al.Referrers() {
						if fa, ok := r.(*ssa.FieldAddr); ok {
							for _, rr := range *fa.Referrers() {
								if st, ok := rr.(*ssa.Store); ok && st.Addr == fa {
									walk(st.Val)
								}
							}
						}
					}
				}
			default:
				walk(x.X)
			}
		case *ssa.Alloc, *ssa.FreeVar:
			root := rootCellOf(x)
			vals, _ := core.StoresTo(root)
			for _, s := range vals {
				walk(s)
			}
		case *ssa.Phi:
			for _, e := range x.Edges {
				walk(e)
			}
		case *ssa.ChangeType:
			walk(x.X)
		case *ssa.MakeInterface:
			walk(x.X)
		}
	}
	walk(v)
	return out
}

var syncMapDeleters = map[string]bool{
	"(*sync.Map).Delete": true, "(*sync.Map).LoadAndDelete": true, "(*sync.Map).CompareAndDelete": true, "(*sync.Map).Clear": true,
}

type evictInfo struct {
	params map[*ssa.Function]map[int]string // function → parameter index → how it deletes
}

// evictSummaries: which functions delete entries from a map they receive.
func evictSummaries(p *core.Prog) *evictInfo {
	ei := &evictInfo{params: map[*ssa.Function]map[int]string{}}
	mark := func(fn *ssa.Function, j int, how string) bool {
		if ei.params[fn] == nil {
			ei.params[fn] = map[int]string{}
		}
		if _, ok := ei.params[fn][j]; ok {
			return false
		}
		ei.params[fn][j] = how
		return true
	}
	for changed := true; changed; {
		changed = false
		for _, fn := range p.SrcFuncs() {
			for _, call := range core.Calls(fn) {
				for _, ev := range ei.evictingArgs(p, call) {
					for _, r := range mapRoots(ev.arg) {
						if r.param >= 0 && mark(r.fn, r.param, ev.how) {
							changed = true
						}
					}
				}
			}
		}
	}
	return ei
}

type evictArg struct {
	arg ssa.Value
	how string
}

// evictingArgs: the map-valued arguments of a call through which entries are deleted.
func (ei *evictInfo) evictingArgs(p *core.Prog, call ssa.CallInstruction) []evictArg {
	var out []evictArg
	com := call.Common()
	name := p.CalleeName(call)
	if syncMapDeleters[name] && len(com.Args) > 0 {
		return []evictArg{{com.Args[0], name}}
	}
	for _, f := range p.Callees(call) {
		m := ei.params[f]
		if m == nil {
			continue
		}
		off := 0
		if com.IsInvoke() {
			off = 1
		}
		for j, how := range m {
			var arg ssa.Value
			if com.IsInvoke() && j == 0 {
				arg = com.Value
			} else if j-off >= 0 && j-off < len(com.Args) {
				arg = com.Args[j-off]
			}
			if arg != nil && isMapCarrier(arg.Type()) {
				h := p.FnRef(f)
				if !strings.Contains(how, "(*sync.Map)") {
					h += " → …"
				}
				out = append(out, evictArg{arg, h})
			}
		}
	}
	return out
}

var cache2Allowed = map[string]string{
	"lib/query.(*Transaction).ReleaseResources":           "end of the transaction (COMMIT / ROLLBACK / exit)",
	"lib/query.(*Transaction).ReleaseResourcesWithErrors": "forced release at shutdown",
}

func ruleCache2(c *Ctx) {
	p := c.P
	ei := evictSummaries(p)
	for _, n := range []string{"lib/query.(*Transaction).ReleaseResources", "lib/query.(*Transaction).ReleaseResourcesWithErrors", "lib/query.cacheViewFromFile"} {
		c.Fn(n)
	}
	seenKey := map[string]int{}
	for _, fn := range p.SrcFuncs() {
		for _, call := range core.Calls(fn) {
			for _, ev := range ei.evictingArgs(p, call) {
				cached := false
				for _, r := range mapRoots(ev.arg) {
					if r.cached {
						cached = true
					}
				}
				if !cached {
					continue
				}
				c.Touch(fn)
				c.Sites++
				key := c.KeyAt(fn, "evicts from Transaction.CachedViews via "+callDesc(p, call))
				seenKey[key]++
				if seenKey[key] > 1 {
					key = fmt.Sprintf("%s #%d", key, seenKey[key])
				}
				in := call.(ssa.Instruction)
				name := p.Name(fn)
				if why, ok := cache2Allowed[name]; ok {
					c.Ok(key, c.Pos(in), "allowed evictor: "+why)
					continue
				}
				if exceptionOwner(p, fn, []string{"lib/query.cacheViewFromFile"}) != "" {
					if bad := evictWithoutRepublish(c, in); bad != "" {
						c.Bad(key, c.Pos(in), "lock-upgrade arm: "+bad+" — the table would silently drop out of the cache and be re-read from the file, losing the transaction's uncommitted changes")
					} else {
						c.Ok(key, c.Pos(in), "lock-upgrade arm: every path from the eviction to a return passes CachedViews.Set or has branched on a non-nil error")
					}
					continue
				}
				c.Bad(key, c.Pos(in), "a loaded table is evicted outside ReleaseResources*/the upgrade arm of cacheViewFromFile ("+ev.how+"): the next access re-reads the file, so uncommitted changes of this transaction vanish and later reads may differ from earlier ones")
			}
		}
		// the field itself
		for _, b := range fn.Blocks {
			for _, in := range b.Instrs {
				st, ok := in.(*ssa.Store)
				if !ok {
					continue
				}
				fa, ok := st.Addr.(*ssa.FieldAddr)
				if !ok || core.FieldOwner(fa) != "lib/query.Transaction.CachedViews" {
					continue
				}
				c.Touch(fn)
				key := c.KeyAt(fn, "assigns Transaction.CachedViews")
				_, fresh := fa.X.(*ssa.Alloc)
				c.Check(fresh, key, c.Pos(in), "constructor: the Transaction object is allocated in this function",
					"the whole cache of a live transaction is replaced: every loaded table is dropped")
			}
		}
	}
}

// evictWithoutRepublish searches a path from the evicting call to a return that
// neither stores into Transaction.CachedViews nor takes an edge on which an
// error value is known to be non-nil. Returns a description of such a path's
// end, or "".
func evictWithoutRepublish(c *Ctx, from ssa.Instruction) string {
	p := c.P
	isRepublish := func(in ssa.Instruction) bool {
		call, ok := in.(ssa.CallInstruction)
		if !ok {
			return false
		}
		n := p.CalleeName(call)
		if n != "lib/query.(ViewMap).Set" && n != "lib/query.(ViewMap).Store" {
			return false
		}
		for _, r := range mapRoots(call.Common().Args[0]) {
			if r.cached {
				return true
			}
		}
		return false
	}
	type state struct {
		b      *ssa.BasicBlock
		failed bool
	}
	seen := map[state]bool{}
	bad := ""
	var walk func(b *ssa.BasicBlock, start int, failed bool)
	walk = func(b *ssa.BasicBlock, start int, failed bool) {
		if bad != "" {
			return
		}
		for i := start; i < len(b.Instrs); i++ {
			in := b.Instrs[i]
			if isRepublish(in) {
				return
			}
			if r, ok := in.(*ssa.Return); ok {
				if !failed {
					bad = "the return at " + c.Pos(r) + " is reachable without re-publication and without any failed step"
				}
				return
			}
		}
		for _, s := range b.Succs {
			f := failed
			if iff, ok := blockTerm(b).(*ssa.If); ok && len(b.Succs) == 2 && b.Succs[0] != b.Succs[1] {
				if x, neq, ok := core.NilCmp(iff.Cond); ok && core.IsErrorType(x.Type()) {
					// true edge of `x != nil`, false edge of `x == nil`
					if (neq && s == b.Succs[0]) || (!neq && s == b.Succs[1]) {
						f = true
					}
				}
			}
			st := state{s, f}
			if !seen[st] {
				seen[st] = true
				walk(s, 0, f)
			}
		}
	}
	walk(from.Block(), core.InstrIndex(from)+1, false)
	return bad
}

// ---------------------------------------------------------------------------
// R-CACHE-3

func ruleCache3(c *Ctx) {
	p := c.P
	// (a) key discipline of (ViewMap).Store
	for _, fn := range p.SrcFuncs() {
		n := 0
		for _, call := range p.CallsNamed(fn, "lib/query.(ViewMap).Store") {
			n++
			c.Touch(fn)
			c.Sites++
			key := c.KeyAt(fn, fmt.Sprintf("ViewMap.Store #%d", n))
			args := call.Common().Args
			if len(args) != 3 {
				c.Unknown(key, c.Pos(call), "unexpected argument list")
				continue
			}
			kArg, vArg := args[1], args[2]
			ok, why := storeKeyMatches(p, kArg, vArg)
			c.Check(ok, key, c.Pos(call), why, "the view is filed under a key that is not IdentifiedPath() of its own FileInfo ("+why+"): Get/Load look it up under IdentifiedPath, so readers keep seeing the old entry while COMMIT may write another")
		}
	}
	// (b) IdentifiedPath depends only on Path / ArchivePath
	if ip := c.Fn("lib/query.(*FileInfo).IdentifiedPath"); ip != nil {
		var other []string
		for _, b := range ip.Blocks {
			for _, in := range b.Instrs {
				if fa, ok := in.(*ssa.FieldAddr); ok && isFileInfoPtr(fa.X.Type()) {
					if f := core.FieldName(fa); f != "Path" && f != "ArchivePath" {
						other = append(other, f)
					}
				}
			}
		}
		c.Check(len(other) == 0, c.P.Name(ip)+": inputs", c.FnPos(ip), "reads only FileInfo.Path and FileInfo.ArchivePath",
			"the cache key also depends on "+strings.Join(dedup(other), ", ")+", which sanctioned writers may change after the table was cached")
	}
	// (c) identity fields are never written by the writers R-ISO-1 lets through on a shared FileInfo
	identity := []string{"Path", "ArchivePath", "ViewType"}
	for name := range iso1FileInfoWriters {
		c.Fn(name)
	}
	fe := fiEngineFor(p)
	per := map[*ssa.Function][]string{}
	seenFn := map[*ssa.Function]bool{}
	var order []*ssa.Function
	for _, r := range fe.roots() {
		if _, sanctioned := iso1FileInfoWriters[p.Name(r.fn)]; !sanctioned || len(r.bad) == 0 {
			continue // private target: nothing shared can change
		}
		if !seenFn[r.fn] {
			seenFn[r.fn] = true
			order = append(order, r.fn)
		}
		for _, f := range identity {
			if r.fields[f] {
				per[r.fn] = append(per[r.fn], fmt.Sprintf("%s (%s, %s)", f, r.detail, c.Pos(r.in)))
			}
		}
	}
	sortFuncs(p, order)
	for _, fn := range order {
		hit := per[fn]
		sort.Strings(hit)
		c.Touch(fn)
		c.Check(len(hit) == 0, c.KeyAt(fn, "shared FileInfo keeps Path/ArchivePath/ViewType"), c.FnPos(fn),
			"none of its writes to a possibly shared FileInfo (direct or through callees) touches an identity field",
			"writes "+strings.Join(dedup(hit), "; ")+" of a FileInfo that may belong to a cached table: its cache key / updatability changes while it is cached")
	}
}

// storeKeyMatches: key = X.FileInfo.IdentifiedPath() with X the stored view, or
// (key, value) are the two parameters of a Range callback.
func storeKeyMatches(p *core.Prog, key, val ssa.Value) (bool, string) {
	vals := map[ssa.Value]bool{}
	for _, o := range core.Origins(val, false) {
		vals[o] = true
	}
	vals[val] = true
	allOK := true
	why := ""
	for _, ko := range core.Origins(key, false) {
		switch x := ko.(type) {
		case *ssa.Call:
			if p.CalleeName(x) == "lib/query.(*FileInfo).IdentifiedPath" && len(x.Common().Args) == 1 {
				if ld, ok := x.Common().Args[0].(*ssa.UnOp); ok && ld.Op == token.MUL {
					if fa, ok := ld.X.(*ssa.FieldAddr); ok && isViewFileInfoField(fa.X, fa.Field) {
						same := vals[fa.X]
						for _, o := range core.Origins(fa.X, false) {
							if vals[o] {
								same = true
							}
						}
						if same {
							why = "key is IdentifiedPath() of the stored view's own FileInfo"
							continue
						}
					}
				}
				allOK = false
				why = "key is IdentifiedPath() of a different object than the stored view"
				continue
			}
			allOK = false
			why = "key comes from " + callDesc(p, x)
		case *ssa.Parameter:
			// Range callback: func(key, value interface{}) bool, value stored is parameter 1
			fn := x.Parent()
			isCb := fn.Parent() != nil && len(fn.Params) == 2 && fn.Params[0] == x
			valIsP1 := false
			for o := range vals {
				if o == ssa.Value(fn.Params[len(fn.Params)-1]) {
					valIsP1 = true
				}
			}
			if isCb && valIsP1 {
				why = "entry of another view container re-filed under its own key"
				continue
			}
			allOK = false
			why = "key is parameter " + x.Name()
		default:
			allOK = false
			why = "key is " + valueLabel(ko)
		}
	}
	return allOK && why != "", why
}
