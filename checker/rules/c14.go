package rules

import (
	"fmt"
	"go/token"
	"go/types"
	"sort"
	"strings"

	"golang.org/x/tools/go/ssa"

	"verif/checker/core"
)

// C14 — evaluation never changes what it only reads.
//
//	R-POOL-1  exported conversions of lib/value return fresh objects
//	R-POOL-2  value.Discard receives only unescaped fresh temporaries; no use after
//	R-POOL-3  pooled value fields are written only by their constructors; singletons stay singletons
//	R-AST-1   the syntax tree is read-only for evaluation

func init() {
	Register(&Rule{ID: "R-POOL-1", Props: []string{"C14", "C06"}, Floor: 6,
		Doc:      "every return of the exported func(Primary,…) Primary conversions of lib/value is a pool-constructor result or a non-pooled singleton, never the parameter",
		Controls: []string{"CtlConvReturnsParam"},
		Run:      rulePool1})
	Register(&Rule{ID: "R-POOL-2", Props: []string{"C14", "C08", "C16", "C07", "C20", "C05", "C06"}, Floor: 100,
		Doc:      "each value.Discard argument originates from fresh-returning calls of the same function, has not escaped on a path that reaches the Discard, and is not used after it",
		Controls: []string{"CtlDiscardParam", "CtlDiscardEscaped", "CtlUseAfterDiscard", "CtlDeferredDoubleDiscard"},
		Run:      rulePool2})
	Register(&Rule{ID: "R-POOL-3", Props: []string{"C14"}, Floor: 4,
		Doc:      "fields of the pooled value types are stored only by their pool constructors; Null/Boolean/Ternary objects are allocated only as the package singletons (identity tests such as IsNull stay valid)",
		Controls: []string{"CtlNewNullObject"},
		Run:      rulePool3})
	Register(&Rule{ID: "R-AST-1", Props: []string{"C14", "C17"}, Floor: 1,
		Doc:      "no store through, append to or copy into a slice loaded from a lib/parser syntax-tree node (directly or via a callee that writes its slice parameter); no store through *parser.BaseExpr and no ClearBaseExpr outside lib/parser",
		Controls: []string{"CtlStoreAstSlice", "CtlStoreAstSliceViaCallee", "CtlAppendAstSlice"},
		Run:      ruleAst1})
}

const valuePkg = core.ModPath + "/lib/value"

func isValueNamed(t types.Type, names ...string) bool {
	if p, ok := t.(*types.Pointer); ok {
		t = p.Elem()
	}
	n, ok := t.(*types.Named)
	if !ok || n.Obj().Pkg() == nil || n.Obj().Pkg().Path() != valuePkg {
		return false
	}
	for _, x := range names {
		if n.Obj().Name() == x {
			return true
		}
	}
	return false
}

func isPrimaryLike(t types.Type) bool {
	return isValueNamed(t, "Primary", "String", "Integer", "Float", "Datetime", "Null", "Boolean", "Ternary")
}

// freshness ---------------------------------------------------------------

type freshInfo struct {
	p       *core.Prog
	getters map[*ssa.Function]bool // functions returning (*sync.Pool).Get results
	fresh   map[*ssa.Function]bool // result 0 is always fresh / singleton / nil
	freshAt map[freshSlot]bool     // the same for a later result of value type (a helper returning (x, temporary, err))
	why     map[*ssa.Function]string
}

type freshSlot struct {
	fn  *ssa.Function
	idx int
}

var freshCache = map[*core.Prog]*freshInfo{}

func isPoolGet(p *core.Prog, c *ssa.Call) bool {
	return p.CalleeName(c) == "(*sync.Pool).Get"
}

// leafFresh classifies one origin of a returned / discarded value.
func (fi *freshInfo) leafFresh(o ssa.Value) (bool, string) {
	if core.IsNilConst(o) {
		return true, "nil"
	}
	if isValueNamed(o.Type(), "Null", "Boolean", "Ternary") {
		return true, "non-pooled type " + o.Type().String()
	}
	switch x := o.(type) {
	case *ssa.Call:
		if isPoolGet(fi.p, x) {
			return true, "sync.Pool.Get"
		}
		if f := core.StaticCallee(x); f != nil && fi.fresh[f] {
			return true, "fresh call " + fi.p.FnRef(f)
		}
		return false, "call of " + callDesc(fi.p, x) + " (not fresh-returning)"
	case *ssa.Extract:
		if c, ok := x.Tuple.(*ssa.Call); ok {
			if f := core.StaticCallee(c); f != nil && (x.Index == 0 && fi.fresh[f] || x.Index > 0 && fi.freshAt[freshSlot{f, x.Index}]) {
				return true, "fresh call " + fi.p.FnRef(f)
			}
		}
		return false, "tuple element"
	case *ssa.UnOp:
		if g, ok := x.X.(*ssa.Global); ok && x.Op == token.MUL {
			if isValueNamed(g.Type().(*types.Pointer).Elem(), "Null", "Boolean", "Ternary") {
				return true, "singleton " + g.Name()
			}
		}
		return false, "load of " + x.X.Name()
	case *ssa.Parameter:
		return false, "parameter " + x.Name()
	}
	return false, fmt.Sprintf("%T %s", o, o.Name())
}

func callDesc(p *core.Prog, c ssa.CallInstruction) string {
	if n := p.CalleeName(c); n != "" {
		return n
	}
	return "dynamic callee " + c.Common().Value.Name()
}

func freshness(p *core.Prog) *freshInfo {
	if fi, ok := freshCache[p]; ok {
		return fi
	}
	fi := &freshInfo{p: p, getters: map[*ssa.Function]bool{}, fresh: map[*ssa.Function]bool{}, freshAt: map[freshSlot]bool{}, why: map[*ssa.Function]string{}}
	// candidates: csvq functions whose first result is a value type
	var cands []*ssa.Function
	var later []freshSlot
	for _, fn := range p.SrcFuncs() {
		res := fn.Signature.Results()
		for i := 1; i < res.Len(); i++ {
			if isPrimaryLike(res.At(i).Type()) {
				later = append(later, freshSlot{fn, i})
				fi.freshAt[freshSlot{fn, i}] = true
			}
		}
		if res.Len() == 0 || !isPrimaryLike(res.At(0).Type()) {
			continue
		}
		cands = append(cands, fn)
		fi.fresh[fn] = true
	}
	for changed := true; changed; {
		changed = false
		for _, fn := range cands {
			if !fi.fresh[fn] {
				continue
			}
			for _, o := range core.ReturnedValues(fn, 0) {
				if ok, why := fi.leafFresh(o); !ok {
					fi.fresh[fn] = false
					fi.why[fn] = why
					changed = true
					break
				}
			}
		}
		for _, sl := range later {
			if !fi.freshAt[sl] {
				continue
			}
			for _, o := range core.ReturnedValues(sl.fn, sl.idx) {
				if ok, _ := fi.leafFresh(o); !ok {
					fi.freshAt[sl] = false
					changed = true
					break
				}
			}
		}
	}
	freshCache[p] = fi
	return fi
}

func rulePool1(c *Ctx) {
	fi := freshness(c.P)
	for _, fn := range c.P.FuncsIn(true, "lib/value") {
		if fn.Parent() != nil || fn.Signature.Recv() != nil {
			continue
		}
		if !c.P.IsControl(fn) && (fn.Object() == nil || !fn.Object().Exported()) {
			continue
		}
		sig := fn.Signature
		if sig.Params().Len() < 1 || sig.Results().Len() != 1 {
			continue
		}
		if !isValueNamed(sig.Params().At(0).Type(), "Primary") || !isValueNamed(sig.Results().At(0).Type(), "Primary") {
			continue
		}
		c.Touch(fn)
		key := c.P.Name(fn)
		if fi.fresh[fn] {
			c.Ok(key, c.FnPos(fn), "every return is a pool-constructor result or a singleton")
		} else {
			c.Bad(key, c.FnPos(fn), "conversion may return a value that is not fresh: "+fi.why[fn]+" — a caller that Discards the result would recycle an object somebody else still references")
		}
	}
}

// aliasesOf collects v and every value derived from it by value-preserving
// instructions (Phi, interface conversions, type assertions, local cells).
func aliasesOf(v ssa.Value) map[ssa.Value]bool {
	out := map[ssa.Value]bool{}
	var walk func(x ssa.Value)
	walk = func(x ssa.Value) {
		if out[x] {
			return
		}
		out[x] = true
		refs := x.Referrers()
		if refs == nil {
			return
		}
		for _, r := range *refs {
			switch y := r.(type) {
			case *ssa.Phi:
				walk(y)
			case *ssa.ChangeInterface:
				walk(y)
			case *ssa.MakeInterface:
				walk(y)
			case *ssa.ChangeType:
				walk(y)
			case *ssa.TypeAssert:
				if !y.CommaOk {
					walk(y)
				} else {
					for _, rr := range *y.Referrers() {
						if e, ok := rr.(*ssa.Extract); ok && e.Index == 0 {
							walk(e)
						}
					}
				}
			case *ssa.Store:
				// stored into a local cell: loads of that cell are aliases
				if y.Val == x {
					if a, ok := y.Addr.(*ssa.Alloc); ok && !a.Heap {
						for _, rr := range *a.Referrers() {
							if u, ok := rr.(*ssa.UnOp); ok && u.Op == token.MUL {
								walk(u)
							}
						}
					}
				}
			}
		}
	}
	walk(v)
	return out
}

// pure readers of a value.Primary argument (do not retain it)
func isValueReader(p *core.Prog, c ssa.CallInstruction) bool {
	com := c.Common()
	if com.IsInvoke() {
		return isValueNamed(com.Value.Type(), "Primary")
	}
	name := p.CalleeName(c)
	if name == "lib/value.Discard" {
		return true
	}
	// every function of lib/value reads its Primary arguments (conversions,
	// comparisons, IsNull …): confirmed by R-POOL-1 (fresh results) and by
	// retains() below for the others
	if f := core.StaticCallee(c); f != nil {
		if p.InPkg(f, "lib/value") {
			return !retainsAnyPrimary(p, f)
		}
		return !retainsAnyPrimary(p, f)
	}
	if strings.HasPrefix(name, "fmt.") || strings.HasPrefix(name, "builtin:") {
		return true
	}
	return false
}

var retainMemo = map[*ssa.Function]int{} // 0 unknown, 1 computing, 2 no, 3 yes

// retainsAnyPrimary: may fn store, return or pass on one of its value-typed
// parameters (or a receiver of value type)? Conservative summary.
func retainsAnyPrimary(p *core.Prog, fn *ssa.Function) bool {
	switch retainMemo[fn] {
	case 1, 2:
		return false // optimistic on recursion
	case 3:
		return true
	}
	if fn.Blocks == nil {
		retainMemo[fn] = 3
		return true
	}
	retainMemo[fn] = 1
	res := false
	for _, prm := range fn.Params {
		if !isPrimaryLike(prm.Type()) {
			continue
		}
		for a := range aliasesOf(prm) {
			if valueEscapes(p, a, nil) != nil {
				res = true
			}
		}
	}
	if res {
		retainMemo[fn] = 3
	} else {
		retainMemo[fn] = 2
	}
	return res
}

// valueEscapes returns the first instruction through which alias a escapes
// (heap store, return, closure capture, retaining callee, channel send, put
// into a composite), ignoring `except`.
func valueEscapes(p *core.Prog, a ssa.Value, except ssa.Instruction) ssa.Instruction {
	refs := a.Referrers()
	if refs == nil {
		return nil
	}
	for _, r := range *refs {
		if r == except {
			continue
		}
		switch y := r.(type) {
		case *ssa.Store:
			if y.Val == a {
				if al, ok := y.Addr.(*ssa.Alloc); ok && !al.Heap {
					continue // local cell, followed as alias
				}
				return y
			}
		case *ssa.Return:
			return y
		case *ssa.MakeClosure:
			return y
		case *ssa.Send:
			return y
		case *ssa.MapUpdate:
			return y
		case ssa.CallInstruction:
			if y.Common().Value == a && !y.Common().IsInvoke() {
				continue
			}
			isArg := false
			for _, arg := range y.Common().Args {
				if arg == a {
					isArg = true
				}
			}
			if !isArg {
				continue // receiver of an interface method call
			}
			if !isValueReader(p, y) {
				return y
			}
		case *ssa.Phi, *ssa.ChangeInterface, *ssa.MakeInterface, *ssa.ChangeType, *ssa.TypeAssert,
			*ssa.BinOp, *ssa.UnOp, *ssa.DebugRef, *ssa.Field, *ssa.FieldAddr, *ssa.Extract, *ssa.If:
		default:
			return r
		}
	}
	return nil
}

func rulePool2(c *Ctx) {
	fi := freshness(c.P)
	for _, fn := range c.P.SrcFuncs() {
		if c.P.InPkg(fn, "lib/value") && c.P.Name(fn) == "lib/value.Discard" {
			continue
		}
		n := 0
		for _, call := range core.Calls(fn) {
			if c.P.CalleeName(call) != "lib/value.Discard" {
				continue
			}
			n++
			c.Sites++
			c.Touch(fn)
			arg := call.Common().Args[0]
			key := c.KeyAt(fn, fmt.Sprintf("Discard #%d of %s", n, describeValue(c.P, arg)))
			pos := c.Pos(call)
			origins := discardOrigins(arg)
			var bad []string
			var good []string
			for _, o := range origins {
				if ok, why := fi.leafFresh(o); ok {
					good = append(good, why)
				} else {
					bad = append(bad, why)
				}
			}
			if len(bad) > 0 {
				sort.Strings(bad)
				c.Bad(key, pos, "Discard of a value that is not a temporary of this function: origin "+strings.Join(bad, "; ")+" — the object goes back to the pool while its owner still references it")
				continue
			}
			// escapes from which the Discard is reachable; uses after the Discard
			problem := ""
			for _, o := range origins {
				if core.IsNilConst(o) {
					continue
				}
				def, _ := o.(ssa.Instruction)
				for a := range aliasesOf(o) {
					if esc := valueEscapes(c.P, a, call); esc != nil {
						if esc == ssa.Instruction(call) {
							continue
						}
						if _, isDefer := call.(*ssa.Defer); isDefer || esc.Block() == call.Block() && core.InstrIndex(esc) < core.InstrIndex(call) || core.Reachable(esc, call, nil) {
							problem = fmt.Sprintf("the temporary escapes at %s (%s) and is discarded afterwards", c.Pos(esc), instrDesc(c.P, esc))
						}
					}
					if _, isDefer := call.(*ssa.Defer); isDefer {
						// the deferred release runs at the exit: an explicit release registered or executed
						// after the defer statement releases the same object a second time
						for _, r := range *a.Referrers() {
							rc, ok := r.(ssa.CallInstruction)
							if !ok || r == ssa.Instruction(call) || c.P.CalleeName(rc) != "lib/value.Discard" {
								continue
							}
							if core.Reachable(call, r, func(in ssa.Instruction) bool { return in == def }) {
								problem = fmt.Sprintf("double Discard: released at %s and again by this deferred call when the function returns", c.Pos(r))
							}
						}
						continue
					}
					for _, r := range *a.Referrers() {
						if r == ssa.Instruction(call) {
							continue
						}
						if _, ok := r.(*ssa.DebugRef); ok {
							continue
						}
						if rc, ok := r.(ssa.CallInstruction); ok && c.P.CalleeName(rc) == "lib/value.Discard" {
							// a second Discard of the same object on the same path = double release
							if core.Reachable(call, r, func(in ssa.Instruction) bool { return in == def }) {
								problem = fmt.Sprintf("double Discard: released again at %s", c.Pos(r))
							}
							continue
						}
						if _, ok := r.(*ssa.Phi); ok {
							continue // merging is not a use; its own uses are checked as aliases
						}
						if core.Reachable(call, r, func(in ssa.Instruction) bool { return in == def }) {
							problem = fmt.Sprintf("use after Discard at %s (%s)", c.Pos(r), instrDesc(c.P, r))
						}
					}
				}
			}
			if problem != "" {
				c.Bad(key, pos, problem)
			} else {
				c.Ok(key, pos, "origins: "+strings.Join(dedup(good), ", ")+"; no escape before and no use after the release")
			}
		}
	}
}

// discardOrigins follows the "slice of temporaries released later" idiom:
// Discard(args[i]) where args is a local slice whose every element store has
// its own origins.
func discardOrigins(arg ssa.Value) []ssa.Value {
	var out []ssa.Value
	for _, o := range core.Origins(arg, false) {
		if u, ok := o.(*ssa.UnOp); ok && u.Op == token.MUL {
			if ia, ok := u.X.(*ssa.IndexAddr); ok {
				if elems, ok := localSliceElems(ia.X); ok {
					for _, e := range elems {
						out = append(out, core.Origins(e, false)...)
					}
					continue
				}
			}
		}
		// range over a local slice: Extract(Next) is not produced for slices; loads above cover it
		out = append(out, o)
	}
	return out
}

// localSliceElems: slice made in this function (MakeSlice / Alloc'd array) and
// every value stored into its elements.
func localSliceElems(s ssa.Value) ([]ssa.Value, bool) {
	var base ssa.Value
	for _, o := range core.Origins(s, true) {
		switch o.(type) {
		case *ssa.MakeSlice, *ssa.Alloc:
			if base != nil && base != o {
				return nil, false
			}
			base = o
		default:
			return nil, false
		}
	}
	if base == nil {
		return nil, false
	}
	var elems []ssa.Value
	ok := true
	seen := map[ssa.Value]bool{}
	var scan func(v ssa.Value)
	scan = func(v ssa.Value) {
		if seen[v] {
			return
		}
		seen[v] = true
		if v.Referrers() == nil {
			return
		}
		for _, r := range *v.Referrers() {
			switch y := r.(type) {
			case *ssa.IndexAddr:
				for _, rr := range *y.Referrers() {
					if st, isSt := rr.(*ssa.Store); isSt && st.Addr == y {
						elems = append(elems, st.Val)
					}
				}
			case *ssa.Slice, *ssa.Phi, *ssa.ChangeType:
				scan(y.(ssa.Value))
			case *ssa.Store:
				if y.Val == v {
					if a, isA := y.Addr.(*ssa.Alloc); isA {
						for _, rr := range *a.Referrers() {
							if u, isU := rr.(*ssa.UnOp); isU {
								scan(u)
							}
							if mc, isMC := rr.(*ssa.MakeClosure); isMC {
								// captured by a (deferred) closure: stores there are not element stores we track
								_ = mc
							}
						}
					} else {
						ok = false
					}
				}
			case ssa.CallInstruction:
				// append(args, x): element x
				if b, isB := y.Common().Value.(*ssa.Builtin); isB && b.Name() == "append" && y.Common().Args[0] == v {
					if len(y.Common().Args) == 2 {
						if sl, isSl := y.Common().Args[1].(*ssa.Slice); isSl {
							if es, ok2 := localSliceElems(sl); ok2 {
								elems = append(elems, es...)
							}
						}
					}
					if cv, isV := y.(ssa.Value); isV {
						scan(cv)
					}
				}
			}
		}
	}
	scan(base)
	return elems, ok && len(elems) > 0
}

func dedup(xs []string) []string {
	m := map[string]bool{}
	var out []string
	for _, x := range xs {
		if !m[x] {
			m[x] = true
			out = append(out, x)
		}
	}
	sort.Strings(out)
	return out
}

func describeValue(p *core.Prog, v ssa.Value) string {
	os := core.Origins(v, false)
	var parts []string
	for _, o := range os {
		switch x := o.(type) {
		case *ssa.Call:
			parts = append(parts, callDesc(p, x)+"()")
		case *ssa.Parameter:
			parts = append(parts, "param "+x.Name())
		case *ssa.Const:
			parts = append(parts, "nil")
		default:
			parts = append(parts, strings.TrimPrefix(fmt.Sprintf("%T", o), "*ssa."))
		}
	}
	return strings.Join(dedup(parts), "|")
}

func instrDesc(p *core.Prog, in ssa.Instruction) string {
	switch x := in.(type) {
	case ssa.CallInstruction:
		return "call " + callDesc(p, x)
	case *ssa.Store:
		return "store to " + addrDesc(x.Addr)
	case *ssa.Return:
		return "return"
	}
	return strings.TrimPrefix(fmt.Sprintf("%T", in), "*ssa.")
}

func addrDesc(a ssa.Value) string {
	switch x := a.(type) {
	case *ssa.FieldAddr:
		return core.FieldOwner(x)
	case *ssa.IndexAddr:
		return "element of " + x.X.Name()
	case *ssa.Global:
		return "global " + x.Name()
	}
	return a.Name()
}

func rulePool3(c *Ctx) {
	// who may store to fields of the pooled types
	for _, fn := range c.P.SrcFuncs() {
		for _, b := range fn.Blocks {
			for _, in := range b.Instrs {
				switch x := in.(type) {
				case *ssa.Store:
					fa, ok := x.Addr.(*ssa.FieldAddr)
					if !ok || !isValueNamed(fa.X.Type(), "String", "Integer", "Float", "Datetime") {
						continue
					}
					c.Touch(fn)
					key := c.KeyAt(fn, "store to "+core.FieldOwner(fa))
					// the function must play the constructor role for the written object: it takes the
					// object out of its pool (or allocates it) itself and hands it out
					why, okOrigin := constructsObject(c.P, fn, fa.X)
					c.Check(okOrigin, key, c.Pos(in), "written object was just taken from its pool (constructor): "+why,
						"a field of a pooled value is overwritten outside its pool constructor ("+why+"): every holder of that object sees the change")
				case *ssa.Alloc:
					if !x.Heap || !isValueNamed(x.Type().(*types.Pointer).Elem(), "Null", "Boolean", "Ternary") {
						continue
					}
					if fn.Name() == "init" && fn.Parent() == nil && c.P.InPkg(fn, "lib/value") {
						c.Ok(c.KeyAt(fn, "singleton "+x.Type().String()), c.Pos(in), "package-level singleton")
						continue
					}
					c.Touch(fn)
					c.Bad(c.KeyAt(fn, "allocation of "+x.Type().String()), c.Pos(in),
						"a second Null/Boolean/Ternary object breaks the identity tests (IsNull, IsTrue …) evaluation relies on")
				}
			}
		}
	}
}

// objectOrigins expands a pointer to a pooled object to the values it may be:
// core.Origins plus the value half of a comma-ok type assertion
// (`p, ok := pool.Get().(*T)`).
func objectOrigins(v ssa.Value) []ssa.Value {
	var out []ssa.Value
	seen := map[ssa.Value]bool{}
	var walk func(v ssa.Value)
	walk = func(v ssa.Value) {
		for _, o := range core.Origins(v, false) {
			if seen[o] {
				continue
			}
			seen[o] = true
			if e, ok := o.(*ssa.Extract); ok && e.Index == 0 {
				if ta, ok := e.Tuple.(*ssa.TypeAssert); ok && ta.CommaOk {
					walk(ta.X)
					continue
				}
			}
			out = append(out, o)
		}
	}
	walk(v)
	return out
}

// constructsObject decides whether fn is, by role, the pool constructor of the
// object obj points to: every origin of obj is taken out of a sync.Pool or
// freshly allocated by fn itself (directly, through a helper that does nothing
// but take an object out / allocate it, or through a callee that returns only
// fresh objects), and fn hands that object out as a result. A frame-local copy of a struct value (value receiver, `v := *p`)
// is private memory and may be written by anyone.
func constructsObject(p *core.Prog, fn *ssa.Function, obj ssa.Value) (string, bool) {
	var taken []ssa.Value
	var whys []string
	for _, o := range objectOrigins(obj) {
		switch x := o.(type) {
		case *ssa.Alloc:
			if !x.Heap {
				whys = append(whys, "frame-local copy")
				continue
			}
			whys = append(whys, "fresh allocation")
			taken = append(taken, o)
		case *ssa.Call:
			if isPoolGet(p, x) {
				whys = append(whys, "sync.Pool.Get")
				taken = append(taken, o)
				continue
			}
			if f := core.StaticCallee(x); f != nil {
				if takesOutOnly(p, f, map[*ssa.Function]bool{}) {
					whys = append(whys, "take-out helper "+p.FnRef(f))
					taken = append(taken, o)
					continue
				}
				// a callee whose every return is fresh (R-POOL-1's fixpoint: pool objects nobody else
				// holds yet): finishing such an object before handing it out is still construction
				if freshness(p).fresh[f] {
					whys = append(whys, "fresh result of "+p.FnRef(f))
					taken = append(taken, o)
					continue
				}
			}
			return "the object is the result of " + callDesc(p, x) + ", which neither takes it out of a pool nor returns only fresh objects", false
		case *ssa.Parameter:
			return "the object is parameter " + x.Name(), false
		default:
			return fmt.Sprintf("the object is %s, not taken from a pool or allocated here", describeOrigin(o)), false
		}
	}
	if len(whys) == 0 {
		return "no origin", false
	}
	// handed out: each taken object is among the values fn returns
	returned := map[ssa.Value]bool{}
	for i := 0; i < fn.Signature.Results().Len(); i++ {
		for _, r := range core.Returns(fn) {
			if i < len(r.Results) {
				for _, o := range objectOrigins(r.Results[i]) {
					returned[o] = true
				}
			}
		}
	}
	for _, o := range taken {
		if !returned[o] {
			return "the object is taken out (" + strings.Join(dedup(whys), ", ") + ") but not returned by this function", false
		}
	}
	return strings.Join(dedup(whys), ", ") + "; returned to the caller", true
}

func describeOrigin(o ssa.Value) string {
	switch x := o.(type) {
	case *ssa.UnOp:
		return "a load of " + addrDesc(x.X)
	case *ssa.Extract:
		return "a tuple element"
	}
	return strings.TrimPrefix(fmt.Sprintf("%T", o), "*ssa.") + " " + o.Name()
}

// takesOutOnly: f does nothing to pooled objects but take them out — every
// value it returns is a (*sync.Pool).Get result, a fresh allocation or the
// result of another such helper, and f stores to no field of a pooled type.
// (A function that also initialises the object is a constructor: what it
// returns is a finished value, and a later store to it is a mutation.)
func takesOutOnly(p *core.Prog, f *ssa.Function, busy map[*ssa.Function]bool) bool {
	if f.Blocks == nil || busy[f] || f.Signature.Results().Len() != 1 {
		return false
	}
	busy[f] = true
	defer delete(busy, f)
	for _, b := range f.Blocks {
		for _, in := range b.Instrs {
			if st, ok := in.(*ssa.Store); ok {
				if fa, ok := st.Addr.(*ssa.FieldAddr); ok && isValueNamed(fa.X.Type(), "String", "Integer", "Float", "Datetime") {
					return false
				}
			}
		}
	}
	n := 0
	for _, r := range core.Returns(f) {
		for _, o := range objectOrigins(r.Results[0]) {
			n++
			switch x := o.(type) {
			case *ssa.Alloc:
				if !x.Heap {
					return false
				}
			case *ssa.Call:
				if isPoolGet(p, x) {
					continue
				}
				g := core.StaticCallee(x)
				if g == nil || !takesOutOnly(p, g, busy) {
					return false
				}
			default:
				return false
			}
		}
	}
	return n > 0
}

// ---------------------------------------------------------------------------
// R-AST-1

const parserPkg = core.ModPath + "/lib/parser"

func isParserStruct(t types.Type) bool {
	if p, ok := t.(*types.Pointer); ok {
		t = p.Elem()
	}
	n, ok := t.(*types.Named)
	if !ok || n.Obj().Pkg() == nil || n.Obj().Pkg().Path() != parserPkg {
		return false
	}
	_, isStruct := n.Underlying().(*types.Struct)
	return isStruct
}

func isSlice(t types.Type) bool {
	_, ok := t.Underlying().(*types.Slice)
	return ok
}

// astSliceSource: is v (a slice value) loaded from a field of a parser struct
// that this function did not build itself?
func astSliceSource(v ssa.Value) (string, bool) {
	switch x := v.(type) {
	case *ssa.Field:
		if isSlice(x.Type()) && isParserStruct(x.X.Type()) {
			return core.FieldOwner(x), true
		}
	case *ssa.UnOp:
		if x.Op != token.MUL {
			return "", false
		}
		fa, ok := x.X.(*ssa.FieldAddr)
		if !ok || !isSlice(x.Type()) || !isParserStruct(fa.X.Type()) {
			return "", false
		}
		// a node built locally whose slice field was filled by this function with
		// a slice made here is private
		if al, ok := fa.X.(*ssa.Alloc); ok {
			priv := true
			found := false
			for _, r := range *al.Referrers() {
				if fa2, ok := r.(*ssa.FieldAddr); ok && fa2.Field == fa.Field {
					for _, rr := range *fa2.Referrers() {
						if st, ok := rr.(*ssa.Store); ok && st.Addr == fa2 {
							found = true
							for _, o := range core.Origins(st.Val, true) {
								switch o.(type) {
								case *ssa.MakeSlice, *ssa.Alloc:
								default:
									if c, ok := o.(*ssa.Call); ok {
										if b, ok := c.Common().Value.(*ssa.Builtin); ok && b.Name() == "append" {
											continue
										}
									}
									priv = false
								}
							}
						}
					}
				}
				if st, ok := r.(*ssa.Store); ok && st.Addr == al {
					priv = false // whole node copied from elsewhere (e.g. parameter)
				}
			}
			if priv && found {
				return "", false
			}
		}
		return core.FieldOwner(fa), true
	}
	return "", false
}

// writesSliceParam: parameter indices (incl. receiver offset) of fn through
// which elements are stored. Fixpoint over csvq.
func sliceParamWriters(p *core.Prog) map[*ssa.Function]map[int]bool {
	w := map[*ssa.Function]map[int]bool{}
	mark := func(fn *ssa.Function, i int) bool {
		if w[fn] == nil {
			w[fn] = map[int]bool{}
		}
		if w[fn][i] {
			return false
		}
		w[fn][i] = true
		return true
	}
	paramIdx := func(fn *ssa.Function, v ssa.Value) int {
		for _, o := range core.Origins(v, true) {
			if prm, ok := o.(*ssa.Parameter); ok {
				for i, x := range fn.Params {
					if x == prm {
						return i
					}
				}
			}
		}
		return -1
	}
	for changed := true; changed; {
		changed = false
		for _, fn := range p.SrcFuncs() {
			for _, b := range fn.Blocks {
				for _, in := range b.Instrs {
					switch x := in.(type) {
					case *ssa.Store:
						if ia, ok := x.Addr.(*ssa.IndexAddr); ok && isSlice(ia.X.Type()) {
							if i := paramIdx(fn, ia.X); i >= 0 && mark(fn, i) {
								changed = true
							}
						}
					case ssa.CallInstruction:
						if b, ok := x.Common().Value.(*ssa.Builtin); ok && b.Name() == "copy" {
							if i := paramIdx(fn, x.Common().Args[0]); i >= 0 && mark(fn, i) {
								changed = true
							}
							continue
						}
						f := core.StaticCallee(x)
						if f == nil || w[f] == nil {
							continue
						}
						for j, a := range x.Common().Args {
							if w[f][j] && isSlice(a.Type()) {
								if i := paramIdx(fn, a); i >= 0 && mark(fn, i) {
									changed = true
								}
							}
						}
					}
				}
			}
		}
	}
	return w
}

func ruleAst1(c *Ctx) {
	writers := sliceParamWriters(c.P)
	taint := func(v ssa.Value) (string, bool) {
		for _, o := range core.Origins(v, true) {
			if s, ok := astSliceSource(o); ok {
				return s, true
			}
		}
		return "", false
	}
	examined := 0
	for _, fn := range c.P.SrcFuncs() {
		if c.P.InPkg(fn, "lib/parser") {
			continue // the parser builds the tree
		}
		for _, b := range fn.Blocks {
			for _, in := range b.Instrs {
				switch x := in.(type) {
				case *ssa.Store:
					if ia, ok := x.Addr.(*ssa.IndexAddr); ok && isSlice(ia.X.Type()) {
						examined++
						if src, ok := taint(ia.X); ok {
							c.Touch(fn)
							c.Bad(c.KeyAt(fn, "store into element of "+src), c.Pos(in),
								"evaluation overwrites an element of a slice that belongs to the shared syntax tree: the stored program is changed for every later evaluation")
						}
					}
					if fa, ok := x.Addr.(*ssa.FieldAddr); ok && core.NamedOf(fa.X.Type()) == "lib/parser.BaseExpr" {
						c.Touch(fn)
						c.Bad(c.KeyAt(fn, "store to BaseExpr."+core.FieldName(fa)), c.Pos(in), "parse information of a shared node is overwritten")
					}
				case ssa.CallInstruction:
					com := x.Common()
					if bi, ok := com.Value.(*ssa.Builtin); ok {
						if bi.Name() == "append" && len(com.Args) > 0 {
							examined++
							if src, ok := taint(com.Args[0]); ok {
								c.Touch(fn)
								c.Bad(c.KeyAt(fn, "append to "+src), c.Pos(in),
									"append to a slice of the shared syntax tree may write into its backing array, which a second evaluation of the same tree also appends to")
							}
						}
						if bi.Name() == "copy" && len(com.Args) > 0 {
							examined++
							if src, ok := taint(com.Args[0]); ok {
								c.Touch(fn)
								c.Bad(c.KeyAt(fn, "copy into "+src), c.Pos(in), "copy overwrites elements of a syntax-tree slice")
							}
						}
						continue
					}
					name := c.P.CalleeName(x)
					if strings.HasSuffix(name, ".ClearBaseExpr") || strings.HasSuffix(name, "lib/parser.(*BaseExpr).ClearBaseExpr") {
						c.Touch(fn)
						if privateTree(c.P, com.Value) {
							c.Ok(c.KeyAt(fn, "call ClearBaseExpr"), c.Pos(in), "the node comes from a tree this function parsed or built itself (not shared with a stored program)")
							continue
						}
						c.Bad(c.KeyAt(fn, "call ClearBaseExpr"), c.Pos(in), "ClearBaseExpr erases parse information of a shared node")
						continue
					}
					if strings.HasPrefix(name, "sort.") && len(com.Args) > 0 {
						if src, ok := taint(core.Strip(com.Args[0])); ok {
							c.Touch(fn)
							c.Bad(c.KeyAt(fn, "sort of "+src), c.Pos(in), "sorting a syntax-tree slice in place reorders the stored program")
						}
						continue
					}
					f := core.StaticCallee(x)
					if f == nil || writers[f] == nil {
						continue
					}
					for j, a := range com.Args {
						if writers[f][j] && isSlice(a.Type()) {
							examined++
							if src, ok := taint(a); ok {
								c.Touch(fn)
								c.Bad(c.KeyAt(fn, "pass "+src+" to "+c.P.FnRef(f)+", which writes its elements"), c.Pos(in),
									"a callee stores through a slice of the shared syntax tree")
							}
						}
					}
				}
			}
		}
	}
	c.OkN("all element stores / append / copy / slice-writing calls outside lib/parser", "-",
		fmt.Sprintf("%d sinks examined; those not reported do not trace to a field of a lib/parser node", examined), examined)
}

// privateTree: every root the value derives from is the result of a
// lib/parser.Parse call made in this function or a node built here.
func privateTree(p *core.Prog, v ssa.Value) bool {
	seen := map[ssa.Value]bool{}
	ok := true
	var walk func(v ssa.Value)
	walk = func(v ssa.Value) {
		if v == nil || seen[v] || !ok {
			return
		}
		seen[v] = true
		switch x := v.(type) {
		case *ssa.Phi:
			for _, e := range x.Edges {
				walk(e)
			}
		case *ssa.TypeAssert:
			walk(x.X)
		case *ssa.MakeInterface:
			walk(x.X)
		case *ssa.ChangeInterface:
			walk(x.X)
		case *ssa.Field:
			walk(x.X)
		case *ssa.FieldAddr:
			walk(x.X)
		case *ssa.Index:
			walk(x.X)
		case *ssa.IndexAddr:
			walk(x.X)
		case *ssa.Extract:
			walk(x.Tuple)
		case *ssa.UnOp:
			if x.Op == token.MUL {
				if al, isAl := x.X.(*ssa.Alloc); isAl {
					vals, complete := core.StoresTo(al)
					if !complete && len(vals) == 0 {
						// a struct built field by field in a local cell
						return
					}
					for _, s := range vals {
						walk(s)
					}
					return
				}
				walk(x.X)
				return
			}
			ok = false
		case *ssa.Call:
			if p.CalleeName(x) != "lib/parser.Parse" {
				ok = false
			}
		case *ssa.Alloc, *ssa.Const:
		default:
			ok = false
		}
	}
	walk(v)
	return ok
}
