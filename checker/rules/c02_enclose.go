package rules

import (
	"fmt"
	"go/types"
	"sort"
	"strings"

	"golang.org/x/tools/go/ssa"

	"verif/checker/core"
)

// R-FMT-10 — the two spellings of the CSV/TSV writer stay apart: `""` is the
// empty text, the unquoted empty field is NULL.
//
// Reader side (what the rule relies on; go-text/csv.(*Reader).parseRecord and
// lib/query.readRecordSet): a field that is empty AND was not quoted is returned
// as a nil RawText, which readRecordSet turns into value.Null; every other field
// — a quoted empty one included — becomes a value.String. parseField withdraws
// Reader.EnclosedAll at the first letter met outside quotation marks, and the
// loader copies what is left into FileInfo.EncloseAll (R-FMT-3), from where it
// returns to the writer (R-FMT-2).
//
// Writer side (decided here): go-text/csv.(*Writer).Write puts quotation marks
// around a field when Field.Quote is set (or the text holds a delimiter / quote).
// So, with ENCLOSE_ALL in force ("enclose all string values"), the Quote flag of
// the field made for a *value.String cell must be true WHATEVER THE TEXT OF THE
// CELL IS — a decision that looks at the text (its length, its first byte …)
// writes some string, typically the empty one, in the spelling the reader takes
// for NULL. Conversely the field made for a *value.Null cell is the unquoted
// empty text under every setting, and the header fields are enclosed as well
// (their letters would otherwise withdraw the reader's EnclosedAll and the next
// update of the file would drop the quotation marks of every `""`).
//
// The rule does not look for a particular expression. It evaluates EncodeView
// — and the lib/query functions it reaches, with the actual arguments — by
// sparse conditional constant propagation (core.PEval) under the hypotheses
// "ExportOptions.EncloseAll is true" and "the cell is a *value.String" (resp.
// *value.Null): type switches and comparisons with the effect constants are
// decided, the text of the cell stays unknown (⊤). Every field handed to the
// field writer (csv.NewField, or a csv.Field literal) on an executable path is a
// site; a site whose text derives from the cell is a cell site. The obligation
// holds iff the Quote operand evaluates to the constant demanded — i.e. on every
// path, for every text.

const fxCsvNewField = fxGoText + "/csv.NewField"

func init() {
	Register(&Rule{ID: "R-FMT-10", Props: []string{"C02"}, Floor: 3,
		Doc:      "writer/reader agreement on the two spellings of CSV/TSV (the reader returns NULL only for an empty field that was not quoted): EncodeView, evaluated together with the lib/query functions it calls by conditional constant propagation under the hypotheses ExportOptions.EncloseAll == true and `the cell is a *value.String` with the text of the cell unknown, hands every field whose contents derive from the cell to the field writer (go-text/csv.NewField or a csv.Field literal) with a Quote operand that evaluates to the constant true — the decision is a function of the option and of the kind of the value, never of the text; under `the cell is a *value.Null` (EncloseAll true, and unconstrained) the contents evaluate to the constant \"\" and Quote to the constant false; the fields that do not derive from a cell (the header) have Quote == true under EncloseAll. A function that builds no cell field, or a call towards the field writer that the evaluation could not enter, is cannot-analyse",
		Controls: []string{"CtlEncloseLooksAtText", "CtlEncloseQuotesNull", "CtlEncloseHelperLooksAtText"},
		Run:      ruleFmt10})
}

type fx10Site struct {
	fn       *ssa.Function
	in       ssa.Instruction
	contents core.PV
	quote    core.PV
}

// fx10Sites evaluates root under (cell kind, EncloseAll) and returns the fields
// handed to the field writer on executable paths, in program order, plus the
// calls towards the field writer that were not entered.
func fx10Sites(c *Ctx, root *ssa.Function, cell types.Type, enclose *bool) ([]fx10Site, []ssa.CallInstruction) {
	prim := c.P.Type("lib/value", "Primary")
	ev := &core.PEval{P: c.P, MaxDepth: 8}
	ev.Enter = func(f *ssa.Function) bool { return c.P.InPkg(f, "lib/query", core.ControlPkg) }
	ev.Refine = func(fn *ssa.Function, v ssa.Value) (core.PV, bool) {
		if enclose != nil && core.FieldOwner(fx10FieldRead(v)) == "lib/option.ExportOptions.EncloseAll" {
			return core.PVBool(*enclose), true
		}
		if prim != nil && cell != nil && types.Identical(v.Type(), prim) {
			return core.PVDyn(cell, true), true
		}
		return core.PV{}, false
	}
	fr := ev.Run(root, nil)
	type fieldLit struct {
		fn              *ssa.Function
		at              ssa.Instruction
		contents, quote core.PV
		hasC, hasQ      bool
	}
	lits := map[ssa.Value]*fieldLit{}
	var litOrder []ssa.Value
	var sites []fx10Site
	fr.Visit(func(f *core.PFrame, in ssa.Instruction) {
		switch x := in.(type) {
		case *ssa.Call:
			if c.P.CalleeName(x) == fxCsvNewField && len(x.Call.Args) == 2 {
				sites = append(sites, fx10Site{f.Fn, in, f.Val(x.Call.Args[0]), f.Val(x.Call.Args[1])})
			}
		case *ssa.Store:
			fa, ok := x.Addr.(*ssa.FieldAddr)
			if !ok || !strings.HasSuffix(core.NamedOf(fa.X.Type()), "go-text/csv.Field") {
				return
			}
			l := lits[fa.X]
			if l == nil {
				l = &fieldLit{fn: f.Fn, at: in}
				lits[fa.X] = l
				litOrder = append(litOrder, fa.X)
			}
			switch core.FieldName(fa) {
			case "Contents":
				l.contents, l.hasC = core.PVJoin(l.contents, f.Val(x.Val)), true
			case "Quote":
				l.quote, l.hasQ = core.PVJoin(l.quote, f.Val(x.Val)), true
			}
		}
	})
	for _, k := range litOrder {
		l := lits[k]
		if !l.hasC {
			continue
		}
		if !l.hasQ {
			l.quote = core.PVBool(false) // the zero value of the literal
		}
		sites = append(sites, fx10Site{l.fn, l.at, l.contents, l.quote})
	}
	// NewField itself is a go-text function: its own literal is not a site of csvq
	var out []fx10Site
	for _, s := range sites {
		if c.P.InPkg(s.fn, "lib/query", core.ControlPkg) {
			out = append(out, s)
		}
	}
	var skipped []ssa.CallInstruction
	towards := c.P.ReachersOfNames(fxCsvNewField)
	for _, ci := range ev.Skipped {
		if c.P.CallMayReach(ci, towards) {
			skipped = append(skipped, ci)
		}
	}
	return out, skipped
}

// fx10FieldRead: v reads a struct field (x.f of a struct value, or *(&x.f)).
func fx10FieldRead(v ssa.Value) ssa.Value {
	if f, ok := v.(*ssa.Field); ok {
		return f
	}
	if fa := fxFieldLoad(v); fa != nil {
		return fa
	}
	return nil
}

func fx10Check(c *Ctx, root *ssa.Function) {
	c.Touch(root)
	ptrTo := func(name string) types.Type {
		if t := c.P.Type("lib/value", name); t != nil {
			return types.NewPointer(t)
		}
		return nil
	}
	str, null := ptrTo("String"), ptrTo("Null")
	if str == nil || null == nil || c.P.Type("lib/value", "Primary") == nil {
		c.Unknown("anchor:lib/value.Primary", "-", "cannot-analyse: lib/value.Primary / String / Null not found")
		return
	}
	yes := true
	// site numbering: per function, in program order, from the String run
	strSites, skipped := fx10Sites(c, root, str, &yes)
	for _, ci := range skipped {
		c.Unknown(c.KeyAt(root, "fields of the CSV writer"), c.Pos(ci.(ssa.Instruction)), "cannot-analyse: the evaluation did not enter a call that can reach "+fxCsvNewField+" (recursion or depth)")
	}
	num := map[ssa.Instruction]string{}
	perFn := map[*ssa.Function]int{}
	label := func(s fx10Site) string {
		if l, ok := num[s.in]; ok {
			return l
		}
		perFn[s.fn]++
		l := fmt.Sprintf("csv field #%d", perFn[s.fn])
		num[s.in] = l
		return l
	}
	cells := 0
	for _, s := range strSites {
		l := label(s)
		if !s.contents.Mark {
			key := c.KeyAt(s.fn, l+" (not a cell): enclosed under ENCLOSE_ALL")
			q, known := s.quote.Bool()
			c.Check(known && q, key, c.Pos(s.in), "with EncloseAll == true the Quote operand evaluates to true",
				fmt.Sprintf("with EncloseAll == true the Quote operand of a header field evaluates to %s, not to the constant true: the letters of an unquoted header withdraw the reader's EnclosedAll, the file is loaded as not enclosed and its next update writes every \"\" as the empty field that reads back as NULL", s.quote))
			continue
		}
		cells++
		key := c.KeyAt(s.fn, l+" (cell): a *value.String is enclosed under ENCLOSE_ALL whatever its text")
		q, known := s.quote.Bool()
		switch {
		case known && q:
			c.Ok(key, c.Pos(s.in), "with EncloseAll == true and a *value.String cell of unknown text the Quote operand evaluates to the constant true")
		case known:
			c.Bad(key, c.Pos(s.in), "with EncloseAll == true and a *value.String cell the Quote operand evaluates to false: string values are not enclosed, the empty string is written as the unquoted empty field, which the reader returns as NULL")
		default:
			c.Bad(key, c.Pos(s.in), "with EncloseAll == true and a *value.String cell the Quote operand is not the constant true: it depends on something other than the option and the kind of the value (the text of the cell, its length …); a string for which it is false — the empty one — is written as the unquoted empty field, which the reader (go-text/csv parseRecord → readRecordSet) returns as NULL although ENCLOSE_ALL can spell it as \"\"")
		}
	}
	if cells == 0 {
		c.Unknown(c.KeyAt(root, "fields of the CSV writer"), c.FnPos(root), "cannot-analyse: no field whose contents derive from a cell is handed to "+fxCsvNewField+" / a csv.Field literal on an executable path")
		return
	}
	// NULL: unquoted empty field under every setting
	type acc struct {
		s   fx10Site
		bad []string
	}
	byIn := map[ssa.Instruction]*acc{}
	var order []ssa.Instruction
	for _, enc := range []*bool{&yes, nil} {
		sites, _ := fx10Sites(c, root, null, enc)
		setting := "EncloseAll unconstrained"
		if enc != nil {
			setting = "EncloseAll == true"
		}
		for _, s := range sites {
			if !s.contents.Mark {
				continue
			}
			a := byIn[s.in]
			if a == nil {
				a = &acc{s: s}
				byIn[s.in] = a
				order = append(order, s.in)
			}
			if t, ok := s.contents.Str(); !ok || t != "" {
				a.bad = append(a.bad, fmt.Sprintf("with %s the contents written for a *value.Null cell evaluate to %s, not to the constant \"\": NULL reads back as a string", setting, s.contents))
			}
			if q, ok := s.quote.Bool(); !ok || q {
				a.bad = append(a.bad, fmt.Sprintf("with %s the Quote operand for a *value.Null cell evaluates to %s, not to the constant false: NULL is written as \"\", which the reader returns as the empty string", setting, s.quote))
			}
		}
	}
	for _, in := range order {
		a := byIn[in]
		key := c.KeyAt(a.s.fn, label(a.s)+" (cell): NULL is the unquoted empty field")
		sort.Strings(a.bad)
		c.Check(len(a.bad) == 0, key, c.Pos(in), "for a *value.Null cell the contents evaluate to \"\" and the Quote operand to false, with EncloseAll == true and unconstrained", strings.Join(a.bad, "; "))
	}
}

func ruleFmt10(c *Ctx) {
	if fn := c.Fn(fxEncodeView); fn != nil {
		fx10Check(c, fn)
	}
	for _, fn := range fxCtlFuncs(c) {
		if strings.HasPrefix(fn.Name(), "CtlEnclose") || strings.HasPrefix(fn.Name(), "okEnclose") {
			fx10Check(c, fn)
		}
	}
}
