package rules

import (
	"fmt"
	"go/types"
	"strings"

	"golang.org/x/tools/go/ssa"

	"verif/checker/absint"
	"verif/checker/core"
)

// R-PAR-14: the fold of the workers' record lists keeps every record.
//
// Joins hand each worker its own result list and fold the lists afterwards
// (R-PAR-12 decides that the loop over the slots only folds). The fold itself
// is a small pure function over slice lengths and element positions; its
// shortcuts ("everything is in the first list") are conditions on those
// lengths. It is executed abstractly for every shape of the input up to a
// bound and its result compared with the concatenation.

func init() {
	Register(&Rule{ID: "R-PAR-14", Props: []string{"C03", "C12"}, Floor: 1,
		Doc:      "folding the per-worker record lists loses and reorders nothing: every lib/query function of type func([]RecordSet) RecordSet (found by type: MergeRecordSetList) is executed by the finite-domain abstract interpreter on concrete lists of 1 … 4 worker lists holding 0 … 2 distinct symbolic records each (120 shapes; thorough tier: 1 … 5 lists of 0 … 3 records, 1364 shapes); for every shape the result must be exactly the records of list[0], list[1], … in that order — a shortcut that returns the first list unless some other worker found something must test every other list, otherwise a 3-worker join drops the rows of the third worker when the second found none (result depends on --cpu). Decides the fold, by execution of its SSA over all shapes up to the bound; longer lists are covered only in so far as the function treats them uniformly (loops)",
		Controls: []string{"CtlMergeKeepsFirstOnly"},
		Run:      rulePar14})
}

func rulePar14(c *Ctx) {
	rsT := c.P.Type("lib/query", "RecordSet")
	recT := c.P.Type("lib/query", "Record")
	if rsT == nil || recT == nil {
		c.Unknown("anchor: lib/query.RecordSet", "-", "cannot-analyse: types RecordSet / Record not found")
		return
	}
	isList := func(t types.Type) bool {
		s, ok := t.Underlying().(*types.Slice)
		return ok && types.Identical(s.Elem(), rsT)
	}
	var folds []*ssa.Function
	for _, fn := range c.P.FuncsIn(true, "lib/query") {
		sig := fn.Signature
		if fn.Parent() != nil || sig.Recv() != nil || sig.Params().Len() != 1 || sig.Results().Len() != 1 {
			continue
		}
		pt := sig.Params().At(0).Type()
		if !(isList(pt) || c.P.IsControl(fn) && isListOfSlices(pt)) {
			continue
		}
		if !types.Identical(sig.Results().At(0).Type(), pt.Underlying().(*types.Slice).Elem()) {
			continue
		}
		folds = append(folds, fn)
	}
	if len(folds) == 0 {
		c.Unknown("anchor: fold of []RecordSet", "-", "cannot-analyse: no lib/query function of type func([]RecordSet) RecordSet (the per-worker lists are folded elsewhere — re-confirm)")
		return
	}
	maxLists, maxLen := 4, 2
	if c.Tier == "thorough" {
		maxLists, maxLen = 5, 3 // 1364 shapes
	}
	for _, fn := range folds {
		c.Touch(fn)
		listT := fn.Signature.Params().At(0).Type()
		innerT := listT.Underlying().(*types.Slice).Elem()
		elemT := innerT.Underlying().(*types.Slice).Elem()
		shapes, nbad := 0, 0
		var bad []string
		evalErr := ""
		var lens []int
		var rec func(k int)
		runShape := func() {
			shapes++
			_, err := absint.Enumerate(64, func(w *absint.World) {
				it := newInterp(c, w)
				it.ConcreteSlices = true
				it.MaxDepth = 4
				it.MaxSteps = 4000
				it.InlinePred = inlineHelpers(c, "lib/query")
				var want []string
				outer := make([]absint.Val, len(lens))
				for i, n := range lens {
					el := make([]absint.Val, n)
					for j := range el {
						name := fmt.Sprintf("r%d.%d", i, j)
						el[j] = absint.Sym(name, elemT)
						want = append(want, name)
					}
					s := absint.Slice(el...)
					s.T = innerT
					if n == 0 {
						// an empty (non-nil) list, as a worker that found nothing leaves it
						s = absint.Slice()
						s.T = innerT
					}
					outer[i] = s
				}
				arg := absint.Slice(outer...)
				arg.T = listT
				res := it.Call(fn, []absint.Val{arg}, nil)
				if it.Err != nil {
					evalErr = it.Err.Error()
					return
				}
				var got []string
				switch res.K {
				case absint.KSlice:
					for _, e := range it.CurElems(res) {
						got = append(got, e.String())
					}
				case absint.KNil:
				default:
					evalErr = "result is not a concrete slice: " + res.String()
					return
				}
				if strings.Join(got, ",") != strings.Join(want, ",") {
					nbad++
					if len(bad) < 3 {
						bad = append(bad, fmt.Sprintf("lists of lengths %v: result [%s], want [%s]", lens, strings.Join(got, ","), strings.Join(want, ",")))
					}
				}
			})
			if err != nil && evalErr == "" {
				evalErr = err.Error()
			}
		}
		rec = func(k int) {
			if k == 0 {
				runShape()
				return
			}
			for n := 0; n <= maxLen; n++ {
				lens = append(lens, n)
				rec(k - 1)
				lens = lens[:len(lens)-1]
			}
		}
		for k := 1; k <= maxLists; k++ {
			rec(k)
		}
		key := c.KeyAt(fn, "the fold returns every record of every list, in list order")
		switch {
		case evalErr != "":
			c.Unknown(key, c.FnPos(fn), "cannot-evaluate: "+evalErr)
		case nbad > 0:
			c.Bad(key, c.FnPos(fn), fmt.Sprintf("%d of %d shapes lose or reorder records — e.g. %s: the rows found by some workers are missing from the join, and which ones depends on how many workers ran", nbad, shapes, strings.Join(bad, "; ")))
		default:
			c.OkN(key, c.FnPos(fn), fmt.Sprintf("%d shapes (1…%d lists of 0…%d records): result = concatenation", shapes, maxLists, maxLen), shapes)
		}
	}
	_ = core.ControlPkg
}

func isListOfSlices(t types.Type) bool {
	s, ok := t.Underlying().(*types.Slice)
	if !ok {
		return false
	}
	_, ok = s.Elem().Underlying().(*types.Slice)
	return ok
}
