package rules

// Registrations made after the ninth round of seeded changes (DESIGN §8): rules that existed and reported
// the change, but were not registered for the property it was seeded under. Runs after every other init of
// the package (file name) and only widens Props.

var round9Registrations = map[string][]string{
	"R-TXN-3":  {"C02"}, // a table the encoder refuses (DataEmpty, a cell the format cannot spell) reaches no swap and no success return: nothing is written (C02-18)
	"R-CMP-3":  {"C03"}, // which rows WHERE / ON keep is decided by the coercion ladder of CompareCombinedly; a shortcut in front of it changes the rows (C03-18)
	"R-ISO-5":  {"C05"}, // a multi-table UPDATE / DELETE has no failing exit between two of its publications: the edit is applied to all targets or none (C05-17)
	"R-ERR-10": {"C06"}, // a float is turned into an integer only where its class was tested: the truth value of 0.5 is not that of int64(0.5) (C06-17)
	"R-SCP-8":  {"C16"}, // a cursor declared in an IF / CASE arm (also through EXECUTE / SOURCE) ends with the arm: every block body runs on its own child scope (C16-17)
	"R-FIX-1":  {"C17"},
	"R-TXN-1":  {"C11"},
	"R-PAR-6":  {"C19"}, // a plain map read outside the mutex its writers hold is "fatal error: concurrent map read and map write", which no recover catches (C19-17) // EXIT ends a procedure without commit: a table created since the last COMMIT does not survive it (C11-18) // the per-cell sort-value cache is dropped at the end of every SELECT: a derived table does not hand the keys of other rows to the analytic functions of the outer query (C17-17)
}

func init() {
	for _, r := range registry {
		add, ok := round9Registrations[r.ID]
		if !ok {
			continue
		}
		have := map[string]bool{}
		for _, p := range r.Props {
			have[p] = true
		}
		for _, p := range add {
			if !have[p] {
				r.Props = append(r.Props, p)
			}
		}
	}
}
