package rules

import (
	"fmt"
	"go/types"
	"strings"

	"golang.org/x/tools/go/ssa"

	"verif/checker/absint"
	"verif/checker/core"
)

// R-CMP-8 — `value IS [NOT] NULL | TRUE | FALSE | UNKNOWN` as a finite table.

const (
	cmp8Is     = "lib/query.Is"
	cmp8EvalIs = "lib/query.evalIs"
	cmp8Docs   = "docs/_posts/2006-01-02-comparison-operators.md#is, docs/_posts/2006-01-02-value.md (\"NULL IS UNKNOWN evaluates to TRUE, but UNKNOWN IS NULL evaluates to FALSE\")"
)

func init() {
	Register(&Rule{ID: "R-CMP-8", Props: []string{"C06"}, Floor: 25,
		Doc: "IS equals its documented expansion (" + cmp8Docs + "; grammar: value IS [NOT] NULL | ternary). " +
			"lib/query.Is is executed by finite-domain abstract interpretation on every pair of operand classes — left: NULL or a non-NULL value whose ternary value is TRUE / FALSE / UNKNOWN; right: NULL or the ternary TRUE / FALSE / UNKNOWN — 16 cells: " +
			"value.IsNull, the dynamic type *value.Null and identity with value.NewNull() are fixed by the class, p.Ternary() answers by the class, for a NULL by executing (value.Null).Ternary's real body; github.com/mithrandie/ternary's bodies (ConvertFromBool, Equal, Not …) and unexported lib/query helpers are executed. " +
			"Decided per cell, in every world: x IS NULL = TRUE iff x is NULL, else FALSE; x IS t = TRUE iff the ternary value of x equals t, else FALSE (never UNKNOWN). The ternary value of NULL is UNKNOWN ((value.Null).Ternary, one obligation). " +
			"evalIs: Is receives the evaluated expr.LHS and expr.RHS in this order, the result is value.NewTernary(Is) for IS and value.NewTernary(Kleene NOT of Is) for IS NOT, for every result the 16 cells of Is produce (a result Is never yields is a vacuous cell)",
		Controls: []string{"CtlIsOpSymmetricNull", "CtlEvalIsDropsNegation"},
		Run:      ruleCmp8})
}

var cmp8Classes = []string{"NULL", "TRUE", "FALSE", "UNKNOWN"}

func cmp8Left(cl string) string {
	if cl == "NULL" {
		return "NULL"
	}
	return "value:" + cl
}

func ruleCmp8(c *Ctx) {
	tt := ternaryType(c)
	primT := c.P.Type("lib/value", "Primary")
	if tt == nil || primT == nil || len(enumConstsOf(tt)) != 3 {
		c.Unknown("types", "-", "cannot-analyse: ternary.Value / value.Primary not found")
		return
	}
	// isRange: the results Is can produce (nil = undecided: all three)
	var isRange map[string]bool
	nullTern := c.Fn("lib/value.(Null).Ternary")
	if nullTern != nil {
		cmp8NullTernary(c, nullTern)
	}
	if fn := c.Fn(cmp8Is); fn != nil && nullTern != nil {
		if msg := cmp8IsShape(fn, primT, tt); msg != "" {
			c.Unknown(cmp8Is+": signature", c.FnPos(fn), "cannot-analyse: "+msg)
		} else {
			isRange = cmp8Table(c, fn, nullTern, false)
		}
	}
	if fn := c.Fn(cmp8EvalIs); fn != nil {
		cmp8Eval(c, fn, isRange, false)
	}
	// controls: copies in the overlay package, analysed by the same code
	for _, cf := range c.P.FuncsIn(true) {
		if !c.P.IsControl(cf) || cf.Parent() != nil {
			continue
		}
		n := cf.Name()
		switch {
		case strings.HasPrefix(n, "CtlIsOp"), strings.HasPrefix(n, "OkIsOp"):
			if msg := cmp8IsShape(cf, primT, tt); msg != "" || nullTern == nil {
				c.Unknown("control:"+n, "-", "control "+n+" does not have the shape of Is: "+msg)
				continue
			}
			c.Touch(cf)
			cmp8Table(c, cf, nullTern, strings.HasPrefix(n, "Ok"))
		case strings.HasPrefix(n, "CtlEvalIs"), strings.HasPrefix(n, "OkEvalIs"):
			c.Touch(cf)
			cmp8Eval(c, cf, isRange, strings.HasPrefix(n, "Ok"))
		}
	}
}

func cmp8IsShape(fn *ssa.Function, primT, tt types.Type) string {
	sig := fn.Signature
	if sig.Params().Len() != 2 || sig.Results().Len() != 1 ||
		!types.Identical(sig.Params().At(0).Type(), primT) || !types.Identical(sig.Params().At(1).Type(), primT) ||
		!types.Identical(sig.Results().At(0).Type(), tt) {
		return "expected func(value.Primary, value.Primary) ternary.Value"
	}
	return ""
}

func cmp8Inline(c *Ctx, extra func(*ssa.Function) bool) func(*ssa.Function) bool {
	lq, ctl := inlineHelpers(c, "lib/query"), inlineHelpers(c, core.ControlPkg)
	return func(f *ssa.Function) bool {
		if f == nil || f.Blocks == nil {
			return false
		}
		if f.Pkg != nil && f.Pkg.Pkg.Path() == cmp7Ternry {
			return true
		}
		return lq(f) || ctl(f) || (extra != nil && extra(f))
	}
}

// the ternary value of NULL, as documented
func cmp8NullTernary(c *Ctx, fn *ssa.Function) {
	got := map[string]bool{}
	_, err := absint.Enumerate(50, func(w *absint.World) {
		it := newInterp(c, w)
		it.InlinePred = cmp8Inline(c, nil)
		r := it.Call(fn, []absint.Val{absint.Obj("null", fn.Params[0].Type())}, nil)
		if it.Err != nil {
			got["cannot evaluate: "+it.Err.Error()] = true
			return
		}
		got[ternaryName(c, r)] = true
	})
	key := c.KeyAt(fn, "ternary value of NULL")
	if err != nil {
		c.Unknown(key, c.FnPos(fn), err.Error())
		return
	}
	res := keysOf(got)
	c.Check(len(res) == 1 && res[0] == "UNKNOWN", key, c.FnPos(fn), "= UNKNOWN",
		fmt.Sprintf("the ternary value of NULL is %v, documented UNKNOWN (NULL IS UNKNOWN evaluates to TRUE; %s)", res, cmp8Docs))
}

// cmp8Table: the 16 cells of Is. Returns the set of results the cells produce
// (nil when a cell could not be decided or yields something else than a ternary).
func cmp8Table(c *Ctx, fn, nullTern *ssa.Function, negative bool) map[string]bool {
	produced := map[string]bool{}
	decided := true
	tt := ternaryType(c)
	nullPtr := "*" + core.ModPath + "/lib/value.Null"
	nullVal := core.ModPath + "/lib/value.Null"
	ternPtr := "*" + core.ModPath + "/lib/value.Ternary"
	for _, lc := range cmp8Classes {
		for _, rc := range cmp8Classes {
			key := fmt.Sprintf("%s[%s IS %s]", c.P.Name(fn), cmp8Left(lc), rc)
			class := map[string]string{"p1": lc, "p2": rc}
			got := map[string]bool{}
			nullTernary := ""
			var trouble []string
			worlds, err := absint.Enumerate(500, func(w *absint.World) {
				it := newInterp(c, w)
				it.InlinePred = cmp8Inline(c, nil)
				for name, cl := range class {
					b2i := map[bool]int{true: 1, false: 0}
					w.Assume("b:nil:"+name, 0) // an evaluated operand is never the nil interface
					w.Assume("b:is:"+nullPtr+":"+name, b2i[cl == "NULL"])
					w.Assume("b:is:"+nullVal+":"+name, 0)
					w.Assume("b:same:"+minmaxStr(name, "value.NewNull()"), b2i[cl == "NULL"])
					if name == "p2" {
						w.Assume("b:is:"+ternPtr+":"+name, b2i[cl != "NULL"])
					} else if cl == "NULL" {
						w.Assume("b:is:"+ternPtr+":"+name, 0)
					}
				}
				operand := func(v absint.Val) string {
					if (v.K == absint.KSym || v.K == absint.KObj) && class[v.Sym] != "" {
						return v.Sym
					}
					return ""
				}
				it.Models["lib/value.IsNull"] = func(it *absint.Interp, call ssa.CallInstruction, a []absint.Val) (absint.Val, bool) {
					o := ""
					if len(a) == 1 {
						o = operand(a[0])
					}
					if o == "" {
						trouble = append(trouble, "value.IsNull("+joinAbs(a)+") at "+c.Pos(call)+" is not asked about an operand")
						return absint.Val{}, false
					}
					return absint.Bool(class[o] == "NULL"), true
				}
				ternaryOf := func(it *absint.Interp, call ssa.CallInstruction, a []absint.Val) (absint.Val, bool) {
					o := ""
					if len(a) >= 1 {
						o = operand(a[0])
					}
					if o == "" {
						return absint.Val{}, false
					}
					if class[o] == "NULL" {
						r := it.Call(nullTern, []absint.Val{absint.Obj("null", nullTern.Params[0].Type())}, nil)
						nullTernary = ternaryName(c, r)
						return r, true
					}
					return ternaryConst(c, class[o]), true
				}
				it.Models["invoke:"+core.ModPath+"/lib/value.Primary.Ternary"] = ternaryOf
				for _, recv := range []string{"Null", "*Null", "Ternary", "*Ternary"} {
					it.Models["lib/value.("+recv+").Ternary"] = ternaryOf
				}
				p1 := absint.Sym("p1", fn.Params[0].Type())
				p2 := absint.Sym("p2", fn.Params[1].Type())
				r := it.Call(fn, []absint.Val{p1, p2}, nil)
				if it.Err != nil {
					trouble = append(trouble, "cannot evaluate: "+it.Err.Error())
					return
				}
				res := ternaryName(c, r)
				if r.K != absint.KConst || !types.Identical(r.T, tt) {
					res = "non-constant " + r.String()
				}
				if asked := w.Asked(); len(asked) > 0 {
					res += " {" + strings.Join(asked, " ") + "}"
				}
				got[res] = true
			})
			want := "FALSE"
			how := ""
			if rc == "NULL" {
				if lc == "NULL" {
					want = "TRUE"
				}
				how = "x IS NULL is TRUE exactly for a NULL"
			} else {
				lt := lc
				if lc == "NULL" {
					lt = nullTernary
					if lt == "" {
						// the code never took the ternary value of the NULL: the
						// documented value applies ((value.Null).Ternary is checked apart)
						lt = "UNKNOWN"
					}
				}
				if lt == rc {
					want = "TRUE"
				}
				how = fmt.Sprintf("x IS %s compares the ternary value of x (%s) with %s", rc, lt, rc)
			}
			res := keysOf(got)
			for _, r := range res {
				if r != "TRUE" && r != "FALSE" && r != "UNKNOWN" {
					decided = false
				}
				produced[r] = true
			}
			if err != nil || len(trouble) > 0 {
				decided = false
			}
			switch {
			case err != nil:
				c.Unknown(key, c.FnPos(fn), err.Error())
			case len(trouble) > 0:
				c.Unknown(key, c.FnPos(fn), strings.Join(dedup(trouble), "; "))
			case len(res) == 1 && res[0] == want:
				c.OkN(key, c.FnPos(fn), "= "+want+" ("+how+")", worlds)
			default:
				why := fmt.Sprintf("%s IS %s evaluates to %v, documented %s: %s (%s)", cmp8Left(lc), rc, res, want, how, cmp8Docs)
				c.Bad(key, c.FnPos(fn), why)
				if negative {
					c.Unknown("negative-control:"+key, "-", "the rule reports "+fn.Name()+", a correct spelling of IS: "+why)
				}
			}
		}
	}
	if !decided {
		return nil
	}
	return produced
}

// cmp8Eval: evalIs passes (LHS, RHS) to Is and negates for IS NOT. isRange
// (nil = unknown) restricts the cells to the results Is can produce.
func cmp8Eval(c *Ctx, fn *ssa.Function, isRange map[string]bool, negative bool) {
	not, ok := parserConst(c, "NOT")
	if !ok {
		c.Unknown("parser.NOT", "-", "cannot-analyse: token constant not found")
		return
	}
	tt := ternaryType(c)
	tconsts := enumConstsOf(tt)
	for _, neg := range []int64{0, not} {
		label := map[bool]string{true: "IS NOT", false: "IS"}[neg != 0]
		got := map[string]map[string]bool{}
		var argErr, trouble []string
		calls := 0
		_, err := absint.Enumerate(5000, func(w *absint.World) {
			it := exprInterp(c, w, map[string]int64{"expr.Negation": neg})
			for _, n := range []string{"Not", "And", "Or", "ConvertFromBool"} {
				delete(it.Models, cmp7Ternry+"."+n) // the dependency's bodies are executed instead
			}
			it.InlinePred = cmp8Inline(c, it.InlinePred)
			is := ""
			it.Models[cmp8Is] = func(it *absint.Interp, call ssa.CallInstruction, a []absint.Val) (absint.Val, bool) {
				calls++
				if len(a) != 2 || !strings.Contains(a[0].String(), "expr.LHS") || !strings.Contains(a[1].String(), "expr.RHS") {
					argErr = append(argErr, "Is("+joinAbs(a)+") at "+c.Pos(call))
				}
				i := it.W.Choose("Is", 3)
				is = tconsts[i].Name()
				return absint.Const(tconsts[i].Val(), tt), true
			}
			var args []absint.Val
			for _, p := range fn.Params {
				if p.Name() == "expr" {
					args = append(args, absint.Obj("expr", p.Type()))
				} else {
					args = append(args, absint.Sym(p.Name(), p.Type()))
				}
			}
			r := it.Call(fn, args, nil)
			if it.Err != nil {
				trouble = append(trouble, "cannot evaluate: "+it.Err.Error())
				return
			}
			if r.K != absint.KTuple || len(r.Elems) != 2 || r.Elems[1].K != absint.KNil {
				return // an evaluation error was returned
			}
			if got[is] == nil {
				got[is] = map[string]bool{}
			}
			got[is][r.Elems[0].String()] = true
		})
		base := c.P.Name(fn)
		if err != nil {
			c.Unknown(base+"["+label+"]", c.FnPos(fn), err.Error())
			continue
		}
		if len(trouble) > 0 {
			c.Unknown(base+"["+label+"]", c.FnPos(fn), strings.Join(dedup(trouble), "; "))
			continue
		}
		bad := func(key, why string) {
			c.Bad(key, c.FnPos(fn), why)
			if negative {
				c.Unknown("negative-control:"+key, "-", "the rule reports "+fn.Name()+", a correct spelling of evalIs: "+why)
			}
		}
		key := base + "[" + label + "]: operands"
		switch {
		case calls == 0:
			bad(key, "lib/query.Is is never called: "+label+" is not evaluated by Is any more")
		case len(argErr) > 0:
			bad(key, "Is does not receive (value of expr.LHS, value of expr.RHS): "+strings.Join(dedup(argErr), ", ")+" — IS is not symmetric (NULL IS UNKNOWN is TRUE, UNKNOWN IS NULL is FALSE)")
		default:
			c.Ok(key, c.FnPos(fn), "Is(value of expr.LHS, value of expr.RHS)")
		}
		for _, k := range tconsts {
			t := k.Name()
			want := t
			if neg != 0 {
				want = kleeneNot(t)
			}
			wantS := "&value.NewTernary(" + ternaryConstString(c, want) + ")"
			res := keysOf(got[t])
			key := fmt.Sprintf("%s[%s: Is=%s]", base, label, t)
			if isRange != nil && !isRange[t] {
				c.Ok(key, c.FnPos(fn), "vacuous: no cell of the table of lib/query.Is yields "+t)
				continue
			}
			if len(res) == 1 && res[0] == wantS {
				c.Ok(key, c.FnPos(fn), "= "+want)
			} else {
				bad(key, fmt.Sprintf("with Is(lhs, rhs) = %s, %s evaluates to %v; documented %s (%s)", t, label, res, wantS,
					map[bool]string{true: "IS NOT is the Kleene negation of IS", false: "IS returns the result of Is"}[neg != 0]))
			}
		}
	}
}
