package rules

import (
	"fmt"
	"go/token"
	"sort"

	"golang.org/x/tools/go/ssa"

	"verif/checker/core"
)

// R-TBLNAME-1: the reference name of a stored table is derived in one way.
//
// The fields of a table that lives in a view map (temporary table, cached
// file, stdin) carry the name by which `name.column` finds them
// (HeaderField.View). Every statement that changes the table rewrites that name
// from the table's FileInfo (View.RestoreHeaderReferences, AddColumns), the
// loader decides from it whether the header must be renamed for the query, and
// ParseTableName derives the alias of the unaliased table the same way:
// FormatTableName. A site that creates such a table and names the fields from
// something else (the identifier as written) makes the qualifier of the same
// table change with the first data-changing statement.

const tblNameNormaliser = "lib/query.FormatTableName"

func init() {
	Register(&Rule{ID: "R-TBLNAME-1", Props: []string{"C05"}, Floor: 10,
		Doc: "one derivation of a table's reference name: (a) in every function of lib/query that hands a view to a view map (a parameter that reaches a *View parameter of a method of ViewMap: Set / Store, ReferenceScope.SetTemporaryTable / ReplaceTemporaryTable …) or that gives a view it has just allocated a FileInfo, and in every method that such a function calls on that view, each call that writes the reference name of header fields (an argument that reaches a store into HeaderField.View: NewHeader*, Header.Update and wrappers) for that view passes a name whose every origin is a result of FormatTableName (directly, through a helper that returns only such results, or through a parameter whose every caller passes one); a name written into the header of a provably different view (a copy fetched back from the map and renamed for the query) is not examined; (b) wherever in lib/query a header name is computed from FileInfo.Path, the path has gone through FormatTableName. With another derivation at one site (the identifier as written, the bare path) the fields of one table are found under one qualifier before and another after INSERT / UPDATE / REPLACE / DELETE / ALTER TABLE, and UPDATE … SET does not find them at all. Decides which function produced the name, not that FormatTableName strips the right thing",
		Controls: []string{"CtlDeclaredTableNamedByIdentifier", "CtlHeaderNamedByBarePath"},
		Run:      ruleTblName1})
}

type tnParam struct {
	fn  *ssa.Function
	idx int
}

func ruleTblName1(c *Ctx) {
	norm := c.Fn(tblNameNormaliser)
	if norm == nil {
		return
	}
	fns := c.P.FuncsIn(true, "lib/query")

	// ---- roles -------------------------------------------------------------
	// name writers: (fn, i) whose string parameter i reaches a store into HeaderField.View
	nameW := map[tnParam]bool{}
	// view stores: (fn, i) whose *View parameter i reaches a *View parameter of a method of ViewMap
	viewS := map[tnParam]bool{}
	for _, fn := range fns {
		if c.P.IsControl(fn) {
			continue
		}
		for i, p := range fn.Params {
			if isString(p.Type()) && storedIntoViewName(p) {
				nameW[tnParam{fn, i}] = true
			}
			if core.NamedOf(p.Type()) == "lib/query.View" && fn.Signature.Recv() != nil &&
				core.NamedOf(fn.Signature.Recv().Type()) == "lib/query.ViewMap" && i > 0 {
				viewS[tnParam{fn, i}] = true
			}
		}
	}
	if len(nameW) == 0 {
		c.Unknown("anchor: writers of HeaderField.View", "-", "cannot-analyse: no function of lib/query stores a string parameter into HeaderField.View")
		return
	}
	if len(viewS) == 0 {
		c.Unknown("anchor: methods of ViewMap that take a *View", "-", "cannot-analyse: no method of lib/query.ViewMap takes a *View")
		return
	}
	// wrappers: a parameter passed on unchanged at such a position
	for changed := true; changed; {
		changed = false
		for _, fn := range fns {
			if c.P.IsControl(fn) {
				continue
			}
			for _, call := range core.Calls(fn) {
				callee := core.StaticCallee(call)
				if callee == nil {
					continue
				}
				for ai, a := range call.Common().Args {
					for _, o := range core.Origins(a, false) {
						p, ok := o.(*ssa.Parameter)
						if !ok || p.Parent() != fn {
							continue
						}
						pi := paramIndex(fn, p)
						if pi < 0 {
							continue
						}
						if nameW[tnParam{callee, ai}] && !nameW[tnParam{fn, pi}] {
							nameW[tnParam{fn, pi}] = true
							changed = true
						}
						if viewS[tnParam{callee, ai}] && !viewS[tnParam{fn, pi}] {
							viewS[tnParam{fn, pi}] = true
							changed = true
						}
					}
				}
			}
		}
	}

	t := &tblName{c: c, norm: norm, nameW: nameW, viewS: viewS, retMemo: map[*ssa.Function]int{}}

	// ---- (a) table views ----------------------------------------------------
	type tableFn struct {
		fn    *ssa.Function
		views map[ssa.Value]bool // origins of the table views of fn
		why   string
		tied  bool // only calls whose header provably belongs to the view (methods called on a table view)
	}
	var work []*tableFn
	byFn := map[*ssa.Function]*tableFn{}
	add := func(fn *ssa.Function, v ssa.Value, why string, tied bool) {
		tf := byFn[fn]
		if tf == nil {
			tf = &tableFn{fn: fn, views: map[ssa.Value]bool{}, why: why, tied: tied}
			byFn[fn] = tf
			work = append(work, tf)
		}
		if !tied {
			tf.tied = false
		}
		for _, o := range core.Origins(v, false) {
			tf.views[o] = true
		}
	}
	for _, fn := range fns {
		for _, call := range core.Calls(fn) {
			callee := core.StaticCallee(call)
			if callee == nil {
				continue
			}
			for ai, a := range call.Common().Args {
				if viewS[tnParam{callee, ai}] && !viewS[tnParam{fn, paramIndexOf(fn, a)}] {
					add(fn, a, "hands the view to "+c.P.FnRef(callee), false)
				}
			}
		}
		for _, b := range fn.Blocks {
			for _, in := range b.Instrs {
				st, ok := in.(*ssa.Store)
				if !ok || core.IsNilConst(st.Val) {
					continue
				}
				fa, ok := st.Addr.(*ssa.FieldAddr)
				if !ok || core.FieldOwner(fa) != "lib/query.View.FileInfo" {
					continue
				}
				if t.fresh(fa.X) {
					add(fn, fa.X, "gives the view it allocates a FileInfo", false)
				}
			}
		}
	}
	// methods (and functions) of lib/query called with a table view: the calls on that parameter's header
	for i := 0; i < len(work); i++ {
		tf := work[i]
		if tf.tied {
			continue
		}
		for _, call := range core.Calls(tf.fn) {
			callee := core.StaticCallee(call)
			if callee == nil || callee.Blocks == nil || !c.P.InPkg(callee, "lib/query") && !c.P.IsControl(callee) {
				continue
			}
			for ai, a := range call.Common().Args {
				if ai >= len(callee.Params) || core.NamedOf(a.Type()) != "lib/query.View" || viewS[tnParam{callee, ai}] {
					continue
				}
				if t.intersects(a, tf.views) && byFn[callee] == nil {
					add(callee, callee.Params[ai], "is called by "+c.P.Name(tf.fn)+" on the table it stores", true)
				}
			}
		}
	}
	sort.SliceStable(work, func(i, j int) bool { return c.P.Name(work[i].fn) < c.P.Name(work[j].fn) })

	examined := map[ssa.CallInstruction]bool{}
	n := 0
	for _, tf := range work {
		k := 0
		for _, call := range core.Calls(tf.fn) {
			callee := core.StaticCallee(call)
			if callee == nil {
				continue
			}
			for ai, a := range call.Common().Args {
				if !nameW[tnParam{callee, ai}] {
					continue
				}
				// whose header?
				owner, hasRecv := t.headerOwner(call)
				if hasRecv && (owner == nil || !t.intersects(owner, tf.views)) {
					continue // the header of another view, or a free-standing copy
				}
				if !hasRecv && tf.tied {
					continue
				}
				k++
				n++
				examined[call] = true
				c.Touch(tf.fn)
				key := c.KeyAt(tf.fn, fmt.Sprintf("reference name #%d passed to %s", k, c.P.FnRef(callee)))
				if bad := t.nameBad(a, tf.fn, 0, map[ssa.Value]bool{}); bad != "" {
					c.Bad(key, c.Pos(call), fmt.Sprintf("%s %s, and names its fields by %s: every statement that changes the table renames them with FormatTableName(FileInfo.Path) — the qualifier under which the same table's columns are found changes with the first INSERT / UPDATE / REPLACE / DELETE / ALTER TABLE (and UPDATE … SET looks them up under the derived name from the start)", c.P.Name(tf.fn), tf.why, bad))
				} else {
					c.Ok(key, c.Pos(call), "the name is a result of FormatTableName ("+tf.why+")")
				}
			}
		}
	}

	// ---- (b) a name computed from FileInfo.Path goes through FormatTableName ----
	for _, fn := range fns {
		k := 0
		for _, call := range core.Calls(fn) {
			callee := core.StaticCallee(call)
			if callee == nil {
				continue
			}
			for ai, a := range call.Common().Args {
				if !nameW[tnParam{callee, ai}] {
					continue
				}
				raw, via := t.pathDerived(a, map[ssa.Value]bool{})
				if !raw && !via {
					continue
				}
				k++
				if examined[call] && !raw {
					continue // already an obligation of (a)
				}
				n++
				c.Touch(fn)
				key := c.KeyAt(fn, fmt.Sprintf("name #%d computed from FileInfo.Path for %s", k, c.P.FnRef(callee)))
				if raw {
					c.Bad(key, c.Pos(call), "a header name is computed from FileInfo.Path without FormatTableName: the loader, ParseTableName and the other data-changing statements use FormatTableName(FileInfo.Path) for the same table, so its columns are found under another qualifier after this call")
				} else {
					c.Ok(key, c.Pos(call), "FileInfo.Path reaches the name only through FormatTableName")
				}
			}
		}
	}
	c.Sites += n
}

type tblName struct {
	c       *Ctx
	norm    *ssa.Function
	nameW   map[tnParam]bool
	viewS   map[tnParam]bool
	retMemo map[*ssa.Function]int // 1 = returns only normalised names, 2 = not
}

func paramIndex(fn *ssa.Function, p *ssa.Parameter) int {
	for i, q := range fn.Params {
		if q == p {
			return i
		}
	}
	return -1
}

// paramIndexOf: the index of the parameter v is (only) an alias of, else -1
func paramIndexOf(fn *ssa.Function, v ssa.Value) int {
	os := core.Origins(v, false)
	if len(os) != 1 {
		return -1
	}
	if p, ok := os[0].(*ssa.Parameter); ok {
		return paramIndex(fn, p)
	}
	return -1
}

// storedIntoViewName: the parameter is stored into a field View of lib/query.HeaderField
func storedIntoViewName(p *ssa.Parameter) bool {
	refs := p.Referrers()
	if refs == nil {
		return false
	}
	for _, r := range *refs {
		st, ok := r.(*ssa.Store)
		if !ok || st.Val != ssa.Value(p) {
			continue
		}
		if fa, ok := st.Addr.(*ssa.FieldAddr); ok && core.FieldOwner(fa) == "lib/query.HeaderField.View" {
			return true
		}
	}
	return false
}

// fresh: the view is allocated in this function (new / &View{} / a constructor that returns only allocations)
func (t *tblName) fresh(v ssa.Value) bool {
	os := core.Origins(v, false)
	if len(os) == 0 {
		return false
	}
	for _, o := range os {
		switch x := o.(type) {
		case *ssa.Alloc:
		case *ssa.Call:
			callee := core.StaticCallee(x)
			if callee == nil || callee.Blocks == nil {
				return false
			}
			rs := core.ReturnedValues(callee, 0)
			if len(rs) == 0 {
				return false
			}
			for _, r := range rs {
				if _, ok := r.(*ssa.Alloc); !ok {
					return false
				}
			}
		default:
			return false
		}
	}
	return true
}

func (t *tblName) intersects(v ssa.Value, set map[ssa.Value]bool) bool {
	for _, o := range core.Origins(v, false) {
		if set[o] {
			return true
		}
	}
	return false
}

// headerOwner classifies the header a name is written into by a call with a Header receiver:
//   - (view, true)  the header was read from the field Header of `view` (view.Header.Update(…)), or is a
//     free-standing header that this function stores into view.Header;
//   - (nil, true)   a free-standing header (a copy kept in a map, a local) that is attached to no view here;
//   - (nil, false)  the call has no Header receiver (NewHeader: the header is built first and attached later).
func (t *tblName) headerOwner(call ssa.CallInstruction) (owner ssa.Value, hasRecv bool) {
	args := call.Common().Args
	if len(args) == 0 || core.NamedOf(args[0].Type()) != "lib/query.Header" {
		return nil, false
	}
	for _, o := range core.Origins(args[0], true) {
		if u, ok := o.(*ssa.UnOp); ok && u.Op == token.MUL {
			if fa, ok := u.X.(*ssa.FieldAddr); ok && core.FieldOwner(fa) == "lib/query.View.Header" {
				return fa.X, true
			}
		}
		if refs := o.Referrers(); refs != nil {
			for _, r := range *refs {
				if st, ok := r.(*ssa.Store); ok && st.Val == o {
					if fa, ok := st.Addr.(*ssa.FieldAddr); ok && core.FieldOwner(fa) == "lib/query.View.Header" {
						return fa.X, true
					}
				}
			}
		}
	}
	return nil, true
}

// nameBad: "" when every origin of the name is a result of FormatTableName; else a description of one that is not
func (t *tblName) nameBad(v ssa.Value, in *ssa.Function, depth int, seen map[ssa.Value]bool) string {
	for _, o := range core.Origins(v, false) {
		if seen[o] {
			continue
		}
		seen[o] = true
		switch x := o.(type) {
		case *ssa.Call:
			callee := core.StaticCallee(x)
			if callee == t.norm {
				continue
			}
			if callee != nil && callee.Blocks != nil && t.returnsNormalised(callee) {
				continue
			}
			return "the result of " + t.c.P.CalleeName(x) + " (" + t.c.Pos(x) + ")"
		case *ssa.Parameter:
			pi := paramIndex(in, x)
			edges := t.c.P.RealCallers(in)
			if pi < 0 || depth >= 2 || len(edges) == 0 {
				return "its parameter " + x.Name()
			}
			for _, e := range edges {
				if e.Site == nil || pi >= len(e.Site.Common().Args) || e.Site.Common().IsInvoke() {
					return "its parameter " + x.Name() + " (a caller cannot be followed)"
				}
				if bad := t.nameBad(e.Site.Common().Args[pi], e.Caller.Func, depth+1, seen); bad != "" {
					return "its parameter " + x.Name() + ", for which " + t.c.P.Name(e.Caller.Func) + " passes " + bad
				}
			}
		default:
			return describeNameSource(o)
		}
	}
	return ""
}

func describeNameSource(o ssa.Value) string {
	if u, ok := o.(*ssa.UnOp); ok && u.Op == token.MUL {
		if fo := core.FieldOwner(u.X); fo != "" {
			return "the field " + fo + " as it is"
		}
	}
	if f, ok := o.(*ssa.Field); ok {
		return "the field " + core.FieldOwner(f) + " as it is"
	}
	if k, ok := o.(*ssa.Const); ok {
		return "the constant " + k.String()
	}
	return "a value that is not a result of FormatTableName (" + o.String() + ")"
}

func (t *tblName) returnsNormalised(fn *ssa.Function) bool {
	if m := t.retMemo[fn]; m != 0 {
		return m == 1
	}
	t.retMemo[fn] = 2
	if fn.Signature.Results().Len() != 1 || !isString(fn.Signature.Results().At(0).Type()) {
		return false
	}
	rs := core.ReturnedValues(fn, 0)
	if len(rs) == 0 {
		return false
	}
	for _, r := range rs {
		call, ok := r.(*ssa.Call)
		if !ok {
			return false
		}
		callee := core.StaticCallee(call)
		if callee != t.norm && (callee == nil || callee.Blocks == nil || !t.returnsNormalised(callee)) {
			return false
		}
	}
	t.retMemo[fn] = 1
	return true
}

// pathDerived walks back from a name through string operations and calls other than FormatTableName:
// raw = a load of FileInfo.Path is reached without passing FormatTableName; via = it is reached through it.
func (t *tblName) pathDerived(v ssa.Value, seen map[ssa.Value]bool) (raw, via bool) {
	for _, o := range core.Origins(v, true) {
		if seen[o] {
			continue
		}
		seen[o] = true
		switch x := o.(type) {
		case *ssa.UnOp:
			if x.Op == token.MUL && core.FieldOwner(x.X) == "lib/query.FileInfo.Path" {
				raw = true
			}
		case *ssa.Field:
			if core.FieldOwner(x) == "lib/query.FileInfo.Path" {
				raw = true
			}
		case *ssa.BinOp:
			r1, v1 := t.pathDerived(x.X, seen)
			r2, v2 := t.pathDerived(x.Y, seen)
			raw, via = raw || r1 || r2, via || v1 || v2
		case *ssa.Convert:
			r1, v1 := t.pathDerived(x.X, seen)
			raw, via = raw || r1, via || v1
		case *ssa.Call:
			callee := core.StaticCallee(x)
			norm := callee == t.norm || callee != nil && callee.Blocks != nil && t.returnsNormalised(callee)
			for _, a := range x.Call.Args {
				if !isString(a.Type()) {
					continue
				}
				r1, v1 := t.pathDerived(a, seen)
				if norm {
					via = via || r1 || v1
				} else {
					raw, via = raw || r1, via || v1
				}
			}
		}
	}
	return
}
