package rules

import (
	"strings"

	"golang.org/x/tools/go/ssa"

	"verif/checker/core"
)

// R-SCP-7 — a declaration may be refused as "redeclared" only because of the
// innermost block. A redeclaration guard that looks through the whole chain of
// blocks forbids shadowing an outer object of the same name (and makes a
// recursive function that declares a local fail on its second invocation).
// Added after seeded change C15-2 (DESIGN §8).

func init() {
	Register(&Rule{ID: "R-SCP-7", Props: []string{"C15"}, Floor: 4,
		Doc:      "every `… is redeclared` error of lib/query is guarded only by tests on a single block's map: no guard that dominates the construction of a *RedeclaredError calls a function that walks ReferenceScope.Blocks (directly or through callees) — declarations shadow outer objects instead of colliding with them",
		Controls: []string{"CtlRedeclaredAcrossBlocks"},
		Run:      ruleScp7})
}

// walksBlocks: fn indexes the Blocks slice of a ReferenceScope with a
// non-constant index (iterates the chain), directly or via callees (depth ≤ 2).
func walksBlocks(c *Ctx, fn *ssa.Function, depth int, seen map[*ssa.Function]bool) bool {
	if fn == nil || fn.Blocks == nil || seen[fn] || depth > 2 {
		return false
	}
	seen[fn] = true
	for _, b := range fn.Blocks {
		for _, in := range b.Instrs {
			switch x := in.(type) {
			case *ssa.IndexAddr:
				if _, isConst := core.ConstInt(x.Index); isConst {
					continue
				}
				for _, o := range core.Origins(x.X, true) {
					if u, ok := o.(*ssa.UnOp); ok {
						if fa, ok := u.X.(*ssa.FieldAddr); ok && strings.HasSuffix(core.FieldOwner(fa), "Scope.Blocks") {
							return true
						}
						if fa, ok := u.X.(*ssa.FieldAddr); ok && c.P.IsControl(fn) && core.FieldName(fa) == "blocks" {
							return true
						}
					}
				}
			case ssa.CallInstruction:
				if callee := x.Common().StaticCallee(); callee != nil && (c.P.InPkg(callee, "lib/query") || c.P.IsControl(callee)) {
					if walksBlocks(c, callee, depth+1, seen) {
						return true
					}
				}
			}
		}
	}
	return false
}

func ruleScp7(c *Ctx) {
	for _, fn := range c.P.FuncsIn(true, "lib/query") {
		for _, call := range core.Calls(fn) {
			callee := call.Common().StaticCallee()
			if callee == nil || !strings.HasSuffix(callee.Name(), "RedeclaredError") {
				continue
			}
			c.Touch(fn)
			key := c.KeyAt(fn, "guard of "+callee.Name())
			bad := ""
			for _, f := range core.FactsAt(call.Block()) {
				var g *ssa.Call
				switch x := f.Cond.(type) {
				case *ssa.Call:
					g = x
				case *ssa.Extract:
					if cc, ok := x.Tuple.(*ssa.Call); ok {
						g = cc
					}
				case *ssa.UnOp:
					if cc, ok := x.X.(*ssa.Call); ok {
						g = cc
					}
				}
				if g == nil {
					continue
				}
				gf := g.Common().StaticCallee()
				if gf != nil && walksBlocks(c, gf, 0, map[*ssa.Function]bool{}) {
					bad = "the redeclaration test " + c.P.FnRef(gf) + " looks through every enclosing block"
				}
			}
			c.Check(bad == "", key, c.Pos(call), "refused only when the name exists in the current block",
				bad+": an object declared in an IF/CASE/WHILE block or a function body cannot shadow an outer object of the same name (and a recursive function declaring a local fails on its second invocation)")
		}
	}
}
