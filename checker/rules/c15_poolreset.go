package rules

import (
	"fmt"
	"go/token"
	"go/types"
	"sort"
	"strings"

	"golang.org/x/tools/go/ssa"

	"verif/checker/core"
)

// R-SCP-10 — a pooled scope is reset COMPLETELY on EVERY path before it goes
// back into the pool.
//
// R-SCP-6 checks that the putter calls Clear and that Clear touches every field
// somewhere. That does not exclude an early return inside Clear ("nothing to
// release when no alias was registered"): a node scope that holds inline tables
// (CTEs) but no alias would return to the pool dirty, and the next query level
// that draws it resolves `FROM t` to the previous statement's CTE.

func init() {
	Register(&Rule{ID: "R-SCP-10", Props: []string{"C03", "C15", "C14"}, Floor: 6,
		Doc:      "for every struct type of lib/query whose values are handed to (*sync.Pool).Put (found from the Put sites) and every method of that type which the putting function calls on the value before the Put (its reset method): for EVERY field of the struct (enumerated from the type) no return of the reset method is reachable from its entry without passing a reset of that field — a call on the field (or its embedded container) whose callee reaches a map delete, builtin clear, a range-delete loop over the field, a store of a fresh/zero value through a pointer receiver, or a private helper method that must-resets the field itself; an edge on which a test shows the field empty (len(field) == 0) counts as reset of that field only",
		Controls: []string{"CtlPoolResetEarlyReturn", "CtlPoolResetNewField"},
		Run:      ruleScp10})
}

type prType struct {
	named  *types.Named
	st     *types.Struct
	name   string
	resets map[*ssa.Function]bool // reset methods called before a Put
	putIn  []*ssa.Function
}

// prPooled finds the pooled struct types of lib/query (and the control package).
func prPooled(c *Ctx) []*prType {
	byName := map[string]*prType{}
	for _, fn := range c.P.FuncsIn(true, "lib/query") {
		for _, put := range c.P.CallsNamed(fn, "(*sync.Pool).Put") {
			args := put.Common().Args
			v := scpResolveCell(core.Strip(args[len(args)-1]))
			t := v.Type()
			if p, ok := t.Underlying().(*types.Pointer); ok {
				t = p.Elem()
			}
			nt, ok := t.(*types.Named)
			if !ok {
				continue
			}
			st, ok := nt.Underlying().(*types.Struct)
			if !ok {
				continue
			}
			// only types declared in the analysed repository (a pooled bytes.Buffer is not ours to judge)
			if nt.Obj().Pkg() == nil || !strings.HasPrefix(nt.Obj().Pkg().Path(), core.ModPath) {
				continue
			}
			name := core.NamedOf(nt)
			pt := byName[name]
			if pt == nil {
				pt = &prType{named: nt, st: st, name: name, resets: map[*ssa.Function]bool{}}
				byName[name] = pt
			}
			pt.putIn = append(pt.putIn, fn)
			// methods of the type called on the put value in this function, before the Put
			for _, call := range core.Calls(fn) {
				g := core.StaticCallee(call)
				if g == nil || g.Blocks == nil || g.Signature.Recv() == nil || len(call.Common().Args) == 0 {
					continue
				}
				if core.NamedOf(g.Signature.Recv().Type()) != name {
					continue
				}
				if scpResolveCell(call.Common().Args[0]) != v {
					continue
				}
				if !core.Reachable(call.(ssa.Instruction), put.(ssa.Instruction), nil) {
					continue
				}
				pt.resets[g] = true
			}
		}
	}
	var names []string
	for n := range byName {
		names = append(names, n)
	}
	sort.Strings(names)
	var out []*prType
	for _, n := range names {
		out = append(out, byName[n])
	}
	return out
}

// prFieldOf: v is (derived from) field #idx of the receiver recv of fn: a load
// or address of recv.f, of the spilled copy of a by-value receiver, or of
// something embedded in that field.
func prFieldOf(v ssa.Value, recv *ssa.Parameter) (int, bool) {
	isRecv := func(b ssa.Value) bool {
		if b == ssa.Value(recv) {
			return true
		}
		if al, ok := b.(*ssa.Alloc); ok {
			n, good := 0, true
			for _, r := range *al.Referrers() {
				if st, ok := r.(*ssa.Store); ok && st.Addr == ssa.Value(al) {
					n++
					good = good && st.Val == ssa.Value(recv)
				}
			}
			return n == 1 && good
		}
		return false
	}
	for d := 0; d < 8 && v != nil; d++ {
		switch x := v.(type) {
		case *ssa.Field:
			if isRecv(x.X) {
				return x.Field, true
			}
			v = x.X
		case *ssa.FieldAddr:
			if isRecv(x.X) {
				return x.Field, true
			}
			v = x.X
		case *ssa.UnOp:
			if x.Op != token.MUL {
				return 0, false
			}
			v = x.X
		case *ssa.ChangeType:
			v = x.X
		case *ssa.MakeInterface:
			v = x.X
		default:
			return 0, false
		}
	}
	return 0, false
}

type prAnalysis struct {
	c    *Ctx
	pt   *prType
	memo map[string]bool
	busy map[string]bool
}

// resetEvent: instruction in of fn (receiver recv) resets field idx.
func (a *prAnalysis) resetEvent(fn *ssa.Function, recv *ssa.Parameter, in ssa.Instruction, idx int, depth int) bool {
	switch x := in.(type) {
	case *ssa.Store:
		// only through a pointer receiver does a store reach the pooled object
		if _, isPtr := recv.Type().Underlying().(*types.Pointer); !isPtr {
			return false
		}
		fa, ok := x.Addr.(*ssa.FieldAddr)
		if !ok || fa.X != ssa.Value(recv) || fa.Field != idx {
			return false
		}
		switch v := x.Val.(type) {
		case *ssa.Const:
			return true
		case *ssa.MakeMap, *ssa.MakeSlice, *ssa.Alloc:
			return true
		case *ssa.Call:
			_ = v
			return true // a freshly constructed container
		}
		return false
	case *ssa.Range:
		// for k := range field { delete(field, k) }
		if i, ok := prFieldOf(x.X, recv); ok && i == idx {
			for _, call := range core.Calls(fn) {
				if a.c.P.CalleeName(call) == "builtin:delete" && len(call.Common().Args) > 0 {
					if j, ok := prFieldOf(call.Common().Args[0], recv); ok && j == idx {
						return true
					}
				}
			}
		}
		return false
	case ssa.CallInstruction:
		com := x.Common()
		if _, isDefer := in.(*ssa.Defer); isDefer {
			return false
		}
		if len(com.Args) == 0 {
			return false
		}
		name := a.c.P.CalleeName(x)
		if name == "builtin:clear" {
			i, ok := prFieldOf(com.Args[0], recv)
			return ok && i == idx
		}
		g := com.StaticCallee()
		if g == nil {
			return false
		}
		// a call on the field itself (or its embedded container) that empties it
		if i, ok := prFieldOf(com.Args[0], recv); ok {
			return i == idx && scpReachesMapDelete(a.c.P, g)
		}
		// a private helper method on the same receiver that must-reset the field
		if depth < 2 && g.Blocks != nil && g != fn && len(g.Params) > 0 && scpResolveCell(com.Args[0]) == ssa.Value(recv) && core.NamedOf(g.Params[0].Type()) == a.pt.name {
			return a.mustReset(g, idx, depth+1)
		}
	}
	return false
}

// emptyEdge: the edge b→b.Succs[k] is taken only when field idx is empty.
func prEmptyEdge(b *ssa.BasicBlock, k int, recv *ssa.Parameter, idx int) bool {
	if len(b.Instrs) == 0 || len(b.Succs) != 2 {
		return false
	}
	iff, ok := b.Instrs[len(b.Instrs)-1].(*ssa.If)
	if !ok {
		return false
	}
	bin, ok := iff.Cond.(*ssa.BinOp)
	if !ok {
		return false
	}
	lenOf := func(v ssa.Value) bool {
		call, ok := v.(*ssa.Call)
		if !ok {
			return false
		}
		bi, ok := call.Call.Value.(*ssa.Builtin)
		if !ok || bi.Name() != "len" || len(call.Call.Args) != 1 {
			return false
		}
		i, ok := prFieldOf(call.Call.Args[0], recv)
		return ok && i == idx
	}
	op := bin.Op
	var n int64
	switch {
	case lenOf(bin.X):
		c, ok := core.ConstInt(bin.Y)
		if !ok {
			return false
		}
		n = c
	case lenOf(bin.Y):
		c, ok := core.ConstInt(bin.X)
		if !ok {
			return false
		}
		n = c
		// mirror: c op len  ≡  len op' c
		switch op {
		case token.LSS:
			op = token.GTR
		case token.GTR:
			op = token.LSS
		case token.LEQ:
			op = token.GEQ
		case token.GEQ:
			op = token.LEQ
		}
	default:
		return false
	}
	// which edge means len == 0 ?
	emptyOnTrue := (op == token.EQL && n == 0) || (op == token.LSS && n == 1) || (op == token.LEQ && n == 0)
	emptyOnFalse := (op == token.NEQ && n == 0) || (op == token.GTR && n == 0) || (op == token.GEQ && n == 1)
	return (emptyOnTrue && k == 0) || (emptyOnFalse && k == 1)
}

// escapes returns a return of fn reachable from the entry without a reset of field idx (nil if none).
func (a *prAnalysis) escapes(fn *ssa.Function, idx int, depth int) *ssa.Return {
	if len(fn.Blocks) == 0 || len(fn.Params) == 0 {
		return nil
	}
	recv := fn.Params[0]
	seen := map[*ssa.BasicBlock]bool{}
	var found *ssa.Return
	var walk func(b *ssa.BasicBlock)
	walk = func(b *ssa.BasicBlock) {
		if seen[b] || found != nil {
			return
		}
		seen[b] = true
		for _, in := range b.Instrs {
			if a.resetEvent(fn, recv, in, idx, depth) {
				return
			}
			if r, ok := in.(*ssa.Return); ok {
				found = r
				return
			}
		}
		for k, s := range b.Succs {
			if prEmptyEdge(b, k, recv, idx) {
				continue
			}
			walk(s)
		}
	}
	walk(fn.Blocks[0])
	return found
}

func (a *prAnalysis) mustReset(g *ssa.Function, idx int, depth int) bool {
	key := fmt.Sprintf("%p/%d", g, idx)
	if v, ok := a.memo[key]; ok {
		return v
	}
	if a.busy[key] {
		return false
	}
	a.busy[key] = true
	res := a.escapes(g, idx, depth) == nil && len(core.Returns(g)) > 0
	delete(a.busy, key)
	a.memo[key] = res
	return res
}

func ruleScp10(c *Ctx) {
	start := len(c.Obs)
	real := 0
	for _, pt := range prPooled(c) {
		var ms []*ssa.Function
		for m := range pt.resets {
			ms = append(ms, m)
		}
		sortFuncs(c.P, ms)
		if len(ms) == 0 {
			continue // pooled without a reset method: not a scope-like container (R-SCP-6 / R-POOL own that)
		}
		for _, m := range ms {
			if !c.P.IsControl(m) {
				real++
			}
			c.Touch(m)
			a := &prAnalysis{c: c, pt: pt, memo: map[string]bool{}, busy: map[string]bool{}}
			for i := 0; i < pt.st.NumFields(); i++ {
				f := pt.st.Field(i)
				key := c.KeyAt(m, "resets field "+f.Name()+" on every path")
				if len(core.Returns(m)) == 0 {
					c.Unknown(key, c.FnPos(m), "the reset method never returns")
					continue
				}
				if r := a.escapes(m, i, 0); r != nil {
					c.Bad(key, c.Pos(r), fmt.Sprintf("the return at %s is reachable from the entry of %s without a reset of field %s (%s): a %s that goes back into the pool through %s keeps its %s, and the next owner that draws it from the pool starts with the previous owner's entries — a name declared by a finished query/block resolves in an unrelated later one", c.Pos(r), c.P.Name(m), f.Name(), types.TypeString(f.Type(), func(p *types.Package) string { return p.Name() }), strings.TrimPrefix(pt.name, "lib/query."), prNames(c, pt.putIn), f.Name()))
				} else {
					c.Ok(key, c.FnPos(m), "every path from the entry to a return passes a reset of "+f.Name())
				}
			}
		}
	}
	if real == 0 {
		c.Unknown("anchor:pooled scope reset methods", "-", "cannot-analyse: no struct type of lib/query is handed to (*sync.Pool).Put after a call of one of its own methods")
	}
	c.negControls(start, "OkPoolResetHelper", "OkPoolResetEmptyShortcut")
}

func prNames(c *Ctx, fns []*ssa.Function) string {
	set := map[string]bool{}
	for _, f := range fns {
		set[f.Name()] = true
	}
	var out []string
	for n := range set {
		out = append(out, n)
	}
	sort.Strings(out)
	return strings.Join(out, ", ")
}
