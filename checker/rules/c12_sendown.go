package rules

import (
	"fmt"
	"go/token"
	"go/types"
	"sort"

	"golang.org/x/tools/go/ssa"

	"verif/checker/core"
)

// C12 / C13 — R-PAR-25: sending a slice hands its backing array over.
//
// A channel send synchronises the sender's writes *before* the send with the
// receiver; it says nothing about what the sender does to the same backing
// array afterwards. The loaders send one freshly read row per send. A sender
// that recycles the buffer it has sent — the reset-to-empty idiom `buf =
// buf[:0]` on the variable (or on one of the slots of the buffer array) whose
// value goes into the channel — refills memory the receiver may still be
// reading (a buffered channel, or a direct hand-off to a waiting receiver, lets
// the sender run ahead), so what the receiver sees depends on the schedule.

func init() {
	Register(&Rule{ID: "R-PAR-25", Props: []string{"C12", "C13"}, Floor: 1,
		Doc:      "ownership transfer on send: for every channel send (statement or select case) in lib/query whose value is a slice, the buffer it comes from — followed through φ, re-slicing, append, local and captured variables and the slots of a local array of buffers to the variable cells, make sites and allocating appends behind it — is never reset for reuse: no `x[:0]` anywhere in the enclosing function and its closures is applied to a value from the same cell or make site (a fresh make / a freshly returned row per send is the accepted spelling)",
		Controls: []string{"CtlSendRecycledBuffer", "CtlSendDoubleBuffer"},
		Run:      rulePar25})
}

// outermost enclosing function
func outerFn(f *ssa.Function) *ssa.Function {
	for f.Parent() != nil {
		f = f.Parent()
	}
	return f
}

// resolveFreeVar: the cell of the enclosing function a captured variable stands for.
func resolveFreeVar(fv *ssa.FreeVar) ssa.Value {
	fn := fv.Parent()
	idx := -1
	for i, x := range fn.FreeVars {
		if x == fv {
			idx = i
		}
	}
	par := fn.Parent()
	if idx < 0 || par == nil {
		return fv
	}
	for _, b := range par.Blocks {
		for _, in := range b.Instrs {
			if mc, ok := in.(*ssa.MakeClosure); ok && mc.Fn == fn && idx < len(mc.Bindings) {
				if pfv, ok := mc.Bindings[idx].(*ssa.FreeVar); ok {
					return resolveFreeVar(pfv)
				}
				return mc.Bindings[idx]
			}
		}
	}
	return fv
}

// bufRoots: the variable cells and make sites a slice value's backing array may come from.
func bufRoots(v ssa.Value, out map[ssa.Value]bool, seen map[ssa.Value]bool, d int) {
	if v == nil || seen[v] || d > 30 {
		return
	}
	seen[v] = true
	switch x := v.(type) {
	case *ssa.Phi:
		for _, e := range x.Edges {
			bufRoots(e, out, seen, d+1)
		}
	case *ssa.Slice:
		if _, isPtr := x.X.Type().Underlying().(*types.Pointer); isPtr {
			addrRoots(x.X, out, seen, d+1) // arr[:]
		} else {
			bufRoots(x.X, out, seen, d+1)
		}
	case *ssa.ChangeType:
		bufRoots(x.X, out, seen, d+1)
	case *ssa.Call:
		if bi, ok := x.Call.Value.(*ssa.Builtin); ok && bi.Name() == "append" {
			out[x] = true // an append may allocate: it is a make site of its result (a nil-initialised buffer has no other)
			bufRoots(x.Call.Args[0], out, seen, d+1)
		}
	case *ssa.MakeSlice:
		out[x] = true
	case *ssa.Index:
		bufRoots(x.X, out, seen, d+1)
	case *ssa.UnOp:
		if x.Op == token.MUL {
			addrRoots(x.X, out, seen, d+1)
		}
	}
}

func addrRoots(a ssa.Value, out map[ssa.Value]bool, seen map[ssa.Value]bool, d int) {
	if a == nil || d > 30 {
		return
	}
	switch x := a.(type) {
	case *ssa.Alloc:
		out[x] = true
		// what the cell holds (a local variable that was spilled)
		if vals, _ := core.StoresTo(x); len(vals) > 0 {
			for _, sv := range vals {
				if _, isSlice := sv.Type().Underlying().(*types.Slice); isSlice {
					bufRoots(sv, out, seen, d+1)
				}
			}
		}
	case *ssa.FreeVar:
		r := resolveFreeVar(x)
		if r == x {
			out[x] = true
			return
		}
		addrRoots(r, out, seen, d+1)
	case *ssa.IndexAddr:
		if _, isPtr := x.X.Type().Underlying().(*types.Pointer); isPtr {
			addrRoots(x.X, out, seen, d+1) // a slot of an array variable
		} else {
			bufRoots(x.X, out, seen, d+1) // a slot of a slice of buffers
		}
	case *ssa.FieldAddr:
		addrRoots(x.X, out, seen, d+1)
	case *ssa.Phi:
		for _, e := range x.Edges {
			addrRoots(e, out, seen, d+1)
		}
	}
}

func rootsOf(v ssa.Value) map[ssa.Value]bool {
	out := map[ssa.Value]bool{}
	bufRoots(v, out, map[ssa.Value]bool{}, 0)
	return out
}

func rulePar25(c *Ctx) {
	type sendSite struct {
		in  ssa.Instruction
		val ssa.Value
		fn  *ssa.Function
	}
	var sends []sendSite
	for _, fn := range c.P.SrcFuncs() {
		if !inQueryOrControl(c.P, fn) {
			continue
		}
		for _, b := range fn.Blocks {
			for _, in := range b.Instrs {
				switch x := in.(type) {
				case *ssa.Send:
					sends = append(sends, sendSite{in, x.X, fn})
				case *ssa.Select:
					for _, st := range x.States {
						if st.Dir == types.SendOnly {
							sends = append(sends, sendSite{in, st.Send, fn})
						}
					}
				}
			}
		}
	}
	n := map[string]int{}
	for _, s := range sends {
		if _, isSlice := s.val.Type().Underlying().(*types.Slice); !isSlice {
			continue
		}
		c.Touch(s.fn)
		key := c.KeyAt(s.fn, "slice sent over a channel is not recycled by the sender")
		n[key]++
		if n[key] > 1 {
			key = fmt.Sprintf("%s #%d", key, n[key])
		}
		roots := rootsOf(s.val)
		var resets []ssa.Instruction
		for _, f := range regionFuncs(outerFn(s.fn)) {
			for _, b := range f.Blocks {
				for _, in := range b.Instrs {
					sl, ok := in.(*ssa.Slice)
					if !ok || sl.High == nil {
						continue
					}
					if k, ok := core.ConstInt(sl.High); !ok || k != 0 {
						continue
					}
					if _, isSlice := sl.X.Type().Underlying().(*types.Slice); !isSlice {
						continue
					}
					for r := range rootsOf(sl.X) {
						if roots[r] {
							resets = append(resets, in)
							break
						}
					}
				}
			}
		}
		if len(resets) == 0 && len(roots) == 0 {
			c.Ok(key, c.Pos(s.in), "the sent slice is the result of a call, sent as it is: a fresh row per call (no variable or make site of the sender stands behind it)")
			continue
		}
		if len(resets) == 0 {
			c.Ok(key, c.Pos(s.in), fmt.Sprintf("no reset-to-empty of the sent buffer (%d cell(s)/make site(s) behind it) in %s and its closures", len(roots), c.P.Name(outerFn(s.fn))))
			continue
		}
		sort.Slice(resets, func(i, j int) bool { return c.Pos(resets[i]) < c.Pos(resets[j]) })
		c.Bad(key, c.Pos(s.in), fmt.Sprintf("the slice sent here shares its variable / make site with the buffer that is reset to length 0 at %s and filled again: the sender recycles a backing array it has handed to the receiver — the send orders only the writes before it, so with a buffered channel (or a direct hand-off to a waiting receiver) the sender overwrites elements the receiver is still reading; allocate a fresh buffer per send, or wait for the receiver to hand the buffer back", c.Pos(resets[0])))
	}
}
