package rules

import (
	"fmt"
	"go/types"
	"strings"

	"golang.org/x/tools/go/ssa"

	"verif/checker/core"
)

// R-LOCK-13 — a FROM clause that is loaded for update is locked before any of
// its members is evaluated (C09: no lost update).
//
// loadView walks the FROM tree left to right and hands forUpdate to each
// member in turn: a file is opened for update only when the walk reaches it,
// and a sub-query member is evaluated (Select, read locks that are released
// again) when the walk reaches it. A sub-query that stands before the target
// and reads it (`UPDATE t SET n = s.m FROM (SELECT MAX(n) + 1 AS m FROM t) s
// CROSS JOIN t`) therefore reads the target before it is locked; the
// update-load re-reads the file, and the value computed from the stale read is
// written over what another process committed in between. The order of the
// FROM clause is the user's, so the loader cannot be relied on to reach the
// target first: the statement has to lock the files of the clause before it
// hands the clause to the loader.

const lock13Eval = "lib/query.Select"

func init() {
	Register(&Rule{ID: "R-LOCK-13", Props: []string{"C09"}, Floor: 8,
		Doc:      "a FROM clause is locked before it is evaluated: in every data-changing entry function of lib/query (found by role as for R-LOCK-7: it calls a table loader that reaches lib/query.loadView with the constant true for forUpdate) an update-load whose table list derives from a parser.FromClause — the loader (loadView) walks that tree left to right, evaluating a sub-query member (it reaches lib/query.Select) when it comes to it and locking a file member only when it comes to it — is preceded on every path from the function entry by a call that only locks: its callee reaches lib/file.(*Container).CreateHandlerForUpdate with forUpdate = true and cannot reach loadView. Update-loads of a single table object (INSERT, REPLACE, ALTER TABLE: the grammar admits no sub-query or join there) are listed and discharged",
		Controls: []string{"CtlLock13FromClauseLoadedUnlocked"},
		Run:      ruleLock13})
}

// lock13IsFromClause: t is parser.FromClause or a pointer to it.
func lock13IsFromClause(t types.Type) bool {
	if pt, ok := t.Underlying().(*types.Pointer); ok {
		t = pt.Elem()
	}
	n, ok := t.(*types.Named)
	if !ok || n.Obj().Pkg() == nil {
		return false
	}
	return n.Obj().Name() == "FromClause" && strings.HasSuffix(n.Obj().Pkg().Path(), "lib/parser")
}

// lock13FromClause: v may be (a slice of) the table list of a FROM clause — one
// of its origins is a field of a parser.FromClause value.
func lock13FromClause(v ssa.Value) bool {
	for _, o := range core.Origins(v, true) {
		switch x := o.(type) {
		case *ssa.Field:
			if lock13IsFromClause(x.X.Type()) {
				return true
			}
		case *ssa.UnOp:
			if fa, ok := x.X.(*ssa.FieldAddr); ok && lock13IsFromClause(fa.X.Type()) {
				return true
			}
		}
	}
	return false
}

func ruleLock13(c *Ctx) {
	p := c.P
	prim, eval := c.Fn(lock7Prim), c.Fn(lock13Eval)
	if prim == nil || eval == nil || c.Fn(lock7LockPrim) == nil {
		return
	}
	evaluates := p.CanReach([]string{lock13Eval}, txnBarrier)[prim]
	all, _ := lock7Entries(c, "Lock13")
	entries := 0
	for _, e := range all {
		fn := e.fn
		if !p.IsControl(fn) {
			entries++
		}
		c.Touch(fn)
		ord := map[string]int{}
		for _, u := range e.mixed {
			c.Sites++
			from := false
			for _, a := range u.Call.Args {
				if lock13FromClause(a) {
					from = true
				}
			}
			label := txnCallLabel(p, u)
			if !from {
				c.Ok(txnOrd(ord, c.KeyAt(fn, label+"(forUpdate = true) of a single table object")), c.Pos(u), "the table argument does not derive from a parser.FromClause: one table object, no member that is evaluated before another is locked")
				continue
			}
			key := txnOrd(ord, c.KeyAt(fn, "the files of the FROM clause are locked before "+label+"(forUpdate = true) evaluates its members"))
			switch {
			case !evaluates:
				c.Ok(key, c.Pos(u), fmt.Sprintf("%s does not reach %s any more: the loader evaluates no query", lock7Prim, lock13Eval))
			case core.ReachesFromEntry(fn, u, e.isPure, nil):
				c.Bad(key, c.Pos(u), fmt.Sprintf("the table list of a FROM clause is handed to %s with forUpdate = true, and a path reaches this call without a call that only locks the files of the clause: %s loads the FROM tree left to right and opens a file for update only when it reaches it, so a sub-query member that stands before the target (FROM (SELECT … FROM t) s CROSS JOIN t) is evaluated — reads t under a read lock that is released again — before t is locked; the update-load re-reads t and the statement writes the value computed from the stale read over what another process committed in between (lost update)", label, lock7Prim))
			default:
				c.Ok(key, c.Pos(u), fmt.Sprintf("every path to it has passed a call that only locks (%s)", c.Pos(e.pure[0])))
			}
		}
	}
	if entries == 0 {
		c.Unknown("data-changing entry functions", "-", "cannot-analyse: no lib/query function calls a table loader with forUpdate = true any more")
	}
}
