package rules

// R-FMT-18 (round 10, seed C02-20): every import encoding that the detector can
// refine is refined before the file is decoded.

import (
	"fmt"
	"go/constant"
	"go/token"
	"go/types"
	"sort"
	"strings"

	"golang.org/x/tools/go/ssa"

	"verif/checker/core"
)

// FileInfo.Encoding is both what the file is decoded with and — through
// FileInfo.ExportOptions — what it is written back with at COMMIT. Some of the
// import encodings are not complete: AUTO, UTF8 (the mark is optional) and the
// generic UTF16 (byte order and mark are read from the head of the file) are
// resolved by go-text's detector into the encoding the file really has. A loader
// that lets one of them pass unresolved still reads the file (the decoders honour
// a mark), but the writer takes the generic value at its word: UTF16 is written
// big endian without a mark, UTF8 without one.
//
// Decided in two tables over the constants of go-text's Encoding type:
//
//	detector  for every go-text function D(reader, enc Encoding) (Encoding, error):
//	          D is evaluated with enc = e for each constant e (branches on enc are
//	          decided, the others are followed both ways); e "needs detection" iff
//	          some return that can carry a nil error yields a value that is not e
//	          (another constant, or a computed value). Derived from the source of the
//	          module, not frozen by name (AUTO, UTF8, UTF16 in go-text 1.6).
//	loaders   every lib/query function with a *FileInfo parameter that hands
//	          FileInfo.Encoding to a go-text decoder constructor (a function of a
//	          go-text package with an Encoding and an io.Reader parameter) is
//	          evaluated with FileInfo.Encoding = e for each e that needs detection:
//	          branches on the field are decided, stores into the field are followed
//	          (result of D → detected; constant → fixed), static callees that receive
//	          the FileInfo are summarised the same way (2 levels). The value that
//	          reaches the constructor is never the unresolved e.

func init() {
	Register(&Rule{ID: "R-FMT-18", Props: []string{"C02"}, Floor: 4,
		Doc:      "every import encoding the detector can refine is refined before the file is decoded (and so before FileInfo.Encoding is fed back to the writer): the set of go-text Encoding constants e for which a detector D(reader, e) can return something other than e is derived by evaluating D's source for every constant (AUTO, UTF8, UTF16 today); every lib/query function with a *FileInfo parameter that hands FileInfo.Encoding to a go-text decoder constructor (Encoding + io.Reader parameters) is evaluated with FileInfo.Encoding = e for each such e — branches on the field decided, stores followed, helpers that receive the FileInfo summarised (2 levels) — and the value that reaches the constructor is the detector's result or a constant the function stored, never the unresolved e; a fast path that skips the detection for some encodings (a switch on the field in front of it) is reported with the encoding that slips through",
		Controls: []string{"CtlDetectSkippedForGivenEncodings", "CtlDetectHelperFastPath"},
		Run:      ruleFmt18})
}

const fd18Field = "lib/query.FileInfo.Encoding"

const (
	fd18Unk = iota
	fd18Raw
	fd18Det
	fd18Fixed
)

type fd18Val struct {
	kind int
	k    int64
}

type fd18Engine struct {
	c         *Ctx
	e         int64
	detectors map[*ssa.Function]bool
	consumer  func(ssa.CallInstruction) int // index of the Encoding argument, -1
	sumMemo   map[string][]fd18Val
}

// fd18Run explores fn with the tracked object obj (a *FileInfo parameter, or an
// Encoding parameter when byValue) whose encoding is `in` on entry.
type fd18Run struct {
	eng        *fd18Engine
	fn         *ssa.Function
	obj        ssa.Value
	byValue    bool
	depth      int
	onConsumer func(call ssa.CallInstruction, v fd18Val, how string)
	onReturn   func(r *ssa.Return, cur fd18Val, resolve func(ssa.Value) fd18Val)
	seen       map[string]bool
	steps      int
}

type fd18Path struct {
	blk, pred *ssa.BasicBlock
	cur       fd18Val
	via       string // helper that left the field unresolved
	vals      map[ssa.Value]fd18Val
	phis      map[*ssa.Phi]ssa.Value
}

func (r *fd18Run) isObj(v ssa.Value) bool {
	if v == r.obj {
		return true
	}
	for _, o := range core.Origins(v, false) {
		if o == r.obj {
			return true
		}
	}
	return false
}

func (r *fd18Run) trackedField(addr ssa.Value) bool {
	fa, ok := addr.(*ssa.FieldAddr)
	return ok && !r.byValue && core.FieldOwner(fa) == fd18Field && r.isObj(fa.X)
}

func (p *fd18Path) key() string {
	var parts []string
	for v, a := range p.vals {
		parts = append(parts, fmt.Sprintf("%s=%d.%d", v.Name(), a.kind, a.k))
	}
	for ph, v := range p.phis {
		parts = append(parts, ph.Name()+"<"+v.Name())
	}
	sort.Strings(parts)
	pi := -1
	if p.pred != nil {
		pi = p.pred.Index
	}
	return fmt.Sprintf("%d|%d|%d.%d|%s|%s", p.blk.Index, pi, p.cur.kind, p.cur.k, p.via, strings.Join(parts, ","))
}

func (r *fd18Run) resolve(v ssa.Value, p *fd18Path) fd18Val {
	for i := 0; i < 8; i++ {
		ph, ok := v.(*ssa.Phi)
		if !ok {
			break
		}
		nv, ok := p.phis[ph]
		if !ok {
			return fd18Val{}
		}
		v = nv
	}
	switch x := v.(type) {
	case *ssa.ChangeType:
		return r.resolve(x.X, p)
	case *ssa.Convert:
		return r.resolve(x.X, p)
	}
	if a, ok := p.vals[v]; ok {
		return a
	}
	if r.byValue && v == r.obj {
		return fd18Val{kind: fd18Raw}
	}
	if k, ok := core.ConstInt(v); ok {
		return fd18Val{kind: fd18Fixed, k: k}
	}
	if call, idx, ok := core.ExtractOf(v); ok && idx == 0 {
		if f := core.StaticCallee(call); f != nil && r.eng.detectors[f] {
			return fd18Val{kind: fd18Det}
		}
	}
	return fd18Val{}
}

func (r *fd18Run) intOf(a fd18Val) (int64, bool) {
	switch a.kind {
	case fd18Raw:
		return r.eng.e, true
	case fd18Fixed:
		return a.k, true
	}
	return 0, false
}

func (r *fd18Run) run(in fd18Val) {
	r.seen = map[string]bool{}
	r.walk(fd18Path{blk: r.fn.Blocks[0], cur: in, vals: map[ssa.Value]fd18Val{}, phis: map[*ssa.Phi]ssa.Value{}})
}

func (r *fd18Run) walk(p fd18Path) {
	r.steps++
	if r.steps > 200000 {
		return
	}
	// φs of the block entered through pred
	vals := map[ssa.Value]fd18Val{}
	for k, v := range p.vals {
		vals[k] = v
	}
	phis := map[*ssa.Phi]ssa.Value{}
	for k, v := range p.phis {
		phis[k] = v
	}
	if p.pred != nil {
		idx := -1
		for i, q := range p.blk.Preds {
			if q == p.pred {
				idx = i
			}
		}
		for _, in := range p.blk.Instrs {
			ph, ok := in.(*ssa.Phi)
			if !ok {
				break
			}
			if idx >= 0 && (rt8IsBool(ph.Type()) || fd18IsEncoding(ph.Type())) {
				e0 := ph.Edges[idx]
				if q, ok := e0.(*ssa.Phi); ok {
					if rv, ok := p.phis[q]; ok {
						e0 = rv
					}
				}
				phis[ph] = e0
			}
		}
	}
	p.vals, p.phis = vals, phis
	k := p.key()
	if r.seen[k] {
		return
	}
	r.seen[k] = true

	// forks caused by helper summaries are handled by re-entering the rest of the block
	var exec func(start int, p fd18Path)
	exec = func(start int, p fd18Path) {
		for i := start; i < len(p.blk.Instrs); i++ {
			in := p.blk.Instrs[i]
			switch x := in.(type) {
			case *ssa.UnOp:
				if x.Op == token.MUL && r.trackedField(x.X) {
					p.vals[x] = p.cur
				}
			case *ssa.Store:
				if r.trackedField(x.Addr) {
					p.cur = r.resolve(x.Val, &p)
					p.via = ""
				}
			case *ssa.Return:
				if r.onReturn != nil {
					pp := p
					r.onReturn(x, p.cur, func(v ssa.Value) fd18Val { return r.resolve(v, &pp) })
				}
				return
			case *ssa.Call:
				if j := r.eng.consumer(x); j >= 0 && r.onConsumer != nil {
					r.onConsumer(x, r.resolve(x.Call.Args[j], &p), p.via)
				}
				if r.byValue || r.depth == 0 {
					continue
				}
				g := core.StaticCallee(x)
				if g == nil || g.Blocks == nil || !inModule(g) || r.eng.detectors[g] {
					continue
				}
				pi := -1
				for ai, a := range x.Call.Args {
					if ai < len(g.Params) && core.NamedOf(a.Type()) == "lib/query.FileInfo" && r.isObj(a) {
						pi = ai
					}
				}
				if pi < 0 || !fd18Touches(g, g.Params[pi], r.depth) {
					continue
				}
				outs := r.eng.summary(g, pi, p.cur, r.depth-1)
				for _, o := range outs {
					q := p
					q.vals = map[ssa.Value]fd18Val{}
					for k, v := range p.vals {
						q.vals[k] = v
					}
					q.cur = o
					if o.kind == fd18Raw {
						q.via = r.eng.c.P.FnRef(g)
					} else {
						q.via = ""
					}
					exec(i+1, q)
				}
				return
			case *ssa.If:
				decided, val := false, false
				if cmp, ok := x.Cond.(*ssa.BinOp); ok && (cmp.Op == token.EQL || cmp.Op == token.NEQ) {
					a, ok1 := r.intOf(r.resolve(cmp.X, &p))
					b, ok2 := r.intOf(r.resolve(cmp.Y, &p))
					if ok1 && ok2 {
						decided, val = true, (a == b) == (cmp.Op == token.EQL)
					}
				}
				for si, succ := range p.blk.Succs {
					if decided && (si == 0) != val {
						continue
					}
					r.walk(fd18Path{blk: succ, pred: p.blk, cur: p.cur, via: p.via, vals: p.vals, phis: p.phis})
				}
				return
			case *ssa.Jump:
				r.walk(fd18Path{blk: p.blk.Succs[0], pred: p.blk, cur: p.cur, via: p.via, vals: p.vals, phis: p.phis})
				return
			}
		}
	}
	exec(0, p)
}

func fd18IsEncoding(t types.Type) bool {
	return strings.HasSuffix(core.NamedOf(t), "go-text.Encoding")
}

// fd18Touches: g (or a static callee, depth levels) addresses the Encoding field
// of its parameter prm.
func fd18Touches(g *ssa.Function, prm ssa.Value, depth int) bool {
	for _, b := range g.Blocks {
		for _, in := range b.Instrs {
			if fa, ok := in.(*ssa.FieldAddr); ok && core.FieldOwner(fa) == fd18Field {
				for _, o := range append(core.Origins(fa.X, false), fa.X) {
					if o == prm {
						return true
					}
				}
			}
			if call, ok := in.(*ssa.Call); ok && depth > 0 {
				if h := core.StaticCallee(call); h != nil && h.Blocks != nil && inModule(h) && h != g {
					for ai, a := range call.Call.Args {
						if ai < len(h.Params) && a == prm && fd18Touches(h, h.Params[ai], depth-1) {
							return true
						}
					}
				}
			}
		}
	}
	return false
}

// fd18SuccessReturn: the return can carry a nil error.
func fd18SuccessReturn(fn *ssa.Function, r *ssa.Return) bool {
	idx := core.ErrorResultIndex(fn)
	if idx < 0 {
		return true
	}
	vals := core.ReturnOperand(r, idx)
	if len(vals) == 0 {
		return true
	}
	for _, v := range vals {
		if v == nil || core.ClassifyNil(v, r) != core.NonNil {
			return true
		}
	}
	return false
}

// summary: the values FileInfo.Encoding of parameter #pi of g can have at the
// success returns of g when it is `in` on entry.
func (e *fd18Engine) summary(g *ssa.Function, pi int, in fd18Val, depth int) []fd18Val {
	key := fmt.Sprintf("%s|%d|%d|%d.%d|%d", e.c.P.Name(g), pi, e.e, in.kind, in.k, depth)
	if v, ok := e.sumMemo[key]; ok {
		return v
	}
	e.sumMemo[key] = []fd18Val{in} // recursion: unchanged
	set := map[fd18Val]bool{}
	run := &fd18Run{eng: e, fn: g, obj: g.Params[pi], depth: depth}
	run.onReturn = func(r *ssa.Return, cur fd18Val, _ func(ssa.Value) fd18Val) {
		if fd18SuccessReturn(g, r) {
			set[cur] = true
		}
	}
	run.run(in)
	var out []fd18Val
	for v := range set {
		out = append(out, v)
	}
	sort.Slice(out, func(i, j int) bool {
		if out[i].kind != out[j].kind {
			return out[i].kind < out[j].kind
		}
		return out[i].k < out[j].k
	})
	e.sumMemo[key] = out
	return out
}

func ruleFmt18(c *Ctx) {
	p := c.P
	var tpk *types.Package
	var ioReader *types.Interface
	for _, pk := range p.SSA.AllPackages() {
		if strings.HasSuffix(pk.Pkg.Path(), "mithrandie/go-text") {
			tpk = pk.Pkg
		}
		if pk.Pkg.Path() == "io" {
			if o := pk.Pkg.Scope().Lookup("Reader"); o != nil {
				ioReader, _ = o.Type().Underlying().(*types.Interface)
			}
		}
	}
	if tpk == nil || ioReader == nil {
		c.Unknown("anchor:go-text", "-", "cannot-analyse: package go-text / io.Reader not loaded")
		return
	}
	type enc struct {
		name string
		val  int64
	}
	var encs []enc
	for _, n := range tpk.Scope().Names() {
		k, ok := tpk.Scope().Lookup(n).(*types.Const)
		if !ok || !fd18IsEncoding(k.Type()) {
			continue
		}
		if v, ok := constant.Int64Val(k.Val()); ok {
			encs = append(encs, enc{n, v})
		}
	}
	sort.Slice(encs, func(i, j int) bool { return encs[i].val < encs[j].val })
	if len(encs) < 6 {
		c.Unknown("anchor:go-text.Encoding constants", "-", fmt.Sprintf("cannot-analyse: %d constants of go-text.Encoding found", len(encs)))
		return
	}
	inGoText := func(f *ssa.Function) bool {
		return f != nil && f.Pkg != nil && strings.Contains(f.Pkg.Pkg.Path(), "mithrandie/go-text")
	}
	// detectors: go-text functions (reader, enc Encoding) (Encoding, error)
	detectors := map[*ssa.Function]bool{}
	detParam := map[*ssa.Function]*ssa.Parameter{}
	var dets []*ssa.Function
	for _, pk := range p.SSA.AllPackages() {
		if pk.Pkg != tpk {
			continue
		}
		for _, m := range pk.Members {
			f, ok := m.(*ssa.Function)
			if !ok || f.Blocks == nil {
				continue
			}
			res := f.Signature.Results()
			if res.Len() != 2 || !fd18IsEncoding(res.At(0).Type()) || !core.IsErrorType(res.At(1).Type()) {
				continue
			}
			var ep *ssa.Parameter
			hasReader := false
			for _, pa := range f.Params {
				if fd18IsEncoding(pa.Type()) {
					ep = pa
				} else if types.Implements(pa.Type(), ioReader) {
					hasReader = true
				}
			}
			if ep != nil && hasReader {
				detectors[f] = true
				detParam[f] = ep
				dets = append(dets, f)
			}
		}
	}
	sort.Slice(dets, func(i, j int) bool { return dets[i].Name() < dets[j].Name() })
	if len(dets) == 0 {
		c.Unknown("anchor:go-text detector", "-", "cannot-analyse: no go-text function (reader, Encoding) (Encoding, error) with a body")
		return
	}
	consumer := func(call ssa.CallInstruction) int {
		f := core.StaticCallee(call)
		if !inGoText(f) || detectors[f] || f.Signature.Recv() != nil {
			return -1
		}
		ei, rd := -1, false
		params := f.Signature.Params()
		for i := 0; i < params.Len() && i < len(call.Common().Args); i++ {
			t := params.At(i).Type()
			if fd18IsEncoding(t) {
				ei = i
			} else if types.Implements(t, ioReader) {
				rd = true
			}
		}
		if !rd {
			return -1
		}
		return ei
	}

	// table 1: what the detector can change
	needs := map[int64]string{}
	for _, d := range dets {
		var names []string
		for _, e := range encs {
			eng := &fd18Engine{c: c, e: e.val, detectors: detectors, consumer: func(ssa.CallInstruction) int { return -1 }, sumMemo: map[string][]fd18Val{}}
			changed := false
			run := &fd18Run{eng: eng, fn: d, obj: detParam[d], byValue: true}
			run.onReturn = func(r *ssa.Return, _ fd18Val, resolve func(ssa.Value) fd18Val) {
				if !fd18SuccessReturn(d, r) {
					return
				}
				for _, v := range core.ReturnOperand(r, 0) {
					if v == nil {
						continue // the result cell was not assigned: an error exit
					}
					a := resolve(v)
					switch {
					case a.kind == fd18Raw:
					case a.kind == fd18Fixed && a.k == e.val:
					default:
						changed = true
					}
				}
			}
			run.run(fd18Val{kind: fd18Raw})
			if changed {
				needs[e.val] = e.name
				names = append(names, e.name)
			}
		}
		key := "go-text." + d.Name() + ": encodings the detector can refine"
		dpos := p.Pos(d.Pos())
		if i := strings.Index(dpos, "github.com/"); i >= 0 {
			dpos = dpos[i:] // not the place of the module cache on this machine
		}
		if len(names) == 0 || len(names) == len(encs) {
			c.Unknown(key, dpos, fmt.Sprintf("cannot-analyse: evaluating the detector for the %d constants of Encoding, %d can be changed by it — the table does not discriminate", len(encs), len(names)))
			return
		}
		c.OkN(key, dpos, fmt.Sprintf("evaluated for the %d constants of go-text.Encoding: a return that can carry a nil error yields something other than the given encoding for %s; the others are returned as given", len(encs), strings.Join(names, ", ")), len(encs))
	}

	// table 2: the loaders
	fns := p.FuncsIn(true, "lib/query")
	sortFuncs(p, fns)
	n := 0
	for _, fn := range fns {
		if fn.Blocks == nil {
			continue
		}
		// the *FileInfo parameter whose Encoding is handed to a decoder constructor
		var obj *ssa.Parameter
		var first ssa.CallInstruction
		ncons := 0
		for _, call := range core.Calls(fn) {
			j := consumer(call)
			if j < 0 {
				continue
			}
			srcs := core.Origins(call.Common().Args[j], false)
			// the detector's result handed on directly: the encoding it was asked about
			for _, o := range srcs {
				if dc, idx, ok := core.ExtractOf(o); ok && idx == 0 && detectors[core.StaticCallee(dc)] {
					for ai, a := range dc.Call.Args {
						if fd18IsEncoding(a.Type()) && ai < len(dc.Call.Args) {
							srcs = append(srcs, core.Origins(a, false)...)
						}
					}
				}
			}
			for _, o := range srcs {
				fa := fxFieldLoad(o)
				if fa == nil || core.FieldOwner(fa) != fd18Field {
					continue
				}
				for _, b := range append(core.Origins(fa.X, false), fa.X) {
					if pa, ok := b.(*ssa.Parameter); ok {
						obj = pa
						if first == nil {
							first = call
						}
						ncons++
					}
				}
			}
		}
		if obj == nil {
			continue
		}
		c.Touch(fn)
		if !p.IsControl(fn) {
			n++
		}
		key := c.KeyAt(fn, "every import encoding the detector can refine reaches the decoder refined")
		var bad []string
		slips := map[string][]string{} // call site + reason → encodings
		cells := 0
		for _, e := range encs {
			if _, ok := needs[e.val]; !ok {
				continue
			}
			e := e
			eng := &fd18Engine{c: c, e: e.val, detectors: detectors, consumer: consumer, sumMemo: map[string][]fd18Val{}}
			run := &fd18Run{eng: eng, fn: fn, obj: obj, depth: 2}
			run.onConsumer = func(call ssa.CallInstruction, v fd18Val, via string) {
				cells++
				if v.kind == fd18Raw {
					f := core.StaticCallee(call)
					how := "no detector call lies on the way"
					if via != "" {
						how = via + " returns without having resolved it"
					}
					k := fmt.Sprintf("the call of %s.%s at %s receives FileInfo.Encoding as it was given (%s)", core.Short(f.Pkg.Pkg.Path()), f.Name(), c.Pos(call), how)
					for _, x := range slips[k] {
						if x == e.name {
							return
						}
					}
					slips[k] = append(slips[k], e.name)
				}
			}
			run.run(fd18Val{kind: fd18Raw})
		}
		for k, names := range slips {
			bad = append(bad, fmt.Sprintf("with the import encoding %s %s: the detector would resolve it from the head of the file; the unresolved value stays in FileInfo.Encoding and is what the file is written back with", strings.Join(names, " / "), k))
		}
		if len(bad) > 0 {
			bad = dedup(bad)
			sort.Strings(bad)
			c.Bad(key, c.Pos(first), strings.Join(bad, " | "))
		} else if cells == 0 {
			c.Unknown(key, c.Pos(first), "no decoder constructor was reached under any of the encodings that need detection")
		} else {
			c.OkN(key, c.Pos(first), fmt.Sprintf("evaluated with FileInfo.Encoding = each of the %d encodings the detector can refine: %d decoder constructor call(s) always receive the detector's result or a constant stored by the function", len(needs), ncons), cells)
		}
	}
	if n < 1 {
		c.Unknown("anchor:loaders that decode with FileInfo.Encoding", "-", "cannot-analyse: no lib/query function with a *FileInfo parameter hands FileInfo.Encoding to a go-text decoder constructor")
	}
}
