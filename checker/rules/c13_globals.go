package rules

import (
	"fmt"
	"go/token"
	"go/types"
	"sort"
	"strings"

	"golang.org/x/tools/go/ssa"

	"verif/checker/core"
)

// R-PAR-8: library objects kept in package-level variables.
//
// A package-level variable of csvq whose type is declared outside csvq (a
// math/rand.Rand, an x/text Caser, a bufio.Writer …) carries state the E5
// sharing analysis cannot see, because the state lives behind methods of
// another module. Such an object may be used from code that runs inside a
// concurrent region only when its type is documented as safe for concurrent use
// (frozen table below) or when every path from a region to the use holds a lock.

func init() {
	Register(&Rule{ID: "R-PAR-8", Props: []string{"C13", "C12"}, Floor: 2,
		Doc:      "library objects in package-level variables: every package-level variable of csvq whose type comes from another module and is not documented as safe for concurrent use (table: sync.*, sync/atomic.*, regexp.Regexp, strings.Replacer, time.Location, time.Time, os.File) is used — directly or through an accessor function returning it — only under a mutex or in code that no concurrent region (go statement / task-manager callback) reaches without taking one (genuine defect repaired: RAND() shared an unlocked math/rand.Rand between the workers)",
		Controls: []string{"ctlSharedRand"},
		Run:      rulePar8})
}

// concurrentSafeTypes: named types whose documentation states that their methods may be called from several goroutines.
var concurrentSafeTypes = map[string]string{
	"regexp.Regexp":    "regexp: 'A Regexp is safe for concurrent use by multiple goroutines'",
	"strings.Replacer": "strings: 'It is safe for concurrent use by multiple goroutines'",
	"time.Location":    "immutable after LoadLocation",
	"time.Time":        "value type without interior pointers that methods write",
	"os.File":          "os: methods are safe for concurrent use (serialised by the poller lock)",
	"os.Signal":        "interface of immutable signal numbers",
}

func isConcurrentSafeNamed(n string) bool {
	if strings.HasPrefix(n, "sync.") || strings.HasPrefix(n, "sync/atomic.") {
		return true
	}
	_, ok := concurrentSafeTypes[n]
	return ok
}

// externalNamed: the named type (through pointers) of t when it is declared outside csvq and the control package.
func externalNamed(t types.Type) string {
	for i := 0; i < 3; i++ {
		if p, ok := t.(*types.Pointer); ok {
			t = p.Elem()
			continue
		}
		break
	}
	n, ok := t.(*types.Named)
	if !ok || n.Obj().Pkg() == nil {
		return ""
	}
	if _, isIface := n.Underlying().(*types.Interface); isIface {
		return ""
	}
	path := n.Obj().Pkg().Path()
	if strings.Contains(path, "mithrandie/csvq") {
		return ""
	}
	return path + "." + n.Obj().Name()
}

// lockHeldAt: a Lock() call on some mutex dominates `at` in its function and no Unlock() of the same mutex
// lies between them (a deferred Unlock does not release before the function ends).
func lockHeldAt(p *core.Prog, at ssa.Instruction) string {
	fn := at.Parent()
	if fn == nil {
		return ""
	}
	type ev struct {
		in   ssa.Instruction
		name string
	}
	var locks, unlocks []ev
	for _, b := range fn.Blocks {
		for _, in := range b.Instrs {
			call, ok := in.(*ssa.Call)
			if !ok {
				continue
			}
			switch p.CalleeName(call) {
			case "(*sync.Mutex).Lock", "(*sync.RWMutex).Lock", "(*sync.RWMutex).RLock":
				locks = append(locks, ev{in, valuePathLabel(call.Call.Args[0])})
			case "(*sync.Mutex).Unlock", "(*sync.RWMutex).Unlock", "(*sync.RWMutex).RUnlock":
				unlocks = append(unlocks, ev{in, valuePathLabel(call.Call.Args[0])})
			}
		}
	}
	for _, l := range locks {
		if !core.Dominates(l.in, at) {
			continue
		}
		released := false
		for _, u := range unlocks {
			if u.name != l.name {
				continue
			}
			again := func(in ssa.Instruction) bool { return in == l.in }
			if core.Reachable(l.in, u.in, again) && (u.in == at || core.Reachable(u.in, at, again)) {
				released = true
			}
		}
		if !released {
			return l.name
		}
	}
	return ""
}

type parReach struct {
	from *ssa.Function
	via  ssa.Instruction
	root *parRegion
}

var parConcCache = map[*core.Prog]map[*ssa.Function]*parReach{}

// parConcurrent: the functions that run concurrently — reachable from a region (go operand / runner callback)
// without passing a call site that holds a lock.
func parConcurrent(c *Ctx) map[*ssa.Function]*parReach {
	if m, ok := parConcCache[c.P]; ok {
		return m
	}
	e := parAnalysis(c.P)
	conc := map[*ssa.Function]*parReach{}
	var queue []*ssa.Function
	var roots []*parRegion
	for _, f := range e.families {
		for _, r := range f.regions {
			roots = append(roots, r)
		}
	}
	sort.Slice(roots, func(i, j int) bool { return c.P.Name(roots[i].fn) < c.P.Name(roots[j].fn) })
	for _, r := range roots {
		if _, ok := conc[r.fn]; !ok {
			conc[r.fn] = &parReach{root: r}
			queue = append(queue, r.fn)
		}
	}
	cg := c.P.CG()
	for len(queue) > 0 {
		f := queue[0]
		queue = queue[1:]
		n := cg.Nodes[f]
		if n == nil {
			continue
		}
		for _, ed := range n.Out {
			g := ed.Callee.Func
			if g == nil || g.Blocks == nil {
				continue
			}
			if _, ok := conc[g]; ok {
				continue
			}
			if ed.Site != nil && lockHeldAt(c.P, ed.Site) != "" {
				continue
			}
			conc[g] = &parReach{from: f, via: ed.Site, root: conc[f].root}
			queue = append(queue, g)
		}
		for _, af := range f.AnonFuncs {
			if _, ok := conc[af]; !ok {
				conc[af] = &parReach{from: f, root: conc[f].root}
				queue = append(queue, af)
			}
		}
	}
	parConcCache[c.P] = conc
	return conc
}

func parPathTo(c *Ctx, conc map[*ssa.Function]*parReach, f *ssa.Function) string {
	var p []string
	for cur := f; cur != nil; {
		p = append([]string{c.P.Name(cur)}, p...)
		r := conc[cur]
		if r == nil || r.from == nil {
			break
		}
		cur = r.from
		if len(p) > 8 {
			p = append([]string{"…"}, p...)
			break
		}
	}
	return strings.Join(p, " → ")
}

func rulePar8(c *Ctx) {
	conc := parConcurrent(c)
	pathTo := func(f *ssa.Function) string { return parPathTo(c, conc, f) }

	// candidate globals
	type cand struct {
		g     *ssa.Global
		named string
	}
	var cands []cand
	var pkgs []string
	for short := range c.P.SSAPkgs {
		pkgs = append(pkgs, short)
	}
	sort.Strings(pkgs)
	for _, short := range pkgs {
		pk := c.P.SSAPkgs[short]
		var names []string
		for n := range pk.Members {
			names = append(names, n)
		}
		sort.Strings(names)
		for _, n := range names {
			g, ok := pk.Members[n].(*ssa.Global)
			if !ok {
				continue
			}
			pt, ok := g.Type().(*types.Pointer)
			if !ok {
				continue
			}
			named := externalNamed(pt.Elem())
			if named == "" || isConcurrentSafeNamed(named) {
				continue
			}
			cands = append(cands, cand{g, named})
		}
	}
	if len(cands) == 0 {
		c.Unknown("globals", "-", "cannot-analyse: no package-level variable of a type from another module found (the two math/rand.Rand objects are expected)")
		return
	}
	// accessors: functions every result #0 of which is a load of the global
	accessorOf := map[*ssa.Function]*ssa.Global{}
	isLoadOf := func(v ssa.Value, g *ssa.Global) bool {
		u, ok := v.(*ssa.UnOp)
		return ok && u.Op == token.MUL && u.X == ssa.Value(g)
	}
	for _, fn := range c.P.SrcFuncs() {
		if fn.Signature.Results().Len() != 1 {
			continue
		}
		for _, cd := range cands {
			all, any := true, false
			for _, r := range core.Returns(fn) {
				any = true
				ok := false
				for _, o := range core.Origins(r.Results[0], false) {
					if isLoadOf(o, cd.g) {
						ok = true
					} else {
						ok = false
						break
					}
				}
				if !ok {
					all = false
				}
			}
			if any && all {
				accessorOf[fn] = cd.g
			}
		}
	}
	for _, cd := range cands {
		key := fmt.Sprintf("global %s (%s): used under a lock or outside concurrent regions", globalName(cd.g), cd.named)
		pos := c.P.Pos(cd.g.Pos())
		var uses []ssa.Instruction
		for _, fn := range c.P.SrcFuncs() {
			if _, isAcc := accessorOf[fn]; isAcc {
				continue
			}
			for _, b := range fn.Blocks {
				for _, in := range b.Instrs {
					var v ssa.Value
					switch x := in.(type) {
					case *ssa.UnOp:
						if isLoadOf(x, cd.g) {
							v = x
						}
					case *ssa.Call:
						if cal := x.Call.StaticCallee(); cal != nil && accessorOf[cal] == cd.g {
							v = x
						}
					}
					if v == nil || v.Referrers() == nil {
						continue
					}
					// follow the object through φ to the calls made on it
					seen := map[ssa.Value]bool{}
					var walk func(v ssa.Value)
					walk = func(v ssa.Value) {
						if seen[v] || v.Referrers() == nil {
							return
						}
						seen[v] = true
						for _, r := range *v.Referrers() {
							switch y := r.(type) {
							case *ssa.Phi:
								walk(y)
							case ssa.CallInstruction:
								for _, a := range y.Common().Args {
									if a == v {
										uses = append(uses, y)
									}
								}
								if y.Common().IsInvoke() && y.Common().Value == v {
									uses = append(uses, y)
								}
							}
						}
					}
					walk(v)
				}
			}
		}
		bad := ""
		n := 0
		for _, u := range uses {
			fn := u.Parent()
			n++
			c.Touch(fn)
			if _, isConc := conc[fn]; !isConc {
				continue
			}
			if lockHeldAt(c.P, u) != "" {
				continue
			}
			if bad == "" {
				bad = fmt.Sprintf("%s is called on the shared %s at %s without a lock, in code that runs concurrently (%s %s: %s)",
					c.P.CalleeName(u.(ssa.CallInstruction)), cd.named, c.Pos(u), conc[fn].root.how, c.P.Name(conc[fn].root.fn), pathTo(fn))
			}
		}
		c.Check(bad == "", key, pos, fmt.Sprintf("%d use(s); none reachable from a concurrent region without a lock", n), bad+": two workers mutate the object's internal state at the same time")
	}
}

func globalName(g *ssa.Global) string {
	if g.Pkg != nil && g.Pkg.Pkg != nil {
		return core.Short(g.Pkg.Pkg.Path()) + "." + g.Name()
	}
	return g.Name()
}

// R-PAR-9 ---------------------------------------------------------------------

func init() {
	Register(&Rule{ID: "R-PAR-9", Props: []string{"C13", "C12"}, Floor: 1,
		Doc:      "objects handed down through a context value are read-only for the workers: for every struct type whose pointer is put into context.WithValue or taken out of ctx.Value by a type assertion (today: the USING values of a prepared statement), no function that runs concurrently stores into a field — or into an element reached through a field — of such an object without a lock, unless the object was allocated in that very function (the context is shared by all worker goroutines of a statement)",
		Controls: []string{"ctlCtxMemo"},
		Run:      rulePar9})
}

func rulePar9(c *Ctx) {
	conc := parConcurrent(c)
	// the published types
	pub := map[string]string{} // named type → where it is published
	note := func(t types.Type, where string) {
		pt, ok := t.(*types.Pointer)
		if !ok {
			return
		}
		n := core.NamedOf(pt)
		if n == "" {
			return
		}
		if _, isStruct := pt.Elem().Underlying().(*types.Struct); !isStruct {
			return
		}
		if _, ok := pub[n]; !ok {
			pub[n] = where
		}
	}
	for _, fn := range c.P.SrcFuncs() {
		for _, call := range core.Calls(fn) {
			switch c.P.CalleeName(call) {
			case "context.WithValue":
				if len(call.Common().Args) == 3 {
					v := call.Common().Args[2]
					if mi, ok := v.(*ssa.MakeInterface); ok {
						note(mi.X.Type(), c.Pos(call))
					}
				}
			default:
				if call.Common().IsInvoke() && call.Common().Method.Name() == "Value" && strings.HasSuffix(call.Common().Value.Type().String(), "context.Context") {
					if v, ok := call.(ssa.Value); ok && v.Referrers() != nil {
						for _, r := range *v.Referrers() {
							if ta, ok := r.(*ssa.TypeAssert); ok {
								note(ta.AssertedType, c.Pos(call))
							}
						}
					}
				}
			}
		}
	}
	if len(pub) == 0 {
		c.Unknown("context values", "-", "cannot-analyse: no struct pointer is published through a context value (the prepared-statement USING values are expected)")
		return
	}
	var names []string
	for n := range pub {
		names = append(names, n)
	}
	sort.Strings(names)
	for _, n := range names {
		key := "context value " + n + ": not written by concurrent code"
		bad := ""
		cnt := 0
		for _, fn := range c.P.SrcFuncs() {
			for _, b := range fn.Blocks {
				for _, in := range b.Instrs {
					var addr ssa.Value
					switch x := in.(type) {
					case *ssa.Store:
						addr = x.Addr
					case *ssa.MapUpdate:
						addr = x.Map
					default:
						continue
					}
					// every named base on the way
					hit := false
					fresh := false
					for cur, d := addr, 0; cur != nil && d < 8; d++ {
						var next ssa.Value
						switch y := cur.(type) {
						case *ssa.FieldAddr:
							if core.NamedOf(y.X.Type()) == n {
								hit = true
								for _, o := range core.Origins(y.X, false) {
									if _, ok := o.(*ssa.Alloc); ok {
										fresh = true
									}
								}
							}
							next = y.X
						case *ssa.IndexAddr:
							next = y.X
						case *ssa.UnOp:
							if y.Op == token.MUL {
								next = y.X
							}
						case *ssa.Slice:
							next = y.X
						}
						cur = next
					}
					if !hit || fresh {
						continue
					}
					cnt++
					c.Touch(fn)
					if _, isConc := conc[fn]; !isConc {
						continue
					}
					if lockHeldAt(c.P, in) != "" {
						continue
					}
					if bad == "" {
						bad = fmt.Sprintf("%s stores into a %s at %s without a lock, and runs concurrently (%s %s: %s)", c.P.Name(fn), n, c.Pos(in), conc[fn].root.how, c.P.Name(conc[fn].root.fn), parPathTo(c, conc, fn))
					}
				}
			}
		}
		pos := pub[n]
		c.Check(bad == "", key, pos, fmt.Sprintf("%d store(s) outside constructors; none in concurrent code without a lock", cnt), bad+": the object is shared by every worker of the statement through the context")
	}
}

// R-PAR-10 --------------------------------------------------------------------

func init() {
	Register(&Rule{ID: "R-PAR-10", Props: []string{"C12", "C07"}, Floor: 1,
		Doc:      "no piecewise unstable sort: inside a concurrent region (go operand / task-manager callback and its nested closures) sort.Sort / sort.Slice is never applied to a value built from a variable the region shares with its siblings (a captured slice, view or wrapper indexed by the task) — sort.Sort is unstable, so sorting task-sized pieces of one collection and merging them orders tied rows differently for every --cpu; the whole-view sort of ORDER BY (sort.Sort(view) outside any region) is the reference instance",
		Controls: []string{"CtlPiecewiseSort"},
		Run:      rulePar10})
}

func rulePar10(c *Ctx) {
	e := parAnalysis(c.P)
	// reference instance: ORDER BY sorts the whole view, outside concurrent code
	conc := parConcurrent(c)
	whole := 0
	for _, fn := range c.P.FuncsIn(false, "lib/query") {
		for _, call := range c.P.CallsNamed(fn, "sort.Sort", "sort.Slice") {
			_ = call
			whole++
			c.Touch(fn)
		}
	}
	if ob := c.Fn("lib/query.(*View).OrderBy"); ob != nil {
		n := 0
		for f := range staticReach(ob) {
			if !c.P.InPkg(f, "lib/query") {
				continue
			}
			for _, call := range c.P.CallsNamed(f, "sort.Sort", "sort.Stable", "sort.Slice", "sort.SliceStable") {
				n++
				_, isConc := conc[f]
				inRegion := false
				for _, fam := range e.families {
					for _, r := range fam.regions {
						if r.fn == f || f.Parent() == r.fn {
							inRegion = true
						}
					}
				}
				c.Check(!inRegion, c.KeyAt(f, "ORDER BY sorts the view with one call"), c.Pos(call), fmt.Sprintf("outside any concurrent region (function reachable from regions: %v — then each instance sorts its own view)", isConc),
					"the sort of ORDER BY runs inside a concurrent region: each worker sorts a piece")
			}
		}
		if n == 0 {
			c.Unknown(c.KeyAt(ob, "ORDER BY sorts the view with one call"), c.FnPos(ob), "cannot-analyse: no sort call reachable from View.OrderBy through lib/query")
		}
	}
	// no unstable sort of shared data inside a region
	for _, fam := range e.families {
		for _, r := range fam.regions {
			fns := append([]*ssa.Function{r.fn}, r.fn.AnonFuncs...)
			for _, f := range fns {
				k := 0
				for _, call := range c.P.CallsNamed(f, "sort.Sort", "sort.Slice") {
					k++
					c.Touch(f)
					key := c.KeyAt(f, fmt.Sprintf("unstable sort #%d in a concurrent region", k))
					shared := sharedIngredient(call.Common().Args[0], r.fn)
					c.Check(shared == "", key, c.Pos(call), "sorts a value made inside the worker", "sorts "+shared+", which the region shares with its sibling instances ("+r.how+"): each instance sorts a task-dependent piece with an unstable sort, so the order of tied rows depends on the number of goroutines")
				}
			}
		}
	}
	_ = whole
}

// sharedIngredient: a free variable / parameter of the region function that the sorted value is built from.
func sharedIngredient(v ssa.Value, region *ssa.Function) string {
	seen := map[ssa.Value]bool{}
	res := ""
	var walk func(v ssa.Value, d int)
	walk = func(v ssa.Value, d int) {
		if v == nil || seen[v] || d > 10 || res != "" {
			return
		}
		seen[v] = true
		switch x := v.(type) {
		case *ssa.FreeVar:
			res = "the captured variable " + x.Name()
		case *ssa.MakeInterface:
			walk(x.X, d+1)
		case *ssa.ChangeType:
			walk(x.X, d+1)
		case *ssa.ChangeInterface:
			walk(x.X, d+1)
		case *ssa.Convert:
			walk(x.X, d+1)
		case *ssa.Phi:
			for _, e := range x.Edges {
				walk(e, d+1)
			}
		case *ssa.UnOp:
			walk(x.X, d+1)
		case *ssa.IndexAddr:
			walk(x.X, d+1)
		case *ssa.Index:
			walk(x.X, d+1)
		case *ssa.FieldAddr:
			walk(x.X, d+1)
		case *ssa.Field:
			walk(x.X, d+1)
		case *ssa.Slice:
			walk(x.X, d+1)
		case *ssa.Alloc:
			// a local struct: what is stored into it
			if x.Referrers() != nil {
				for _, r := range *x.Referrers() {
					switch y := r.(type) {
					case *ssa.Store:
						if y.Addr == ssa.Value(x) {
							walk(y.Val, d+1)
						}
					case *ssa.FieldAddr:
						for _, rr := range *y.Referrers() {
							if st, ok := rr.(*ssa.Store); ok && st.Addr == ssa.Value(y) {
								walk(st.Val, d+1)
							}
						}
					}
				}
			}
		case *ssa.Call:
			// sort.Reverse(x), wrappers taking the collection
			for _, a := range x.Call.Args {
				walk(a, d+1)
			}
		}
	}
	walk(v, 0)
	return res
}

// R-PAR-11 --------------------------------------------------------------------

func init() {
	Register(&Rule{ID: "R-PAR-11", Props: []string{"C13"}, Floor: 1,
		Doc:      "library objects shared by goroutines: a local object whose type comes from another module and is not documented as safe for concurrent use (same table as R-PAR-8) is used — by method calls — from at most one of the goroutines that run concurrently in a function (two `go` operands not separated by a Wait, or one region with several instances), unless every such call holds a common mutex; values cross between the goroutines through channels or atomics (today: the file loaders hand the reader's position over with atomic.StoreInt64, the reader itself stays with the reading goroutine)",
		Controls: []string{"CtlReaderSharedByTwoGoroutines"},
		Run:      rulePar11})
}

func rulePar11(c *Ctx) {
	e := parAnalysis(c.P)
	n := 0
	for _, fam := range e.families {
		type use struct {
			r    *parRegion
			call ssa.CallInstruction
		}
		uses := map[string][]use{}
		typeOf := map[string]string{}
		for _, r := range fam.regions {
			fns := funcAndClosures(r.fn)
			for _, f := range fns {
				for _, call := range core.Calls(f) {
					com := call.Common()
					var recv ssa.Value
					if com.IsInvoke() {
						continue // interface receivers: the dynamic type is not known here
					}
					if g := com.StaticCallee(); g == nil || g.Signature.Recv() == nil || len(com.Args) == 0 {
						continue
					}
					recv = com.Args[0]
					named := externalNamed(recv.Type())
					if named == "" || isConcurrentSafeNamed(named) {
						continue
					}
					// the receiver is a variable captured from the parent (directly or through a nested closure of the region)
					root := ""
					for _, o := range core.Origins(recv, false) {
						switch x := o.(type) {
						case *ssa.FreeVar:
							root = capturedRoot(x)
						case *ssa.UnOp:
							if fv, ok := x.X.(*ssa.FreeVar); ok {
								root = capturedRoot(fv)
							}
						case *ssa.Parameter:
							// Origins follows a captured cell back to what the enclosing function stored into it
							if x.Parent() != f {
								root = x.Name()
							}
						default:
							if in, ok := o.(ssa.Instruction); ok && in.Parent() != f && in.Parent() != nil && isEnclosing(in.Parent(), f) {
								root = o.Name() + "@" + in.Parent().Name()
							}
						}
					}
					if root == "" {
						continue
					}
					uses[root] = append(uses[root], use{r, call})
					typeOf[root] = named
				}
			}
		}
		var roots []string
		for k := range uses {
			roots = append(roots, k)
		}
		sort.Strings(roots)
		perType := map[string]int{}
		for _, root := range roots {
			n++
			c.Touch(fam.parent)
			perType[typeOf[root]]++
			key := c.KeyAt(fam.parent, fmt.Sprintf("%s #%d used by one goroutine at a time", typeOf[root], perType[typeOf[root]]))
			bad := ""
			us := uses[root]
			for i := 0; i < len(us) && bad == ""; i++ {
				for j := i; j < len(us) && bad == ""; j++ {
					a, b := us[i], us[j]
					conc := false
					if a.r == b.r {
						conc = a.r.multi && i != j || (a.r.multi && len(us) == 1)
					} else {
						conc = fam.concurrent(a.r, b.r)
					}
					if !conc {
						continue
					}
					if lockHeldAt(c.P, a.call) != "" && lockHeldAt(c.P, b.call) != "" {
						continue
					}
					bad = fmt.Sprintf("%s at %s (%s) and %s at %s (%s) run concurrently on the same %s without a common lock", c.P.CalleeName(a.call), c.Pos(a.call), c.P.Name(a.r.fn), c.P.CalleeName(b.call), c.Pos(b.call), c.P.Name(b.r.fn), typeOf[root])
				}
			}
			c.Check(bad == "", key, c.FnPos(fam.parent), fmt.Sprintf("%d method call(s), all from one goroutine at a time", len(us)), bad+": the object's internal state is read and written by two goroutines at once")
		}
	}
	if n == 0 {
		c.Unknown("shared library objects", "-", "cannot-analyse: no concurrent region calls a method on a captured object of a type from another module (the file loaders' readers are expected)")
	}
}

// capturedRoot names the parent's variable behind a free variable (through nested closures).
func capturedRoot(fv *ssa.FreeVar) string {
	fn := fv.Parent()
	for depth := 0; depth < 4 && fn != nil && fn.Parent() != nil; depth++ {
		idx := -1
		for i, q := range fn.FreeVars {
			if q == fv {
				idx = i
			}
		}
		if idx < 0 {
			break
		}
		parent := fn.Parent()
		var bound ssa.Value
		for _, b := range parent.Blocks {
			for _, in := range b.Instrs {
				if mc, ok := in.(*ssa.MakeClosure); ok && mc.Fn == ssa.Value(fn) && idx < len(mc.Bindings) {
					bound = mc.Bindings[idx]
				}
			}
		}
		if bound == nil {
			break
		}
		if pf, ok := bound.(*ssa.FreeVar); ok {
			fv, fn = pf, parent
			continue
		}
		if al, ok := bound.(*ssa.Alloc); ok {
			return al.Comment
		}
		return bound.Name()
	}
	return fv.Name()
}

func isEnclosing(outer, inner *ssa.Function) bool {
	for p := inner.Parent(); p != nil; p = p.Parent() {
		if p == outer {
			return true
		}
	}
	return false
}

// R-PAR-13 --------------------------------------------------------------------

func init() {
	Register(&Rule{ID: "R-PAR-13", Props: []string{"C12", "C07"}, Floor: 10,
		Doc:      "the number of workers only decides how the work is split: a value derived from Flags.CPU or GoroutineTaskManager.Number is used in lib/query only as the cpu argument of the task manager's constructor, as a loop bound or allocation length over the workers, in the test `1 < Number` that chooses between spawning and running inline, and by the flag plumbing (SET / SHOW) — never in another branch condition (choosing an algorithm, an operand order or an output order by the number of goroutines makes the rows or their order depend on --cpu)",
		Controls: []string{"CtlBranchOnCPU"},
		Run:      rulePar13})
}

func rulePar13(c *Ctx) {
	isCPUSource := func(v ssa.Value) string {
		u, ok := v.(*ssa.UnOp)
		if !ok || u.Op != token.MUL {
			return ""
		}
		fa, ok := u.X.(*ssa.FieldAddr)
		if !ok {
			return ""
		}
		switch core.FieldOwner(fa) {
		case "lib/option.Flags.CPU":
			return "Flags.CPU"
		case "lib/query.GoroutineTaskManager.Number":
			return "GoroutineTaskManager.Number"
		}
		return ""
	}
	n := 0
	for _, fn := range c.P.FuncsIn(true, "lib/query") {
		// the task manager's own methods compute the split
		if recv := fn.Signature.Recv(); recv != nil && strings.Contains(recv.Type().String(), "GoroutineTaskManager") {
			continue
		}
		if fn.Name() == "NewGoroutineTaskManager" || fn.Name() == "CalcMinimumRequired" {
			continue
		}
		k := 0
		for _, b := range fn.Blocks {
			for _, in := range b.Instrs {
				v, ok := in.(ssa.Value)
				if !ok {
					continue
				}
				src := isCPUSource(v)
				if src == "" {
					continue
				}
				k++
				n++
				c.Touch(fn)
				key := c.KeyAt(fn, fmt.Sprintf("use #%d of %s", k, src))
				bad := ""
				seen := map[ssa.Value]bool{}
				var walk func(x ssa.Value, depth int)
				walk = func(x ssa.Value, depth int) {
					if seen[x] || depth > 5 || x.Referrers() == nil || bad != "" {
						return
					}
					seen[x] = true
					for _, r := range *x.Referrers() {
						switch y := r.(type) {
						case *ssa.Convert:
							walk(y, depth+1)
						case *ssa.ChangeType:
							walk(y, depth+1)
						case *ssa.Phi:
							walk(y, depth+1)
						case *ssa.BinOp:
							switch y.Op {
							case token.LSS, token.GTR, token.LEQ, token.GEQ, token.EQL, token.NEQ:
								other := y.X
								if other == x {
									other = y.Y
								}
								if k1, ok := core.ConstInt(other); ok && (k1 == 1 || k1 == 0) {
									continue // spawn or run inline
								}
								if ph, ok := other.(*ssa.Phi); ok {
									if _, _, _, _, isInd := core.Induction(ph); isInd {
										continue // loop over the workers
									}
								}
								if bo, ok := other.(*ssa.BinOp); ok {
									if ph, ok := bo.X.(*ssa.Phi); ok {
										if _, _, _, _, isInd := core.Induction(ph); isInd {
											continue
										}
									}
								}
								// is the comparison a branch condition (or does it feed one)?
								if feedsBranch(y, 0) {
									bad = fmt.Sprintf("%s is compared with %s at %s and the result decides a branch", src, describeValue(c.P, other), c.Pos(y))
								}
							default:
								walk(y, depth+1) // arithmetic on the count (Number+1 …)
							}
						}
					}
				}
				walk(v, 0)
				c.Check(bad == "", key, c.Pos(in), "used for the split only (constructor argument, loop bound, allocation length, spawn-or-inline test)", bad+": the code path — and with it the rows or their order — depends on the number of goroutines")
			}
		}
	}
	if n == 0 {
		c.Unknown("CPU uses", "-", "cannot-analyse: no use of Flags.CPU / GoroutineTaskManager.Number in lib/query")
	}
}

func feedsBranch(v ssa.Value, depth int) bool {
	if depth > 4 || v.Referrers() == nil {
		return false
	}
	for _, r := range *v.Referrers() {
		switch y := r.(type) {
		case *ssa.If:
			return true
		case *ssa.BinOp:
			if feedsBranch(y, depth+1) {
				return true
			}
		case *ssa.UnOp:
			if feedsBranch(y, depth+1) {
				return true
			}
		case *ssa.Phi:
			if feedsBranch(y, depth+1) {
				return true
			}
		}
	}
	return false
}
