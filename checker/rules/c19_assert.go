package rules

import (
	"fmt"
	"go/token"
	"go/types"
	"strings"

	"golang.org/x/tools/go/ssa"

	"verif/checker/core"
)

// R-ERR-2 — data-dependent unchecked type assertions (DESIGN §3 C19, engine
// E8c, Appendix B.7).
//
// Obligation: every `x.(T)` without comma-ok in non-test csvq code whose T is a
// type of lib/value or of github.com/mithrandie/go-text/json. Such an assertion
// panics ("interface conversion") when x holds anything else, and the panic
// surfaces as csvq's internal "Fatal Error".
//
// An obligation is discharged when the set of dynamic types x can hold at the
// assertion is ⊆ {T}:
//   S1  a dominating comma-ok test / type-switch arm of the same operand,
//   S2  interprocedural result type-sets (MakeInterface operands of all
//       returns, through Phi / tuples / calls, least fixpoint) narrowed by the
//       branch facts that dominate the assertion (IsNull(x) false, x != nil,
//       negative type tests),
//   S3  paired string-switch tables: the producer G(…, s) and the consumer both
//       switch on strings.ToUpper(s); the table is enumerated constant by constant,
//   S4  sync.Pool getters: the pool's New and every Put agree on the type.
// What is left is a frozen single-symbol exception (with its reason) or a finding.

const (
	err2ValuePkg = core.ModPath + "/lib/value"
	err2JsonPkg  = "github.com/mithrandie/go-text/json"
)

func init() {
	Register(&Rule{ID: "R-ERR-2", Props: []string{"C19"}, Floor: 200,
		Doc: "every non-comma-ok type assertion to a lib/value or go-text/json type is applied to an operand whose possible dynamic types (dominating type tests; interprocedural result type-sets minus the cases excluded by dominating IsNull / nil tests; paired flag tables; pool New/Put agreement) are exactly the asserted type — otherwise user data can reach an 'interface conversion' panic (internal Fatal Error)",
		Controls: []string{"CtlAssertEvaluateResult", "CtlAssertNullNotExcluded", "CtlAssertWrongConversion", "CtlAssertWrongArm",
			"CtlAssertElementOverwritten", "CtlAssertErrorIgnored", "CtlAssertFlagTable:", "CtlAssertFlagTableDefault", "CtlAssertPoolMixed",
			"CtlAssertFieldAnyLiteral", "CtlAssertSlotMixed", "CtlAssertUncorrelated"},
		Run: ruleErr2})
}

// err2Exceptions: frozen single-symbol exceptions, keyed by obligation key. Each
// has one line of reason and a mechanical side condition that is re-checked on
// every run (the exception lapses — the obligation is reported — when it fails).
type err2Exception struct {
	reason string
	cond   func(e *err2) (bool, string)
}

var err2Exceptions = map[string]err2Exception{
	"lib/query.(VariableMap).Load: load()#0.(value.Primary)": {
		"VariableMap is a typed wrapper over SyncMap: the only writer of its map is VariableMap.Store(name, value.Primary), and Load asserts only a value that load() reported present",
		(*err2).variableMapTyped},
	"lib/query.(*ReferenceScope).AllVariables$1: val.(value.Primary)": {
		"the callback ranges over a VariableMap, whose only writer is VariableMap.Store(name, value.Primary)",
		(*err2).variableMapTyped},
}

// isSyncMapInner: v is the `m` field of a lib/query.SyncMap.
func isSyncMapInner(v ssa.Value) bool {
	switch q := v.(type) {
	case *ssa.Field:
		return core.FieldOwner(q) == "lib/query.SyncMap.m"
	case *ssa.UnOp:
		if fa, ok := q.X.(*ssa.FieldAddr); ok && q.Op == token.MUL {
			return core.FieldOwner(fa) == "lib/query.SyncMap.m"
		}
	}
	return false
}

// variableMapTyped is the side condition of the two VariableMap exceptions:
// every call of (SyncMap).store is made on the embedded SyncMap of a wrapper
// type; those made for a VariableMap pass a value whose static type implements
// value.Primary; the wrapped sync.Map is written nowhere but in (SyncMap).store;
// and VariableMap.SyncMap is only ever set to a fresh NewSyncMap().
func (e *err2) variableMapTyped() (bool, string) {
	if e.vmChecked {
		return e.vmOK, e.vmWhy
	}
	e.vmChecked = true
	fail := func(why string) (bool, string) {
		e.vmOK, e.vmWhy = false, why
		return false, why
	}
	p := e.c.P
	storeFn := e.c.Fn("lib/query.(SyncMap).store")
	newFn := e.c.Fn("lib/query.NewSyncMap")
	prim := p.Type("lib/value", "Primary")
	if storeFn == nil || newFn == nil || prim == nil {
		return fail("anchors (SyncMap).store / NewSyncMap / value.Primary do not resolve")
	}
	iface := prim.Underlying().(*types.Interface)
	// wrapperOf: recv = *(w.SyncMap) → named type of w
	wrapperOf := func(recv ssa.Value) string {
		u, ok := recv.(*ssa.UnOp)
		if !ok || u.Op != token.MUL {
			return ""
		}
		switch q := u.X.(type) {
		case *ssa.Field:
			if core.FieldName(q) == "SyncMap" {
				return core.NamedOf(q.X.Type())
			}
		case *ssa.UnOp:
			if fa, ok := q.X.(*ssa.FieldAddr); ok && q.Op == token.MUL && core.FieldName(fa) == "SyncMap" {
				return core.NamedOf(fa.X.Type())
			}
		}
		return ""
	}
	nStores := 0
	for _, fn := range p.AllCsvqFuncs() {
		if p.IsControl(fn) {
			continue
		}
		for _, b := range fn.Blocks {
			for _, in := range b.Instrs {
				switch x := in.(type) {
				case ssa.CallInstruction:
					name := p.CalleeName(x)
					if core.StaticCallee(x) == storeFn {
						args := x.Common().Args
						w := wrapperOf(args[0])
						if w == "" {
							return fail("(SyncMap).store is called on something other than the embedded SyncMap of a wrapper at " + e.c.Pos(in))
						}
						if w != "lib/query.VariableMap" {
							continue
						}
						nStores++
						v := args[2]
						for {
							ci, ok := v.(*ssa.ChangeInterface)
							if !ok {
								break
							}
							v = ci.X
						}
						t := v.Type()
						if mi, ok := v.(*ssa.MakeInterface); ok {
							t = mi.X.Type()
						}
						if !types.Implements(t, iface) {
							return fail("a VariableMap store at " + e.c.Pos(in) + " passes a " + shortType(t) + ", which is not a value.Primary")
						}
					} else if strings.HasPrefix(name, "(*sync.Map).") && fn != storeFn && isSyncMapInner(x.Common().Args[0]) {
						switch strings.TrimPrefix(name, "(*sync.Map).") {
						case "Store", "LoadOrStore", "Swap", "CompareAndSwap":
							return fail("the sync.Map is written outside (SyncMap).store at " + e.c.Pos(in))
						}
					}
				case *ssa.Store:
					if fa, ok := x.Addr.(*ssa.FieldAddr); ok && core.FieldOwner(fa) == "lib/query.VariableMap.SyncMap" {
						if call, ok := x.Val.(*ssa.Call); !ok || core.StaticCallee(call) != newFn {
							return fail("VariableMap.SyncMap is set to something other than NewSyncMap() at " + e.c.Pos(in))
						}
					}
				}
			}
		}
	}
	if nStores == 0 {
		return fail("no VariableMap store found (the wrapper changed shape)")
	}
	e.vmOK, e.vmWhy = true, fmt.Sprintf("%d VariableMap store site(s) all pass a value.Primary", nStores)
	return true, e.vmWhy
}

func inAssertScope(t types.Type) bool {
	if p, ok := t.(*types.Pointer); ok {
		t = p.Elem()
	}
	n, ok := t.(*types.Named)
	if !ok || n.Obj().Pkg() == nil {
		return false
	}
	pp := n.Obj().Pkg().Path()
	return pp == err2ValuePkg || pp == err2JsonPkg
}

func shortType(t types.Type) string {
	return types.TypeString(t, func(p *types.Package) string { return p.Name() })
}

type err2 struct {
	c  *Ctx
	ts *core.TypeSets
	// value.IsNull and the Null type (anchors)
	isNull   *ssa.Function
	nullType types.Type
	pools    map[*ssa.Global]*poolInfo
	cells    int // table cells enumerated for the obligation being decided
	preds    map[*ssa.Function]predInfo
	slices   map[ssa.Value]*sliceSlots
	// side condition of the VariableMap exceptions
	vmChecked, vmOK bool
	vmWhy           string
}

func ruleErr2(c *Ctx) {
	e := &err2{c: c, ts: core.NewTypeSets(c.P), preds: map[*ssa.Function]predInfo{}, slices: map[ssa.Value]*sliceSlots{}}
	e.isNull = c.Fn("lib/value.IsNull")
	if nt := c.P.Type("lib/value", "Null"); nt != nil {
		e.nullType = types.NewPointer(nt)
	} else {
		c.Unknown("anchor:lib/value.Null", "-", "cannot-analyse: type lib/value.Null not found")
		return
	}
	if e.isNull == nil {
		return
	}
	e.ts.Narrow = func(v ssa.Value, at ssa.Instruction) (types.Type, bool, []types.Type) {
		tf := e.factsFor(v, at)
		if tf.hasExact {
			return tf.exact, true, nil
		}
		if tf.isNilIf {
			return nil, true, nil
		}
		return nil, false, tf.excl
	}
	e.collectPools()

	type ob struct {
		fn *ssa.Function
		ta *ssa.TypeAssert
	}
	var obs []ob
	for _, fn := range c.P.SrcFuncs() {
		for _, b := range fn.Blocks {
			for _, in := range b.Instrs {
				ta, ok := in.(*ssa.TypeAssert)
				if !ok || ta.CommaOk || !inAssertScope(ta.AssertedType) {
					continue
				}
				obs = append(obs, ob{fn, ta})
			}
		}
	}
	keyCount := map[string]int{}
	for _, o := range obs {
		c.Sites++
		c.Touch(o.fn)
		label := fmt.Sprintf("%s.(%s)", operandLabel(o.ta.X), shortType(o.ta.AssertedType))
		key := c.KeyAt(o.fn, label)
		keyCount[key]++
		if n := keyCount[key]; n > 1 {
			key = fmt.Sprintf("%s #%d", key, n)
		}
		e.cells = 0
		ok, why := e.decide(o.fn, o.ta)
		if ok {
			c.OkN(key, c.Pos(o.ta), why, e.cells)
			continue
		}
		if exc, isExc := err2Exceptions[key]; isExc {
			if okc, whyc := exc.cond(e); okc {
				c.Ok(key, c.Pos(o.ta), "exception: "+exc.reason+" [side condition checked: "+whyc+"]")
				continue
			} else {
				why += "; the exception recorded for this construct lapsed: " + whyc
			}
		}
		c.Bad(key, c.Pos(o.ta), why)
		if c.P.IsControl(o.fn) && strings.HasPrefix(o.fn.Name(), "ok") {
			// a negative control: the correct spelling of an idiom was reported
			c.Unknown("negative-control:"+key, "-", "the rule reports "+o.fn.Name()+" ("+c.Pos(o.ta)+"), which spells an accepted idiom correctly: "+why)
		}
	}
}

// operandLabel names the asserted operand at source level.
func operandLabel(v ssa.Value) string {
	for {
		ci, ok := v.(*ssa.ChangeInterface)
		if !ok {
			break
		}
		v = ci.X
	}
	if a := core.Addr(v); a != nil {
		switch x := a.(type) {
		case *ssa.Alloc:
			if x.Comment != "" {
				return x.Comment
			}
		case *ssa.FreeVar:
			return x.Name()
		case *ssa.FieldAddr:
			return core.FieldOwner(x)
		case *ssa.IndexAddr:
			return operandLabel(x.X) + "[·]"
		case *ssa.Global:
			return x.Name()
		}
	}
	switch x := v.(type) {
	case *ssa.Parameter:
		return x.Name()
	case *ssa.FreeVar:
		return x.Name()
	case *ssa.Field:
		return core.FieldOwner(x)
	case *ssa.Extract:
		if c, ok := x.Tuple.(*ssa.Call); ok {
			return fmt.Sprintf("%s()#%d", calleeLabel(c), x.Index)
		}
		if ta, ok := x.Tuple.(*ssa.TypeAssert); ok {
			return operandLabel(ta.X)
		}
	case *ssa.Call:
		return calleeLabel(x) + "()"
	case *ssa.Phi:
		if x.Comment != "" {
			return x.Comment
		}
		return "φ"
	case *ssa.Lookup:
		return operandLabel(x.X) + "[·]"
	case *ssa.Slice:
		return operandLabel(x.X)
	case *ssa.TypeAssert:
		return operandLabel(x.X)
	case *ssa.Const:
		return "const"
	}
	return v.Name()
}

// ---------------------------------------------------------------------------
// branch facts about the dynamic type of one operand

type typeFacts struct {
	exact    types.Type // x is exactly this type (positive type test) — set when hasExact
	hasExact bool
	isNilIf  bool         // x is the nil interface
	excl     []types.Type // x is none of these (nil entry = not the nil interface)
	notes    []string
}

// factsFor collects what the dominating branches say about x's dynamic type at `at`.
func (e *err2) factsFor(x ssa.Value, at ssa.Instruction) typeFacts {
	var tf typeFacts
	for _, f := range core.FactsAt(at.Block()) {
		cond, neg := f.Cond, f.Neg
		for {
			u, ok := cond.(*ssa.UnOp)
			if !ok || u.Op != token.NOT {
				break
			}
			cond, neg = u.X, !neg
		}
		// ok-component of `y.(T)`
		if ex, ok := cond.(*ssa.Extract); ok && ex.Index == 1 {
			if ta, ok := ex.Tuple.(*ssa.TypeAssert); ok && ta.CommaOk && core.SameValue(ta.X, x, at) {
				if types.IsInterface(ta.AssertedType) {
					continue
				}
				if !neg {
					tf.exact, tf.hasExact = ta.AssertedType, true
					tf.notes = append(tf.notes, "dominating type test "+shortType(ta.AssertedType)+" at "+e.c.Pos(ta))
				} else {
					tf.excl = append(tf.excl, ta.AssertedType)
				}
			}
			continue
		}
		// value.IsNull(y)
		if call, ok := cond.(*ssa.Call); ok && core.StaticCallee(call) == e.isNull && len(call.Call.Args) == 1 {
			if core.SameValue(call.Call.Args[0], x, at) {
				if neg {
					tf.excl = append(tf.excl, e.nullType)
					tf.notes = append(tf.notes, "IsNull excluded at "+e.c.Pos(call))
				} else {
					tf.exact, tf.hasExact = e.nullType, true
				}
			}
			continue
		}
		// type predicate method: s.IsT() where IsT is `_, ok := s.f.(T); return ok`
		if call, ok := cond.(*ssa.Call); ok && !neg {
			if h := core.StaticCallee(call); h != nil && len(call.Call.Args) == 1 {
				if fld, T, ok := e.typePredicate(h); ok && fieldOf(x, call.Call.Args[0], fld, at) {
					tf.exact, tf.hasExact = T, true
					tf.notes = append(tf.notes, "type predicate "+h.Name()+"() at "+e.c.Pos(call))
				}
			}
			continue
		}
		// y != nil / y == nil
		if y, neq, ok := core.NilCmp(cond); ok && types.IsInterface(y.Type()) && core.SameValue(y, x, at) {
			if neq != neg {
				tf.excl = append(tf.excl, nil)
			} else {
				tf.isNilIf = true
			}
		}
	}
	return tf
}

// typePredicate recognises `func (s S) IsT() bool { _, ok := s.f.(T); return ok }`:
// a true result means field f of the receiver holds exactly T.
func (e *err2) typePredicate(h *ssa.Function) (int, types.Type, bool) {
	if p, ok := e.preds[h]; ok {
		return p.field, p.t, p.ok
	}
	var res predInfo
	defer func() { e.preds[h] = res }()
	if h.Blocks == nil || len(h.Params) != 1 || h.Signature.Results().Len() != 1 {
		return 0, nil, false
	}
	rets := core.Returns(h)
	if len(rets) != 1 {
		return 0, nil, false
	}
	ex, ok := rets[0].Results[0].(*ssa.Extract)
	if !ok || ex.Index != 1 {
		return 0, nil, false
	}
	ta, ok := ex.Tuple.(*ssa.TypeAssert)
	if !ok || !ta.CommaOk || types.IsInterface(ta.AssertedType) {
		return 0, nil, false
	}
	st, ok := h.Params[0].Type().Underlying().(*types.Struct)
	if !ok {
		return 0, nil, false
	}
	for f := 0; f < st.NumFields(); f++ {
		if core.IsParamPath(h, core.ParamPath{Index: 0, Field: f})(ta.X) {
			res = predInfo{f, ta.AssertedType, true}
			return f, ta.AssertedType, true
		}
	}
	return 0, nil, false
}

type predInfo struct {
	field int
	t     types.Type
	ok    bool
}

// fieldOf: x is field #fld of the struct value s (same SSA struct value, or
// both read from the same variable with no store in between).
func fieldOf(x, s ssa.Value, fld int, at ssa.Instruction) bool {
	for {
		ci, ok := x.(*ssa.ChangeInterface)
		if !ok {
			break
		}
		x = ci.X
	}
	switch v := x.(type) {
	case *ssa.Field:
		return v.Field == fld && core.SameValue(v.X, s, at)
	case *ssa.UnOp:
		if v.Op != token.MUL {
			return false
		}
		fa, ok := v.X.(*ssa.FieldAddr)
		if !ok || fa.Field != fld {
			return false
		}
		// s = *A and x = *(&A.f)
		if ls, ok := s.(*ssa.UnOp); ok && ls.Op == token.MUL && ls.X == fa.X {
			if first, ok := s.(ssa.Instruction); ok {
				return !core.StoreBetween(fa.X, first, at) && !core.StoreBetween(fa, first, at)
			}
		}
	}
	return false
}

// setAt: the type-set of x at instruction `at` after applying branch facts.
func (e *err2) setAt(x ssa.Value, at ssa.Instruction) (*core.TypeSet, typeFacts) {
	tf := e.factsFor(x, at)
	if tf.hasExact {
		s := core.NewTypeSet()
		s.Add(tf.exact)
		return s, tf
	}
	if tf.isNilIf {
		s := core.NewTypeSet()
		s.Add(nil)
		return s, tf
	}
	s := e.baseSet(x, at).Clone()
	for _, t := range tf.excl {
		s.Remove(t)
	}
	return s, tf
}

// baseSet: flow-insensitive type-set of x (S2), with the pool getters (S4) plugged in.
func (e *err2) baseSet(x ssa.Value, at ssa.Instruction) *core.TypeSet {
	if g := e.poolGet(x); g != nil {
		return e.poolSet(g)
	}
	if s := e.tupleCorrelated(x, at); s != nil {
		return s
	}
	if s := e.sliceSlotSet(x, at); s != nil {
		return s
	}
	return e.ts.Final(x, nil)
}

// ---------------------------------------------------------------------------
// slots of a function-local slice: x = s[i] where s is made by one `make` in
// this function, never passed on or re-sliced, and only written by element
// stores s[j] = v. The set of s[i] is nil (the zero slot) plus the sets of the
// stored values whose index can equal i (indices are compared as sets of
// constants, read through Phi nodes and through a dominating `j == k` test).

type sliceSlots struct {
	stores []*ssa.Store
}

// isFreshSlice: make([]T, n) — a MakeSlice, or (constant n) a slice of a new
// array that has no other use.
func isFreshSlice(v ssa.Value) bool {
	switch x := v.(type) {
	case *ssa.MakeSlice:
		return true
	case *ssa.Slice:
		al, ok := x.X.(*ssa.Alloc)
		if !ok {
			return false
		}
		for _, r := range *al.Referrers() {
			if r != ssa.Instruction(x) {
				if _, dbg := r.(*ssa.DebugRef); !dbg {
					return false
				}
			}
		}
		return true
	}
	return false
}

func (e *err2) localSlice(x ssa.Value) *sliceSlots {
	var mk ssa.Value
	var cell ssa.Value
	switch v := x.(type) {
	case *ssa.MakeSlice:
		mk = v
	case *ssa.Slice:
		if !isFreshSlice(v) {
			return nil
		}
		mk = v
	case *ssa.UnOp:
		if v.Op != token.MUL {
			return nil
		}
		switch v.X.(type) {
		case *ssa.Alloc, *ssa.FreeVar:
		default:
			return nil
		}
		vals, complete := core.StoresTo(v.X)
		if !complete || len(vals) != 1 {
			return nil
		}
		if !isFreshSlice(vals[0]) {
			return nil
		}
		mk, cell = vals[0], v.X
	default:
		return nil
	}
	if ss, ok := e.slices[mk]; ok {
		return ss
	}
	ss := &sliceSlots{}
	e.slices[mk] = nil
	ok := true
	var useSlice func(u ssa.Value)
	useSlice = func(u ssa.Value) {
		refs := u.Referrers()
		if refs == nil {
			ok = false
			return
		}
		for _, r := range *refs {
			switch y := r.(type) {
			case *ssa.IndexAddr:
				if y.X != u {
					ok = false
					continue
				}
				for _, r2 := range *y.Referrers() {
					switch z := r2.(type) {
					case *ssa.Store:
						if z.Addr == y {
							ss.stores = append(ss.stores, z)
						} else {
							ok = false
						}
					case *ssa.UnOp, *ssa.DebugRef:
					default:
						ok = false
					}
				}
			case *ssa.Store:
				if y.Val != u || (cell == nil) {
					ok = false
				}
			case *ssa.DebugRef:
			case *ssa.Call:
				if b, isB := y.Call.Value.(*ssa.Builtin); !isB || (b.Name() != "len" && b.Name() != "cap") {
					ok = false
				}
			default:
				ok = false
			}
		}
	}
	useSlice(mk)
	if cell != nil {
		seen := map[ssa.Value]bool{}
		var useCell func(c ssa.Value)
		useCell = func(c ssa.Value) {
			if seen[c] {
				return
			}
			seen[c] = true
			refs := c.Referrers()
			if refs == nil {
				ok = false
				return
			}
			for _, r := range *refs {
				switch y := r.(type) {
				case *ssa.Store:
					if y.Addr != c || y.Val != mk {
						ok = false
					}
				case *ssa.UnOp:
					useSlice(y)
				case *ssa.MakeClosure:
					f, _ := y.Fn.(*ssa.Function)
					for i, b := range y.Bindings {
						if b == c && f != nil && i < len(f.FreeVars) {
							useCell(f.FreeVars[i])
						}
					}
				case *ssa.DebugRef:
				default:
					ok = false
				}
			}
		}
		// start from the root Alloc so that every closure sharing the cell is seen
		root := cell
		if vals, _ := core.StoresTo(cell); len(vals) == 1 {
			for _, r := range *mk.Referrers() {
				if st, isSt := r.(*ssa.Store); isSt && st.Val == mk {
					root = st.Addr
				}
			}
		}
		useCell(root)
	}
	if !ok {
		return nil
	}
	e.slices[mk] = ss
	return ss
}

// indexSet: the constants an index value can be at `at` (nil = unknown).
func indexSet(v ssa.Value, at ssa.Instruction) map[int64]bool {
	consts := func(v ssa.Value) map[int64]bool {
		out := map[int64]bool{}
		for _, l := range core.PhiLeaves(v) {
			k, ok := core.ConstInt(l)
			if !ok {
				return nil
			}
			out[k] = true
		}
		return out
	}
	if s := consts(v); s != nil {
		return s
	}
	for _, f := range core.FactsAt(at.Block()) {
		b, ok := f.Cond.(*ssa.BinOp)
		if !ok || f.Neg || b.Op != token.EQL {
			continue
		}
		var other ssa.Value
		if b.X == v {
			other = b.Y
		} else if b.Y == v {
			other = b.X
		} else {
			continue
		}
		if s := consts(other); s != nil {
			return s
		}
	}
	return nil
}

func (e *err2) sliceSlotSet(x ssa.Value, at ssa.Instruction) *core.TypeSet {
	ia := core.IndexLoad(x)
	if ia == nil {
		return nil
	}
	ss := e.localSlice(ia.X)
	if ss == nil {
		return nil
	}
	want := indexSet(ia.Index, at)
	out := core.NewTypeSet()
	out.Add(nil) // a slot that was never assigned
	for _, st := range ss.stores {
		have := indexSet(st.Addr.(*ssa.IndexAddr).Index, st)
		if want != nil && have != nil {
			meet := false
			for k := range have {
				if want[k] {
					meet = true
				}
			}
			if !meet {
				continue
			}
		}
		s, _ := e.setAt(st.Val, st)
		out.Union(s)
	}
	return out
}

// errNilFact: index of an error result of `call` that a dominating test shows
// to be nil at `at` (-1 if none).
func errNilFact(call *ssa.Call, at ssa.Instruction) int {
	k := -1
	for _, f := range core.FactsAt(at.Block()) {
		y, neq, ok := core.NilCmp(f.Cond)
		if !ok || !core.IsErrorType(y.Type()) {
			continue
		}
		if neq != f.Neg {
			continue // y is non-nil here
		}
		if ey, ok := y.(*ssa.Extract); ok && ey.Tuple == call {
			k = ey.Index
		}
	}
	return k
}

// errMayBeNil: can return r yield a nil error as result #k?
func errMayBeNil(r *ssa.Return, k int) bool {
	if k >= len(r.Results) {
		return true
	}
	for _, v := range core.ReturnOperand(r, k) {
		if core.ClassifyNil(v, r) != core.NonNil {
			return true
		}
	}
	return false
}

// tupleCorrelated: x is result #i of a call whose error result #k is known to
// be nil at `at` (dominating `err != nil` false edge): only the returns of the
// callee whose error operand may be nil contribute.
func (e *err2) tupleCorrelated(x ssa.Value, at ssa.Instruction) *core.TypeSet {
	for {
		ci, ok := x.(*ssa.ChangeInterface)
		if !ok {
			break
		}
		x = ci.X
	}
	ex, ok := x.(*ssa.Extract)
	if !ok {
		return nil
	}
	call, ok := ex.Tuple.(*ssa.Call)
	if !ok {
		return nil
	}
	g := core.StaticCallee(call)
	if g == nil || g.Blocks == nil {
		return nil
	}
	k := errNilFact(call, at)
	if k < 0 {
		return nil
	}
	out := core.NewTypeSet()
	for _, r := range core.Returns(g) {
		if k >= len(r.Results) || ex.Index >= len(r.Results) {
			continue
		}
		if !errMayBeNil(r, k) {
			continue
		}
		for _, v := range core.ReturnOperand(r, ex.Index) {
			if v == nil {
				out.Add(nil)
				continue
			}
			out.Union(e.ts.FinalAt(v, r))
		}
	}
	return out
}

func (e *err2) decide(fn *ssa.Function, ta *ssa.TypeAssert) (bool, string) {
	T := ta.AssertedType
	if types.IsInterface(T) {
		return e.decideIface(fn, ta)
	}
	s, tf := e.setAt(ta.X, ta)
	if tf.hasExact {
		if types.Identical(tf.exact, T) {
			return true, "S1: " + strings.Join(tf.notes, "; ")
		}
		return false, fmt.Sprintf("the assertion to %s is reached only when the operand was tested to be %s: it always panics (interface conversion → Fatal Error)", shortType(T), shortType(tf.exact))
	}
	ok, why := e.judge(s, tf, T, ta)
	if ok {
		return ok, why
	}
	if ok3, why3 := e.decideFlagTable(fn, ta); why3 != "" {
		return ok3, why3
	}
	if ok2, why2 := e.decideDynCorrelation(fn, ta); ok2 {
		return ok2, why2
	}
	return ok, why
}

func (e *err2) judge(s *core.TypeSet, tf typeFacts, T types.Type, ta *ssa.TypeAssert) (bool, string) {
	var extra []string
	for _, k := range s.Keys() {
		if k != core.TypeKey(T) {
			extra = append(extra, shortTypeName(k))
		}
	}
	if !s.Top && len(extra) == 0 {
		strategy := "S2"
		if e.poolGet(ta.X) != nil {
			strategy = "S4"
		}
		why := fmt.Sprintf("%s: operand can only hold %s", strategy, s.String())
		if len(tf.notes) > 0 {
			why += " (" + strings.Join(tf.notes, "; ") + ")"
		}
		return true, why
	}
	var parts []string
	if len(extra) > 0 {
		parts = append(parts, "the operand can also hold "+strings.Join(extra, ", "))
	}
	if s.Top {
		parts = append(parts, "its dynamic type is not determined by the program text ("+s.TopWhy+")")
	}
	return false, fmt.Sprintf("unchecked assertion to %s: %s, and no dominating type test / IsNull / nil test excludes that: an unexpected value panics with 'interface conversion' (internal Fatal Error) instead of a csvq error", shortType(T), strings.Join(parts, "; "))
}

func shortTypeName(k string) string {
	k = strings.ReplaceAll(k, core.ModPath+"/lib/", "")
	return strings.ReplaceAll(k, "github.com/mithrandie/go-text/", "")
}

// decideIface: assertion to an interface type of the scoped packages
// (value.Primary, json.Structure): every possible dynamic type must implement it.
func (e *err2) decideIface(fn *ssa.Function, ta *ssa.TypeAssert) (bool, string) {
	s, _ := e.setAt(ta.X, ta)
	iface := ta.AssertedType.Underlying().(*types.Interface)
	var bad []string
	for _, k := range s.Keys() {
		t := s.M[k]
		if t == nil {
			bad = append(bad, "nil")
		} else if !types.Implements(t, iface) {
			bad = append(bad, shortTypeName(k))
		}
	}
	if !s.Top && len(bad) == 0 {
		return true, "S2: every possible dynamic type " + s.String() + " implements " + shortType(ta.AssertedType)
	}
	if s.Top {
		bad = append(bad, "unknown ("+s.TopWhy+")")
	}
	return false, fmt.Sprintf("unchecked assertion to interface %s: operand may hold %s", shortType(ta.AssertedType), strings.Join(bad, ", "))
}

// ---------------------------------------------------------------------------
// S4 — pool getters

type poolInfo struct {
	g       *ssa.Global
	set     *core.TypeSet
	hasNew  bool
	escaped string
	detail  []string
}

func isPoolMethod(p *core.Prog, c ssa.CallInstruction, name string) bool {
	return p.CalleeName(c) == "(*sync.Pool)."+name
}

// poolGlobal: the package-level *sync.Pool variable a receiver value is loaded from.
func poolGlobal(recv ssa.Value) *ssa.Global {
	if g, ok := recv.(*ssa.Global); ok {
		return g // var pool = sync.Pool{…}: the receiver is the variable's address
	}
	if u, ok := recv.(*ssa.UnOp); ok && u.Op == token.MUL {
		if g, ok := u.X.(*ssa.Global); ok {
			return g
		}
	}
	return nil
}

// poolGet: x is `G.Get()` for a package-level pool G.
func (e *err2) poolGet(x ssa.Value) *ssa.Global {
	call, ok := x.(*ssa.Call)
	if !ok || !isPoolMethod(e.c.P, call, "Get") || len(call.Call.Args) < 1 {
		return nil
	}
	return poolGlobal(call.Call.Args[0])
}

// collectPools: for every package-level sync.Pool of csvq, the union of the
// type-set of its New function and of the arguments of every Put (evaluated with
// the branch facts at the Put). A Put/Get through anything but a direct load of
// the package-level variable makes all pools unknown.
func (e *err2) collectPools() {
	e.pools = map[*ssa.Global]*poolInfo{}
	get := func(g *ssa.Global) *poolInfo {
		pi := e.pools[g]
		if pi == nil {
			pi = &poolInfo{g: g, set: core.NewTypeSet()}
			e.pools[g] = pi
		}
		return pi
	}
	newFn := func(pi *poolInfo, v ssa.Value) {
		var f *ssa.Function
		switch v := v.(type) {
		case *ssa.Function:
			f = v
		case *ssa.MakeClosure:
			f, _ = v.Fn.(*ssa.Function)
		}
		if f == nil {
			pi.set.SetTop("pool " + pi.g.Name() + ".New is not a function literal")
			return
		}
		pi.hasNew = true
		pi.set.Union(e.ts.FinalResult(f, 0))
		pi.detail = append(pi.detail, "New="+e.ts.FinalResult(f, 0).String())
	}
	for _, fn := range e.c.P.AllCsvqFuncs() {
		for _, b := range fn.Blocks {
			for _, in := range b.Instrs {
				switch x := in.(type) {
				case *ssa.Store:
					// var G = sync.Pool{New: f}: store into &G.New
					if fa, ok := x.Addr.(*ssa.FieldAddr); ok {
						if g, ok := fa.X.(*ssa.Global); ok && types.TypeString(g.Type(), nil) == "*sync.Pool" {
							if core.FieldName(fa) == "New" {
								newFn(get(g), x.Val)
							}
						}
						continue
					}
					// var G = &sync.Pool{New: f}
					g, ok := x.Addr.(*ssa.Global)
					if !ok || types.TypeString(g.Type(), nil) != "**sync.Pool" {
						continue
					}
					pi := get(g)
					al, ok := x.Val.(*ssa.Alloc)
					if !ok {
						pi.set.SetTop("pool " + g.Name() + " assigned from " + x.Val.Name())
						continue
					}
					foundNew := false
					for _, r := range *al.Referrers() {
						fa, ok := r.(*ssa.FieldAddr)
						if !ok || core.FieldName(fa) != "New" {
							continue
						}
						for _, r2 := range *fa.Referrers() {
							st, ok := r2.(*ssa.Store)
							if !ok || st.Addr != fa {
								continue
							}
							var f *ssa.Function
							switch v := st.Val.(type) {
							case *ssa.Function:
								f = v
							case *ssa.MakeClosure:
								f, _ = v.Fn.(*ssa.Function)
							}
							if f == nil {
								pi.set.SetTop("pool " + g.Name() + ".New is not a function literal")
								continue
							}
							foundNew = true
							pi.set.Union(e.ts.FinalResult(f, 0))
							pi.detail = append(pi.detail, "New="+e.ts.FinalResult(f, 0).String())
						}
					}
					if foundNew {
						pi.hasNew = true
					}
				case ssa.CallInstruction:
					if !isPoolMethod(e.c.P, x, "Put") {
						continue
					}
					args := x.Common().Args
					if len(args) != 2 {
						continue
					}
					g := poolGlobal(args[0])
					if g == nil {
						continue // a pool that is not a package-level variable (cannot alias one, see escape check)
					}
					s, _ := e.setAt(args[1], in)
					get(g).set.Union(s)
					get(g).detail = append(get(g).detail, fmt.Sprintf("Put@%s=%s", e.c.P.Name(fn), s.String()))
				}
			}
		}
	}
	// escape check: a package-level pool may only be used as the receiver of
	// Get/Put (and be initialised); anything else could alias it.
	isPoolGlobal := func(v ssa.Value) *ssa.Global {
		g, ok := v.(*ssa.Global)
		if !ok {
			return nil
		}
		ts := types.TypeString(g.Type(), nil)
		if ts == "*sync.Pool" || ts == "**sync.Pool" {
			return g
		}
		return nil
	}
	recvOnly := func(v ssa.Value) string {
		refs := v.Referrers()
		if refs == nil {
			return ""
		}
		for _, r := range *refs {
			if c, ok := r.(ssa.CallInstruction); ok && (isPoolMethod(e.c.P, c, "Get") || isPoolMethod(e.c.P, c, "Put")) && c.Common().Args[0] == v {
				bad := false
				for _, a := range c.Common().Args[1:] {
					if a == v {
						bad = true
					}
				}
				if !bad {
					continue
				}
			}
			if _, ok := r.(*ssa.DebugRef); ok {
				continue
			}
			return e.c.Pos(r)
		}
		return ""
	}
	for _, fn := range e.c.P.AllCsvqFuncs() {
		for _, b := range fn.Blocks {
			for _, in := range b.Instrs {
				for _, op := range in.Operands(nil) {
					if op == nil || *op == nil {
						continue
					}
					g := isPoolGlobal(*op)
					if g == nil {
						continue
					}
					pi := get(g)
					switch x := in.(type) {
					case *ssa.Store:
						if x.Addr == g {
							continue // initialiser
						}
					case *ssa.UnOp:
						if x.Op == token.MUL && x.X == g {
							if where := recvOnly(x); where != "" {
								pi.escaped = "the pool pointer " + g.Name() + " is used other than as a Get/Put receiver at " + where
							}
							continue
						}
					case *ssa.FieldAddr:
						if x.X == g && core.FieldName(x) == "New" && fn.Name() == "init" {
							continue
						}
					case ssa.CallInstruction:
						if (isPoolMethod(e.c.P, x, "Get") || isPoolMethod(e.c.P, x, "Put")) && x.Common().Args[0] == g {
							continue
						}
					}
					pi.escaped = "the pool variable " + g.Name() + " is used other than as a Get/Put receiver at " + e.c.Pos(in)
				}
			}
		}
	}
}

func (e *err2) poolSet(g *ssa.Global) *core.TypeSet {
	pi := e.pools[g]
	if pi == nil {
		s := core.NewTypeSet()
		s.SetTop("pool " + g.Name() + " has no visible initialiser")
		return s
	}
	s := pi.set.Clone()
	if pi.escaped != "" {
		s.SetTop(pi.escaped)
	}
	if !pi.hasNew {
		s.Add(nil) // Get returns nil when New is unset
	}
	return s
}

// ---------------------------------------------------------------------------
// hypotheses (S3 and correlated conversions)

// extraCond decides, under a hypothesis, conditions that depend on a callee
// which receives the hypothesised value: IsNull(f(base)), the boolean or error
// result of f(base).
func (e *err2) extraCond(depth int) func(he *core.HypoEval, cond ssa.Value) (bool, bool) {
	return func(he *core.HypoEval, cond ssa.Value) (bool, bool) {
		if depth > 2 {
			return false, false
		}
		if call, ok := cond.(*ssa.Call); ok && core.StaticCallee(call) == e.isNull && len(call.Call.Args) == 1 {
			arg := call.Call.Args[0]
			for {
				ci, ok := arg.(*ssa.ChangeInterface)
				if !ok {
					break
				}
				arg = ci.X
			}
			if he.H.Kind == core.HypDyn && he.H.IsBase(arg) {
				return he.H.Dyn != nil && types.Identical(he.H.Dyn, e.nullType), true
			}
			if c2, idx, ok := core.ExtractOf(arg); ok {
				if s := e.calleeSet(c2, idx, he.H, depth+1); s != nil && !s.Top {
					if !s.Has(e.nullType) {
						return false, true
					}
					if len(s.M) == 1 {
						return true, true
					}
				}
			}
			return false, false
		}
		if ex, ok := cond.(*ssa.Extract); ok {
			if c2, ok := ex.Tuple.(*ssa.Call); ok {
				if g, h2, ok := core.Translate(c2, he.H); ok {
					return core.NewHypoEval(e.ts, g, h2, e.extraCond(depth+1)).ResultBool(ex.Index)
				}
			}
			return false, false
		}
		if y, neq, ok := core.NilCmp(cond); ok && core.IsErrorType(y.Type()) {
			if c2, idx, ok := core.ExtractOf(y); ok {
				if g, h2, ok := core.Translate(c2, he.H); ok {
					ge := core.NewHypoEval(e.ts, g, h2, e.extraCond(depth+1))
					all, none, any := true, true, false
					for _, r := range core.Returns(g) {
						if !ge.Reachable(r.Block()) || idx >= len(r.Results) {
							continue
						}
						for _, v := range core.ReturnOperand(r, idx) {
							any = true
							switch core.ClassifyNil(v, r) {
							case core.NonNil:
								none = false
							case core.IsNil:
								all = false
							default:
								all, none = false, false
							}
						}
					}
					if any && all {
						return neq, true // err is non-nil on every surviving return
					}
					if any && none {
						return !neq, true // err is nil on every surviving return
					}
				}
			}
		}
		return false, false
	}
}

// calleeSet: type-set of result #idx of call c when the caller's hypothesis is
// carried into the callee; nil when the call does not receive the base.
func (e *err2) calleeSet(c *ssa.Call, idx int, h *core.Hypo, depth int) *core.TypeSet {
	return e.calleeSetWhere(c, idx, h, depth, -1)
}

// calleeSetWhere: as calleeSet, restricted (errIdx ≥ 0) to the returns whose
// error result #errIdx may be nil.
func (e *err2) calleeSetWhere(c *ssa.Call, idx int, h *core.Hypo, depth int, errIdx int) *core.TypeSet {
	g, h2, ok := core.Translate(c, h)
	if !ok {
		return nil
	}
	var keep func(*ssa.Return) bool
	if errIdx >= 0 {
		keep = func(r *ssa.Return) bool { return errMayBeNil(r, errIdx) }
	}
	return core.NewHypoEval(e.ts, g, h2, e.extraCond(depth)).ResultSetWhere(idx, keep)
}

type hypFailure struct {
	label string
	set   *core.TypeSet
}

// underHypotheses enumerates hyps; for each one under which the assertion can
// execute, the operand's set (producer evaluated under the hypothesis, minus
// the exclusions that dominate the assertion) must be {T}.
func (e *err2) underHypotheses(fn *ssa.Function, ta *ssa.TypeAssert, call *ssa.Call, idx int, hyps []*core.Hypo) (cells int, fails []hypFailure, undecided string) {
	T := ta.AssertedType
	tf := e.factsFor(ta.X, ta)
	for _, h := range hyps {
		heF := core.NewHypoEval(e.ts, fn, h, e.extraCond(0))
		if !heF.Reachable(ta.Block()) {
			continue
		}
		cells++
		s := e.calleeSetWhere(call, idx, h, 0, errNilFact(call, ta))
		if s == nil {
			return cells, nil, "the call does not receive the key"
		}
		s = s.Clone()
		for _, t := range tf.excl {
			s.Remove(t)
		}
		if s.Top || len(s.M) != 1 || !s.Has(T) {
			fails = append(fails, hypFailure{h.Label(), s})
		}
	}
	return
}

func describeFails(fails []hypFailure) string {
	var parts []string
	for i, f := range fails {
		if i == 4 {
			parts = append(parts, fmt.Sprintf("… (%d more)", len(fails)-4))
			break
		}
		parts = append(parts, fmt.Sprintf("for %s the producer yields %s", f.label, f.set.String()))
	}
	return strings.Join(parts, "; ")
}

// ---------------------------------------------------------------------------
// S3 — paired string-switch tables

// stringCarriers lists the string values that call c passes on: string
// arguments and string fields of struct literals built for the call.
func stringCarriers(c *ssa.Call) []ssa.Value {
	var out []ssa.Value
	isStr := func(t types.Type) bool {
		b, ok := t.Underlying().(*types.Basic)
		return ok && b.Kind() == types.String
	}
	for _, a := range c.Call.Args {
		if isStr(a.Type()) {
			if _, isConst := a.(*ssa.Const); !isConst {
				out = append(out, a)
			}
			continue
		}
		if u, ok := a.(*ssa.UnOp); ok && u.Op == token.MUL {
			if al, ok := u.X.(*ssa.Alloc); ok {
				for _, r := range *al.Referrers() {
					if fa, ok := r.(*ssa.FieldAddr); ok {
						for _, r2 := range *fa.Referrers() {
							if st, ok := r2.(*ssa.Store); ok && st.Addr == fa && isStr(st.Val.Type()) {
								if _, isConst := st.Val.(*ssa.Const); !isConst {
									out = append(out, st.Val)
								}
							}
						}
					}
				}
			}
		}
	}
	return out
}

func (e *err2) decideFlagTable(fn *ssa.Function, ta *ssa.TypeAssert) (bool, string) {
	x := ta.X
	for {
		ci, ok := x.(*ssa.ChangeInterface)
		if !ok {
			break
		}
		x = ci.X
	}
	call, idx, ok := core.ExtractOf(x)
	if !ok {
		return false, ""
	}
	callee := core.StaticCallee(call)
	if callee == nil || callee.Blocks == nil {
		return false, ""
	}
	for _, base := range stringCarriers(call) {
		base := base
		isBase := func(v ssa.Value) bool { return v == base }
		h0 := &core.Hypo{Kind: core.HypStr, IsBase: isBase}
		g, hg, ok := core.Translate(call, h0)
		if !ok {
			continue
		}
		rawG, upperG := core.StringComparisons(g, hg.IsBase)
		if len(rawG)+len(upperG) < 2 {
			continue // the producer is not a table over this key
		}
		rawF, upperF := core.StringComparisons(fn, isBase)
		var hyps []*core.Hypo
		mk := func(raw, upper *string) {
			hyps = append(hyps, &core.Hypo{Kind: core.HypStr, Raw: raw, Upper: upper, IsBase: isBase})
		}
		domain := "all key classes"
		if list, ok := e.finiteKeyList(base); ok {
			domain = "the key list the consumer iterates"
			for _, k := range list {
				k, u := k, strings.ToUpper(k)
				mk(&k, &u)
			}
		} else {
			seen := map[string]bool{}
			for _, k := range append(append([]string{}, rawF...), rawG...) {
				if !seen["r"+k] {
					seen["r"+k] = true
					k, u := k, strings.ToUpper(k)
					mk(&k, &u)
				}
			}
			for _, u := range append(append([]string{}, upperF...), upperG...) {
				if !seen["u"+u] {
					seen["u"+u] = true
					u := u
					mk(nil, &u)
				}
			}
			mk(nil, nil)
		}
		cells, fails, und := e.underHypotheses(fn, ta, call, idx, hyps)
		if und != "" {
			continue
		}
		e.cells = cells
		if len(fails) == 0 {
			return true, fmt.Sprintf("S3: producer %s and this consumer switch on the same key; %d key class(es) of %s reach the assertion and for each the producer yields exactly %s", e.c.P.Name(g), cells, domain, shortType(ta.AssertedType))
		}
		return false, fmt.Sprintf("paired table mismatch with producer %s (keys enumerated over %s): %s — the assertion to %s panics (interface conversion → Fatal Error)", e.c.P.Name(g), domain, describeFails(fails), shortType(ta.AssertedType))
	}
	return false, ""
}

// finiteKeyList: base is an element of a package-level constant string list.
func (e *err2) finiteKeyList(base ssa.Value) ([]string, bool) {
	u, ok := base.(*ssa.UnOp)
	if !ok || u.Op != token.MUL {
		return nil, false
	}
	ia, ok := u.X.(*ssa.IndexAddr)
	if !ok {
		return nil, false
	}
	l, ok := ia.X.(*ssa.UnOp)
	if !ok || l.Op != token.MUL {
		return nil, false
	}
	g, ok := l.X.(*ssa.Global)
	if !ok {
		return nil, false
	}
	return e.c.P.GlobalStringList(g)
}

// ---------------------------------------------------------------------------
// S2c — conversions correlated through their common argument: the operand is
// f(v) and the path to the assertion is conditioned on g(v) (e.g. ToString(v)
// asserted after ToIntegerStrictly(v) turned out non-null). The dynamic type of
// v is enumerated.

func (e *err2) decideDynCorrelation(fn *ssa.Function, ta *ssa.TypeAssert) (bool, string) {
	x := ta.X
	for {
		ci, ok := x.(*ssa.ChangeInterface)
		if !ok {
			break
		}
		x = ci.X
	}
	call, idx, ok := core.ExtractOf(x)
	if !ok {
		return false, ""
	}
	callee := core.StaticCallee(call)
	if callee == nil || callee.Blocks == nil {
		return false, ""
	}
	for _, a := range call.Call.Args {
		if !types.IsInterface(a.Type()) {
			continue
		}
		base := a
		for {
			ci, ok := base.(*ssa.ChangeInterface)
			if !ok {
				break
			}
			base = ci.X
		}
		isBase := func(v ssa.Value) bool { return v == base }
		var hyps []*core.Hypo
		for _, t := range e.universe(base) {
			hyps = append(hyps, &core.Hypo{Kind: core.HypDyn, Dyn: t, IsBase: isBase})
		}
		if len(hyps) == 0 {
			continue
		}
		cells, fails, und := e.underHypotheses(fn, ta, call, idx, hyps)
		if und != "" {
			continue
		}
		if len(fails) == 0 {
			e.cells = cells
			return true, fmt.Sprintf("S2 (argument type enumerated): for each of the %d dynamic types of %s under which the assertion is reachable, %s yields exactly %s", cells, operandLabel(base), e.c.P.Name(callee), shortType(ta.AssertedType))
		}
	}
	return false, ""
}

// universe: the dynamic types an interface value may have — its type-set when
// known, otherwise every csvq type implementing its static interface, plus nil.
func (e *err2) universe(v ssa.Value) []types.Type {
	s := e.ts.Final(v, nil)
	var out []types.Type
	if !s.Top {
		for _, k := range s.Keys() {
			out = append(out, s.M[k])
		}
		return out
	}
	iface, ok := v.Type().Underlying().(*types.Interface)
	if !ok || iface.NumMethods() == 0 {
		return nil
	}
	out = append(out, nil)
	for _, pk := range e.c.P.Pkgs {
		sc := pk.Types.Scope()
		for _, name := range sc.Names() {
			tn, ok := sc.Lookup(name).(*types.TypeName)
			if !ok || tn.IsAlias() {
				continue
			}
			t := tn.Type()
			if types.IsInterface(t) {
				continue
			}
			if types.Implements(t, iface) {
				out = append(out, t)
			}
			if pt := types.NewPointer(t); types.Implements(pt, iface) {
				out = append(out, pt)
			}
		}
	}
	return out
}
