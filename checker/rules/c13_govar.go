package rules

import (
	"fmt"
	"go/token"
	"go/types"
	"sort"
	"strings"

	"golang.org/x/tools/go/ssa"

	"verif/checker/core"
)

// R-GOVAR-1 — a local variable shared with a `go` function literal is not accessed bare.
//
// Written after the report on lib/cli/app.go (observed_round7, C13): the signal goroutine of commandAction wrote the
// captured local `signalReceived` and the spawning function read it after the action had returned; the only ordering
// between the two was cancel() and the context the action may or may not have looked at. `go test -race` reports the
// pair when the signal lands while the action is finishing. R-PAR-1 (engine E5) decides the regions of lib/query only;
// this rule decides the one remaining shape for every other package: the variable captured by reference.

const goVarCtlTag = "GoVar"

func init() {
	Register(&Rule{ID: "R-GOVAR-1", Props: []string{"C13"}, Floor: 3,
		Doc: "in every csvq package other than lib/query (whose concurrent regions R-PAR-1 decides), for every `go` statement that starts a function literal and every local variable the literal " +
			"captures: when the literal (or a closure nested in it) stores into the variable and the spawning function loads or stores it after the `go` statement — directly, in a closure it " +
			"creates afterwards or in a deferred closure — or the other way round, then both accesses hold a mutex of the same name, or the spawning function's access is dominated by a " +
			"receive from a captured channel / a Wait of a captured sync.WaitGroup whose counterpart (send, close, Done) the literal performs with no store to the variable after it; " +
			"variables that are only read on both sides (a channel, an atomic value, a mutex used through its methods) need nothing",
		Controls: []string{"CtlGoVarBareErrorSlot"},
		Run:      ruleGoVar1})
}

type goVarAccess struct {
	in    ssa.Instruction
	write bool
}

// goVarAccesses: the plain loads and stores of cell in fn and in the closures fn creates that capture it
// (cell is an Alloc or FreeVar of fn); filter decides which instructions of fn itself count.
func goVarAccesses(fn *ssa.Function, cell ssa.Value, filter func(ssa.Instruction) bool, skip *ssa.MakeClosure, depth int) []goVarAccess {
	var out []goVarAccess
	if depth > 4 {
		return out
	}
	for _, b := range fn.Blocks {
		for _, in := range b.Instrs {
			switch x := in.(type) {
			case *ssa.Store:
				if x.Addr == cell && (filter == nil || filter(in)) {
					out = append(out, goVarAccess{in, true})
				}
			case *ssa.UnOp:
				if x.Op == token.MUL && x.X == cell && (filter == nil || filter(in)) {
					out = append(out, goVarAccess{in, false})
				}
			case *ssa.MakeClosure:
				if x == skip {
					continue
				}
				g, ok := x.Fn.(*ssa.Function)
				if !ok {
					continue
				}
				for i, bnd := range x.Bindings {
					if bnd != cell || i >= len(g.FreeVars) {
						continue
					}
					if filter != nil && !filter(in) && !goVarDeferred(x) {
						continue
					}
					out = append(out, goVarAccesses(g, g.FreeVars[i], nil, nil, depth+1)...)
				}
			}
		}
	}
	return out
}

func goVarDeferred(mc *ssa.MakeClosure) bool {
	if refs := mc.Referrers(); refs != nil {
		for _, r := range *refs {
			if d, ok := r.(*ssa.Defer); ok && d.Call.Value == ssa.Value(mc) {
				return true
			}
		}
	}
	return false
}

func goVarIsWaitGroup(t types.Type) bool {
	return core.NamedOf(t) == "sync.WaitGroup" || strings.HasSuffix(core.NamedOf(t), "sync.WaitGroup")
}

// goVarOrdered: the access `at` of the spawning function is dominated by a blocking operation (after the go statement) on a
// captured channel / WaitGroup whose counterpart the literal performs after its last store to the variable.
func goVarOrdered(p *core.Prog, parent *ssa.Function, goI *ssa.Go, mc *ssa.MakeClosure, g *ssa.Function, at ssa.Instruction, fv ssa.Value) bool {
	if at.Parent() != parent {
		return false
	}
	// captured cell of the parent → free variable of the literal
	toFree := map[ssa.Value]ssa.Value{}
	for i, b := range mc.Bindings {
		if i < len(g.FreeVars) {
			toFree[b] = g.FreeVars[i]
		}
	}
	cellOf := func(v ssa.Value) ssa.Value {
		v = core.Strip(v)
		if u, ok := v.(*ssa.UnOp); ok && u.Op == token.MUL {
			return u.X
		}
		return v
	}
	// counterparts in the literal, by free variable
	counter := map[ssa.Value][]ssa.Instruction{}
	for _, b := range g.Blocks {
		for _, in := range b.Instrs {
			switch x := in.(type) {
			case *ssa.Send:
				counter[cellOf(x.Chan)] = append(counter[cellOf(x.Chan)], in)
			case *ssa.Call:
				if bi, ok := x.Call.Value.(*ssa.Builtin); ok && bi.Name() == "close" && len(x.Call.Args) == 1 {
					counter[cellOf(x.Call.Args[0])] = append(counter[cellOf(x.Call.Args[0])], in)
				}
				if p.CalleeName(x) == "(*sync.WaitGroup).Done" && len(x.Call.Args) == 1 {
					counter[cellOf(x.Call.Args[0])] = append(counter[cellOf(x.Call.Args[0])], in)
				}
			case *ssa.Defer:
				if bi, ok := x.Call.Value.(*ssa.Builtin); ok && bi.Name() == "close" && len(x.Call.Args) == 1 {
					counter[cellOf(x.Call.Args[0])] = append(counter[cellOf(x.Call.Args[0])], nil)
				}
				if p.CalleeName(x) == "(*sync.WaitGroup).Done" && len(x.Call.Args) == 1 {
					counter[cellOf(x.Call.Args[0])] = append(counter[cellOf(x.Call.Args[0])], nil)
				}
			}
		}
	}
	storeAfter := func(cp ssa.Instruction) bool {
		if cp == nil { // deferred: runs when the literal ends
			return false
		}
		found := false
		core.WalkFrom(cp, func(in ssa.Instruction) bool {
			if st, ok := in.(*ssa.Store); ok && st.Addr == fv {
				found = true
			}
			return !found
		})
		return found
	}
	okCounter := func(cell ssa.Value) bool {
		f, ok := toFree[cell]
		if !ok {
			return false
		}
		cps := counter[f]
		if len(cps) == 0 {
			return false
		}
		for _, cp := range cps {
			if storeAfter(cp) {
				return false
			}
		}
		return true
	}
	for _, b := range parent.Blocks {
		for _, in := range b.Instrs {
			var cell ssa.Value
			switch x := in.(type) {
			case *ssa.UnOp:
				if x.Op == token.ARROW {
					cell = cellOf(x.X)
				}
			case *ssa.Call:
				if p.CalleeName(x) == "(*sync.WaitGroup).Wait" && len(x.Call.Args) == 1 {
					cell = cellOf(x.Call.Args[0])
				}
			}
			if cell == nil || !core.Dominates(in, at) || !core.Reachable(goI, in, nil) {
				continue
			}
			if okCounter(cell) {
				return true
			}
		}
	}
	return false
}

func ruleGoVar1(c *Ctx) {
	p := c.P
	var fns []*ssa.Function
	for _, fn := range p.SrcFuncs() {
		if p.InPkg(fn, "lib/query") {
			continue
		}
		if p.IsControl(fn) && !strings.Contains(p.Name(fn), goVarCtlTag) {
			continue
		}
		fns = append(fns, fn)
	}
	nGo := 0
	for _, fn := range fns {
		seen := map[string]int{}
		for _, b := range fn.Blocks {
			for _, in := range b.Instrs {
				goI, ok := in.(*ssa.Go)
				if !ok {
					continue
				}
				mc, ok := goI.Call.Value.(*ssa.MakeClosure)
				if !ok {
					continue
				}
				g, ok := mc.Fn.(*ssa.Function)
				if !ok {
					continue
				}
				if !p.IsControl(fn) {
					nGo++
				}
				c.Touch(fn)
				after := map[ssa.Instruction]bool{}
				core.WalkFrom(goI, func(x ssa.Instruction) bool { after[x] = true; return true })
				for i, cell := range mc.Bindings {
					if i >= len(g.FreeVars) {
						continue
					}
					fv := g.FreeVars[i]
					name := fv.Name()
					key := txnOrd(seen, c.KeyAt(fn, "variable "+name+" shared with the go function literal"))
					inner := goVarAccesses(g, fv, nil, nil, 0)
					outer := goVarAccesses(fn, cell, func(x ssa.Instruction) bool { return after[x] }, mc, 0)
					sort.SliceStable(inner, func(a, b int) bool { return inner[a].in.Pos() < inner[b].in.Pos() })
					sort.SliceStable(outer, func(a, b int) bool { return outer[a].in.Pos() < outer[b].in.Pos() })
					bad := ""
					for _, ia := range inner {
						for _, oa := range outer {
							if !ia.write && !oa.write {
								continue
							}
							if li, lo := lockHeldAt(p, ia.in), lockHeldAt(p, oa.in); li != "" && li == lo {
								continue
							}
							if ia.write && goVarOrdered(p, fn, goI, mc, g, oa.in, fv) {
								continue
							}
							if bad == "" {
								kind := func(w bool) string {
									if w {
										return "stores into"
									}
									return "loads"
								}
								bad = fmt.Sprintf("the function literal started at %s %s %s at %s and the spawning function %s it at %s after the go statement; neither a common mutex nor a channel receive / WaitGroup.Wait orders the two accesses (a context the other side may not look at does not): a data race — the value may be missed or torn", c.Pos(goI), kind(ia.write), name, c.Pos(ia.in), kind(oa.write), c.Pos(oa.in))
							}
						}
					}
					if bad != "" {
						c.Bad(key, c.Pos(goI), bad)
					} else {
						c.Ok(key, c.Pos(goI), fmt.Sprintf("%d access(es) in the literal, %d in the spawning function after the go statement: no conflicting pair without a common mutex or an ordering receive / Wait", len(inner), len(outer)))
					}
				}
			}
		}
	}
	if nGo == 0 {
		c.Unknown("anchor: go statements outside lib/query", "-", "cannot-analyse: no go statement with a function literal was found outside lib/query (the signal goroutine of lib/cli is expected)")
	}
}
