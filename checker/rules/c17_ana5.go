package rules

import (
	"fmt"
	"sort"
	"strings"

	"golang.org/x/tools/go/ssa"

	"verif/checker/core"
)

// R-ANA-5 — the partitions handed to an analytic function are owned by that one
// execution.
//
// LAST_VALUE and LEAD reverse the partition they receive in place. That is
// harmless as long as every Analyze call builds its partition lists afresh and
// nothing keeps them (today's code), and it would be equally harmless to share
// partitions between executions if no implementation wrote to them. The rule
// decides both halves and reports only when neither holds:
//   (i)  ownership — the map from which Analyze takes the partition argument of
//        AnalyticFunction.Execute originates only from `make` in Analyze itself
//        and is never stored into a longer-lived location (a field, a package
//        variable, an element of another container);
//   (ii) purity — no Execute implementation registered in AnalyticFunctions
//        mutates the partition it receives (calls an in-place mutator of the
//        Partition type — found from the code: a Partition method that stores
//        into its elements or hands itself to package sort — or stores through
//        it), directly or in a lib/query helper it passes the partition to.

func init() {
	Register(&Rule{ID: "R-ANA-5", Props: []string{"C17", "C14"}, Floor: 14,
		Doc:      "either (i) the partition lists Analyze hands to AnalyticFunction.Execute come only from make() in Analyze and are never stored into a field, package variable or other container (they are owned by the one execution), or (ii) no Execute implementation registered in AnalyticFunctions (resolved through the registry) mutates the partition it receives — a call of an in-place mutator of type Partition (methods that store into the receiver's elements or pass it to package sort, found from the code), a store through the slice, directly or in a helper handed the partition; one obligation for Analyze and one per implementation; a mutating implementation is reported, with the retaining store, only when (i) fails",
		Controls: []string{"CtlAnalyzeSharedPartitions"},
		Run:      ruleAna5})
}

func fxIsPartitionType(v ssa.Value) bool {
	return strings.HasSuffix(core.NamedOf(v.Type()), "lib/query.Partition")
}

// fxPartitionMutators: methods of lib/query.Partition that change the receiver in place.
func fxPartitionMutators(c *Ctx) map[*ssa.Function]bool {
	out := map[*ssa.Function]bool{}
	for _, fn := range c.P.FuncsIn(false, "lib/query") {
		if fn.Signature.Recv() == nil || len(fn.Params) == 0 || !fxIsPartitionType(fn.Params[0]) {
			continue
		}
		if fxMutatesSlice(c, fn, fn.Params[0], nil, 1) != nil {
			out[fn] = true
		}
	}
	return out
}

// fxDerivedFrom: v is p seen through conversions, interface boxing, slicing, or
// the sort adaptors (sort.IntSlice(p), sort.Reverse(x)).
func fxDerivedFrom(c *Ctx, v, p ssa.Value) bool {
	for i := 0; i < 8; i++ {
		if v == p {
			return true
		}
		switch x := v.(type) {
		case *ssa.ChangeType:
			v = x.X
		case *ssa.Convert:
			v = x.X
		case *ssa.MakeInterface:
			v = x.X
		case *ssa.ChangeInterface:
			v = x.X
		case *ssa.Slice:
			v = x.X
		case *ssa.Call:
			if c.P.CalleeName(x) == "sort.Reverse" && len(x.Common().Args) == 1 {
				v = x.Common().Args[0]
			} else {
				return false
			}
		default:
			return false
		}
	}
	return false
}

// fxMutatesSlice returns the first instruction of fn that writes into slice p in
// place: a store through &p[i], a call of package sort on it, a call of a known
// mutator method, or (depth > 0) a lib/query callee handed p that does so.
func fxMutatesSlice(c *Ctx, fn *ssa.Function, p ssa.Value, mutators map[*ssa.Function]bool, depth int) ssa.Instruction {
	for _, b := range fn.Blocks {
		for _, in := range b.Instrs {
			switch x := in.(type) {
			case *ssa.Store:
				if ia, ok := x.Addr.(*ssa.IndexAddr); ok && fxDerivedFrom(c, ia.X, p) {
					return in
				}
			case *ssa.Call:
				name := c.P.CalleeName(x)
				args := x.Common().Args
				if strings.HasPrefix(name, "sort.") && name != "sort.Reverse" && name != "sort.IntSlice" && !strings.HasPrefix(name, "sort.Search") && !strings.HasSuffix(name, "AreSorted") && !strings.HasSuffix(name, "IsSorted") {
					for _, a := range args {
						if fxDerivedFrom(c, a, p) {
							return in
						}
					}
				}
				f := core.StaticCallee(x)
				if f == nil {
					continue
				}
				for i, a := range args {
					if !fxDerivedFrom(c, a, p) {
						continue
					}
					if mutators[f] {
						return in
					}
					if depth > 0 && f.Blocks != nil && c.P.InPkg(f, "lib/query", core.ControlPkg) && i < len(f.Params) && f != fn {
						if fxMutatesSlice(c, f, f.Params[i], mutators, depth-1) != nil {
							return in
						}
					}
				}
			}
		}
	}
	return nil
}

func ruleAna5(c *Ctx) {
	analyze := c.Fn(fxAnalyze)
	reg := fxLoadRegistry(c, "lib/query", "AnalyticFunctions")
	if analyze == nil {
		return
	}
	if reg == nil {
		c.Unknown("anchor:lib/query.AnalyticFunctions", "-", "cannot-analyse: registry not readable")
		return
	}
	mutators := fxPartitionMutators(c)
	// (ii) the registered implementations
	type impl struct {
		name string
		fn   *ssa.Function
		mut  ssa.Instruction
	}
	var impls []impl
	seen := map[string]bool{}
	var names []string
	for n := range reg.impl {
		names = append(names, n)
	}
	sort.Strings(names)
	for _, n := range names {
		t := reg.impl[n]
		if seen[t] {
			continue
		}
		seen[t] = true
		fn := c.FnOpt("lib/query.(" + t + ").Execute")
		if fn == nil {
			fn = c.Fn("lib/query.(*" + t + ").Execute")
		}
		if fn == nil {
			continue
		}
		var part *ssa.Parameter
		for _, p := range fn.Params[1:] {
			if fxIsPartitionType(p) {
				part = p
			}
		}
		if part == nil {
			c.Unknown(c.KeyAt(fn, "partition not mutated in place"), c.FnPos(fn), "cannot-analyse: Execute has no parameter of type Partition")
			continue
		}
		impls = append(impls, impl{n, fn, fxMutatesSlice(c, fn, part, mutators, 2)})
	}
	check := func(an *ssa.Function) {
		c.Touch(an)
		owned, why, pos := fxPartitionsOwned(c, an)
		var muts []string
		for _, im := range impls {
			if im.mut != nil {
				muts = append(muts, c.P.Name(im.fn))
			}
		}
		key := c.KeyAt(an, "partitions handed to Execute are owned by this call")
		switch {
		case owned:
			c.Ok(key, pos, "the partition map comes from make() in this function and is not stored anywhere that outlives the call")
		case len(muts) == 0:
			c.Ok(key, pos, "the partitions are shared ("+why+") but no registered Execute implementation mutates its partition")
		default:
			c.Bad(key, pos, fmt.Sprintf("the partitions handed to AnalyticFunction.Execute are not owned by the one execution (%s) while %s mutate the partition they receive in place: the next function evaluated over the same partitions sees them reversed", why, strings.Join(muts, ", ")))
		}
		if c.P.IsControl(an) {
			return
		}
		for _, im := range impls {
			k := c.KeyAt(im.fn, "partition not mutated in place")
			switch {
			case im.mut == nil:
				c.Ok(k, c.FnPos(im.fn), "no store through the partition, no in-place mutator called on it")
			case owned:
				c.Ok(k, c.Pos(im.mut), "reorders the partition in place, which is its own: "+c.P.Name(an)+" builds the partitions per call and keeps no reference")
			default:
				c.Bad(k, c.Pos(im.mut), fmt.Sprintf("%s reorders the partition it receives in place (%s), but %s does not own the partitions (%s): another execution reads the same slice", c.P.Name(im.fn), c.Pos(im.mut), c.P.Name(an), why))
			}
		}
	}
	check(analyze)
	for _, fn := range fxCtlFuncs(c) {
		if strings.HasPrefix(fn.Name(), "CtlAnalyzeShared") || strings.HasPrefix(fn.Name(), "okAnalyzeFresh") {
			check(fn)
		}
	}
}

// fxPartitionsOwned: the map indexed for the partition argument of every
// AnalyticFunction.Execute call of fn (and its closures) is made in fn and not retained.
func fxPartitionsOwned(c *Ctx, fn *ssa.Function) (bool, string, string) {
	fns := fxWithClosures(fn)
	var maps []ssa.Value
	pos := c.FnPos(fn)
	for _, g := range fns {
		for _, ci := range core.Calls(g) {
			com := ci.Common()
			if !com.IsInvoke() || com.Method.Name() != "Execute" || !strings.HasSuffix(core.NamedOf(com.Value.Type()), "lib/query.AnalyticFunction") {
				continue
			}
			pos = c.Pos(ci.(ssa.Instruction))
			for _, a := range com.Args {
				if !fxIsPartitionType(a) {
					continue
				}
				for _, o := range core.Origins(a, false) {
					if lk, ok := o.(*ssa.Lookup); ok {
						maps = append(maps, lk.X)
					} else {
						return false, "the partition argument is " + valueLabel(o) + ", not an element of a map built here", pos
					}
				}
			}
		}
	}
	if len(maps) == 0 {
		return false, "no call of AnalyticFunction.Execute with a partition taken from a map found", pos
	}
	// every origin of the map is a make() in this function, or the result of a
	// lib/query helper that makes the map itself and keeps no reference to it
	fresh := map[ssa.Value]bool{}
	for _, m := range maps {
		for _, o := range core.Origins(m, false) {
			if mk, ok := o.(*ssa.MakeMap); ok && mk.Parent() == fn {
				fresh[mk] = true
				continue
			}
			if call, idx := fxCallOf(o); call != nil {
				if ok, why := fxReturnsFreshMap(c, core.StaticCallee(call), idx, 2); ok {
					fresh[o] = true
					continue
				} else if why != "" {
					return false, why, pos
				}
			}
			return false, "the partition map can be " + valueLabel(o) + " (not made by this call)", pos
		}
	}
	if why := fxRetainedMap(c, fns, fresh); why != "" {
		return false, why, pos
	}
	return true, "", pos
}

// fxRetainedMap: a store of one of the fresh maps into a field, a package
// variable or another container in the given functions ("" when there is none).
func fxRetainedMap(c *Ctx, fns []*ssa.Function, fresh map[ssa.Value]bool) string {
	for _, g := range fns {
		for _, b := range g.Blocks {
			for _, in := range b.Instrs {
				var val, addr ssa.Value
				switch x := in.(type) {
				case *ssa.Store:
					val, addr = x.Val, x.Addr
				case *ssa.MapUpdate:
					val, addr = x.Value, x.Map
				default:
					continue
				}
				isOurs := false
				for _, o := range core.Origins(val, false) {
					if fresh[o] {
						isOurs = true
					}
				}
				if !isOurs {
					continue
				}
				switch a := addr.(type) {
				case *ssa.Alloc, *ssa.FreeVar:
					continue // a local variable
				case *ssa.FieldAddr:
					return fmt.Sprintf("stored into field %s at %s", core.FieldOwner(a), c.Pos(in))
				case *ssa.Global:
					return fmt.Sprintf("stored into package variable %s at %s", a.Name(), c.Pos(in))
				default:
					return fmt.Sprintf("stored into %s at %s", valueLabel(addr), c.Pos(in))
				}
			}
		}
	}
	return ""
}

// fxReturnsFreshMap: result #idx of lib/query function f is, on every return, a
// map made in f (or by such a helper) that f does not retain. why is set when f is
// a csvq function that hands out a retained / foreign map.
func fxReturnsFreshMap(c *Ctx, f *ssa.Function, idx int, depth int) (bool, string) {
	if f == nil || f.Blocks == nil || !c.P.InPkg(f, "lib/query", core.ControlPkg) {
		return false, ""
	}
	c.Touch(f)
	fresh := map[ssa.Value]bool{}
	n := 0
	for _, r := range core.Returns(f) {
		if idx >= len(r.Results) {
			return false, ""
		}
		for _, o := range core.Origins(r.Results[idx], false) {
			n++
			if mk, ok := o.(*ssa.MakeMap); ok && mk.Parent() == f {
				fresh[mk] = true
				continue
			}
			if call, i := fxCallOf(o); call != nil && depth > 0 {
				if ok, _ := fxReturnsFreshMap(c, core.StaticCallee(call), i, depth-1); ok {
					fresh[o] = true
					continue
				}
			}
			return false, fmt.Sprintf("the partition map returned by %s can be %s (not made for this call)", c.P.Name(f), valueLabel(o))
		}
	}
	if n == 0 {
		return false, ""
	}
	if why := fxRetainedMap(c, fxWithClosures(f), fresh); why != "" {
		return false, "the partition map built by " + c.P.Name(f) + " is " + why
	}
	return true, ""
}
