package rules

import (
	"fmt"
	"go/constant"
	"go/types"
	"sort"
	"strings"

	"golang.org/x/tools/go/ssa"

	"verif/checker/absint"
	"verif/checker/core"
)

// R-SRT-7 — direction and NULLS position of one ORDER BY item as a finite table.

const srt7Docs = "docs/_posts/2006-01-02-select-query.md, Order By Clause: \"ASC is the default\"; \"If order_direction is specified as ASC then FIRST is the default, otherwise LAST is the default\""

func init() {
	Register(&Rule{ID: "R-SRT-7", Props: []string{"C07"}, Floor: 9,
		Doc: "the sort order of one ORDER BY item equals the documented table (" + srt7Docs + "): over direction ∈ {omitted, ASC, DESC} × null position ∈ {omitted, FIRST, LAST} the pair stored in View.sortDirections[i] / View.sortNullPositions[i] is " +
			"(ASC if omitted or ASC, else DESC; the written position, else FIRST for ASC and LAST for DESC). " +
			"The code is located by role — the element stores into the fields sortDirections and sortNullPositions of lib/query.View — and decided by abstract interpretation of one iteration of the enclosing loop (of each loop in program order when the two slices are filled by separate passes; of the whole function when the stores are not in a loop): " +
			"OrderItem.Direction.Token and OrderItem.NullsPosition.Token are the enumerated inputs, values defined outside the iteration are opaque, unexported helpers of lib/query and Token.IsEmpty are executed; the last value stored into each slice is compared with the table in every world, and both stores must use the same index",
		Controls: []string{"CtlOrderDirectionImpliesLast"},
		Run:      ruleSrt7})
}

type srt7Site struct {
	fn       *ssa.Function
	dir, nul []*ssa.Store
}

// srt7ElemStore: *(&(*(&x.<field>))[i]) = v
func srt7ElemStore(st *ssa.Store) (field string, owner string) {
	ia, ok := st.Addr.(*ssa.IndexAddr)
	if !ok {
		return "", ""
	}
	ld, ok := ia.X.(*ssa.UnOp)
	if !ok {
		return "", ""
	}
	fa, ok := ld.X.(*ssa.FieldAddr)
	if !ok {
		return "", ""
	}
	name := ""
	t := fa.X.Type()
	if p, ok := t.Underlying().(*types.Pointer); ok {
		t = p.Elem()
	}
	if stt, ok := t.Underlying().(*types.Struct); ok && fa.Field < stt.NumFields() {
		name = stt.Field(fa.Field).Name()
	}
	return name, core.NamedOf(fa.X.Type())
}

func ruleSrt7(c *Ctx) {
	toks := map[string]int64{}
	for _, n := range []string{"ASC", "DESC", "FIRST", "LAST"} {
		v, ok := parserConst(c, n)
		if !ok {
			c.Unknown("parser."+n, "-", "cannot-analyse: token constant not found")
			return
		}
		toks[n] = v
	}
	sites := map[*ssa.Function]*srt7Site{}
	var order []*ssa.Function
	for _, fn := range c.P.FuncsIn(true, "lib/query") {
		for _, b := range fn.Blocks {
			for _, in := range b.Instrs {
				st, ok := in.(*ssa.Store)
				if !ok {
					continue
				}
				field, owner := srt7ElemStore(st)
				if field != "sortDirections" && field != "sortNullPositions" {
					continue
				}
				if !c.P.IsControl(fn) && !strings.HasSuffix(owner, "lib/query.View") {
					continue
				}
				s := sites[fn]
				if s == nil {
					s = &srt7Site{fn: fn}
					sites[fn] = s
					order = append(order, fn)
				}
				if field == "sortDirections" {
					s.dir = append(s.dir, st)
				} else {
					s.nul = append(s.nul, st)
				}
			}
		}
	}
	real := 0
	for _, fn := range order {
		if !c.P.IsControl(fn) {
			real++
		}
		c.Touch(fn)
		srt7Check(c, sites[fn], toks)
	}
	if real == 0 {
		c.Unknown("lib/query.View.sortDirections: element stores", "-", "cannot-analyse: no function of lib/query stores an element of View.sortDirections / View.sortNullPositions: the per-item sort order is computed somewhere this rule does not see")
	}
}

func srt7Check(c *Ctx, s *srt7Site, toks map[string]int64) {
	fn := s.fn
	negative := c.P.IsControl(fn) && strings.HasPrefix(fn.Name(), "Ok")
	base := c.P.Name(fn)
	if len(s.dir) == 0 || len(s.nul) == 0 {
		c.Unknown(base+": sort order", c.FnPos(fn), "cannot-analyse: the function stores only one of sortDirections[i] / sortNullPositions[i]; the pair cannot be tabulated from one iteration")
		return
	}
	// regions: the innermost loops around the stores in program order (one loop
	// today; a pass per slice is executed pass after pass for the same item), or
	// the whole function when no store is in a loop
	loops := core.NaturalLoops(fn)
	var regions []*core.Loop
	outside := 0
	for _, st := range append(append([]*ssa.Store{}, s.dir...), s.nul...) {
		l := core.InnermostLoop(loops, st.Block())
		if l == nil {
			outside++
			continue
		}
		dup := false
		for _, r := range regions {
			dup = dup || r == l
		}
		if !dup {
			regions = append(regions, l)
		}
	}
	if outside > 0 && len(regions) > 0 {
		c.Unknown(base+": sort order", c.FnPos(fn), "cannot-analyse: some stores into sortDirections / sortNullPositions are inside a loop and some are not")
		return
	}
	sort.Slice(regions, func(i, j int) bool { return regions[i].Header.Index < regions[j].Header.Index })
	headers := map[*ssa.BasicBlock]bool{}
	for _, r := range regions {
		headers[r.Header] = true
	}
	isStore := map[*ssa.Store]string{}
	for _, st := range s.dir {
		isStore[st] = "dir"
	}
	for _, st := range s.nul {
		isStore[st] = "nul"
	}
	lq := srt6Inline(c)
	inline := func(f *ssa.Function) bool {
		if f == nil || f.Blocks == nil {
			return false
		}
		if c.P.FnRef(f) == "lib/parser.(Token).IsEmpty" {
			return true
		}
		return lq(f)
	}
	name := map[int64]string{0: "omitted", toks["ASC"]: "ASC", toks["DESC"]: "DESC", toks["FIRST"]: "FIRST", toks["LAST"]: "LAST"}
	tokName := func(v absint.Val) string {
		if i, ok := v.IntVal(); ok {
			if n, ok := name[i]; ok && i != 0 {
				return n
			}
			return fmt.Sprintf("%d", i)
		}
		return "non-constant " + v.String()
	}
	for _, d := range []string{"omitted", "ASC", "DESC"} {
		for _, n := range []string{"omitted", "FIRST", "LAST"} {
			key := fmt.Sprintf("%s: sort order[direction %s, nulls %s]", base, d, n)
			dTok, nTok := toks[d], toks[n] // 0 for "omitted"
			wantD := "ASC"
			if d == "DESC" {
				wantD = "DESC"
			}
			wantN := n
			if n == "omitted" {
				wantN = map[string]string{"ASC": "FIRST", "DESC": "LAST"}[wantD]
			}
			got := map[string]bool{}
			var trouble []string
			observed := 0
			worlds, err := absint.Enumerate(2000, func(w *absint.World) {
				it := newInterp(c, w)
				it.InlinePred = inline
				it.MaxSteps = 5000
				it.FieldInit = func(obj, field string, t types.Type) (absint.Val, bool) {
					if field != "Token" {
						return absint.Val{}, false
					}
					switch {
					case strings.HasSuffix(obj, "Direction"):
						return absint.Const(constant.MakeInt64(dTok), t), true
					case strings.HasSuffix(obj, "NullsPosition"):
						return absint.Const(constant.MakeInt64(nTok), t), true
					}
					return absint.Val{}, false
				}
				it.Unbound = func(v ssa.Value) (absint.Val, bool) {
					t := v.Type()
					if in, ok := v.(ssa.Instruction); ok && headers[in.Block()] && isLoopIndex(v) {
						// the loop variable: the same item in every pass
						return absint.Sym("#i", t), true
					}
					if al, ok := v.(*ssa.Alloc); ok {
						t = al.Type().Underlying().(*types.Pointer).Elem()
						if al.Comment != "" {
							return srt7Opaque(al.Comment, t), true
						}
					}
					return srt7Opaque(v.Name(), t), true
				}
				var lastD, lastN, idxD, idxN string
				it.OnStore = func(st *ssa.Store, addr absint.Val, v absint.Val) {
					idx := addr.Sym
					if i := strings.LastIndex(idx, "["); i >= 0 {
						idx = idx[i:]
					}
					switch isStore[st] {
					case "dir":
						lastD, idxD = tokName(v), idx
					case "nul":
						lastN, idxN = tokName(v), idx
					}
				}
				if len(regions) > 0 {
					for _, loop := range regions {
						loop := loop
						it.RunRegion(fn, srt7BodyEntry(loop), func(b *ssa.BasicBlock) bool { return !loop.Blocks[b] || b == loop.Header })
					}
				} else {
					var args []absint.Val
					for _, p := range fn.Params {
						args = append(args, srt7Opaque(p.Name(), p.Type()))
					}
					it.Call(fn, args, nil)
				}
				if it.Err != nil {
					trouble = append(trouble, "cannot evaluate: "+it.Err.Error())
					return
				}
				if lastD == "" && lastN == "" {
					return // the iteration did not run in this world (loop condition false, error exit)
				}
				observed++
				r := fmt.Sprintf("(%s, NULLS %s)", lastD, lastN)
				if lastD == "" || lastN == "" {
					r = fmt.Sprintf("(direction %q, nulls %q: one of them is not stored)", lastD, lastN)
				} else if idxD != idxN {
					r += fmt.Sprintf(" stored at different indices %s / %s", idxD, idxN)
				}
				got[r] = true
			})
			want := fmt.Sprintf("(%s, NULLS %s)", wantD, wantN)
			res := keysOf(got)
			switch {
			case err != nil:
				c.Unknown(key, c.FnPos(fn), err.Error())
			case len(trouble) > 0:
				c.Unknown(key, c.FnPos(fn), strings.Join(dedup(trouble), "; "))
			case observed == 0:
				c.Unknown(key, c.FnPos(fn), "no world reaches the stores")
			case len(res) == 1 && res[0] == want:
				c.OkN(key, c.FnPos(fn), "= "+want, worlds)
			default:
				sort.Strings(res)
				item := "ORDER BY x"
				if d != "omitted" {
					item += " " + d
				}
				if n != "omitted" {
					item += " NULLS " + n
				}
				why := fmt.Sprintf("%s is sorted as %s, documented %s (%s)", item, strings.Join(res, " or "), want, srt7Docs)
				c.Bad(key, c.FnPos(fn), why)
				if negative {
					c.Unknown("negative-control:"+key, "-", "the rule reports "+fn.Name()+", a correct spelling of the sort order: "+why)
				}
			}
		}
	}
}

// srt7BodyEntry: the block one iteration starts with — the header's only
// successor inside the loop (the loop condition is then not part of the
// iteration), else the header itself.
func srt7BodyEntry(l *core.Loop) *ssa.BasicBlock {
	var in []*ssa.BasicBlock
	for _, s := range l.Header.Succs {
		if l.Blocks[s] && s != l.Header {
			in = append(in, s)
		}
	}
	if len(in) == 1 && len(l.Header.Succs) == 2 {
		return in[0]
	}
	return l.Header
}

// srt7Opaque: an opaque value of type t (objects for structs and pointers to structs).
func srt7Opaque(name string, t types.Type) absint.Val {
	switch u := t.Underlying().(type) {
	case *types.Pointer:
		if _, ok := u.Elem().Underlying().(*types.Struct); ok {
			return absint.Obj(name, t)
		}
	case *types.Struct:
		return absint.Obj(name, t)
	}
	return absint.Sym(name, t)
}
