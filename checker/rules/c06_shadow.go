package rules

// R-UTF-2 (tenth round, seeded change C06-20): the fast path of a hand-written
// character-class predicate agrees with the standard predicate it bypasses.

import (
	"fmt"
	"go/constant"
	"go/token"
	"go/types"
	"sort"
	"strings"
	"unicode"

	"golang.org/x/tools/go/ssa"

	"verif/checker/absint"
	"verif/checker/core"
)

func init() {
	Register(&Rule{ID: "R-UTF-2", Props: []string{"C06", "C03"}, Floor: 2,
		Doc: "a hand-written character-class predicate that answers the small code points itself agrees with the standard predicate it defers to: " +
			"for every function of csvq with one integer (rune / byte) parameter and a bool result that reaches a predicate of package unicode (IsSpace, IsDigit, IsLetter, …) " +
			"and contains a range guard on its parameter (a comparison with utf8.RuneSelf / unicode.MaxASCII / MaxLatin1: 0x7f, 0x80, 0xff, 0x100 — also inside a private helper of the same package), " +
			"the function is evaluated (engine E6, concrete input) on every code point below the guard twice: as written, and with the guard forced to the outcome it has for a large code point (the path the fast path bypasses); " +
			"the two verdicts are equal for all 128 (256) code points. The trimming of lib/option decides what counts as a number / boolean / datetime on the conversion ladder, the scanners decide what separates tokens: " +
			"a fast path that forgets \\v or \\f makes '1\\f' = 1 UNKNOWN while ' 1\\f' = 1 stays TRUE. Functions without a range guard send every code point to the standard predicate and are recorded as such",
		Controls: []string{"ctlShadowSpaceFastPath"},
		Run:      ruleUtf2})
}

// shadowStd are the predicates of package unicode with the signature func(rune) bool.
var shadowStd = map[string]func(rune) bool{
	"IsSpace": unicode.IsSpace, "IsDigit": unicode.IsDigit, "IsLetter": unicode.IsLetter, "IsUpper": unicode.IsUpper,
	"IsLower": unicode.IsLower, "IsPunct": unicode.IsPunct, "IsControl": unicode.IsControl, "IsGraphic": unicode.IsGraphic,
	"IsPrint": unicode.IsPrint, "IsNumber": unicode.IsNumber, "IsMark": unicode.IsMark, "IsSymbol": unicode.IsSymbol, "IsTitle": unicode.IsTitle,
}

func shadowIsUnicodePred(f *ssa.Function) bool {
	return f != nil && f.Pkg != nil && f.Pkg.Pkg.Path() == "unicode" && shadowStd[f.Name()] != nil
}

// shadowBody returns fn and the functions of the same package it calls statically (two levels): the code the evaluation inlines.
func shadowBody(fn *ssa.Function) []*ssa.Function {
	out := []*ssa.Function{fn}
	seen := map[*ssa.Function]bool{fn: true}
	for depth, frontier := 0, []*ssa.Function{fn}; depth < 2; depth++ {
		var next []*ssa.Function
		for _, f := range frontier {
			for _, call := range core.Calls(f) {
				g := core.StaticCallee(call)
				if g == nil || g.Blocks == nil || seen[g] || core.FnPkg(g) == nil || core.FnPkg(g) != core.FnPkg(fn) {
					continue
				}
				seen[g] = true
				out = append(out, g)
				next = append(next, g)
			}
		}
		frontier = next
	}
	return out
}

func shadowIsParam(v ssa.Value) bool {
	for i := 0; i < 4; i++ {
		switch x := v.(type) {
		case *ssa.Parameter:
			return true
		case *ssa.Convert:
			v = x.X
		case *ssa.ChangeType:
			v = x.X
		default:
			return false
		}
	}
	return false
}

// shadowGuards finds the range guards of the body: relational comparisons of an integer parameter with one of the
// constants that separate ASCII / Latin-1 from the rest. The value is the outcome of the comparison for a large code point.
func shadowGuards(body []*ssa.Function) (map[ssa.Value]bool, int64) {
	guards := map[ssa.Value]bool{}
	var limit int64
	for _, f := range body {
		for _, b := range f.Blocks {
			for _, in := range b.Instrs {
				bo, ok := in.(*ssa.BinOp)
				if !ok {
					continue
				}
				switch bo.Op {
				case token.LSS, token.LEQ, token.GTR, token.GEQ:
				default:
					continue
				}
				var k *ssa.Const
				var other ssa.Value
				paramLeft := false
				if c, ok := bo.Y.(*ssa.Const); ok {
					k, other, paramLeft = c, bo.X, true
				} else if c, ok := bo.X.(*ssa.Const); ok {
					k, other = c, bo.Y
				}
				if k == nil || k.Value == nil || k.Value.Kind() != constant.Int || !shadowIsParam(other) {
					continue
				}
				kv, exact := constant.Int64Val(k.Value)
				if !exact || (kv != 0x7f && kv != 0x80 && kv != 0xff && kv != 0x100) {
					continue
				}
				big := constant.MakeInt64(0x10ffff)
				if paramLeft {
					guards[bo] = constant.Compare(big, bo.Op, k.Value)
				} else {
					guards[bo] = constant.Compare(k.Value, bo.Op, big)
				}
				if l := (kv + 1) &^ 1; l > limit { // 0x7f, 0x80 → 128; 0xff, 0x100 → 256
					limit = l
				}
			}
		}
	}
	return guards, limit
}

type shadowRun struct {
	res   bool
	calls []string // standard predicates consulted
	err   string
}

func shadowEval(c *Ctx, fn *ssa.Function, charIdx int, cp int64, forced map[ssa.Value]bool) shadowRun {
	var out shadowRun
	worlds, err := absint.Enumerate(2, func(w *absint.World) {
		it := newInterp(c, w)
		pkg := core.FnPkg(fn)
		it.InlinePred = func(f *ssa.Function) bool { return f != nil && f.Blocks != nil && core.FnPkg(f) == pkg }
		it.Name = func(call ssa.CallInstruction) string {
			if f := core.StaticCallee(call); shadowIsUnicodePred(f) {
				return "unicode." + f.Name()
			}
			return c.P.CalleeName(call)
		}
		for name, std := range shadowStd {
			name, std := name, std
			it.Models["unicode."+name] = func(it *absint.Interp, call ssa.CallInstruction, a []absint.Val) (absint.Val, bool) {
				if len(a) != 1 {
					return absint.Val{}, false
				}
				v, ok := a[0].IntVal()
				if !ok {
					return absint.Val{}, false
				}
				out.calls = append(out.calls, name)
				return absint.Bool(std(rune(v))), true
			}
		}
		if forced != nil {
			it.Fixed = func(v ssa.Value) (absint.Val, bool) {
				if r, ok := forced[v]; ok {
					return absint.Bool(r), true
				}
				return absint.Val{}, false
			}
		}
		var args []absint.Val
		for i, p := range fn.Params {
			if i == charIdx {
				args = append(args, absint.Const(constant.MakeInt64(cp), p.Type()))
			} else {
				args = append(args, absint.Obj("recv", p.Type()))
			}
		}
		r := it.Call(fn, args, nil)
		if it.Err != nil {
			out.err = it.Err.Error()
			return
		}
		b, ok := r.BoolVal()
		if !ok {
			out.err = "the result " + r.String() + " is not a constant"
			return
		}
		out.res = b
	})
	if err != nil && out.err == "" {
		out.err = err.Error()
	}
	if worlds > 1 && out.err == "" {
		out.err = "the verdict depends on something else than the code point"
	}
	return out
}

func shadowShow(cp int64) string {
	switch cp {
	case '\t':
		return `'\t'`
	case '\n':
		return `'\n'`
	case '\v':
		return `'\v'`
	case '\f':
		return `'\f'`
	case '\r':
		return `'\r'`
	}
	if cp > 0x20 && cp < 0x7f {
		return fmt.Sprintf("%q", rune(cp))
	}
	return fmt.Sprintf("U+%04X", cp)
}

func ruleUtf2(c *Ctx) {
	examined, guarded := 0, 0
	for _, fn := range c.P.SrcFuncs() {
		if fn.Signature == nil || fn.Parent() != nil && len(fn.FreeVars) > 0 {
			continue
		}
		sig := fn.Signature
		if sig.Params().Len() != 1 || sig.Results().Len() != 1 || sig.Variadic() {
			continue
		}
		pt, ok := sig.Params().At(0).Type().Underlying().(*types.Basic)
		if !ok || pt.Info()&types.IsInteger == 0 {
			continue
		}
		rt, ok := sig.Results().At(0).Type().Underlying().(*types.Basic)
		if !ok || rt.Info()&types.IsBoolean == 0 {
			continue
		}
		if strings.HasSuffix(c.P.Pos(fn.Pos()), "parser.go") { // generated
			continue
		}
		body := shadowBody(fn)
		reachesStd := false
		for _, f := range body {
			for _, call := range core.Calls(f) {
				if shadowIsUnicodePred(core.StaticCallee(call)) {
					reachesStd = true
				}
			}
		}
		if !reachesStd {
			continue
		}
		if !c.P.IsControl(fn) {
			examined++
		}
		c.Touch(fn)
		charIdx := len(fn.Params) - 1
		key := c.KeyAt(fn, "fast path of a character class agrees with the standard predicate")
		guards, limit := shadowGuards(body)
		if len(guards) == 0 {
			c.Ok(key, c.FnPos(fn), "no range guard (comparison of the parameter with 0x7f / 0x80 / 0xff / 0x100): no code point is withheld from the standard predicate by a fast path")
			continue
		}
		if !c.P.IsControl(fn) {
			guarded++
		}
		if pt.Kind() == types.Int8 && limit > 128 {
			limit = 128
		}
		var diff, errs []string
		std := map[string]bool{}
		for cp := int64(0); cp < limit; cp++ {
			fast := shadowEval(c, fn, charIdx, cp, nil)
			slow := shadowEval(c, fn, charIdx, cp, guards)
			if fast.err != "" || slow.err != "" {
				errs = append(errs, fmt.Sprintf("%s: %s", shadowShow(cp), fast.err+slow.err))
				if len(errs) > 2 {
					break
				}
				continue
			}
			for _, n := range slow.calls {
				std["unicode."+n] = true
			}
			if fast.res != slow.res {
				diff = append(diff, fmt.Sprintf("%s (own answer %v, deferred answer %v)", shadowShow(cp), fast.res, slow.res))
			}
		}
		var stdNames []string
		for n := range std {
			stdNames = append(stdNames, n)
		}
		sort.Strings(stdNames)
		switch {
		case len(errs) > 0:
			c.Unknown(key, c.FnPos(fn), "cannot-analyse: the function cannot be evaluated on a single code point — "+strings.Join(errs, "; "))
		case len(diff) > 0:
			c.Bad(key, c.FnPos(fn), fmt.Sprintf("the function answers the code points below %#x itself and defers to %s above; on %d code point(s) its own answer differs from what the deferred path answers: %s — a value padded with such a character is classified differently from one padded with a character of the same class above the guard (and from the same value before the fast path was added)",
				limit, strings.Join(stdNames, " / "), len(diff), strings.Join(diff, ", ")))
		default:
			c.OkN(key, c.FnPos(fn), fmt.Sprintf("own answer = deferred answer (%s) on all %d code points below the range guard", strings.Join(stdNames, " / "), limit), int(limit))
		}
	}
	c.Ok("csvq: character-class predicates that reach package unicode", "-", fmt.Sprintf("%d function(s) of csvq examined, %d with a range guard", examined, guarded))
	if examined < 2 {
		c.Unknown("anchor:character-class predicates of csvq", "-", fmt.Sprintf("cannot-analyse: expected at least 2 functions func(rune) bool that reach a predicate of package unicode, found %d", examined))
	}
}
