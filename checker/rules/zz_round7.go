package rules

// Registrations made after the seventh round of seeded changes (DESIGN §8): rules that existed and
// reported the change, but were not registered for the property it was seeded under. Runs after every
// other init of the package (file name) and only widens Props.

var round7Registrations = map[string][]string{
	"R-CMP-6":   {"C03"}, // BETWEEN / IN expansions decide which rows a WHERE keeps (C03-13)
	"R-PAR-3":   {"C17"}, // the partitions of Analyze are built in row order (C17-13)
	"R-TXN-6":   {"C02"}, // a cancelled encode never reports success: the file would hold a prefix of the table (C02-14)
	"R-SCP-1":   {"C05"}, // a data-changing statement stores its result back where the innermost-first lookup found the table (C05-14)
	"R-LOCK-6":  {"C08"}, // a failing CREATE TABLE releases the handler it created (C08-13)
	"R-OWN-1":   {"C08"}, // … and only the owner of a handler releases it
	"R-ERR-14":  {"C08"}, // round 8: a result published before its check has been passed stays behind when the check fails (C08-16)
	"R-TXN-4":   {"C08"}, // round 8: every publisher is followed by its registration as uncommitted (C08-16)
	"R-DET-2":   {"C18"}, // round 8: the parser keeps no lazily built package-level table (C18-16)
	"R-MEMO-1":  {"C18"},
	"R-LOCK-1":  {"C10"}, // round 8: the temp file COMMIT encodes into is created exclusively (O_EXCL), never opened with O_TRUNC over a live one (C10-16)
	"R-LOCK-4":  {"C10"}, // round 8: … and only under the lock of its table (C10-16)
	"R-CLEAN-2": {"C01"}, // round 8: a failed COMMIT leaves no created table behind: close removes the created file on every path (C01-15)
	"R-CLEAN-6": {"C01"},
	"R-ISO-1":   {"C05"}, // round 8: UPDATE / DELETE work on a copy; the records of the cached table are never shifted in place (C05-15)
	"R-ISO-2":   {"C05"},
	"R-SRT-5":   {"C14"}, // round 8: a per-cell cache carried over a re-projection makes a later clause read another cell's value (C14-16)
}

func init() {
	for _, r := range registry {
		add, ok := round7Registrations[r.ID]
		if !ok {
			continue
		}
		have := map[string]bool{}
		for _, p := range r.Props {
			have[p] = true
		}
		for _, p := range add {
			if !have[p] {
				r.Props = append(r.Props, p)
			}
		}
	}
}
