package rules

import (
	"fmt"
	"go/token"
	"go/types"
	"sort"
	"strings"

	"golang.org/x/tools/go/ssa"

	"verif/checker/core"
)

// R-SCP-8 — the statement list of a block construct always runs in a child
// scope of its own.
//
// A declaration is local to its block because the block's statements are
// executed on a processor whose current block is a FRESH child scope. A fast
// path that runs the list on the enclosing processor ("this block declares
// nothing") is wrong as soon as a statement of the list inlines other
// statements into the current scope (EXECUTE, SOURCE): what they declare lands
// in the enclosing block, collides with outer names instead of shadowing them
// and survives END IF.

func init() {
	Register(&Rule{ID: "R-SCP-8", Props: []string{"C15"}, Floor: 10,
		Doc:      "every read of a block construct's statement list (field Statements of the lib/parser node types that have one — If, ElseIf, Else, Case, CaseWhen, CaseElse, While, WhileInCursor, FunctionDeclaration, AggregateDeclaration — and of query.UserDefinedFunction) is followed through helpers (3 levels) to each call that can reach Processor.execute: the processor that executes the list is, on every path, built on a block scope freshly created for it (result of a scope creator derived from the pool — also as the scope field of a Processor literal —, in the same function or handed down the call chain; for the function that reads the field itself also: handed in by every caller), never the enclosing processor; the fresh scope is released on every exit of the function that created it",
		Controls: []string{"CtlBlockRunsInPlace", "CtlBlockHelperRunsInPlace", "CtlBlockLiteralRunsInPlace"},
		Run:      ruleScp8})
}

type brCheck struct {
	c    *Ctx
	m    *scopeModel
	exec *ssa.Function
	// fresh creator calls that execute a block body (for the release obligation)
	creators map[*ssa.Call]bool
}

// brBlockTypes: named struct types with a field `Statements []parser.Statement`.
func brBlockTypes(c *Ctx) map[string]bool {
	out := map[string]bool{}
	st := c.P.Type("lib/parser", "Statement")
	add := func(short string, pk *types.Package, only string) {
		if pk == nil {
			return
		}
		for _, n := range pk.Scope().Names() {
			tn, ok := pk.Scope().Lookup(n).(*types.TypeName)
			if !ok || (only != "" && n != only) {
				continue
			}
			s, ok := tn.Type().Underlying().(*types.Struct)
			if !ok {
				continue
			}
			for i := 0; i < s.NumFields(); i++ {
				f := s.Field(i)
				if f.Name() != "Statements" {
					continue
				}
				if sl, ok := f.Type().Underlying().(*types.Slice); ok && st != nil && types.Identical(sl.Elem(), st) {
					out[short+"."+n+".Statements"] = true
				}
			}
		}
	}
	if pk := c.P.ByPath["lib/parser"]; pk != nil {
		add("lib/parser", pk.Types, "")
	}
	if pk := c.P.ByPath["lib/query"]; pk != nil {
		add("lib/query", pk.Types, "UserDefinedFunction")
	}
	return out
}

// brOrigin: v reads a block construct's statement list.
func brOrigin(v ssa.Value, types_ map[string]bool) (string, bool) {
	switch x := v.(type) {
	case *ssa.Field:
		if o := core.FieldOwner(x); types_[o] {
			return o, true
		}
	case *ssa.UnOp:
		if x.Op == token.MUL {
			if fa, ok := x.X.(*ssa.FieldAddr); ok {
				if o := core.FieldOwner(fa); types_[o] {
					return o, true
				}
			}
		}
	}
	return "", false
}

// brUses: the call instructions that receive v (through phis and local cells).
func brUses(v ssa.Value) []struct {
	call ssa.CallInstruction
	idx  int
} {
	var out []struct {
		call ssa.CallInstruction
		idx  int
	}
	seen := map[ssa.Value]bool{}
	var walk func(x ssa.Value)
	walk = func(x ssa.Value) {
		if seen[x] || x.Referrers() == nil {
			return
		}
		seen[x] = true
		for _, r := range *x.Referrers() {
			switch y := r.(type) {
			case *ssa.Phi:
				walk(y)
			case *ssa.ChangeType:
				walk(y)
			case *ssa.Store:
				if al, ok := y.Addr.(*ssa.Alloc); ok && y.Val == x {
					for _, rr := range *al.Referrers() {
						if u, ok := rr.(*ssa.UnOp); ok && u.Op == token.MUL {
							walk(u)
						}
					}
				}
			case ssa.CallInstruction:
				for i, a := range y.Common().Args {
					if a == x {
						out = append(out, struct {
							call ssa.CallInstruction
							idx  int
						}{y, i})
					}
				}
			}
		}
	}
	walk(v)
	return out
}

// fresh decides whether handle value v (a *Processor or *ReferenceScope) in fn
// stands on a block scope created for this purpose. freshParams: parameters of
// fn known to be fresh from the calling context. needUp collects parameters
// whose freshness must come from the callers.
func (b *brCheck) fresh(fn *ssa.Function, v ssa.Value, freshParams map[int]bool, needUp map[int]bool, depth int) (bool, string) {
	if depth > 4 {
		return false, "handle derivation too deep"
	}
	for _, o := range scpReleaseOrigins(v) {
		switch x := o.(type) {
		case *ssa.Call:
			g := core.StaticCallee(x)
			if g != nil && b.m.creators[kBlock][g] {
				b.creators[x] = true
				continue
			}
			// constructors / derived scopes: fresh iff every handle they are built from is
			any := false
			for _, a := range x.Call.Args {
				if scpIsHandleType(a.Type()) {
					any = true
					if ok, why := b.fresh(fn, a, freshParams, needUp, depth+1); !ok {
						return false, why
					}
				}
			}
			if !any {
				return false, "the processor comes from " + callDesc(b.c.P, x) + ", which is not built on a scope created here"
			}
		case *ssa.Parameter:
			idx := -1
			for i, p := range fn.Params {
				if p == x {
					idx = i
				}
			}
			if freshParams != nil && freshParams[idx] {
				continue
			}
			if needUp != nil && idx >= 0 {
				needUp[idx] = true
				continue
			}
			return false, fmt.Sprintf("the statements run on %s's own %s (parameter %s), i.e. in the scope of the enclosing block", fn.Name(), strings.TrimPrefix(types.TypeString(x.Type(), nil), "*github.com/mithrandie/csvq/lib/query."), x.Name())
		default:
			return false, "the processor is " + valueLabel(o) + ", not a scope created for this block"
		}
	}
	return true, ""
}

// follow checks every executing use of the statement list v inside fn.
func (b *brCheck) follow(fn *ssa.Function, v ssa.Value, freshParams map[int]bool, needUp map[int]bool, depth int) (n int, bad string, at ssa.Instruction) {
	isExec := func(f *ssa.Function) bool { return f == b.exec }
	for _, u := range brUses(v) {
		if !b.c.P.CallReaches(u.call, isExec) {
			continue
		}
		in := u.call.(ssa.Instruction)
		g := core.StaticCallee(u.call)
		if g == nil {
			return n, "the statement list is handed to a dynamic call", in
		}
		if g == b.exec {
			n++
			ok, why := b.fresh(fn, u.call.Common().Args[0], freshParams, needUp, 0)
			if !ok {
				return n, why, in
			}
			continue
		}
		if g.Blocks == nil || depth >= 3 || u.idx >= len(g.Params) {
			return n, "cannot follow the statement list into " + callDesc(b.c.P, u.call), in
		}
		// which parameters of g are fresh in this calling context
		fp := map[int]bool{}
		for i, a := range u.call.Common().Args {
			if !scpIsHandleType(a.Type()) {
				continue
			}
			if ok, _ := b.fresh(fn, a, freshParams, nil, 0); ok {
				fp[i] = true
			}
		}
		k, why, where := b.follow(g, g.Params[u.idx], fp, nil, depth+1)
		n += k
		if why != "" {
			if !strings.Contains(why, " — at ") {
				why += " — at " + b.c.Pos(where)
			}
			return n, why + fmt.Sprintf(", reached from %s at %s", fn.Name(), b.c.Pos(in)), in
		}
	}
	return n, "", nil
}

func ruleScp8(c *Ctx) {
	start := len(c.Obs)
	exec := c.Fn("lib/query.(*Processor).execute")
	if exec == nil {
		return
	}
	btypes := brBlockTypes(c)
	if len(btypes) < 5 {
		c.Unknown("anchor:block node types", "-", fmt.Sprintf("cannot-analyse: only %d struct types with a Statements []parser.Statement field found", len(btypes)))
		return
	}
	b := &brCheck{c: c, m: scopeModelOf(c.P), exec: exec, creators: map[*ssa.Call]bool{}}
	for _, fn := range c.P.FuncsIn(true, "lib/query") {
		type site struct {
			vals []ssa.Value
			pos  ssa.Instruction
		}
		sites := map[string]*site{}
		for _, blk := range fn.Blocks {
			for _, in := range blk.Instrs {
				v, ok := in.(ssa.Value)
				if !ok {
					continue
				}
				if o, ok := brOrigin(v, btypes); ok {
					s := sites[o]
					if s == nil {
						s = &site{pos: in}
						sites[o] = s
					}
					s.vals = append(s.vals, v)
				}
			}
		}
		var owners []string
		for o := range sites {
			owners = append(owners, o)
		}
		sort.Strings(owners)
		for _, o := range owners {
			s := sites[o]
			total, bad := 0, ""
			var at ssa.Instruction
			needUp := map[int]bool{}
			for _, v := range s.vals {
				n, why, where := b.follow(fn, v, nil, needUp, 0)
				total += n
				if why != "" && bad == "" {
					bad, at = why, where
				}
			}
			if total == 0 && bad == "" {
				continue // the list is only stored / inspected here
			}
			c.Touch(fn)
			key := c.KeyAt(fn, "body "+strings.TrimPrefix(o, "lib/")+" runs in a child scope")
			// parameters whose freshness must come from every caller
			if bad == "" {
				var idxs []int
				for i := range needUp {
					idxs = append(idxs, i)
				}
				sort.Ints(idxs)
				for _, i := range idxs {
					edges := scpCallers(c, fn, false)
					nCallers := 0
					var offenders []string
					why1 := ""
					for _, e := range edges {
						if i >= len(e.Site.Common().Args) {
							continue
						}
						nCallers++
						if ok, why := b.fresh(e.Caller.Func, e.Site.Common().Args[i], nil, nil, 0); !ok {
							offenders = append(offenders, fmt.Sprintf("%s (at %s)", c.P.Name(e.Caller.Func), c.Pos(e.Site.(ssa.Instruction))))
							if why1 == "" {
								why1 = why
							}
						}
					}
					if len(offenders) > 0 && bad == "" {
						bad = fmt.Sprintf("%s executes the list on the scope it is given (parameter %s), and %d of its %d caller(s) pass a scope that was not created for the block — %s: %s", fn.Name(), fn.Params[i].Name(), len(offenders), nCallers, strings.Join(offenders, ", "), why1)
						at = s.pos
					}
					if nCallers == 0 && bad == "" {
						bad = fmt.Sprintf("%s executes the list on the scope it is given (parameter %s) and has no caller that creates one", fn.Name(), fn.Params[i].Name())
						at = s.pos
					}
				}
			}
			if bad != "" {
				c.Bad(key, c.Pos(at), fmt.Sprintf("%s — a path executes the block's statements WITHOUT a block scope of their own: declarations made on that path (directly, or by EXECUTE / SOURCE statements, which inline what they run into the current scope) land in the enclosing block — 'redeclared' errors instead of shadowing, and the objects survive the END of the block", bad))
			} else {
				c.Ok(key, c.Pos(s.pos), fmt.Sprintf("%d executing call(s), each on a processor whose block scope is created for the list", total))
			}
		}
	}
	// the fresh scopes are released on every exit of their creating function
	var cs []*ssa.Call
	for call := range b.creators {
		cs = append(cs, call)
	}
	sort.Slice(cs, func(i, j int) bool {
		a, bb := c.P.Name(cs[i].Parent()), c.P.Name(cs[j].Parent())
		if a != bb {
			return a < bb
		}
		return cs[i].Pos() < cs[j].Pos()
	})
	nPer := map[*ssa.Function]int{}
	for _, call := range cs {
		fn := call.Parent()
		nPer[fn]++
		key := c.KeyAt(fn, fmt.Sprintf("block scope #%d is released on every exit", nPer[fn]))
		h := b.m.analyseHandle(call, kBlock)
		relAt := map[ssa.Instruction]bool{}
		for _, r := range h.releases {
			relAt[r.in] = true
		}
		if len(relAt) == 0 {
			c.Bad(key, c.Pos(call), "the scope created for the block is never released")
		} else if esc := core.EscapeWithout(call, func(in ssa.Instruction) bool { return relAt[in] }, nil); esc != nil {
			c.Bad(key, c.Pos(esc), fmt.Sprintf("the exit at %s is reachable from the creation at %s without releasing the block scope", c.Pos(esc), c.Pos(call)))
		} else {
			c.Ok(key, c.Pos(call), fmt.Sprintf("%d release site(s) cover every path to an exit", len(relAt)))
		}
	}
	c.negControls(start, "okBlockRunsInChildViaHelper", "okBlockChildPerArm", "okBlockLiteralChild")
}
