package rules

// R-FMT-13 (seventh round, D79): a record of a JSON Lines file is one line.

import (
	"strings"

	"golang.org/x/tools/go/ssa"

	"verif/checker/core"
)

func init() {
	Register(&Rule{ID: "R-FMT-13", Props: []string{"C02"}, Floor: 1,
		Doc:      "a record of a JSON Lines file is one line: in the JSON Lines encoder of lib/query (encodeJsonLines and its private helpers) every value stored into the PrettyPrint field of a go-text/json.Encoder is the constant false, and nothing is stored into its Palette field — the loader reads one JSON value per line, so an object spread over several lines (PRETTY_PRINT, with or without colours) makes the file unreadable",
		Controls: []string{"ctlJsonLinesPretty"},
		Run:      ruleFmt13})
}

func ruleFmt13(c *Ctx) {
	var targets []*ssa.Function
	if f := c.Fn("lib/query.encodeJsonLines"); f != nil {
		targets = append(targets, f)
		for h := range privateHelpersOf(c.P, f, 2) {
			targets = append(targets, h)
		}
	}
	for _, f := range c.P.FuncsIn(true, core.ControlPkg) {
		if c.P.IsControl(f) && (strings.HasPrefix(f.Name(), "ctlJsonLines") || strings.HasPrefix(f.Name(), "okJsonLines")) {
			targets = append(targets, f)
		}
	}
	for _, fn := range targets {
		c.Touch(fn)
		key := c.KeyAt(fn, "records are written on one line")
		bad := ""
		var at ssa.Instruction
		n := 0
		for _, b := range fn.Blocks {
			for _, in := range b.Instrs {
				st, ok := in.(*ssa.Store)
				if !ok {
					continue
				}
				fa, ok := st.Addr.(*ssa.FieldAddr)
				if !ok || !strings.HasSuffix(core.FieldOwner(fa), "go-text/json.Encoder."+core.FieldName(fa)) {
					continue
				}
				switch core.FieldName(fa) {
				case "PrettyPrint":
					n++
					if b, isConst := core.ConstBool(st.Val); !isConst || b {
						bad, at = "PrettyPrint of the record encoder is set to "+valueLabel(st.Val), in
					}
				case "Palette":
					n++
					bad, at = "a palette is handed to the record encoder", in
				}
			}
		}
		if bad != "" {
			c.Bad(key, c.Pos(at), bad+": a JSON Lines record may not be spread over several lines (nor coloured) — the loader reads one value per line and refuses the file")
		} else {
			c.Ok(key, c.FnPos(fn), "PrettyPrint is constant false (or left at its zero value) and no palette is set")
		}
	}
}
