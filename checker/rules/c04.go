package rules

import (
	"fmt"
	"go/constant"
	"go/token"
	"go/types"
	"sort"
	"strings"

	"golang.org/x/tools/go/ssa"

	"verif/checker/absint"
	"verif/checker/core"
)

// C04 — buckets are formed by value equality: injectivity of the key framing
// and agreement of the normalisation ladders.

func init() {
	Register(&Rule{ID: "R-KEY-1", Props: []string{"C04", "C17"}, Floor: 8,
		Doc:      "free text is framed: every write into a comparison-key buffer (functions reachable from SerializeComparisonKeys, SerializeKey, SerializeIdenticalKey, SortValues.Serialize) is a constant tag, a numeric rendering, an already serialised key, or text that passed through an escaper handling both the component separator and its own escape character — otherwise two different tuples can share a key",
		Controls: []string{"CtlRawTextInKey"},
		Run:      ruleKey1})
	Register(&Rule{ID: "R-KEY-2", Props: []string{"C04"}, Floor: 2,
		Doc: "both tuple serialisers write the same separator constant before every component i > 0 (and only there)",
		Run: ruleKey2})
	Register(&Rule{ID: "R-KEY-3", Props: []string{"C04", "C06"}, Floor: 1,
		Doc: "SerializeKey follows the documented normalisation ladder in every abstract world (NULL, strict integer, float, datetime, boolean sharing the integer tag, string, else NULL) — the same ladder CompareCombinedly is checked against (R-CMP-3); on the float rung a float without a fractional part (a test f == math.Trunc(f), written out or in a helper func(float64) (int64, bool) that is verified to answer true only then and to return int64(f)) must be written with the key of that integer, and some world must do so: values that compare equal (1.0 = 1) share a bucket",
		Run: ruleKey3})
	Register(&Rule{ID: "R-KEY-4", Props: []string{"C04"}, Floor: 7,
		Doc: "strict mode: SerializeIdenticalKey maps each value type to its own serialiser and the type tags written by the serialisers are pairwise distinct byte strings",
		Run: ruleKey4})
}

var keyRoots = []string{"lib/query.SerializeComparisonKeys", "lib/query.SerializeKey", "lib/query.SerializeIdenticalKey", "lib/query.(SortValues).Serialize"}

func keyFunctions(c *Ctx) []*ssa.Function {
	set := map[*ssa.Function]bool{}
	for _, r := range keyRoots {
		fn := c.Fn(r)
		if fn == nil {
			continue
		}
		for f := range c.P.ReachSet(fn) {
			if c.P.InPkg(f, "lib/query") && f.Blocks != nil {
				set[f] = true
			}
		}
	}
	var out []*ssa.Function
	for f := range set {
		out = append(out, f)
	}
	sortFuncs(c.P, out)
	return out
}

// keySeparator finds the byte constant written between components.
func keySeparator(c *Ctx) (int64, bool) {
	fn := c.P.Func("lib/query.SerializeComparisonKeys")
	if fn == nil {
		return 0, false
	}
	for _, call := range c.P.CallsNamed(fn, "(*bytes.Buffer).WriteByte") {
		if k, ok := core.ConstInt(call.Common().Args[1]); ok {
			return k, true
		}
	}
	return 0, false
}

type textClass int

const (
	txSafe textClass = iota
	txFree
	txUnknown
)

type keyTaint struct {
	c    *Ctx
	sep  int64
	seen map[ssa.Value]bool
	why  []string
}

// isEscaper: callee handles both the separator and its escape character:
//   - strings.NewReplacer / ReplaceAll whose constant "from" strings include the
//     separator and the escape character used in the replacements, or
//   - a csvq function that compares bytes/runes against both constants.
func (k *keyTaint) replacerEscapes(pairs []string) bool {
	sep := string(rune(k.sep))
	esc := ""
	for i := 0; i+1 < len(pairs); i += 2 {
		if pairs[i] == sep && pairs[i+1] != sep && len(pairs[i+1]) > 1 && strings.HasSuffix(pairs[i+1], sep) {
			esc = strings.TrimSuffix(pairs[i+1], sep)
		}
		if pairs[i] == sep && !strings.Contains(pairs[i+1], sep) && pairs[i+1] != "" {
			esc = pairs[i+1][:1]
		}
	}
	if esc == "" {
		return false
	}
	for i := 0; i+1 < len(pairs); i += 2 {
		if pairs[i] == esc && pairs[i+1] != esc {
			return true
		}
	}
	return false
}

// constStringsOfVariadic extracts the constant strings stored into the slice
// passed as a variadic argument.
func constStringsOfVariadic(v ssa.Value) ([]string, bool) {
	sl, ok := v.(*ssa.Slice)
	if !ok {
		return nil, false
	}
	al, ok := sl.X.(*ssa.Alloc)
	if !ok {
		return nil, false
	}
	vals := map[int64]string{}
	max := int64(-1)
	for _, r := range *al.Referrers() {
		ia, ok := r.(*ssa.IndexAddr)
		if !ok {
			continue
		}
		idx, ok := core.ConstInt(ia.Index)
		if !ok {
			return nil, false
		}
		for _, rr := range *ia.Referrers() {
			if st, ok := rr.(*ssa.Store); ok {
				s, ok := core.ConstString(st.Val)
				if !ok {
					return nil, false
				}
				vals[idx] = s
				if idx > max {
					max = idx
				}
			}
		}
	}
	out := make([]string, max+1)
	for i := range out {
		out[i] = vals[int64(i)]
	}
	return out, true
}

func (k *keyTaint) isEscaperValue(recv ssa.Value) bool {
	// a *strings.Replacer: global initialised with NewReplacer(consts…) or a local call
	for _, o := range core.Origins(recv, false) {
		var call *ssa.Call
		switch x := o.(type) {
		case *ssa.Call:
			call = x
		case *ssa.UnOp:
			if g, ok := x.X.(*ssa.Global); ok {
				// find the store in the package initialiser
				if g.Pkg != nil {
					if init := g.Pkg.Func("init"); init != nil {
						for _, b := range init.Blocks {
							for _, in := range b.Instrs {
								if st, ok := in.(*ssa.Store); ok && st.Addr == g {
									if cc, ok := st.Val.(*ssa.Call); ok {
										call = cc
									}
								}
							}
						}
					}
				}
			}
		}
		if call == nil || k.c.P.CalleeName(call) != "strings.NewReplacer" {
			return false
		}
		pairs, ok := constStringsOfVariadic(call.Common().Args[0])
		if !ok || !k.replacerEscapes(pairs) {
			return false
		}
	}
	return true
}

// csvqEscaper: a csvq function string→string (or writing into a buffer) that
// compares against both the separator and some escape constant and emits the
// escape constant.
func (k *keyTaint) csvqEscaper(f *ssa.Function) bool {
	if f.Blocks == nil {
		return false
	}
	sawSep := false
	consts := map[int64]bool{}
	for _, b := range f.Blocks {
		for _, in := range b.Instrs {
			if bo, ok := in.(*ssa.BinOp); ok && (bo.Op == token.EQL || bo.Op == token.NEQ) {
				for _, o := range []ssa.Value{bo.X, bo.Y} {
					if v, ok := core.ConstInt(o); ok {
						consts[v] = true
						if v == k.sep {
							sawSep = true
						}
					}
				}
			}
			if call, ok := in.(*ssa.Call); ok {
				n := k.c.P.CalleeName(call)
				if n == "strings.ReplaceAll" || n == "strings.Replace" {
					from, ok1 := core.ConstString(call.Common().Args[1])
					if ok1 && from == string(rune(k.sep)) {
						sawSep = true
					}
				}
				if strings.HasSuffix(n, ".Replace") && len(call.Common().Args) > 0 && k.isEscaperValue(call.Common().Args[0]) {
					return true
				}
			}
		}
	}
	return sawSep && len(consts) >= 2
}

func (k *keyTaint) classify(v ssa.Value, depth int) textClass {
	if v == nil || depth > 8 {
		return txUnknown
	}
	if k.seen[v] {
		return txSafe
	}
	k.seen[v] = true
	worst := txSafe
	merge := func(t textClass) {
		if t == txFree || (t == txUnknown && worst == txSafe) {
			worst = t
		}
	}
	switch x := v.(type) {
	case *ssa.Const:
		return txSafe
	case *ssa.Phi:
		for _, e := range x.Edges {
			merge(k.classify(e, depth+1))
		}
		return worst
	case *ssa.Convert:
		return k.classify(x.X, depth+1)
	case *ssa.ChangeType:
		return k.classify(x.X, depth+1)
	case *ssa.Slice:
		// []byte{…} literal: constants stored into a local array
		if al, ok := x.X.(*ssa.Alloc); ok {
			for _, r := range *al.Referrers() {
				if ia, ok := r.(*ssa.IndexAddr); ok {
					for _, rr := range *ia.Referrers() {
						if st, ok := rr.(*ssa.Store); ok {
							merge(k.classify(st.Val, depth+1))
						}
					}
				}
			}
			return worst
		}
		return k.classify(x.X, depth+1)
	case *ssa.Parameter:
		fn := x.Parent()
		idx := -1
		for i, p := range fn.Params {
			if p == x {
				idx = i
			}
		}
		callers := k.c.P.RealCallers(fn)
		if len(callers) == 0 {
			k.why = append(k.why, "parameter "+x.Name()+" of "+k.c.P.Name(fn)+" has no visible caller")
			return txUnknown
		}
		for _, ed := range callers {
			if ed.Site == nil || idx >= len(ed.Site.Common().Args) {
				continue
			}
			if !strings.HasPrefix(k.c.P.FnRef(ed.Caller.Func), "lib/") {
				continue
			}
			merge(k.classify(ed.Site.Common().Args[idx], depth+1))
		}
		return worst
	case *ssa.UnOp:
		if x.Op == token.MUL {
			if fa, ok := x.X.(*ssa.FieldAddr); ok {
				switch core.FieldOwner(fa) {
				case "lib/query.SortValue.String":
					k.why = append(k.why, "text field SortValue.String")
					return txFree
				case "lib/query.SortValue.Integer", "lib/query.SortValue.Float", "lib/query.SortValue.Datetime":
					return txSafe
				}
			}
			if _, ok := x.X.(*ssa.Alloc); ok {
				for _, o := range core.Origins(x, false) {
					if o != v {
						merge(k.classify(o, depth+1))
					} else {
						merge(txUnknown)
					}
				}
				return worst
			}
		}
	case *ssa.Call:
		name := k.c.P.CalleeName(x)
		switch {
		case name == "strings.ToUpper" || name == "strings.ToLower" || name == "lib/option.TrimSpace" || name == "strings.TrimSpace":
			return k.classify(x.Common().Args[0], depth+1)
		case name == "lib/value.(String).Raw":
			k.why = append(k.why, "free text from (value.String).Raw()")
			return txFree
		case name == "lib/value.Int64ToStr" || name == "lib/value.Float64ToStr" || name == "lib/value.(Integer).String" || name == "lib/value.(Float).String" || strings.HasPrefix(name, "strconv.Format") || name == "strconv.Itoa" || name == "(*math/big.Int).String":
			return txSafe // digits, sign, '.', 'e', "NaN", "Inf" ("<nil>" for a nil *big.Int): never the separator
		case name == "(*bytes.Buffer).Bytes":
			return txSafe // an already serialised key
		case name == "(*strings.Replacer).Replace":
			if k.isEscaperValue(x.Common().Args[0]) {
				return txSafe
			}
			k.why = append(k.why, "strings.Replacer that does not escape both the separator and its escape character")
			return k.classify(x.Common().Args[1], depth+1)
		}
		if f := core.StaticCallee(x); f != nil && strings.HasPrefix(k.c.P.FnRef(f), "lib/") {
			if k.csvqEscaper(f) {
				return txSafe
			}
			// a helper string→string: its result is as free as its arguments
			for _, a := range x.Common().Args {
				if b, ok := a.Type().Underlying().(*types.Basic); ok && b.Info()&types.IsString != 0 {
					merge(k.classify(a, depth+1))
				}
			}
			if worst == txSafe {
				worst = txUnknown
				k.why = append(k.why, "result of "+name)
			}
			return worst
		}
		k.why = append(k.why, "result of "+name)
		return txUnknown
	}
	k.why = append(k.why, fmt.Sprintf("%T %s", v, v.Name()))
	return txUnknown
}

func ruleKey1(c *Ctx) {
	sep, ok := keySeparator(c)
	if !ok {
		c.Unknown("separator", "-", "cannot-analyse: no constant WriteByte separator in SerializeComparisonKeys")
		return
	}
	fns := keyFunctions(c)
	for _, f := range c.P.FuncsIn(true) {
		fns = append(fns, f)
	}
	for _, fn := range fns {
		n := 0
		for _, call := range core.Calls(fn) {
			name := c.P.CalleeName(call)
			if name != "(*bytes.Buffer).WriteString" && name != "(*bytes.Buffer).Write" {
				continue
			}
			n++
			c.Touch(fn)
			arg := call.Common().Args[1]
			k := &keyTaint{c: c, sep: sep, seen: map[ssa.Value]bool{}}
			cl := k.classify(arg, 0)
			key := c.KeyAt(fn, fmt.Sprintf("key buffer write #%d", n))
			switch cl {
			case txSafe:
				c.Ok(key, c.Pos(call), "constant tag, numeric rendering, serialised key or escaped text")
			case txFree:
				c.Bad(key, c.Pos(call), fmt.Sprintf("unframed free text is written into a comparison key (%s): a value containing the component separator %q followed by a type tag yields the same key as a different tuple — distinct rows share a DISTINCT / GROUP BY / set-operator / PARTITION bucket", strings.Join(dedup(k.why), "; "), string(rune(sep))))
			default:
				c.Unknown(key, c.Pos(call), "cannot classify what is written into the key buffer: "+strings.Join(dedup(k.why), "; "))
			}
		}
	}
}

// R-KEY-2 ---------------------------------------------------------------------

func ruleKey2(c *Ctx) {
	var seps []int64
	for _, name := range []string{"lib/query.SerializeComparisonKeys", "lib/query.(SortValues).Serialize"} {
		fn := c.Fn(name)
		if fn == nil {
			continue
		}
		calls := c.P.CallsNamed(fn, "(*bytes.Buffer).WriteByte")
		key := c.KeyAt(fn, "separator")
		if len(calls) != 1 {
			c.Bad(key, c.FnPos(fn), fmt.Sprintf("expected exactly one separator write, found %d", len(calls)))
			continue
		}
		call := calls[0]
		k, isConst := core.ConstInt(call.Common().Args[1])
		if !isConst {
			c.Bad(key, c.Pos(call), "separator is not a constant")
			continue
		}
		seps = append(seps, k)
		// guard: exactly `0 < i` on the range index
		okGuard := false
		for _, f := range core.FactsAt(call.Block()) {
			b, ok := f.Cond.(*ssa.BinOp)
			if !ok || f.Neg {
				continue
			}
			zx, okx := core.ConstInt(b.X)
			zy, oky := core.ConstInt(b.Y)
			switch {
			case b.Op == token.LSS && okx && zx == 0 && isLoopIndex(b.Y):
				okGuard = true
			case b.Op == token.GTR && oky && zy == 0 && isLoopIndex(b.X):
				okGuard = true
			case b.Op == token.NEQ && ((okx && zx == 0 && isLoopIndex(b.Y)) || (oky && zy == 0 && isLoopIndex(b.X))):
				okGuard = true
			case b.Op == token.GEQ && oky && zy == 1 && isLoopIndex(b.X):
				okGuard = true
			}
		}
		c.Check(okGuard, key, c.Pos(call), fmt.Sprintf("separator %q written exactly when the component index is > 0", string(rune(k))),
			"the separator is not written under the guard `index > 0`: components are glued together (or a leading separator appears) and different tuples collide")
	}
	if len(seps) == 2 {
		c.Check(seps[0] == seps[1], "separator constants agree", "-", "both tuple serialisers use the same separator", fmt.Sprintf("separators differ: %d vs %d", seps[0], seps[1]))
	}
}

// isLoopIndex: the index of a counting loop — either the phi itself
// (for i := 0; …; i++) or phi+1 in go/ssa's rotated range loops
// (t1 = phi [-1, t2]; t2 = t1 + 1).
func isLoopIndex(v ssa.Value) bool {
	if b, ok := v.(*ssa.BinOp); ok && b.Op == token.ADD {
		if k, ok := core.ConstInt(b.Y); ok && k == 1 {
			if p, ok := b.X.(*ssa.Phi); ok {
				for _, e := range p.Edges {
					if e == v {
						return true
					}
				}
			}
		}
		return false
	}
	p, ok := v.(*ssa.Phi)
	if !ok {
		return false
	}
	for _, e := range p.Edges {
		if b, ok := e.(*ssa.BinOp); ok && b.Op == token.ADD {
			if k, ok := core.ConstInt(b.Y); ok && k == 1 && b.X == p {
				return true
			}
		}
	}
	return false
}

// R-KEY-3 ---------------------------------------------------------------------

func ruleKey3(c *Ctx) {
	fn := c.Fn("lib/query.SerializeKey")
	if fn == nil {
		return
	}
	var bad []string
	wholeFloat := 0
	convs := []struct{ conv, extra, want string }{
		{"value.ToIntegerStrictly", "", "serializeInteger"},
		{"value.ToFloat", "", "serializeFloat"},
		{"value.ToDatetime", ",", "serializeDatetime"},
		{"value.ToBoolean", "", "serializeInteger"},
	}
	worlds, err := absint.Enumerate(5000, func(w *absint.World) {
		it := newInterp(c, w)
		reached := ""
		var asked []string
		var reachedCall ssa.CallInstruction
		it.OnCall = func(name string, call ssa.CallInstruction, args []absint.Val) {
			if strings.HasPrefix(name, "lib/query.serialize") {
				if reached == "" {
					reached = strings.TrimPrefix(name, "lib/query.")
					reachedCall = call
				}
			}
			if strings.HasPrefix(name, "lib/value.To") {
				asked = append(asked, strings.TrimPrefix(name, "lib/"))
			}
		}
		var args []absint.Val
		for _, p := range fn.Params {
			args = append(args, absint.Sym(p.Name(), p.Type()))
		}
		it.Call(fn, args, nil)
		if it.Err != nil {
			bad = append(bad, "cannot evaluate: "+it.Err.Error())
			return
		}
		// specification on the same world
		get := func(prefix string) int {
			for _, k := range w.Keys() {
				if strings.HasPrefix(k, prefix) {
					return w.Get(k)
				}
			}
			return -1
		}
		want := ""
		switch {
		case get("b:value.IsNull(val)") == 1:
			want = "serializeNull"
		default:
			for _, cv := range convs {
				v := get("b:value.IsNull(" + cv.conv + "(val" + cv.extra)
				if v < 0 {
					want = "?" + cv.conv + " not evaluated"
					break
				}
				if v == 0 {
					want = cv.want
					break
				}
			}
			if want == "" {
				if get("b:is:*"+core.ModPath+"/lib/value.String:val") == 1 {
					want = "serializeString"
				} else {
					want = "serializeNull"
				}
			}
		}
		// the float rung: a float without a fractional part is equal to an integer and shares its key
		if want == "serializeFloat" && reached == "serializeInteger" && key3IntegerKeyOfWholeFloat(c, reachedCall) {
			wholeFloat++
			return
		}
		if reached != want && len(bad) < 4 {
			bad = append(bad, fmt.Sprintf("world {%s}: writes with %s, the ladder prescribes %s (conversions tried: %s)", strings.Join(w.Asked(), " "), reached, want, strings.Join(asked, ",")))
		}
	})
	if err == nil {
		c.Check(wholeFloat > 0, "lib/query.SerializeKey: a float without a fractional part shares the key of the integer", c.FnPos(fn),
			fmt.Sprintf("%d abstract worlds on the float rung write the integer key under a test that the float is whole", wholeFloat),
			"on the float rung no world writes the key of the integer the float is equal to (a serializeInteger call of int64(f), dominated by f == math.Trunc(f) or by a helper that decides it): 1.0 = 1 is TRUE, but GROUP BY / DISTINCT / UNION / PARTITION BY put 1.0 and 1 (0.0, -0.0 and 0) into different buckets")
	}
	key := "lib/query.SerializeKey: ladder"
	if err != nil {
		c.Unknown(key, c.FnPos(fn), err.Error())
	} else if len(bad) > 0 {
		c.Bad(key, c.FnPos(fn), strings.Join(bad, "; "))
	} else {
		c.OkN(key, c.FnPos(fn), fmt.Sprintf("%d abstract worlds agree with the ladder NULL, integer, float, datetime, boolean(as integer), string, NULL", worlds), worlds)
	}
}

// R-KEY-4 ---------------------------------------------------------------------

// tagOf returns the constant bytes of the first Write call of a serialiser.
func tagOf(c *Ctx, fn *ssa.Function) (string, bool) {
	for _, call := range core.Calls(fn) {
		n := c.P.CalleeName(call)
		if n == "(*bytes.Buffer).Write" {
			sl, ok := call.Common().Args[1].(*ssa.Slice)
			if !ok {
				return "", false
			}
			al, ok := sl.X.(*ssa.Alloc)
			if !ok {
				return "", false
			}
			b := map[int64]byte{}
			for _, r := range *al.Referrers() {
				if ia, ok := r.(*ssa.IndexAddr); ok {
					idx, _ := core.ConstInt(ia.Index)
					for _, rr := range *ia.Referrers() {
						if st, ok := rr.(*ssa.Store); ok {
							if k, ok := st.Val.(*ssa.Const); ok && k.Value != nil && k.Value.Kind() == constant.Int {
								b[idx] = byte(k.Int64())
							} else {
								return "", false
							}
						}
					}
				}
			}
			out := make([]byte, len(b))
			for i := range out {
				out[i] = b[int64(i)]
			}
			return string(out), true
		}
		if n == "(*bytes.Buffer).WriteString" {
			if s, ok := core.ConstString(call.Common().Args[1]); ok {
				return s, true
			}
			return "", false
		}
		// a serialiser that delegates (serializeDatetime → serializeDatetimeFromUnixNano)
		if f := core.StaticCallee(call); f != nil && strings.HasPrefix(c.P.FnRef(f), "lib/query.serialize") {
			return tagOf(c, f)
		}
	}
	return "", false
}

func ruleKey4(c *Ctx) {
	fn := c.Fn("lib/query.SerializeIdenticalKey")
	if fn == nil {
		return
	}
	vt := func(n string) string { return "*" + core.ModPath + "/lib/value." + n }
	types_ := []string{"String", "Integer", "Float", "Boolean", "Ternary", "Datetime"}
	arm := map[string]string{} // value type → serialiser reached
	absint.Enumerate(2000, func(w *absint.World) {
		it := newInterp(c, w)
		reached := ""
		it.OnCall = func(name string, call ssa.CallInstruction, args []absint.Val) {
			if strings.HasPrefix(name, "lib/query.serialize") && reached == "" {
				reached = name
			}
		}
		var args []absint.Val
		for _, p := range fn.Params {
			args = append(args, absint.Sym(p.Name(), p.Type()))
		}
		it.Call(fn, args, nil)
		if it.Err != nil {
			return
		}
		// which single type test succeeded
		hit := ""
		nTrue := 0
		for _, t := range types_ {
			if w.Get("b:is:"+vt(t)+":val") == 1 {
				hit = t
				nTrue++
			}
		}
		if nTrue == 0 {
			hit = "Null/other"
		}
		if nTrue <= 1 {
			if prev, ok := arm[hit]; ok && prev != reached {
				arm[hit] = prev + "|" + reached
			} else {
				arm[hit] = reached
			}
		}
	})
	tags := map[string]string{}
	var names []string
	for t := range arm {
		names = append(names, t)
	}
	sort.Strings(names)
	for _, t := range append(types_, "Null/other") {
		ser, ok := arm[t]
		key := "lib/query.SerializeIdenticalKey: " + t
		if !ok || ser == "" || strings.Contains(ser, "|") {
			c.Bad(key, c.FnPos(fn), fmt.Sprintf("value type %s does not reach exactly one serialiser (%q)", t, ser))
			continue
		}
		sf := c.P.Func(ser)
		tag, okTag := "", false
		if sf != nil {
			tag, okTag = tagOf(c, sf)
		}
		if !okTag {
			c.Unknown(key, c.FnPos(fn), "cannot extract the constant type tag of "+ser)
			continue
		}
		dup := ""
		for ot, otag := range tags {
			if otag == tag {
				dup = ot
			}
		}
		tags[t] = tag
		c.Check(dup == "", key, c.FnPos(sf), fmt.Sprintf("→ %s, tag %q", strings.TrimPrefix(ser, "lib/query."), tag),
			fmt.Sprintf("type tag %q of %s is also the tag of %s: under --strict-equal values of different types with the same text share a bucket", tag, t, dup))
	}
}

// R-KEY-5 ---------------------------------------------------------------------

func init() {
	Register(&Rule{ID: "R-KEY-5", Props: []string{"C04", "C17"}, Floor: 5,
		Doc:      "consumers use the whole key of one row: every fill of a comparison-key buffer (SerializeComparisonKeys / SortValues.Serialize) starts from an empty buffer — taken from the pool or Reset since the previous fill on every path — and the String() of that buffer is used unmodified as map key / stored key (no substring, no further transformation); the pool's Put resets the buffer",
		Controls: []string{"CtlKeyBufferNotReset", "CtlKeyTruncated"},
		Run:      ruleKey5})
}

func ruleKey5(c *Ctx) {
	fillers := map[string]int{"lib/query.SerializeComparisonKeys": 0, "lib/query.(SortValues).Serialize": 1}
	var fns []*ssa.Function
	fns = append(fns, c.P.FuncsIn(true, "lib/query")...)
	for _, fn := range fns {
		name := c.P.Name(fn)
		if _, isFiller := fillers[name]; isFiller {
			continue
		}
		n := 0
		for _, call := range core.Calls(fn) {
			argIdx, ok := fillers[c.P.CalleeName(call)]
			if !ok {
				continue
			}
			n++
			c.Touch(fn)
			buf := call.Common().Args[argIdx]
			fill := call.(ssa.Instruction)
			key := c.KeyAt(fn, fmt.Sprintf("key buffer fill #%d", n))
			// (1) empty buffer: a pool Get / Reset of the same buffer dominates the fill
			// and lies on every cycle through the fill
			var cleaners []ssa.Instruction
			for _, other := range core.Calls(fn) {
				on := c.P.CalleeName(other)
				oin := other.(ssa.Instruction)
				switch on {
				case "lib/query.GetComparisonKeysBuf":
					if v, ok := other.(ssa.Value); ok && sameVar(v, buf) {
						cleaners = append(cleaners, oin)
					}
				case "(*bytes.Buffer).Reset":
					if sameVar(other.Common().Args[0], buf) {
						cleaners = append(cleaners, oin)
					}
				}
			}
			// a buffer allocated here (&bytes.Buffer{} / new) is empty too
			for _, o := range core.Origins(buf, false) {
				if al, ok := o.(*ssa.Alloc); ok {
					cleaners = append(cleaners, al)
				}
			}
			clean := false
			for _, cl := range cleaners {
				if !core.Dominates(cl, fill) {
					continue
				}
				// no path from the fill back to the fill that avoids the cleaner
				if !core.Reachable(fill, fill, func(in ssa.Instruction) bool { return in == cl }) {
					clean = true
				}
			}
			if !clean {
				c.Bad(key, c.Pos(fill), "the key buffer is not provably empty when it is filled (no pool Get / Reset of it between two fills on every path): the key of a row starts with the leftovers of the previous row, so equal rows get different keys and different rows can collide")
				continue
			}
			// (2) the String() of the buffer is used unmodified
			bad := ""
			for _, other := range core.Calls(fn) {
				if c.P.CalleeName(other) != "(*bytes.Buffer).String" || !sameVar(other.Common().Args[0], buf) {
					continue
				}
				sv, ok := other.(ssa.Value)
				if !ok || sv.Referrers() == nil {
					continue
				}
				for _, r := range *sv.Referrers() {
					switch x := r.(type) {
					case *ssa.Store, *ssa.MapUpdate, *ssa.Lookup, *ssa.Phi, *ssa.DebugRef, *ssa.MakeInterface, *ssa.Return: // a returned key is still the whole key
					case *ssa.BinOp:
						if x.Op != token.EQL && x.Op != token.NEQ {
							bad = fmt.Sprintf("the key is transformed (%s) at %s", x.Op, c.Pos(x))
						}
					case *ssa.Slice:
						bad = fmt.Sprintf("only a substring of the key is used at %s", c.Pos(x))
					case ssa.CallInstruction:
						bad = fmt.Sprintf("the key is passed to %s at %s before it is used", callDesc(c.P, x), c.Pos(x))
					default:
						bad = fmt.Sprintf("unexpected use of the key (%T) at %s", r, c.Pos(r))
					}
				}
			}
			c.Check(bad == "", key, c.Pos(fill), "filled from empty; the buffer's String() is used unmodified", bad+": two rows whose keys differ elsewhere fall into the same bucket")
		}
	}
	// (3) the pool's Put resets
	if put := c.Fn("lib/query.PutComparisonkeysBuf"); put != nil {
		okReset := false
		for _, r := range c.P.CallsNamed(put, "(*bytes.Buffer).Reset") {
			for _, p := range c.P.CallsNamed(put, "(*sync.Pool).Put") {
				if core.Dominates(r.(ssa.Instruction), p.(ssa.Instruction)) {
					okReset = true
				}
			}
		}
		c.Check(okReset, "lib/query.PutComparisonkeysBuf: Reset before Put", c.FnPos(put), "the buffer is emptied before it returns to the pool",
			"PutComparisonkeysBuf no longer resets the buffer before pooling it: the next GetComparisonKeysBuf hands out a buffer that still holds another row's key")
	}
}
