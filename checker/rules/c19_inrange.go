package rules

// R-REF-1 (eighth round, seed C19-16): a reference record may point at no record at all
// (recordIndex -1: the header probe of a LATERAL join whose left side is empty, the scope
// of analytic functions, `csvq calc` on an empty standard input). Whoever uses the record
// index of a reference record as an index into the record set of its view must have asked
// IsInRange first.

import (
	"fmt"
	"go/token"
	"go/types"
	"sort"
	"strings"

	"golang.org/x/tools/go/ssa"

	"verif/checker/core"
)

func init() {
	Register(&Rule{ID: "R-REF-1", Props: []string{"C19"}, Floor: 5,
		Doc:      "the record index of a reference record is used as an index only where the record is known to be in range: every `X.RecordSet[r.recordIndex]` (an index expression whose index is loaded from the field recordIndex of a lib/query.ReferenceRecord) is dominated by the true edge of `r.IsInRange()` on the same record (the same address, compared structurally, with no store to it in between) or of the two comparisons IsInRange consists of; when the record is a parameter of the function (by value or by pointer) the obligation passes to every caller, whose argument must be guarded in the same way. recordIndex is -1 in the scopes built by CreateScopeForSequentialEvaluation / CreateScopeForAnalytics and in the header probe of a LATERAL join over an empty left side, so an unguarded index is `index out of range [-1]`: an internal Fatal Error for a valid query",
		Controls: []string{"ctlRefIndexAfterCacheHit", "ctlRefIndexThroughParam"},
		Run:      ruleRef1})
}

// ref1IsRecordType: lib/query.ReferenceRecord or the control type.
func ref1IsRecordType(t types.Type) bool {
	n := core.NamedOf(t)
	return n == "lib/query.ReferenceRecord" || n == core.ControlPkg+".ctlRefRecord"
}

// ref1RecordIndexLoad: v is a load of the field recordIndex of a reference record → the address of the record.
func ref1RecordIndexLoad(v ssa.Value) (rec ssa.Value, ok bool) {
	switch x := v.(type) {
	case *ssa.UnOp:
		if x.Op != token.MUL {
			return nil, false
		}
		fa, isFA := x.X.(*ssa.FieldAddr)
		if !isFA || core.FieldName(fa) != "recordIndex" || !ref1IsRecordType(fa.X.Type()) {
			return nil, false
		}
		return fa.X, true
	case *ssa.Field:
		if core.FieldName(x) != "recordIndex" || !ref1IsRecordType(x.X.Type()) {
			return nil, false
		}
		// a record held by value: its address is where it was loaded from
		if ld, isLd := x.X.(*ssa.UnOp); isLd && ld.Op == token.MUL {
			return ld.X, true
		}
		return x.X, true
	}
	return nil, false
}

// ref1EdgeDominates: the If ending block b sends its edge k (0 = condition true, 1 = false) to a
// block that only it enters and that dominates the block of `at`.
func ref1EdgeDominates(b *ssa.BasicBlock, k int, at ssa.Instruction) bool {
	if len(b.Succs) != 2 {
		return false
	}
	s := b.Succs[k]
	if len(s.Preds) != 1 {
		return false
	}
	return s == at.Block() || s.Dominates(at.Block())
}

// ref1Guarded: `at` is dominated by the fact "the record at rec is in range".
func ref1Guarded(c *Ctx, fn *ssa.Function, rec ssa.Value, at ssa.Instruction) bool {
	sameRec := func(r ssa.Value) bool { return r == rec || core.SameAddrDeep(r, rec) }
	lower, upper := false, false
	for _, b := range fn.Blocks {
		if len(b.Instrs) == 0 {
			continue
		}
		iff, ok := b.Instrs[len(b.Instrs)-1].(*ssa.If)
		if !ok {
			continue
		}
		for k := 0; k < 2; k++ {
			if !ref1EdgeDominates(b, k, at) {
				continue
			}
			switch x := iff.Cond.(type) {
			case *ssa.Call:
				g := core.StaticCallee(x)
				if k != 0 || g == nil || g.Name() != "IsInRange" || g.Signature.Recv() == nil || !ref1IsRecordType(g.Signature.Recv().Type()) || len(x.Call.Args) != 1 {
					continue
				}
				if sameRec(x.Call.Args[0]) {
					return true
				}
			case *ssa.BinOp:
				// the two comparisons written out; on the false edge the comparison is negated
				op := x.Op
				if k == 1 {
					switch op {
					case token.LSS:
						op = token.GEQ
					case token.LEQ:
						op = token.GTR
					case token.GTR:
						op = token.LEQ
					case token.GEQ:
						op = token.LSS
					default:
						continue
					}
				}
				l, lok := ref1RecordIndexLoad(x.X)
				r, rok := ref1RecordIndexLoad(x.Y)
				switch {
				case rok && sameRec(r): // k < idx, k <= idx, len > idx
					if kk, isK := core.ConstInt(x.X); isK {
						if (op == token.LSS && kk >= -1) || (op == token.LEQ && kk >= 0) {
							lower = true
						}
					} else if op == token.GTR && ref1IsLen(x.X) {
						upper = true
					}
				case lok && sameRec(l):
					if kk, isK := core.ConstInt(x.Y); isK {
						if (op == token.GTR && kk >= -1) || (op == token.GEQ && kk >= 0) {
							lower = true
						}
					} else if op == token.LSS && ref1IsLen(x.Y) {
						upper = true
					}
				}
			}
		}
	}
	return lower && upper
}

// ref1IsLen: len(X.RecordSet) or X.RecordLen().
func ref1IsLen(v ssa.Value) bool {
	call, ok := v.(*ssa.Call)
	if !ok {
		return false
	}
	if b, isB := call.Call.Value.(*ssa.Builtin); isB && b.Name() == "len" {
		return true
	}
	if g := core.StaticCallee(call); g != nil && g.Name() == "RecordLen" {
		return true
	}
	return false
}

func ruleRef1(c *Ctx) {
	start := len(c.Obs)
	type site struct {
		fn  *ssa.Function
		in  ssa.Instruction
		rec ssa.Value
	}
	var sites []site
	for _, fn := range c.P.FuncsIn(true, "lib/query") {
		for _, b := range fn.Blocks {
			for _, in := range b.Instrs {
				var idx ssa.Value
				switch x := in.(type) {
				case *ssa.IndexAddr:
					idx = x.Index
				case *ssa.Index:
					idx = x.Index
				default:
					continue
				}
				rec, ok := ref1RecordIndexLoad(idx)
				if !ok {
					continue
				}
				sites = append(sites, site{fn, in, rec})
			}
		}
	}
	sort.Slice(sites, func(i, j int) bool { return c.Pos(sites[i].in) < c.Pos(sites[j].in) })
	real := 0
	perFn := map[string]int{}
	for _, s := range sites {
		c.Touch(s.fn)
		c.Sites++
		kbase := c.KeyAt(s.fn, "indexes by the record index of a reference record")
		perFn[kbase]++
		key := kbase
		if perFn[kbase] > 1 {
			key = fmt.Sprintf("%s #%d", kbase, perFn[kbase])
		}
		if !c.P.IsControl(s.fn) {
			real++
		}
		if ref1Guarded(c, s.fn, s.rec, s.in) {
			c.Ok(key, c.Pos(s.in), "dominated by the true edge of IsInRange on the same record")
			continue
		}
		// the record is a parameter: by value (spilled into a local the function only reads) or by pointer
		var par *ssa.Parameter
		switch r := s.rec.(type) {
		case *ssa.Parameter:
			par = r
		case *ssa.Alloc:
			for _, ref := range *r.Referrers() {
				if st, ok := ref.(*ssa.Store); ok && st.Addr == ssa.Value(r) {
					if p, isP := st.Val.(*ssa.Parameter); isP && par == nil {
						par = p
					} else {
						par = nil
						break
					}
				}
			}
		}
		if par == nil || s.fn.Parent() != nil {
			c.Bad(key, c.Pos(s.in), "the record set is indexed by the record index of a reference record that has not been asked IsInRange on this path: the index is -1 when the scope has no current record (header probe of a LATERAL join over an empty left side, analytic scope, calc on empty input) — index out of range, an internal Fatal Error for a valid query")
			continue
		}
		pi := -1
		for i, p := range s.fn.Params {
			if p == par {
				pi = i
			}
		}
		callers := c.P.RealCallers(s.fn)
		if c.P.IsControl(s.fn) {
			callers = c.P.Callers(s.fn)
		}
		if pi < 0 || len(callers) == 0 {
			c.Unknown(key, c.Pos(s.in), "cannot-analyse: the record is a parameter of a function whose callers are not known")
			continue
		}
		var bad []string
		for _, e := range callers {
			if e.Site == nil || pi >= len(e.Site.Common().Args) {
				bad = append(bad, c.P.Name(e.Caller.Func)+" (indirect call)")
				continue
			}
			arg := e.Site.Common().Args[pi]
			addr := arg
			if ld, ok := arg.(*ssa.UnOp); ok && ld.Op == token.MUL {
				addr = ld.X
			}
			if !ref1Guarded(c, e.Caller.Func, addr, e.Site) {
				bad = append(bad, c.P.Name(e.Caller.Func)+" @"+c.Pos(e.Site))
			}
		}
		sort.Strings(bad)
		if len(bad) == 0 {
			c.OkN(key, c.Pos(s.in), fmt.Sprintf("the record is a parameter; each of the %d call sites passes a record it has asked IsInRange", len(callers)), len(callers))
		} else {
			c.Bad(key, c.Pos(s.in), "the record is a parameter and is not asked IsInRange here; called without that check by "+strings.Join(bad, ", ")+" — index out of range [-1] when the scope has no current record")
		}
	}
	c.negControls(start, "okRefIndexGuarded", "okRefIndexGuardedCompare", "okRefIndexParamGuarded")
	if real < 5 {
		c.Unknown("anchor:index sites", "-", fmt.Sprintf("cannot-analyse: expected at least 5 index expressions over ReferenceRecord.recordIndex in lib/query, found %d", real))
	}
}
