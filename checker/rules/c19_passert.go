package rules

// R-ERR-26 (ninth round; written for a crash a seeding agent reported on the unchanged
// tree: `SELECT (SELECT 1, 2) = 3` → "interface conversion: parser.QueryExpression is
// parser.PrimitiveType, not parser.RowValue"). R-ERR-2 decides the unchecked assertions
// to value types; this rule decides the unchecked assertions to syntax-tree types.

import (
	"fmt"
	"os"
	"go/token"
	"go/types"
	"sort"
	"strings"

	"golang.org/x/tools/go/ssa"

	"verif/checker/core"
)

func init() {
	Register(&Rule{ID: "R-ERR-26", Props: []string{"C19"}, Floor: 150,
		Doc: "every non-comma-ok type assertion, in hand-written csvq code, from an interface to a concrete syntax-tree type of lib/parser is applied to an operand whose dynamic type has been tested: the assertion is dominated by the successful edge of a comma-ok test / the single-type arm of a type switch for the same asserted type on the same operand (the same SSA value, or a read of the same field chain of the same base value with no store to it in between), or — inside an arm of a type switch that lists several types — the assertion re-tests the operand; or the operand is a value the function itself built as that type. What a grammar production happens to store in a field (a sub-query is both a value and a row value) is not accepted as evidence: the parser's union slots are untyped, so the rule asks for the test. Otherwise a valid program can reach an 'interface conversion' panic (internal Fatal Error)",
		Controls: []string{"CtlPAssertUntested", "CtlPAssertOtherField", "CtlPAssertMultiArm", "CtlPAssertPredicateSaysNothing"},
		Run:      ruleErr26})
}

const err26ParserPkg = core.ModPath + "/lib/parser"

// err26Exceptions: single-symbol exceptions (obligation key → reason). The side condition of each is
// stated in the reason and is structural (the producing function is named and inspected).
var err26Exceptions = map[string]string{
	"lib/query.loadView: tableExpr.(lib/parser.Table)": "a table position (FromClause.Tables, Join.Table / JoinTable, the operands of a parenthesized table) holds a Table or a Parentheses around one: the grammar symbols `table`, `tables`, `joinable_tables` produce nothing else (side condition, checked on every run) and loadView unwraps the Parentheses before this assertion; the engine merges the Expr of table parentheses with the Expr of value parentheses (one field), which is why it cannot show it",
	"lib/query.loadView: t.Object.(lib/parser.Subquery)": "reached only for a Table whose Lateral token is set; the only productions that set Lateral (`LATERAL laterable_query_table`) take the Table from `laterable_query_table`, whose Object is the sub-query — a correlation between two fields of one node that the per-field sets do not carry",
	"lib/query.loadObject: NormalizeTableObject()#0.(lib/parser.Identifier)": "the table objects that reach loadObject are Identifier, Url, TableFunction, Stdin (grammar symbol table_identifier) or the DataObject / Url built by loadView for an inline format; Stdin returns earlier, NormalizeTableObject turns Url and TableFunction into Identifier / DataObject / HttpObject, and the two tests above take DataObject and HttpObject — the value-typed Path of an inline format-specified function is replaced by a DataObject behind the predicate isTableObjectAsDataObject, a test made inside a helper",
}

// err26IsParserConcrete: t is a named non-interface type declared in lib/parser (or the control package).
func err26IsParserConcrete(t types.Type) bool {
	if p, ok := t.(*types.Pointer); ok {
		t = p.Elem()
	}
	n, ok := t.(*types.Named)
	if !ok || n.Obj().Pkg() == nil {
		return false
	}
	if _, isIface := n.Underlying().(*types.Interface); isIface {
		return false
	}
	pp := n.Obj().Pkg().Path()
	return pp == err26ParserPkg || strings.HasSuffix(pp, core.ControlPkg)
}

// err26SameOperand: a and b denote the same interface value.
func err26SameOperand(a, b ssa.Value, depth int) bool {
	if a == b {
		return true
	}
	if depth > 6 {
		return false
	}
	switch x := a.(type) {
	case *ssa.Field:
		y, ok := b.(*ssa.Field)
		return ok && x.Field == y.Field && types.Identical(x.X.Type(), y.X.Type()) && err26SameOperand(x.X, y.X, depth+1)
	case *ssa.UnOp:
		y, ok := b.(*ssa.UnOp)
		if !ok || x.Op != token.MUL || y.Op != token.MUL {
			return false
		}
		return core.SameAddrDeep(x.X, y.X)
	case *ssa.ChangeInterface:
		if y, ok := b.(*ssa.ChangeInterface); ok {
			return err26SameOperand(x.X, y.X, depth+1)
		}
	case *ssa.Index:
		y, ok := b.(*ssa.Index)
		return ok && x.Index == y.Index && err26SameOperand(x.X, y.X, depth+1)
	}
	return false
}

// err26StoreBetween: a and b are loads; a store to the loaded cell may lie between them.
func err26StoreBetween(a, b ssa.Value, from, to ssa.Instruction) bool {
	ua, ok := a.(*ssa.UnOp)
	if !ok || ua.Op != token.MUL {
		return false
	}
	return core.StoreBetween(ua.X, from, to)
}

func ruleErr26(c *Ctx) {
	p := c.P
	var fns []*ssa.Function
	for _, fn := range p.AllCsvqFuncs() {
		if fn.Blocks == nil {
			continue
		}
		if p.InPkg(fn, "lib/parser") {
			continue
		}
		fns = append(fns, fn)
	}
	sort.Slice(fns, func(i, j int) bool { return p.Name(fns[i]) < p.Name(fns[j]) })
	flow, ferr := core.NewDynFlow(p, "lib/parser/parser.y")
	if ferr != nil {
		c.Unknown("engine: dynamic-type flow", "-", "cannot-analyse: "+ferr.Error())
		return
	}
	nProds, nAssigned := flow.Coverage()
	if nProds < 500 || nAssigned*100 < nProds*90 {
		c.Unknown("engine: dynamic-type flow", "-", fmt.Sprintf("cannot-analyse: the grammar reader found %d productions, %d of them with an action that assigns the left side in the generated parser (expected ≥ 500 and ≥ 90%%): the link between parser.y and parser.go is broken", nProds, nAssigned))
		return
	}
	c.Ok("engine: dynamic-type flow", "-", fmt.Sprintf("%d productions of lib/parser/parser.y linked to the actions of the generated parser (%d assign their left side), fixpoint after %d rounds", nProds, nAssigned, flow.Rounds))
	if os.Getenv("E26_DEBUG") != "" {
		fmt.Fprintf(os.Stderr, "E26 wild sites: %s\n", strings.Join(flow.WildSites, " | "))
	}
	for _, fn := range fns {
		seen := map[string]int{}
		for _, b := range fn.Blocks {
			for _, in := range b.Instrs {
				ta, ok := in.(*ssa.TypeAssert)
				if !ok || ta.CommaOk || !err26IsParserConcrete(ta.AssertedType) {
					continue
				}
				if _, isIface := ta.X.Type().Underlying().(*types.Interface); !isIface {
					continue
				}
				c.Touch(fn)
				c.Sites++
				desc := fmt.Sprintf("%s.(%s)", err26Describe(ta.X), core.NamedOf(ta.AssertedType))
				seen[desc]++
				key := c.KeyAt(fn, desc)
				if seen[desc] > 1 {
					key = fmt.Sprintf("%s#%d", key, seen[desc])
				}
				if why, ok := err26Tested(fn, ta); ok {
					c.Ok(key, c.Pos(ta), why)
					continue
				}
				if why, ok := err26Built(ta); ok {
					c.Ok(key, c.Pos(ta), why)
					continue
				}
				if reason, ok := err26Exceptions[key]; ok {
					if bad := err26TableSymbols(flow); bad != "" && strings.Contains(key, "tableExpr") {
						c.Bad(key, c.Pos(ta), "the side condition of the exception no longer holds: "+bad)
						continue
					}
					c.Ok(key, c.Pos(ta), "exception: "+reason)
					continue
				}
				if set := core.NarrowByTypeTests(flow.D(ta.X, nil), ta, ta.X); !set.Unknown() && len(set) > 0 {
					want := core.TypeName(ta.AssertedType)
					only := true
					for k := range set {
						if k != want {
							only = false
						}
					}
					if only {
						c.Ok(key, c.Pos(ta), "every store, composite literal and grammar action that can fill this place puts a "+want+" there")
						continue
					}
					c.Bad(key, c.Pos(ta), fmt.Sprintf("unchecked assertion to %s at %s: the operand can hold %s (grammar actions of lib/parser/parser.y, composite literals and stores of the whole program) and no type test of the same operand dominates the assertion — a valid program reaches an 'interface conversion' panic (internal Fatal Error)", want, c.Pos(ta), strings.Join(set.List(), ", ")))
					continue
				}
				if os.Getenv("E26_DEBUG") != "" {
					fmt.Fprintf(os.Stderr, "E26 %s: set=%v operand=%T %v\n", key, core.NarrowByTypeTests(flow.D(ta.X, nil), ta, ta.X).List(), ta.X, ta.X)
				}
				c.Bad(key, c.Pos(ta), fmt.Sprintf("unchecked assertion to %s at %s: no dominating type test of the same operand for this type and the operand is not built here — a program whose syntax tree holds another node at this place ends in an 'interface conversion' panic (internal Fatal Error)", core.NamedOf(ta.AssertedType), c.Pos(ta)))
			}
		}
	}
}

// err26Describe: a stable description of the operand (field chain / parameter / call).
func err26Describe(v ssa.Value) string {
	switch x := v.(type) {
	case *ssa.Parameter:
		return x.Name()
	case *ssa.Field:
		return err26Describe(x.X) + "." + core.FieldName(x)
	case *ssa.FieldAddr:
		return err26Describe(x.X) + "." + core.FieldName(x)
	case *ssa.UnOp:
		if x.Op == token.MUL {
			return err26Describe(x.X)
		}
	case *ssa.Alloc:
		if x.Comment != "" {
			return x.Comment
		}
	case *ssa.Index:
		return err26Describe(x.X) + "[·]"
	case *ssa.IndexAddr:
		return err26Describe(x.X) + "[·]"
	case *ssa.Call:
		if g := x.Call.StaticCallee(); g != nil {
			return g.Name() + "()"
		}
		if x.Call.IsInvoke() {
			return x.Call.Method.Name() + "()"
		}
		return "call()"
	case *ssa.Extract:
		return fmt.Sprintf("%s#%d", err26Describe(x.Tuple), x.Index)
	case *ssa.Phi:
		if x.Comment != "" {
			return x.Comment
		}
		return "φ"
	case *ssa.Lookup:
		return err26Describe(x.X) + "[·]"
	case *ssa.Next:
		return "range"
	case *ssa.ChangeInterface:
		return err26Describe(x.X)
	case *ssa.MakeInterface:
		return "iface(" + core.NamedOf(x.X.Type()) + ")"
	case *ssa.FreeVar:
		return x.Name()
	case *ssa.Slice:
		return err26Describe(x.X) + "[:]"
	}
	return "value"
}

// err26Tested: a dominating successful type test of the same operand for the asserted type.
func err26Tested(fn *ssa.Function, ta *ssa.TypeAssert) (string, bool) {
	for _, f := range core.FactsAt(ta.Block()) {
		if f.Neg {
			continue
		}
		ex, ok := f.Cond.(*ssa.Extract)
		if !ok || ex.Index != 1 {
			continue
		}
		t, ok := ex.Tuple.(*ssa.TypeAssert)
		if !ok || !t.CommaOk || !types.Identical(t.AssertedType, ta.AssertedType) {
			continue
		}
		if !err26SameOperand(t.X, ta.X, 0) {
			continue
		}
		if t.X != ta.X && err26StoreBetween(t.X, ta.X, t, ta) {
			continue
		}
		return "dominated by the successful type test of the same operand", true
	}
	// an earlier unchecked assertion of the same operand to the same type that dominates this one:
	// had the operand held anything else, control would not have got here (the earlier one carries the obligation)
	for _, b := range fn.Blocks {
		for _, in := range b.Instrs {
			t, ok := in.(*ssa.TypeAssert)
			if !ok || t == ta || t.CommaOk || !types.Identical(t.AssertedType, ta.AssertedType) {
				continue
			}
			if !err26SameOperand(t.X, ta.X, 0) || !core.Dominates(t, ta) {
				continue
			}
			if t.X != ta.X && err26StoreBetween(t.X, ta.X, t, ta) {
				continue
			}
			return "dominated by an earlier assertion of the same operand to the same type (which carries the obligation)", true
		}
	}
	return "", false
}

// err26Built: every origin of the operand is a MakeInterface of the asserted type in this function.
func err26Built(ta *ssa.TypeAssert) (string, bool) {
	seen := map[ssa.Value]bool{}
	var ok func(v ssa.Value) bool
	ok = func(v ssa.Value) bool {
		if seen[v] {
			return true
		}
		seen[v] = true
		switch x := v.(type) {
		case *ssa.MakeInterface:
			return types.Identical(x.X.Type(), ta.AssertedType)
		case *ssa.ChangeInterface:
			return ok(x.X)
		case *ssa.Phi:
			for _, e := range x.Edges {
				if !ok(e) {
					return false
				}
			}
			return len(x.Edges) > 0
		}
		return false
	}
	if ok(ta.X) {
		return "the operand is built in this function as the asserted type", true
	}
	return "", false
}

// err26TableSymbols: the grammar symbols that fill table positions produce Table / Parentheses only.
func err26TableSymbols(flow *core.DynFlow) string {
	allowed := map[string]bool{"lib/parser.Table": true, "lib/parser.Parentheses": true}
	for _, sym := range []struct {
		name string
		elem bool
	}{{"table", false}, {"tables", true}, {"joinable_tables", true}} {
		set := flow.Sym(sym.name, sym.elem)
		if len(set) == 0 {
			return "grammar symbol " + sym.name + " is unknown to the engine"
		}
		for k := range set {
			if !allowed[k] {
				return "grammar symbol " + sym.name + " can produce " + k
			}
		}
	}
	return ""
}
