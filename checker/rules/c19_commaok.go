package rules

import (
	"fmt"
	"go/token"
	"go/types"
	"sort"
	"strings"

	"golang.org/x/tools/go/ssa"

	"verif/checker/core"
)

// R-ERR-21 — the zero value of a failed comma-ok assertion whose ok is thrown away.
// R-ERR-22 — a syntax-tree field that csvq itself believes may be nil is asserted / called unguarded.
//
// Both are about the optional parts of the parser's syntax tree: a clause that
// the statement does not have is a nil interface in its struct, and the struct
// that `x, _ := y.(T)` leaves behind when y is something else consists of nothing
// but such nils.

func init() {
	Register(&Rule{ID: "R-ERR-21", Props: []string{"C19"}, Floor: 3,
		Doc:      "for every comma-ok type assertion `x, _ := y.(T)` in hand-written csvq code whose ok result is not used, the value x — the ZERO value of T whenever y holds something else — and everything read out of it (fields, through local variables, phis, and as the argument or receiver of a csvq helper two levels deep, unless the call itself is only reached under such a test of the value handed over) does not reach an unchecked type assertion, a method call on an interface, a call of a func value or a pointer dereference, unless a nil test / type test of that very value dominates the use",
		Controls: []string{"CtlOkDroppedThenFieldAsserted", "CtlOkDroppedHandedToHelperUntested"},
		Run:      ruleErr21})
	Register(&Rule{ID: "R-ERR-22", Props: []string{"C19"}, Floor: 35,
		Doc:      "belief analysis over the fields of lib/parser syntax-tree structs: a field of interface or pointer type that is compared with nil anywhere in hand-written csvq code is an OPTIONAL part of the tree; every unchecked type assertion on, and every interface method call through, a read of such a field is dominated by a nil test or a successful type test of the same field of the same struct value (no store in between) — otherwise a statement without that part ends in 'interface conversion: interface is nil' (Go stack trace / internal Fatal Error)",
		Controls: []string{"CtlOptionalClauseAsserted"},
		Run:      ruleErr22})
}

// e19OkUnused: ta is a comma-ok assertion whose ok is never read; returns the value Extract.
func e19OkUnused(ta *ssa.TypeAssert) (*ssa.Extract, bool) {
	if !ta.CommaOk || ta.Referrers() == nil {
		return nil, false
	}
	var val *ssa.Extract
	for _, r := range *ta.Referrers() {
		ex, ok := r.(*ssa.Extract)
		if !ok {
			continue
		}
		if ex.Index == 1 {
			for _, rr := range *ex.Referrers() {
				if _, dbg := rr.(*ssa.DebugRef); !dbg {
					return nil, false
				}
			}
		}
		if ex.Index == 0 {
			val = ex
		}
	}
	return val, val != nil
}

// e19GuardedAt: v is known not to be nil / to hold a tested type at `at`.
func e19GuardedAt(v ssa.Value, at ssa.Instruction) bool {
	if core.NonNilAt(v, at) {
		return true
	}
	for _, f := range core.FactsAt(at.Block()) {
		if x, neq, ok := core.NilCmp(f.Cond); ok {
			if neq != f.Neg && core.SameVal(x, v) {
				return true
			}
			continue
		}
		// a successful comma-ok test of the same value
		if ex, ok := f.Cond.(*ssa.Extract); ok && ex.Index == 1 && !f.Neg {
			if ta, ok := ex.Tuple.(*ssa.TypeAssert); ok && core.SameVal(ta.X, v) {
				return true
			}
		}
	}
	return false
}

// e22GuardedPathwise: there is a join block J dominating `at` such that every way
// into J either carries the guard (a nil test / type test of v, or a store of a
// non-nil value into v's cell), or is excluded by a fact that holds at `at`
// (the same condition with the opposite outcome; a phi that is non-nil at `at`
// and nil on that edge).
func e22GuardedPathwise(v ssa.Value, at ssa.Instruction) bool {
	facts := core.FactsAt(at.Block())
	for j := at.Block(); j != nil; j = j.Idom() {
		if len(j.Preds) < 2 {
			continue
		}
		all := true
		for pi, p := range j.Preds {
			pf := append(append([]core.Fact{}, core.FactsAt(p)...), core.EdgeFacts(p, j)...)
			if e22GuardIn(pf, v, p, j, at) || e22StoresNonNil(p, v, at) || e22Excluded(pf, facts, j, pi) {
				continue
			}
			all = false
			break
		}
		if all {
			return true
		}
	}
	return false
}

// e22StoreOnPaths: a store to the cell may execute after `from` on a path to `to`.
func e22StoreOnPaths(addr ssa.Value, from, to ssa.Instruction) bool {
	hit := false
	core.WalkFrom(from, func(in ssa.Instruction) bool {
		if in == to || in == from {
			return false
		}
		if st, ok := in.(*ssa.Store); ok && e22SameAddr(st.Addr, addr) && (in.Block() == to.Block() && core.Dominates(in, to) || core.Reachable(in, to, nil)) {
			hit = true
		}
		return !hit
	})
	return hit
}

// e22GuardIn: the facts pf, which hold when control leaves p for j, contain a nil
// test / type test of v's value. For a cell, the tested load and v may be
// different loads: no store to the cell after the tested load inside p's region,
// and none between the head of j and `at`.
func e22GuardIn(pf []core.Fact, v ssa.Value, p, j *ssa.BasicBlock, at ssa.Instruction) bool {
	same := func(x ssa.Value) bool {
		if x == v {
			return true
		}
		ax, av := core.Addr(x), core.Addr(v)
		if ax == nil || av == nil {
			return core.SameVal(x, v)
		}
		if !e22SameAddr(ax, av) {
			return false
		}
		xi, ok := x.(ssa.Instruction)
		if !ok {
			return false
		}
		last := p.Instrs[len(p.Instrs)-1]
		if xi != last && e22StoreOnPaths(av, xi, last) {
			return false
		}
		return at == j.Instrs[0] || !e22StoreOnPaths(av, j.Instrs[0], at) && !e22IsStoreTo(j.Instrs[0], av)
	}
	for _, f := range pf {
		if x, neq, ok := core.NilCmp(f.Cond); ok {
			if neq != f.Neg && same(x) {
				return true
			}
			continue
		}
		if ex, ok := f.Cond.(*ssa.Extract); ok && ex.Index == 1 && !f.Neg {
			if ta, ok := ex.Tuple.(*ssa.TypeAssert); ok && same(ta.X) {
				return true
			}
		}
	}
	return false
}

func e22IsStoreTo(in ssa.Instruction, addr ssa.Value) bool {
	st, ok := in.(*ssa.Store)
	return ok && e22SameAddr(st.Addr, addr)
}

// e22StoresNonNil: block p ends with v's cell holding a freshly boxed (non-nil) value, and nothing overwrites it before `at`.
func e22StoresNonNil(p *ssa.BasicBlock, v ssa.Value, at ssa.Instruction) bool {
	addr := core.Addr(v)
	if addr == nil {
		return false
	}
	var last *ssa.Store
	for _, in := range p.Instrs {
		if st, ok := in.(*ssa.Store); ok && e22SameAddr(st.Addr, addr) {
			last = st
		}
	}
	if last == nil {
		return false
	}
	if _, ok := last.Val.(*ssa.MakeInterface); !ok {
		return false
	}
	return !e22StoreOnPaths(addr, last, at)
}

func e22SameAddr(a, b ssa.Value) bool {
	if a == b {
		return true
	}
	x, ok := a.(*ssa.FieldAddr)
	y, ok2 := b.(*ssa.FieldAddr)
	if !ok || !ok2 || x.Field != y.Field {
		return false
	}
	return x.X == y.X || e22SameAddr(x.X, y.X) || core.SameVal(x.X, y.X)
}

func e22Excluded(pf, facts []core.Fact, j *ssa.BasicBlock, pi int) bool {
	for _, g := range facts {
		for _, f := range pf {
			if f.Neg != g.Neg && (f.Cond == g.Cond || core.SameVal(f.Cond, g.Cond)) {
				return true
			}
		}
		// a phi of J that is non-nil at `at` but nil on this edge
		if y, neq, ok := core.NilCmp(g.Cond); ok && neq != g.Neg {
			if phi, ok := y.(*ssa.Phi); ok && phi.Block() == j && core.IsNilConst(phi.Edges[pi]) {
				return true
			}
		}
	}
	return false
}

type e21Hit struct {
	at   ssa.Instruction
	what string
}

// e21Sinks follows the possibly-zero value v and returns the uses that panic on a zero value.
func e21Guarded(v ssa.Value, at ssa.Instruction) bool {
	return e19GuardedAt(v, at) || e22GuardedPathwise(v, at)
}

func e21Sinks(c *Ctx, v ssa.Value, depth int, seen map[ssa.Value]bool, path string, out *[]e21Hit) {
	if seen[v] || v.Referrers() == nil {
		return
	}
	seen[v] = true
	nilable := false
	switch v.Type().Underlying().(type) {
	case *types.Interface, *types.Pointer, *types.Signature:
		nilable = true
	}
	for _, r := range *v.Referrers() {
		switch x := r.(type) {
		case *ssa.Field:
			if x.X == v {
				e21Sinks(c, x, depth, seen, path+"."+core.FieldName(x), out)
			}
		case *ssa.Phi:
			e21Sinks(c, x, depth, seen, path, out)
		case *ssa.ChangeInterface:
			e21Sinks(c, x, depth, seen, path, out)
		case *ssa.ChangeType:
			e21Sinks(c, x, depth, seen, path, out)
		case *ssa.Store:
			if x.Val != v {
				if nilable && x.Addr == v && !e21Guarded(v, x) {
					*out = append(*out, e21Hit{x, "store through " + path})
				}
				continue
			}
			al, ok := x.Addr.(*ssa.Alloc)
			if !ok || al.Referrers() == nil {
				continue
			}
			// reads of the local variable and of its fields
			for _, ar := range *al.Referrers() {
				switch y := ar.(type) {
				case *ssa.UnOp:
					if y.Op == token.MUL {
						e21Sinks(c, y, depth, seen, path, out)
					}
				case *ssa.FieldAddr:
					if y.Referrers() == nil {
						continue
					}
					for _, fr := range *y.Referrers() {
						if ld, ok := fr.(*ssa.UnOp); ok && ld.Op == token.MUL {
							e21Sinks(c, ld, depth, seen, path+"."+core.FieldName(y), out)
						}
					}
				}
			}
		case *ssa.TypeAssert:
			if x.X == v && !x.CommaOk && !e21Guarded(v, x) {
				*out = append(*out, e21Hit{x, fmt.Sprintf("unchecked assertion %s.(%s)", path, types.TypeString(x.AssertedType, e19Qual))})
			}
		case *ssa.UnOp:
			if x.Op == token.MUL && x.X == v && nilable && !e21Guarded(v, x) {
				*out = append(*out, e21Hit{x, "dereference of " + path})
			}
		case *ssa.FieldAddr:
			if x.X == v && nilable && !e21Guarded(v, x) {
				*out = append(*out, e21Hit{x, "field of nil pointer " + path})
			}
		case ssa.CallInstruction:
			cc := x.Common()
			if cc.Value == v && nilable {
				if !e21Guarded(v, x) {
					if cc.IsInvoke() {
						*out = append(*out, e21Hit{x, fmt.Sprintf("method call %s.%s()", path, cc.Method.Name())})
					} else {
						*out = append(*out, e21Hit{x, "call of nil func " + path})
					}
				}
				continue
			}
			if depth >= 2 {
				continue
			}
			callee := cc.StaticCallee()
			if callee == nil || len(callee.Blocks) == 0 || callee.Pkg == nil || !strings.HasPrefix(callee.Pkg.Pkg.Path(), core.ModPath) {
				continue
			}
			// the call is only reached under a nil test / type test of this very
			// value: what the helper receives here is not the zero value (the
			// receiver of a method is Args[0] for a static callee, so a method of
			// the asserted type is covered as well).
			if nilable && e21Guarded(v, x) {
				continue
			}
			for i, a := range cc.Args {
				if a == v && i < len(callee.Params) {
					e21Sinks(c, callee.Params[i], depth+1, seen, path+"→"+callee.Name()+"("+callee.Params[i].Name()+")", out)
				}
			}
		}
	}
}

func e19Qual(p *types.Package) string { return p.Name() }

// e21AlwaysHolds: every dynamic type the operand can hold at the assertion is the
// asserted (concrete) type — interprocedural result type-sets; the nil interface is
// excluded by a dominating nil test. A parameter of an unexported helper is judged
// by the arguments of all its call sites (two levels).
func e21AlwaysHolds(c *Ctx, ts *core.TypeSets, ta *ssa.TypeAssert) string {
	if types.IsInterface(ta.AssertedType) {
		return ""
	}
	if !e21Only(c, ts, ta.X, ta, ta.AssertedType, false, 0) {
		return ""
	}
	return "the operand can only hold " + types.TypeString(ta.AssertedType, e19Qual) + " here (result type-sets of its producers — for a helper parameter: of the arguments at every call site —, nil excluded by the dominating test): the assertion cannot fail"
}

func e21Only(c *Ctx, ts *core.TypeSets, v ssa.Value, at ssa.Instruction, T types.Type, nilExcluded bool, depth int) bool {
	nilExcluded = nilExcluded || e19GuardedAt(v, at)
	if par, ok := v.(*ssa.Parameter); ok {
		fn := par.Parent()
		if depth >= 2 || fn.Object() == nil || fn.Object().Exported() || fn.Signature.Recv() != nil {
			return false
		}
		idx := -1
		for i, q := range fn.Params {
			if q == par {
				idx = i
			}
		}
		edges := c.P.RealCallers(fn)
		if idx < 0 || len(edges) == 0 {
			return false
		}
		for _, e := range edges {
			if e.Site == nil || e.Site.Common().StaticCallee() != fn || idx >= len(e.Site.Common().Args) {
				return false
			}
			if !e21Only(c, ts, e.Site.Common().Args[idx], e.Site, T, nilExcluded, depth+1) {
				return false
			}
		}
		return true
	}
	s := ts.Final(v, nil)
	if s.Top || len(s.M) == 0 {
		return false
	}
	for k, t := range s.M {
		if k == core.NilType {
			if !nilExcluded {
				return false
			}
			continue
		}
		if !types.Identical(t, T) {
			return false
		}
	}
	return true
}

type err21Exception struct {
	reason string
	cond   func(c *Ctx, fn *ssa.Function) (bool, string)
}

var err21Exceptions = map[string]err21Exception{
	"lib/query.AddColumns: query.Position.(parser.ColumnPosition) with ok dropped": {
		"the grammar's column_position yields a ColumnPosition or nothing, and AddColumns replaces a nil Position by ColumnPosition{LAST} before the assertion. Checked: every hand-written store to parser.AddColumns.Position stores a ColumnPosition. NOT decided: what the generated parser puts there (taken from parser.y: rule column_position)",
		e21PositionStores},
}

// e21PositionStores: every store to AddColumns.Position outside the generated parser stores a parser.ColumnPosition,
// and the function has one that is guarded by `Position == nil`.
func e21PositionStores(c *Ctx, in *ssa.Function) (bool, string) {
	replaced := false
	for _, fn := range e19HandWritten(c, nil) {
		if c.P.IsControl(fn) {
			continue
		}
		for _, b := range fn.Blocks {
			for _, i := range b.Instrs {
				st, ok := i.(*ssa.Store)
				if !ok {
					continue
				}
				fa, ok := st.Addr.(*ssa.FieldAddr)
				if !ok || core.FieldOwner(fa) != "lib/parser.AddColumns.Position" {
					continue
				}
				mi, ok := st.Val.(*ssa.MakeInterface)
				if !ok || core.NamedOf(mi.X.Type()) != "lib/parser.ColumnPosition" {
					return false, "a store to AddColumns.Position at " + c.Pos(st) + " is not a ColumnPosition"
				}
				if fn == in {
					for _, f := range core.FactsAt(b) {
						if x, neq, ok := core.NilCmp(f.Cond); ok && neq == f.Neg && e22FieldRead(x) == "lib/parser.AddColumns.Position" {
							replaced = true
						}
					}
				}
			}
		}
	}
	if !replaced {
		return false, "AddColumns no longer replaces a nil Position by a ColumnPosition"
	}
	return true, ""
}

func ruleErr21(c *Ctx) {
	seq := e19SeqKey{}
	ts := core.NewTypeSets(c.P)
	for _, fn := range e19HandWritten(c, nil) {
		if c.P.IsControl(fn) && !strings.Contains(fn.Name(), "OkDropped") {
			continue
		}
		for _, b := range fn.Blocks {
			for _, in := range b.Instrs {
				ta, ok := in.(*ssa.TypeAssert)
				if !ok {
					continue
				}
				val, ok := e19OkUnused(ta)
				if !ok {
					continue
				}
				c.Sites++
				c.Touch(fn)
				key := seq.key(c, e19KeyFn(c, fn), fmt.Sprintf("%s.(%s) with ok dropped", e19ExprLabel(ta.X), types.TypeString(ta.AssertedType, e19Qual)))
				if why := e21AlwaysHolds(c, ts, ta); why != "" {
					c.Ok(key, c.Pos(in), why)
					continue
				}
				if ex, ok := err21Exceptions[key]; ok {
					if good, why := ex.cond(c, fn); good {
						c.Ok(key, c.Pos(in), "frozen exception: "+ex.reason)
						continue
					} else {
						c.Bad(key, c.Pos(in), "the side condition of the frozen exception no longer holds: "+why)
						continue
					}
				}
				var hits []e21Hit
				e21Sinks(c, val, 0, map[ssa.Value]bool{}, "x", &hits)
				if len(hits) == 0 {
					c.Ok(key, c.Pos(in), "the possibly-zero value reaches no assertion, method call or dereference unguarded")
					continue
				}
				sort.SliceStable(hits, func(i, j int) bool { return c.Pos(hits[i].at) < c.Pos(hits[j].at) })
				h := hits[0]
				c.Bad(key, c.Pos(in), fmt.Sprintf("the ok of this assertion is thrown away, so x is the zero %s whenever %s holds something else — and %s at %s (and %d more) uses it without a test: 'interface conversion: interface is nil' / nil dereference, a Go stack trace instead of an error message", types.TypeString(ta.AssertedType, e19Qual), e19ExprLabel(ta.X), h.what, c.Pos(h.at), len(hits)-1))
			}
		}
	}
}

// ---------------------------------------------------------------------------
// R-ERR-22

// e22FieldRead: v is a read of a field of a lib/parser struct; returns "lib/parser.T.F".
func e22FieldRead(v ssa.Value) string {
	var owner string
	switch x := v.(type) {
	case *ssa.Field:
		owner = core.FieldOwner(x)
	case *ssa.UnOp:
		if fa, ok := x.X.(*ssa.FieldAddr); ok && x.Op == token.MUL {
			owner = core.FieldOwner(fa)
		}
	}
	if !strings.HasPrefix(owner, "lib/parser.") {
		return ""
	}
	switch v.Type().Underlying().(type) {
	case *types.Interface, *types.Pointer:
		return owner
	}
	return ""
}

func ruleErr22(c *Ctx) {
	// 1. beliefs: fields compared with nil somewhere
	belief := map[string]string{}
	fns := e19HandWritten(c, nil)
	for _, fn := range fns {
		if c.P.IsControl(fn) {
			continue
		}
		for _, b := range fn.Blocks {
			for _, in := range b.Instrs {
				bo, ok := in.(*ssa.BinOp)
				if !ok {
					continue
				}
				x, _, ok := core.NilCmp(bo)
				if !ok {
					continue
				}
				if f := e22FieldRead(x); f != "" {
					if _, seen := belief[f]; !seen {
						belief[f] = c.Pos(in)
					}
				}
			}
		}
	}
	// 2. obligations
	seq := e19SeqKey{}
	for _, fn := range fns {
		if c.P.IsControl(fn) && !strings.Contains(fn.Name(), "OptionalClause") {
			continue
		}
		if c.P.InPkg(fn, "lib/parser") {
			continue // the tree's own methods (String, …): out of scope, see Doc
		}
		for _, b := range fn.Blocks {
			for _, in := range b.Instrs {
				var op ssa.Value
				var what string
				switch x := in.(type) {
				case *ssa.TypeAssert:
					if x.CommaOk {
						continue
					}
					op, what = x.X, fmt.Sprintf(".(%s)", types.TypeString(x.AssertedType, e19Qual))
				case ssa.CallInstruction:
					if !x.Common().IsInvoke() {
						continue
					}
					op, what = x.Common().Value, "."+x.Common().Method.Name()+"()"
				}
				if op == nil {
					continue
				}
				f := e22FieldRead(op)
				if f == "" {
					continue
				}
				where, opt := belief[f]
				if !opt {
					continue
				}
				c.Sites++
				c.Touch(fn)
				key := seq.key(c, e19KeyFn(c, fn), e19ExprLabel(op)+what)
				if e19GuardedAt(op, in) {
					c.Ok(key, c.Pos(in), "a nil test / type test of the same field dominates")
					continue
				}
				if e22GuardedPathwise(op, in) {
					c.Ok(key, c.Pos(in), "every path to the use tests the field, fills it with a non-nil value, or is excluded by a condition that holds here")
					continue
				}
				c.Bad(key, c.Pos(in), fmt.Sprintf("%s is an optional part of the syntax tree (csvq tests it for nil, e.g. at %s) but %s%s is applied here without a dominating nil test or type test of that field: a statement without this part panics with 'interface conversion: interface is nil' / nil method call", f, where, e19ExprLabel(op), what))
			}
		}
	}
}
