package rules

import (
	"fmt"
	"go/types"
	"sort"
	"strings"

	"golang.org/x/tools/go/ssa"

	"verif/checker/core"
)

// R-IDENT-1: the printed text of an expression is compared exactly.
//
// Computed columns (analytic functions, aggregate results) are found again in
// a header by the text of their expression (FormatFieldIdentifier → the
// String() of the syntax tree). That text embeds string literals, whose case
// is significant: a case-folding comparison makes LAG(v, 1, 'x') and
// LAG(v, 1, 'X') one column. Column *names* are case-insensitive in csvq, but
// they are compared as identifiers (SearchIndex), not as expression text.

func init() {
	Register(&Rule{ID: "R-IDENT-1", Props: []string{"C17", "C03"}, Floor: 1,
		Doc:      "expression text is never compared case-insensitively: no argument of strings.EqualFold (nor an operand of == / != after strings.ToUpper / ToLower / a csvq case-folding helper) in lib/query originates from the expression-identifier printer — lib/query.FormatFieldIdentifier, or a String() call on a parser.QueryExpression other than a plain identifier — because that text contains string literals; two analytic functions that differ only in the case of a literal argument would otherwise be taken for the same computed column and one of them would show the other's values. The expected number of violating sites is zero; the number of expression-text producers and of case-insensitive comparisons examined is reported, and a positive control keeps the rule alive",
		Controls: []string{"CtlFoldedExpressionText"},
		Run:      ruleIdent1})
}

func ruleIdent1(c *Ctx) {
	qeT := c.P.Type("lib/parser", "QueryExpression")
	var qeI *types.Interface
	if qeT != nil {
		qeI, _ = qeT.Underlying().(*types.Interface)
	}
	isExprText := func(v ssa.Value, seen map[ssa.Value]bool) string { return "" }
	var walk func(v ssa.Value, seen map[ssa.Value]bool) string
	walk = func(v ssa.Value, seen map[ssa.Value]bool) string {
		for _, o := range core.Origins(v, true) {
			if seen[o] {
				continue
			}
			seen[o] = true
			switch x := o.(type) {
			case *ssa.Call:
				name := c.P.CalleeName(x)
				if name == "lib/query.FormatFieldIdentifier" || strings.HasSuffix(name, ".ctlExprText") {
					return "the result of " + name
				}
				com := x.Common()
				if com.IsInvoke() && com.Method.Name() == "String" && qeI != nil {
					if types.Implements(com.Value.Type(), qeI) || types.Identical(com.Value.Type(), qeT) {
						return "String() of a " + com.Value.Type().String()
					}
				}
				// case folding keeps the taint
				switch name {
				case "strings.ToUpper", "strings.ToLower", "strings.TrimSpace":
					if w := walk(com.Args[0], seen); w != "" {
						return w
					}
				}
			case *ssa.BinOp:
				if w := walk(x.X, seen); w != "" {
					return w
				}
				if w := walk(x.Y, seen); w != "" {
					return w
				}
			}
		}
		return ""
	}
	isExprText = walk
	producers, sites := 0, 0
	for _, fn := range c.P.FuncsIn(true, "lib/query") {
		var bad []string
		badPos := ""
		n := 0
		for _, call := range core.Calls(fn) {
			name := c.P.CalleeName(call)
			if name == "lib/query.FormatFieldIdentifier" {
				producers++
			}
			if name != "strings.EqualFold" {
				continue
			}
			n++
			sites++
			for i, a := range call.Common().Args {
				if w := isExprText(a, map[ssa.Value]bool{}); w != "" {
					bad = append(bad, fmt.Sprintf("argument #%d of strings.EqualFold at %s is %s", i, c.Pos(call), w))
					if badPos == "" {
						badPos = c.Pos(call)
					}
				}
			}
		}
		// x == y where one side was case-folded expression text
		for _, b := range fn.Blocks {
			for _, in := range b.Instrs {
				bo, ok := in.(*ssa.BinOp)
				if !ok || bo.Op.String() != "==" && bo.Op.String() != "!=" {
					continue
				}
				for _, side := range []ssa.Value{bo.X, bo.Y} {
					if cl, ok := side.(*ssa.Call); ok {
						switch c.P.CalleeName(cl) {
						case "strings.ToUpper", "strings.ToLower":
							n++
							sites++
							if w := isExprText(cl.Common().Args[0], map[ssa.Value]bool{}); w != "" {
								bad = append(bad, fmt.Sprintf("the comparison at %s folds the case of %s", c.Pos(bo), w))
								if badPos == "" {
									badPos = c.Pos(bo)
								}
							}
						}
					}
				}
			}
		}
		if n == 0 {
			continue
		}
		c.Touch(fn)
		key := c.KeyAt(fn, "case-insensitive comparisons do not see expression text")
		if len(bad) > 0 {
			sort.Strings(bad)
			c.Bad(key, badPos, strings.Join(dedup(bad), "; ")+": the text contains string literals, so two computed columns that differ only in the case of a literal are taken for one (the second analytic function shows the values of the first)")
		} else {
			c.OkN(key, c.FnPos(fn), fmt.Sprintf("%d case-insensitive comparison(s), none on expression text", n), n)
		}
	}
	if producers == 0 {
		c.Unknown("anchor: lib/query.FormatFieldIdentifier", "-", "cannot-analyse: no call of the expression-identifier printer found (renamed?) — re-confirm how computed columns are identified")
	}
	c.Sites += sites
}
