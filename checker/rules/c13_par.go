package rules

import (
	"fmt"
	"sort"
	"strings"

	"golang.org/x/tools/go/ssa"
)

// C12 / C13 — rules on top of the goroutine-sharing engine (par_engine.go).

func init() {
	Register(&Rule{ID: "R-PAR-1", Props: []string{"C13", "C12", "C03", "C04", "C17", "C15", "C02", "C05", "C19"}, Floor: 25,
		Doc:      "lockset consistency: in every concurrent region of lib/query (operands of `go`, callbacks handed to the task runners — a function with a go statement whose goroutine calls one of the function's func parameters, received as an argument, captured, or read from a field of a struct the function built and gave to the goroutine as an argument, receiver or captured variable) each write to memory reachable from a shared root is index-partitioned by the task index — the slot index is a one-to-one image of it: the index itself, ±it plus a task-independent offset, a counter started at it, idx*k or idx<<c, idx*k+j with 0 ≤ j < k shown; an index that reaches the slot through >>, /, %, &, |, ^, &^, *0, min/max, a narrowing conversion or the difference of two task-dependent values sends two tasks to one slot and does not partition (par_inj.go) —, or every conflicting access in a concurrently running region holds a common mutex; sync/atomic/channel/sync.Pool operations are exempt",
		Controls: []string{"CtlSharedCounterRace", "ctlBox).set", "CtlCapturedStructRunnerCallbackRace", "CtlInjBitSetWord", "CtlInjModuloScratch", "ctlInjStoreAt", "CtlInjFlatRowOverrun", "CtlInjOffsetInShare"},
		Run:      rulePar1})
	Register(&Rule{ID: "R-PAR-3", Props: []string{"C12"}, Floor: 25,
		Doc:      "no order-accumulating effect in a multi-instance region: an append to a shared slice (even under a mutex) records the order in which goroutines happened to arrive, so the result depends on the schedule",
		Controls: []string{"CtlLockedAppendOrder", "CtlStructRunnerCallbackAppendOrder"},
		Run:      rulePar3})
}

// writeKey identifies a shared write: by the region for writes in the region
// body, by the callee for writes inside a method called on a shared object (so
// that one defect of a shared helper is one construct, not one per caller).
func writeKey(c *Ctx, fam *parFamily, a parAccess) string {
	if a.depth > 0 && a.fn.Parent() == nil {
		p := a.path
		if i := strings.IndexAny(p, ".[{"); i > 0 {
			p = "(shared)" + p[i:]
		}
		return c.P.Name(a.fn) + " writes " + p
	}
	return c.P.Name(fam.parent) + ": " + regionLabel(c, a.region) + " writes " + a.path
}

func regionLabel(c *Ctx, r *parRegion) string {
	return fmt.Sprintf("%s [%s]", c.P.Name(r.fn), r.how)
}

func rulePar1(c *Ctx) {
	e := parAnalysis(c.P)
	seen := map[string]bool{}
	for _, fam := range e.families {
		c.Touch(fam.parent)
		conf := fam.conflicts()
		byWrite := map[string][]parConflict{}
		for _, cf := range conf {
			k := writeKey(c, fam, cf.w)
			byWrite[k] = append(byWrite[k], cf)
		}
		for _, r := range fam.regions {
			c.Touch(r.fn)
			wrote := false
			for _, a := range r.acc {
				if !a.write {
					continue
				}
				wrote = true
				k := writeKey(c, fam, a)
				if seen[k] {
					continue
				}
				seen[k] = true
				key := k
				if cs := byWrite[k]; len(cs) > 0 {
					cf := cs[0]
					other := "another instance of the same region"
					if cf.a.region != cf.w.region {
						other = regionLabel(c, cf.a.region)
					}
					akind := "read"
					if cf.a.write {
						akind = "write"
					}
					c.Bad(key, c.Pos(cf.w.in), fmt.Sprintf("unsynchronised conflicting accesses: %s (%s) at %s [locks: %s] in %s vs %s (%s) at %s [locks: %s] in %s — %s and no common mutex is held: data race",
						cf.w.kind, "write", c.Pos(cf.w.in), lockList(cf.w.locks), c.P.Name(cf.w.fn), cf.a.kind, akind, c.Pos(cf.a.in), lockList(cf.a.locks), other, notPartitionedWhy(cf.w.path)))
					continue
				}
				why := "every conflicting access holds a common mutex"
				switch {
				case partitioned(a.path):
					why = "index-partitioned by the task index"
				case !r.multi && len(fam.regions) == 1:
					why = "single goroutine; nothing else touches it concurrently"
				case len(a.locks) == 0:
					why = "no concurrently running region accesses this location"
				}
				c.Ok(key, c.Pos(a.in), why)
			}
			if !wrote {
				c.Ok(c.P.Name(fam.parent)+": "+regionLabel(c, r)+" writes nothing shared", c.Pos(r.spawn), "region has no write through a shared root")
			}
		}
	}
}

// notPartitionedWhy words the reason a write path does not separate the tasks.
func notPartitionedWhy(path string) string {
	if strings.Contains(path, "[~]") {
		return "the slot index depends on the task index only through an operation that maps different task indices to one slot (shift, division, modulo, mask, difference of two task values, unbounded offset to idx*k …), so the location is not index-partitioned: tasks whose indices fall into one slot write the same memory"
	}
	return "the location is not index-partitioned"
}

func lockList(l []string) string {
	if len(l) == 0 {
		return "none"
	}
	l = append([]string(nil), l...)
	sort.Strings(l)
	return strings.Join(l, ",")
}

func rulePar3(c *Ctx) {
	e := parAnalysis(c.P)
	for _, fam := range e.families {
		for _, r := range fam.regions {
			if !r.multi {
				continue
			}
			n := 0
			seen := map[string]bool{}
			for _, a := range r.acc {
				if !a.write || a.kind != "append" || partitioned(a.path) {
					continue
				}
				key := c.P.Name(fam.parent) + ": " + regionLabel(c, r) + " appends to shared " + a.path
				if seen[key] {
					continue
				}
				seen[key] = true
				n++
				c.Bad(key, c.Pos(a.in), "goroutines append to the shared slice "+a.path+" in arrival order"+
					map[bool]string{true: " (mutex held: race-free but still schedule-dependent)", false: ""}[len(a.locks) > 0]+
					": the order of its elements — and whatever is derived from it — differs between runs and --cpu values")
			}
			if n == 0 {
				c.Ok(c.P.Name(fam.parent)+": "+regionLabel(c, r)+" accumulates nothing in arrival order", c.Pos(r.spawn), "no append to a shared, non-partitioned slice in this multi-instance region")
			}
		}
	}
}

var _ ssa.Instruction
