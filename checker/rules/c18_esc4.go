package rules

import (
	"fmt"
	"go/token"
	"go/types"
	"sort"
	"strings"

	"golang.org/x/tools/go/ssa"

	"verif/checker/core"
)

// R-ESC-4 — shortcuts of the escapers exclude every key of the escape table.
//
// R-ESC-1 decides the rune → text table of EscapeString / EscapeIdentifier. A
// fast path in front of that table ("nothing to escape: return the input as it
// is") bypasses it; the round trip then depends on the fast path's guard
// excluding every rune the table rewrites. The rule finds every return of an
// escaper (or of the helper of its package that holds its table) that yields the
// input parameter itself and evaluates the conditions leading to it for each key
// k of the extracted table, in two modes:
//   proof mode   — only facts that hold for EVERY string containing k are used
//                  (an "exists element with P" scan returns true when P(k);
//                  strings.ContainsAny(s, set) is true when k ∈ set; len(s) ≥ 1):
//                  if the shortcut is unreachable, no string containing k takes it;
//   witness mode — otherwise the one-rune string "k" is evaluated exactly: if the
//                  shortcut is reached with every condition decided, "k" is a
//                  counter-example (the seeded fast path forgets the backslash).
// Anything else (a guard the evaluation cannot read) is cannot-analyse.

func init() {
	Register(&Rule{ID: "R-ESC-4", Props: []string{"C18"}, Floor: 2,
		Doc:      "every return of EscapeString / EscapeIdentifier (or of the helper of lib/option holding their table) that yields the input string unchanged is unreachable for a string containing any key rune of the escape table extracted by R-ESC-1: the guard of the shortcut — a scan loop over the bytes/runes with comparisons against constants and constant-bound parameters, strings.Contains*/Index*, len tests — is evaluated per key, proving exclusion for all strings containing the key or exhibiting the one-rune string as counter-example; an escaper without such a return yields one discharged obligation",
		Controls: []string{"CtlEscapeFastPathForgetsBackslash", "CtlEscapeFastPathHelperForgetsQuote"},
		Run:      ruleEsc4})
}

func ruleEsc4(c *Ctx) {
	for _, n := range []string{"lib/option.EscapeString", "lib/option.EscapeIdentifier"} {
		if fn := c.Fn(n); fn != nil {
			fxCheckShortcuts(c, fn)
		}
	}
	start := len(c.Obs)
	var neg []string
	for _, fn := range fxCtlFuncs(c) {
		if strings.HasPrefix(fn.Name(), "CtlEscapeFastPath") || strings.HasPrefix(fn.Name(), "okEscapeFastPath") {
			c.Touch(fn)
			fxCheckShortcuts(c, fn)
			if strings.HasPrefix(fn.Name(), "ok") {
				neg = append(neg, fn.Name()+":")
			}
		}
	}
	c.negControls(start, neg...)
}

func fxStringParam(fn *ssa.Function) *ssa.Parameter {
	for _, p := range fn.Params {
		if b, ok := p.Type().Underlying().(*types.Basic); ok && b.Kind() == types.String {
			return p
		}
	}
	return nil
}

type fxShortcut struct {
	fn    *ssa.Function
	ret   *ssa.Return
	input *ssa.Parameter
	bind  fxBind
}

// fxShortcuts: returns of fn (and of same-package string helpers the input is
// handed to) whose result is the input parameter itself.
func fxShortcuts(c *Ctx, fn *ssa.Function, input *ssa.Parameter, bind fxBind, depth int) []fxShortcut {
	var out []fxShortcut
	for _, r := range core.Returns(fn) {
		if len(r.Results) == 0 {
			continue
		}
		for _, o := range core.Origins(r.Results[0], false) {
			if o == ssa.Value(input) {
				out = append(out, fxShortcut{fn, r, input, bind})
			}
		}
	}
	if depth == 0 {
		return out
	}
	for _, ci := range core.Calls(fn) {
		call, ok := ci.(*ssa.Call)
		if !ok {
			continue
		}
		g := core.StaticCallee(call)
		if g == nil || g == fn || g.Blocks == nil || core.FnPkg(g) != core.FnPkg(fn) {
			continue
		}
		if b, ok := call.Type().Underlying().(*types.Basic); !ok || b.Kind() != types.String {
			continue
		}
		inner := fxBind{}
		var ginput *ssa.Parameter
		for i, a := range call.Common().Args {
			if i >= len(g.Params) {
				break
			}
			if a == ssa.Value(input) {
				ginput = g.Params[i]
			}
			if r, ok := core.ConstRune(a); ok {
				inner[g.Params[i]] = r
			} else if p, ok := a.(*ssa.Parameter); ok {
				if r, ok := bind[p]; ok {
					inner[g.Params[i]] = r
				}
			}
		}
		if ginput != nil {
			out = append(out, fxShortcuts(c, g, ginput, inner, depth-1)...)
		}
	}
	return out
}

func fxCheckShortcuts(c *Ctx, top *ssa.Function) {
	input := fxStringParam(top)
	ts := fxTablesThrough(c, top, nil, 2)
	if input == nil || len(ts) != 1 {
		c.Unknown(c.KeyAt(top, "shortcuts"), c.FnPos(top), fmt.Sprintf("cannot-analyse: need a string parameter and exactly one escape table (found %d)", len(ts)))
		return
	}
	var keys []rune
	for k := range ts[0].entries {
		keys = append(keys, k)
	}
	sort.Slice(keys, func(i, j int) bool { return keys[i] < keys[j] })
	scs := fxShortcuts(c, top, input, nil, 2)
	if len(scs) == 0 {
		c.Ok(c.KeyAt(top, "no shortcut past the escape table"), c.FnPos(top), fmt.Sprintf("no return yields the input parameter itself: every rune goes through the table (%d keys)", len(keys)))
		return
	}
	for i, sc := range scs {
		for _, k := range keys {
			key := c.KeyAt(top, fmt.Sprintf("shortcut #%d excludes %s", i+1, fxRuneName(k)))
			ev := &fxGuardEval{c: c, sc: sc, k: k}
			if !ev.reach(false) {
				c.OkN(key, c.Pos(sc.ret), fmt.Sprintf("no string containing %s can reach the return of the unchanged input (guard evaluated with facts valid for every such string)", fxRuneName(k)), 1)
				continue
			}
			ev.undecided = ""
			if ev.reach(true) && ev.undecided == "" {
				c.Bad(key, c.Pos(sc.ret), fmt.Sprintf("cell %s: the string %q reaches `return <input>` in %s with every guard condition decided — it is returned unescaped although the escape table rewrites %s to %q, so the printed literal re-parses to a different value", fxRuneName(k), string(k), c.P.Name(sc.fn), fxRuneName(k), ts[0].eval(k)))
			} else {
				c.Unknown(key, c.Pos(sc.ret), fmt.Sprintf("cannot-analyse: the guard of the shortcut in %s cannot be evaluated for %s (%s)", c.P.Name(sc.fn), fxRuneName(k), ev.undecided))
			}
		}
	}
}

// ---------------------------------------------------------------------------
// guard evaluation

type fxGuardEval struct {
	c         *Ctx
	sc        fxShortcut
	k         rune
	undecided string // a condition the witness evaluation could not decide
}

// reach: can the shortcut's return block be reached? witness=false uses only
// facts valid for every string containing k (undecided conditions are taken both
// ways); witness=true evaluates the one-rune string exactly and prefers a path
// on which every condition is decided.
func (e *fxGuardEval) reach(witness bool) bool {
	fn := e.sc.fn
	target := e.sc.ret.Block()
	type state struct {
		b   *ssa.BasicBlock
		unk bool
	}
	seen := map[state]bool{}
	bestUnk := ""
	found, foundClean := false, false
	var walk func(b *ssa.BasicBlock, unk string)
	walk = func(b *ssa.BasicBlock, unk string) {
		st := state{b, unk != ""}
		if seen[st] || foundClean {
			return
		}
		seen[st] = true
		if b == target {
			found = true
			if unk == "" {
				foundClean = true
			} else if bestUnk == "" {
				bestUnk = unk
			}
			return
		}
		if iff, ok := b.Instrs[len(b.Instrs)-1].(*ssa.If); ok {
			if v, known := e.cond(iff.Cond, witness); known {
				if v {
					walk(b.Succs[0], unk)
				} else {
					walk(b.Succs[1], unk)
				}
				return
			}
			why := "condition at " + e.c.Pos(iff)
			for _, s := range b.Succs {
				walk(s, why)
			}
			return
		}
		for _, s := range b.Succs {
			walk(s, unk)
		}
	}
	walk(fn.Blocks[0], "")
	if found && !foundClean {
		e.undecided = bestUnk
	}
	return found
}

func (e *fxGuardEval) isInput(v ssa.Value) bool {
	for _, o := range core.Origins(v, false) {
		if o == ssa.Value(e.sc.input) {
			return true
		}
	}
	return false
}

// interval of an integer expression: len(input) is [1,∞) for every string
// containing k and [1,1] for the witness (keys are ASCII); Index* of a set
// containing k is [0,∞) / [0,0], of a set without k [-1,∞) / [-1,-1].
const fxInf = int64(1) << 40

func (e *fxGuardEval) interval(v ssa.Value, witness bool) (lo, hi int64, ok bool) {
	if i, isC := core.ConstInt(v); isC {
		return i, i, true
	}
	call, isCall := v.(*ssa.Call)
	if !isCall {
		return 0, 0, false
	}
	args := call.Common().Args
	name := e.c.P.CalleeName(call)
	switch name {
	case "builtin:len":
		if len(args) == 1 && e.isInput(args[0]) {
			if witness {
				return 1, 1, true
			}
			return 1, fxInf, true
		}
	case "strings.IndexAny", "strings.IndexRune", "strings.IndexByte", "strings.Index":
		if len(args) == 2 && e.isInput(args[0]) {
			if has, ok := e.setHas(args[1]); ok {
				switch {
				case has && witness:
					return 0, 0, true
				case has:
					return 0, fxInf, true
				case witness:
					return -1, -1, true
				default:
					return -1, fxInf, true
				}
			}
		}
	}
	return 0, 0, false
}

// setHas: does the constant set (string or rune/byte) contain k?
func (e *fxGuardEval) setHas(v ssa.Value) (bool, bool) {
	if s, ok := core.ConstString(v); ok {
		return strings.ContainsRune(s, e.k), true
	}
	if r, ok := core.ConstRune(v); ok {
		return r == e.k, true
	}
	if p, ok := v.(*ssa.Parameter); ok {
		if r, ok := e.sc.bind[p]; ok {
			return r == e.k, true
		}
	}
	return false, false
}

func (e *fxGuardEval) cond(v ssa.Value, witness bool) (val, known bool) {
	switch x := v.(type) {
	case *ssa.Const:
		if b, ok := core.ConstBool(x); ok {
			return b, true
		}
	case *ssa.UnOp:
		if x.Op == token.NOT {
			b, k := e.cond(x.X, witness)
			return !b, k
		}
	case *ssa.BinOp:
		// bool == bool
		if x.Op == token.EQL || x.Op == token.NEQ {
			a, ka := e.cond(x.X, witness)
			b, kb := e.cond(x.Y, witness)
			if ka && kb {
				return (a == b) == (x.Op == token.EQL), true
			}
		}
		alo, ahi, oka := e.interval(x.X, witness)
		blo, bhi, okb := e.interval(x.Y, witness)
		if oka && okb {
			switch x.Op {
			case token.LSS:
				if ahi < blo {
					return true, true
				}
				if alo >= bhi {
					return false, true
				}
			case token.LEQ:
				if ahi <= blo {
					return true, true
				}
				if alo > bhi {
					return false, true
				}
			case token.GTR:
				if alo > bhi {
					return true, true
				}
				if ahi <= blo {
					return false, true
				}
			case token.GEQ:
				if alo >= bhi {
					return true, true
				}
				if ahi < blo {
					return false, true
				}
			case token.EQL:
				if alo == ahi && blo == bhi && alo == blo {
					return true, true
				}
				if ahi < blo || alo > bhi {
					return false, true
				}
			case token.NEQ:
				if ahi < blo || alo > bhi {
					return true, true
				}
				if alo == ahi && blo == bhi && alo == blo {
					return false, true
				}
			}
		}
	case *ssa.Call:
		args := x.Common().Args
		name := e.c.P.CalleeName(x)
		switch name {
		case "strings.ContainsAny", "strings.ContainsRune", "strings.Contains":
			if len(args) == 2 && e.isInput(args[0]) {
				if has, ok := e.setHas(args[1]); ok {
					if has {
						return true, true
					}
					if witness {
						return false, true
					}
				}
			}
			return false, false
		}
		// a scan of the package: "exists an element with P"
		f := core.StaticCallee(x)
		if f == nil || f.Blocks == nil {
			return false, false
		}
		var fin *ssa.Parameter
		inner := fxBind{}
		for i, a := range args {
			if i >= len(f.Params) {
				break
			}
			if e.isInput(a) {
				fin = f.Params[i]
			}
			if r, ok := core.ConstRune(a); ok {
				inner[f.Params[i]] = r
			} else if p, ok := a.(*ssa.Parameter); ok {
				if r, ok := e.sc.bind[p]; ok {
					inner[f.Params[i]] = r
				}
			}
		}
		if fin == nil {
			return false, false
		}
		e.c.Touch(f)
		p, ok := fxExistsPredicate(f, fin, inner, e.k)
		if !ok {
			return false, false
		}
		if p {
			return true, true // some element is k and P(k): the scan answers true for every such string
		}
		if witness {
			return false, true // the only element is k and ¬P(k)
		}
	}
	return false, false
}

// fxExistsPredicate recognises `func f(s, …) bool` of the shape
//
//	for each element c of s { if P(c) { return true } }; return false
//
// (index loop, range loop, over the string, []byte(s) or []rune(s); P built from
// comparisons of c with constants and constant-bound parameters joined by && ||)
// and returns P(k). ok=false when f has another shape: a return inside the
// iteration that is not the constant true, a condition on c it cannot decide, more
// than one element read.
func fxExistsPredicate(f *ssa.Function, s *ssa.Parameter, bind fxBind, k rune) (p bool, ok bool) {
	fromS := func(v ssa.Value) bool {
		for _, o := range core.Origins(v, true) {
			if cv, isC := o.(*ssa.Convert); isC {
				o = cv.X
			}
			if o == ssa.Value(s) {
				return true
			}
		}
		return false
	}
	var elem ssa.Value
	n := 0
	for _, b := range f.Blocks {
		for _, in := range b.Instrs {
			switch x := in.(type) {
			case *ssa.Lookup:
				if fromS(x.X) {
					elem, n = x, n+1
				}
			case *ssa.Index: // s[i] on a string
				if fromS(x.X) {
					elem, n = x, n+1
				}
			case *ssa.UnOp:
				if ia, isIA := x.X.(*ssa.IndexAddr); isIA && x.Op == token.MUL && fromS(ia.X) {
					elem, n = x, n+1
				}
			case *ssa.Extract:
				if nx, isN := x.Tuple.(*ssa.Next); isN && x.Index == 2 {
					if rg, isR := nx.Iter.(*ssa.Range); isR && fromS(rg.X) {
						elem, n = x, n+1
					}
				}
			}
		}
	}
	if n != 1 {
		return false, false
	}
	for _, r := range core.Returns(f) {
		if len(r.Results) != 1 {
			return false, false
		}
		if _, isB := core.ConstBool(r.Results[0]); !isB {
			return false, false
		}
	}
	start := elem.(ssa.Instruction).Block()
	// within one iteration (until control re-enters the element's block or a block
	// that dominates it) only `return true` may leave the function
	leaves := func(b *ssa.BasicBlock) bool { return b == start || (b.Dominates(start) && b != start) }
	seen := map[*ssa.BasicBlock]bool{}
	shape := true
	var explore func(b *ssa.BasicBlock)
	explore = func(b *ssa.BasicBlock) {
		for _, su := range b.Succs {
			if leaves(su) || seen[su] {
				continue
			}
			seen[su] = true
			if r, isR := su.Instrs[len(su.Instrs)-1].(*ssa.Return); isR {
				if v, _ := core.ConstBool(r.Results[0]); !v {
					shape = false
				}
			}
			explore(su)
		}
	}
	explore(start)
	if !shape {
		return false, false
	}
	operand := func(v ssa.Value) (int64, bool) {
		if cv, isC := v.(*ssa.Convert); isC {
			v = cv.X
		}
		if v == elem {
			return int64(k), true
		}
		if i, isC := core.ConstInt(v); isC {
			return i, true
		}
		if pr, isP := v.(*ssa.Parameter); isP {
			if r, has := bind[pr]; has {
				return int64(r), true
			}
		}
		return 0, false
	}
	b := start
	visited := map[*ssa.BasicBlock]bool{}
	for {
		if visited[b] {
			return false, true // back in the loop: P(k) is false
		}
		visited[b] = true
		switch t := b.Instrs[len(b.Instrs)-1].(type) {
		case *ssa.Return:
			v, _ := core.ConstBool(t.Results[0])
			return v, v // a false return inside the iteration was excluded above; be safe
		case *ssa.Jump:
			b = b.Succs[0]
		case *ssa.If:
			bin, isBin := t.Cond.(*ssa.BinOp)
			if !isBin {
				return false, false
			}
			x, okx := operand(bin.X)
			y, oky := operand(bin.Y)
			if !okx || !oky {
				// a condition that does not involve the element (the loop test when the
				// element is read in the header block)
				return false, false
			}
			var v bool
			switch bin.Op {
			case token.EQL:
				v = x == y
			case token.NEQ:
				v = x != y
			case token.LSS:
				v = x < y
			case token.LEQ:
				v = x <= y
			case token.GTR:
				v = x > y
			case token.GEQ:
				v = x >= y
			default:
				return false, false
			}
			if v {
				b = b.Succs[0]
			} else {
				b = b.Succs[1]
			}
		default:
			return false, false
		}
		if b != start && leaves(b) {
			return false, true // next iteration / loop exit: P(k) is false
		}
	}
}
