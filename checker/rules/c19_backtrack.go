package rules

import (
	"fmt"
	"go/types"

	"golang.org/x/tools/go/ssa"

	"verif/checker/core"
)

// R-BKT-1 — no branching self-recursion over the same input.
//
// A function that calls itself twice on one path, both times on a tail of the
// same slice or string parameter, re-solves overlapping sub-problems: the
// classical exponential backtracking matcher (`'aaaa…' LIKE '%a%a%a…b'` tries
// every occurrence of every word below every occurrence of the previous one).
// With a user-supplied text and pattern the statement does not end in any
// useful time and cannot be interrupted by a result — for C19 that is a hang.
// Recursion over disjoint parts (the two operands of a syntax-tree node, the
// two halves of a sort) is linear in the input and not reported.

func init() {
	Register(&Rule{ID: "R-BKT-1", Props: []string{"C19"}, Floor: 5,
		Doc: "in hand-written csvq code no function calls itself (static call) at two sites that lie on one control-flow path while both calls pass, in the same slice- or string-typed parameter position, a value derived from that parameter of the caller by slicing only (the parameter itself, p[i:], p[i:j], through phis and conversions): two recursive descents over overlapping tails of the same input give exponential running time (backtracking with branching factor > 1). " +
			"Self-calls in alternative branches, and self-calls that receive different fields or elements (disjoint sub-trees, halves produced by a split), are not reported. One obligation per function with at least two self-call sites. Decides the shape only: a memo table would make such a function polynomial and needs a listed exception",
		Controls: []string{"CtlBacktrackingMatcher"},
		Run:      ruleBkt1})
}

// e26TailOf: v is parameter p of fn, or a slice expression (chain) of it.
func e26TailOf(v ssa.Value, fn *ssa.Function) *ssa.Parameter {
	seen := map[ssa.Value]bool{}
	var found *ssa.Parameter
	ok := true
	var walk func(v ssa.Value)
	walk = func(v ssa.Value) {
		if v == nil || seen[v] || !ok {
			return
		}
		seen[v] = true
		for _, o := range core.Origins(v, true) {
			switch x := o.(type) {
			case *ssa.Parameter:
				if x.Parent() != fn || (found != nil && found != x) {
					ok = false
					return
				}
				found = x
			case *ssa.Convert:
				walk(x.X)
			default:
				if o != v {
					if _, isSlice := o.(*ssa.Slice); isSlice {
						walk(o)
						continue
					}
				}
				ok = false
				return
			}
		}
	}
	walk(v)
	if !ok {
		return nil
	}
	return found
}

func ruleBkt1(c *Ctx) {
	for _, fn := range e19HandWritten(c, nil) {
		if fn.Parent() != nil {
			continue
		}
		var self []*ssa.Call
		for _, ci := range core.Calls(fn) {
			if call, ok := ci.(*ssa.Call); ok && call.Common().StaticCallee() == fn {
				self = append(self, call)
			}
		}
		if len(self) < 2 {
			continue
		}
		c.Sites += len(self)
		c.Touch(fn)
		key := c.KeyAt(fn, "no branching self-recursion over the same input")
		bad := ""
		for i := 0; i < len(self) && bad == ""; i++ {
			for j := 0; j < len(self) && bad == ""; j++ {
				if i == j || !core.Reachable(self[i], self[j], nil) {
					continue
				}
				a1, a2 := self[i].Common().Args, self[j].Common().Args
				for k := range a1 {
					if k >= len(fn.Params) {
						break
					}
					switch fn.Params[k].Type().Underlying().(type) {
					case *types.Slice:
					case *types.Basic:
						if b := fn.Params[k].Type().Underlying().(*types.Basic); b.Info()&types.IsString == 0 {
							continue
						}
					default:
						continue
					}
					p1, p2 := e26TailOf(a1[k], fn), e26TailOf(a2[k], fn)
					if p1 != nil && p1 == p2 && p1 == fn.Params[k] {
						bad = fmt.Sprintf("the self-calls at %s and %s lie on one path and both descend into a tail of the same parameter %s: overlapping sub-problems are solved again and again — exponential time on a user-supplied text (`'<60 × a>' LIKE '%%a%%a…%%ab'` does not end)", c.Pos(self[i]), c.Pos(self[j]), fn.Params[k].Name())
						break
					}
				}
			}
		}
		if bad != "" {
			c.Bad(key, c.Pos(self[0]), bad)
		} else {
			c.Ok(key, c.Pos(self[0]), fmt.Sprintf("%d self-call sites: no two on one path descend into tails of the same slice/string parameter", len(self)))
		}
	}
}
