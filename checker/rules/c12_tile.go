package rules

// R-PAR-5 — the task ranges tile the input (engine E11, DESIGN §3 C12).
//
// (a) GoroutineTaskManager.RecordRange, read path by path as polynomials over
//     (routineIndex, recordLen, Number, recordLen/Number): task 0 starts at row 0,
//     end(i) = start(i+1) for every task that is not the last one, the last task ends
//     at recordLen, and an empty range is returned only for a task that starts at or
//     beyond the last row.
// (b) every consumer of a RecordRange result walks exactly [start, end): an induction
//     variable from start in steps of one under the test `i < end`, or the slice
//     [start:end].
// (c) every function that asks for the range of its task-index parameter is started
//     for each index 0 … Number−1 (or once, with index 0, on the inline branch).
//
// Together: the rows handled by the workers are a partition of [0, recordLen) for
// every --cpu. What is not decided: that Number ≥ 1 (R-ERR-5), and nothing about the
// values computed per row.

import (
	"fmt"
	"go/token"
	"go/types"
	"sort"
	"strings"

	"golang.org/x/tools/go/ssa"

	"verif/checker/core"
)

func init() {
	Register(&Rule{ID: "R-PAR-5", Props: []string{"C12", "C13", "C03", "C04", "C17"}, Floor: 16,
		Doc:      "the task ranges tile the input: (a) RecordRange, evaluated path by path as polynomials over (routineIndex, recordLen, Number, the opaque quotient recordLen/Number): start(0) = 0, end(i) = start(i+1) on every path of a task that is not the last, end = recordLen on the paths of the last task, an empty range only where recordLen ≤ start(i); (b) every consumer of a RecordRange result walks exactly [start, end) — an induction variable initialised with start, stepped by one and tested with `< end`, or the slice [start:end]; (c) every function that takes the range of its task-index parameter is started with an induction variable 0, 1, … < Number (go statements) or with the constant 0 on the inline branch. Decides that the workers' rows partition [0, recordLen) for every --cpu; not that Number ≥ 1 (R-ERR-5)",
		Controls: []string{"CtlTileDropsTail", "CtlTileOverlap", "CtlTileSkipsFirstRow", "ctlTileConsumerInclusive", "ctlTileSpawnFromOne"},
		Run:      rulePar5})
}

type tileFact struct {
	geq0 []core.Poly // e ≥ 0
	eq0  []core.Poly // e = 0
	ne0  []core.Poly // e ≠ 0
}

func (f *tileFact) add(op token.Token, truth bool, x, y core.Poly) {
	if !truth {
		switch op {
		case token.LSS:
			op = token.GEQ
		case token.LEQ:
			op = token.GTR
		case token.GTR:
			op = token.LEQ
		case token.GEQ:
			op = token.LSS
		case token.EQL:
			op = token.NEQ
		case token.NEQ:
			op = token.EQL
		}
	}
	switch op {
	case token.LSS: // x < y
		f.geq0 = append(f.geq0, y.Sub(x).Add(core.PolyConst(-1)))
	case token.LEQ:
		f.geq0 = append(f.geq0, y.Sub(x))
	case token.GTR:
		f.geq0 = append(f.geq0, x.Sub(y).Add(core.PolyConst(-1)))
	case token.GEQ:
		f.geq0 = append(f.geq0, x.Sub(y))
	case token.EQL:
		f.eq0 = append(f.eq0, x.Sub(y))
	case token.NEQ:
		f.ne0 = append(f.ne0, x.Sub(y))
	}
}

// impliesGeq0: goal ≥ 0 follows from one fact (difference is a constant ≥ 0).
func (f *tileFact) impliesGeq0(goal core.Poly) bool {
	for _, e := range f.geq0 {
		if k, ok := goal.Sub(e).Const(); ok && k >= 0 {
			return true
		}
	}
	for _, e := range f.eq0 {
		if k, ok := goal.Sub(e).Const(); ok && k >= 0 {
			return true
		}
		if k, ok := goal.Add(e).Const(); ok && k >= 0 {
			return true
		}
	}
	return false
}

func (f *tileFact) impliesEq0(goal core.Poly) bool {
	for _, e := range f.eq0 {
		if goal.Equal(e) || goal.Equal(e.Neg()) {
			return true
		}
	}
	return f.impliesGeq0(goal) && f.impliesGeq0(goal.Neg())
}

func (f *tileFact) impliesNe0(goal core.Poly) bool {
	for _, e := range f.ne0 {
		if goal.Equal(e) || goal.Equal(e.Neg()) {
			return true
		}
	}
	// goal ≥ 1 or goal ≤ −1
	return f.impliesGeq0(goal.Add(core.PolyConst(-1))) || f.impliesGeq0(goal.Neg().Add(core.PolyConst(-1)))
}

type tilePath struct {
	ret   *ssa.Return
	s, e  core.Poly
	ok    bool
	facts tileFact
}

// tilePaths enumerates the paths of a loop-free function with two int results.
func tilePaths(fn *ssa.Function, atom func(ssa.Value) (string, bool)) (paths []tilePath, complete bool) {
	complete = true
	type state struct {
		phis  map[*ssa.Phi]ssa.Value
		facts tileFact
		seen  map[*ssa.BasicBlock]bool
	}
	var walk func(pred, b *ssa.BasicBlock, st state)
	walk = func(pred, b *ssa.BasicBlock, st state) {
		if len(paths) > 512 || st.seen[b] {
			complete = false
			return
		}
		seen := map[*ssa.BasicBlock]bool{b: true}
		for k := range st.seen {
			seen[k] = true
		}
		phis := map[*ssa.Phi]ssa.Value{}
		for k, v := range st.phis {
			phis[k] = v
		}
		resolve := func(v ssa.Value) ssa.Value {
			for i := 0; i < 16; i++ {
				p, ok := v.(*ssa.Phi)
				if !ok {
					return v
				}
				r, ok := phis[p]
				if !ok {
					return v
				}
				v = r
			}
			return v
		}
		if pred != nil {
			idx := -1
			for i, q := range b.Preds {
				if q == pred {
					idx = i
				}
			}
			vals := map[*ssa.Phi]ssa.Value{}
			for _, in := range b.Instrs {
				p, ok := in.(*ssa.Phi)
				if !ok {
					break
				}
				if idx >= 0 {
					vals[p] = resolve(p.Edges[idx])
				}
			}
			for k, v := range vals {
				phis[k] = v
			}
		}
		facts := tileFact{geq0: append([]core.Poly(nil), st.facts.geq0...), eq0: append([]core.Poly(nil), st.facts.eq0...), ne0: append([]core.Poly(nil), st.facts.ne0...)}
		last := b.Instrs[len(b.Instrs)-1]
		switch x := last.(type) {
		case *ssa.Return:
			tp := tilePath{ret: x, facts: facts}
			if len(x.Results) == 2 {
				s, ok1 := core.PolyNorm(x.Results[0], atom, resolve)
				e, ok2 := core.PolyNorm(x.Results[1], atom, resolve)
				tp.s, tp.e, tp.ok = s, e, ok1 && ok2
			}
			paths = append(paths, tp)
		case *ssa.If:
			for i, succ := range b.Succs {
				f2 := tileFact{geq0: append([]core.Poly(nil), facts.geq0...), eq0: append([]core.Poly(nil), facts.eq0...), ne0: append([]core.Poly(nil), facts.ne0...)}
				if cmp, ok := x.Cond.(*ssa.BinOp); ok {
					px, ok1 := core.PolyNorm(cmp.X, atom, resolve)
					py, ok2 := core.PolyNorm(cmp.Y, atom, resolve)
					if ok1 && ok2 {
						f2.add(cmp.Op, i == 0, px, py)
					}
				}
				walk(b, succ, state{phis, f2, seen})
			}
		case *ssa.Jump:
			walk(b, b.Succs[0], state{phis, facts, seen})
		default: // panic etc.
		}
	}
	walk(nil, fn.Blocks[0], state{map[*ssa.Phi]ssa.Value{}, tileFact{}, map[*ssa.BasicBlock]bool{}})
	return
}

func rulePar5(c *Ctx) {
	start := len(c.Obs)
	defer func() {
		c.negControls(start, "OkTileCeil", "okTileConsumer", "okTileSpawn$1", "okTileSpawnViaHelper$1")
	}()
	rr := c.Fn("lib/query.(*GoroutineTaskManager).RecordRange")
	if rr == nil {
		return
	}
	targets := []*ssa.Function{rr}
	for _, f := range c.P.FuncsIn(true, core.ControlPkg) {
		if c.P.IsControl(f) && (strings.Contains(f.Name(), "CtlTile") || strings.Contains(f.Name(), "OkTile")) && f.Signature.Results().Len() == 2 {
			targets = append(targets, f)
		}
	}
	for _, f := range targets {
		tileRange(c, f)
	}
	tileConsumers(c, rr)
}

// (a)
func tileRange(c *Ctx, fn *ssa.Function) {
	c.Touch(fn)
	if len(core.NaturalLoops(fn)) > 0 || fn.Signature.Recv() == nil || len(fn.Params) != 2 {
		c.Unknown(c.KeyAt(fn, "range arithmetic"), c.FnPos(fn), "cannot-analyse: expected a loop-free method (task index) → (start, end)")
		return
	}
	recv, idx := fn.Params[0], fn.Params[1]
	atom := func(v ssa.Value) (string, bool) {
		if v == ssa.Value(idx) {
			return "i", true
		}
		if u, ok := v.(*ssa.UnOp); ok && u.Op == token.MUL {
			if fa, ok := u.X.(*ssa.FieldAddr); ok && fa.X == ssa.Value(recv) {
				switch core.FieldName(fa) {
				case "recordLen":
					return "L", true
				case "Number":
					return "N", true
				}
			}
		}
		return "", false
	}
	paths, complete := tilePaths(fn, atom)
	if !complete || len(paths) == 0 {
		c.Unknown(c.KeyAt(fn, "range arithmetic"), c.FnPos(fn), "cannot-analyse: the paths of the function could not be enumerated")
		return
	}
	L, N, I := core.PolyAtom("L"), core.PolyAtom("N"), core.PolyAtom("i")
	lastEq := I.Sub(N).Add(core.PolyConst(1)) // i − N + 1 = 0 ⇔ last task
	var S core.Poly
	var sAt *ssa.Return
	for _, p := range paths {
		if !p.ok {
			c.Unknown(c.KeyAt(fn, "range arithmetic"), c.Pos(p.ret), "cannot-analyse: a returned bound is not a polynomial over (task index, recordLen, Number, their quotient)")
			return
		}
		if p.s.Equal(p.e) {
			continue
		}
		if S == nil {
			S, sAt = p.s, p.ret
		} else if !S.Equal(p.s) {
			c.Bad(c.KeyAt(fn, "consecutive tasks meet: end(i) = start(i+1)"), c.Pos(p.ret), fmt.Sprintf("two paths return different start formulas (%s at %s, %s here): a task's start must be one function of its index for end(i) = start(i+1) to mean anything", S, c.Pos(sAt), p.s))
			return
		}
	}
	if S == nil {
		c.Bad(c.KeyAt(fn, "the last task ends at recordLen"), c.FnPos(fn), "every path returns an empty range: no row is handed to any task")
		return
	}
	// 1. start(0) = 0
	s0 := S.Subst("i", core.PolyConst(0))
	c.Check(s0.IsZero(), c.KeyAt(fn, "task 0 starts at row 0"), c.Pos(sAt),
		"start(i) = "+S.String()+", start(0) = 0", "start(i) = "+S.String()+" gives start(0) = "+s0.String()+": the rows before it are handed to no task")
	// 2./3. ends
	next := S.Subst("i", I.Add(core.PolyConst(1)))
	nMid, nLast := 0, 0
	badMid, badLast := "", ""
	var atMid, atLast *ssa.Return
	for _, p := range paths {
		if p.s.Equal(p.e) {
			continue
		}
		isLast := p.facts.impliesEq0(lastEq)
		notLast := p.facts.impliesNe0(lastEq) || p.facts.impliesGeq0(N.Sub(I).Add(core.PolyConst(-2)))
		switch {
		case p.e.Equal(L):
			// the end of the input: the last task, or a clamp (recordLen ≤ start(i+1))
			if isLast || p.facts.impliesGeq0(next.Sub(L)) {
				nLast++
				atLast = p.ret
			} else if badLast == "" {
				badLast, atLast = "a task that is not shown to be the last one (no branch fact i = Number−1, no clamp recordLen ≤ start(i+1)) ends at recordLen: its rows are handed to the following tasks as well", p.ret
			}
		case p.e.Equal(next):
			if isLast {
				if badLast == "" {
					badLast, atLast = fmt.Sprintf("the last task ends at start(Number) = %s instead of recordLen: the remainder rows recordLen − Number·(recordLen/Number) are handed to no task", next), p.ret
				}
			} else if notLast {
				nMid++
				atMid = p.ret
			} else if badMid == "" {
				badMid, atMid = "a path that may be the last task's (no branch fact i ≠ Number−1) ends at start(i+1) instead of recordLen", p.ret
			}
		default:
			msg := fmt.Sprintf("end(i) = %s is neither start(i+1) = %s nor recordLen: the ranges of task i and task i+1 overlap or leave a gap", p.e, next)
			if isLast {
				if badLast == "" {
					badLast, atLast = fmt.Sprintf("the last task ends at %s instead of recordLen", p.e), p.ret
				}
			} else if badMid == "" {
				badMid, atMid = msg, p.ret
			}
		}
	}
	keyMid := c.KeyAt(fn, "consecutive tasks meet: end(i) = start(i+1)")
	keyLast := c.KeyAt(fn, "the last task ends at recordLen")
	switch {
	case badMid != "":
		c.Bad(keyMid, c.Pos(atMid), badMid)
	case nMid == 0 && nLast > 0:
		// a single formula for all tasks (clamped): consecutive by construction
		c.Ok(keyMid, c.Pos(atLast), "every end is recordLen under a clamp recordLen ≤ start(i+1), otherwise start(i+1)")
	case nMid == 0:
		c.Bad(keyMid, c.Pos(sAt), "no path returns end(i) = start(i+1)")
	default:
		c.OkN(keyMid, c.Pos(atMid), fmt.Sprintf("start(i) = %s, end(i) = %s = start(i+1) on %d path(s) behind the fact i ≠ Number−1", S, next, nMid), len(paths))
	}
	switch {
	case badLast != "":
		c.Bad(keyLast, c.Pos(atLast), badLast)
	case nLast == 0:
		c.Bad(keyLast, c.Pos(sAt), "no path returns recordLen as the end of a range: the rows after start(Number) are handed to no task")
	default:
		c.OkN(keyLast, c.Pos(atLast), fmt.Sprintf("%d path(s) behind the fact i = Number−1 (or a clamp) end at recordLen", nLast), len(paths))
	}
	// 4. empty ranges
	nEmpty, badEmpty := 0, ""
	var atEmpty *ssa.Return
	for _, p := range paths {
		if !p.s.Equal(p.e) {
			continue
		}
		nEmpty++
		if p.facts.impliesGeq0(S.Sub(L)) {
			if atEmpty == nil {
				atEmpty = p.ret
			}
			continue
		}
		if badEmpty == "" {
			badEmpty, atEmpty = "an empty range is returned on a path whose branch conditions do not imply recordLen ≤ start(i) = "+S.String()+": the rows from start(i) to start(i+1) are handed to no task", p.ret
		}
	}
	keyEmpty := c.KeyAt(fn, "an empty range only beyond the last row")
	switch {
	case badEmpty != "":
		c.Bad(keyEmpty, c.Pos(atEmpty), badEmpty)
	case nEmpty == 0:
		c.Ok(keyEmpty, c.FnPos(fn), "no path returns an empty range")
	default:
		c.OkN(keyEmpty, c.Pos(atEmpty), fmt.Sprintf("%d path(s) return an empty range, each behind recordLen ≤ start(i)", nEmpty), nEmpty)
	}
}

// (b) and (c)
func tileConsumers(c *Ctx, rr *ssa.Function) {
	type site struct {
		fn   *ssa.Function
		call *ssa.Call
	}
	var sites []site
	for _, f := range c.P.FuncsIn(true, "lib/query", core.ControlPkg) {
		var scan func(g *ssa.Function)
		scan = func(g *ssa.Function) {
			for _, call := range core.Calls(g) {
				if cv, ok := call.(*ssa.Call); ok && core.StaticCallee(call) == rr {
					sites = append(sites, site{g, cv})
				}
			}
			for _, af := range g.AnonFuncs {
				scan(af)
			}
		}
		scan(f)
	}
	{
		seen := map[*ssa.Call]bool{}
		var uniq []site
		for _, s := range sites {
			if !seen[s.call] {
				seen[s.call] = true
				uniq = append(uniq, s)
			}
		}
		sites = uniq
	}
	sort.Slice(sites, func(i, j int) bool { return c.Pos(sites[i].call) < c.Pos(sites[j].call) })
	real := 0
	taskFns := map[*ssa.Function]int{} // task function → index of its task-index parameter
	var taskOrder []*ssa.Function
	for _, s := range sites {
		if !c.P.IsControl(s.fn) && !strings.Contains(c.Pos(s.call), core.ControlPkg) {
			real++
		}
		c.Touch(s.fn)
		c.Sites++
		key := c.KeyAt(s.fn, "walks exactly [start, end) of its RecordRange")
		var st, en ssa.Value
		for _, r := range *s.call.Referrers() {
			if ex, ok := r.(*ssa.Extract); ok {
				if ex.Index == 0 {
					st = ex
				} else if ex.Index == 1 {
					en = ex
				}
			}
		}
		if st == nil || en == nil {
			c.Unknown(key, c.Pos(s.call), "cannot-analyse: start or end of the range is not used")
			continue
		}
		good, bad := 0, ""
		for _, r := range *st.Referrers() {
			switch x := r.(type) {
			case *ssa.Phi:
				init, _, isConst, step, ok := core.Induction(x)
				if !ok || isConst || init != st || step != 1 {
					bad = "a loop variable initialised with start is not stepped by exactly one"
					continue
				}
				tested := false
				for _, u := range *x.Referrers() {
					cmp, ok := u.(*ssa.BinOp)
					if !ok || cmp.Block() != x.Block() {
						continue
					}
					isTest := (cmp.Op == token.LSS && cmp.X == ssa.Value(x) && cmp.Y == en) || (cmp.Op == token.GTR && cmp.Y == ssa.Value(x) && cmp.X == en)
					if !isTest {
						if (cmp.X == ssa.Value(x) && cmp.Y == en) || (cmp.Y == ssa.Value(x) && cmp.X == en) {
							bad = "the loop over the task's rows compares its variable with end by " + cmp.Op.String() + " instead of `i < end`: the first row of the next task is evaluated twice, or the last row of this task not at all"
						}
						continue
					}
					for _, w := range *cmp.Referrers() {
						if ifi, ok := w.(*ssa.If); ok && ifi.Block() == x.Block() {
							tested = true
						}
					}
				}
				if tested {
					good++
				} else if bad == "" {
					bad = "the loop variable initialised with start is not tested with `< end` in the loop header"
				}
			case *ssa.Slice:
				if x.Low == st {
					if x.High == en {
						good++
					} else {
						bad = "a slice starts at start but does not end at end"
					}
				}
			case ssa.CallInstruction:
				// both bounds handed to one helper
				hasEnd := false
				for _, a := range x.Common().Args {
					if a == en {
						hasEnd = true
					}
				}
				if hasEnd {
					good++
				}
			}
		}
		switch {
		case bad != "":
			c.Bad(key, c.Pos(s.call), bad)
		case good == 0:
			c.Unknown(key, c.Pos(s.call), "cannot-analyse: start is neither the initial value of a loop variable tested with `< end`, nor the low bound of [start:end], nor handed to a helper together with end")
		default:
			c.Ok(key, c.Pos(s.call), fmt.Sprintf("%d consumer(s): induction from start in steps of one under `< end`, or [start:end]", good))
		}
		// task function?
		arg := s.call.Call.Args[len(s.call.Call.Args)-1]
		if fv, ok := arg.(*ssa.UnOp); ok && fv.Op == token.MUL { // captured parameter cell
			arg = scpResolveCell(arg)
		}
		if prm, ok := arg.(*ssa.Parameter); ok && prm.Parent() == s.fn {
			for i, q := range s.fn.Params {
				if q == prm {
					if _, seen := taskFns[s.fn]; !seen {
						taskFns[s.fn] = i
						taskOrder = append(taskOrder, s.fn)
					}
				}
			}
		} else {
			c.Unknown(c.KeyAt(s.fn, "task index of its RecordRange"), c.Pos(s.call), "cannot-analyse: the argument of RecordRange is not a parameter of the calling function")
		}
	}
	if real < 6 {
		c.Unknown("anchor:callers of RecordRange", "-", fmt.Sprintf("cannot-analyse: expected at least 6 call sites of RecordRange in lib/query, found %d", real))
	}
	// (c) spawners
	for _, tf := range taskOrder {
		pidx := taskFns[tf]
		key := c.KeyAt(tf, "is started for every task index 0 … Number−1")
		var callers []ssa.CallInstruction
		var hosts []*ssa.Function
		if tf.Parent() != nil {
			hosts = append(hosts, tf.Parent())
			hosts = append(hosts, tf.Parent().AnonFuncs...)
		} else {
			hosts = c.P.FuncsIn(true, "lib/query", core.ControlPkg)
		}
		// the task function handed to a helper that starts the workers: calls of the
		// helper's function-typed parameter count as calls of the task function
		var viaParam func(h *ssa.Function, j int, depth int)
		viaParam = func(h *ssa.Function, j int, depth int) {
			if h == nil || h.Blocks == nil || j >= len(h.Params) || depth > 2 {
				return
			}
			prm := h.Params[j]
			var scan func(g *ssa.Function)
			scan = func(g *ssa.Function) {
				for _, call := range core.Calls(g) {
					if v := call.Common().Value; v == ssa.Value(prm) || scpResolveCell(v) == ssa.Value(prm) {
						callers = append(callers, call)
					}
					if g2 := core.StaticCallee(call); g2 != nil && g2 != h {
						for k, a := range call.Common().Args {
							if a == ssa.Value(prm) {
								viaParam(g2, k+len(g2.Params)-len(call.Common().Args), depth+1)
							}
						}
					}
				}
				for _, af := range g.AnonFuncs {
					scan(af)
				}
			}
			scan(h)
		}
		for _, h := range hosts {
			for _, call := range core.Calls(h) {
				if core.StaticCallee(call) == tf {
					callers = append(callers, call)
					continue
				}
				g := core.StaticCallee(call)
				if g == nil {
					continue
				}
				for k, a := range call.Common().Args {
					if mc, ok := a.(*ssa.MakeClosure); ok && mc.Fn == ssa.Value(tf) {
						viaParam(g, k+len(g.Params)-len(call.Common().Args), 0)
					} else if f, ok := a.(*ssa.Function); ok && f == tf {
						viaParam(g, k+len(g.Params)-len(call.Common().Args), 0)
					}
				}
			}
		}
		argOf := func(call ssa.CallInstruction) ssa.Value {
			args := call.Common().Args
			// closures: Params of the closure do not include free variables; methods
			// include the receiver in both lists
			off := len(args) - len(tf.Params)
			if pidx+off < 0 || pidx+off >= len(args) {
				return nil
			}
			return args[pidx+off]
		}
		nGo, nInline, bad := 0, 0, ""
		var at ssa.Instruction
		for _, call := range callers {
			a := argOf(call)
			in := call.(ssa.Instruction)
			at = in
			if ph, ok := a.(*ssa.Phi); ok {
				_, k0, isConst, step, ok := core.Induction(ph)
				bounded := false
				for _, u := range *ph.Referrers() {
					cmp, ok := u.(*ssa.BinOp)
					if !ok || cmp.Block() != ph.Block() || cmp.Op != token.LSS || cmp.X != ssa.Value(ph) {
						continue
					}
					if ld, ok := cmp.Y.(*ssa.UnOp); ok && ld.Op == token.MUL {
						if fa, ok := ld.X.(*ssa.FieldAddr); ok && core.FieldName(fa) == "Number" && strings.HasSuffix(core.FieldOwner(fa), "GoroutineTaskManager.Number") {
							bounded = true
						}
					}
				}
				switch {
				case !ok || !isConst || k0 != 0 || step != 1:
					bad = "the task index handed to the task function does not run 0, 1, 2, …: task 0 (the first rows) or every other task is never started"
				case !bounded:
					bad = "the loop that starts the tasks is not bounded by `i < Number`: the last task (which takes the remainder rows) is not started, or a task beyond the last is"
				default:
					if _, isGo := call.(*ssa.Go); isGo {
						nGo++
					} else {
						nInline++
					}
				}
				continue
			}
			if k, ok := core.ConstInt(a); ok && k == 0 {
				if _, isGo := call.(*ssa.Go); !isGo {
					nInline++
					continue
				}
			}
			bad = "the task function is started with an index that is neither the loop variable 0 … Number−1 nor the constant 0 of the inline branch"
		}
		switch {
		case bad != "":
			c.Bad(key, c.Pos(at), bad)
		case nGo+nInline == 0 && c.P.IsControl(tf):
			// a control that only shows a consumer
		case nGo+nInline == 0:
			c.Unknown(key, c.FnPos(tf), "cannot-analyse: no static call or go statement of the task function found")
		default:
			c.Ok(key, c.Pos(at), fmt.Sprintf("%d spawning loop(s) 0 … Number−1, %d inline call(s) with index 0", nGo, nInline))
		}
	}
	_ = types.Typ
}
