package rules

import (
	"fmt"
	"go/token"
	"go/types"
	"sort"
	"strings"

	"golang.org/x/tools/go/ssa"

	"verif/checker/core"
)

// R-SRT-11: the arrays a comparator reads at one index are filled position by position from one list.
//
// Families are discovered: a function of lib/query indexes two or more of its slice parameters (receiver included)
// with one index value (SortValues.Less: values[i], compareValues[i], directions[i], nullPositions[i]); at its call
// sites the arguments are struct fields, or elements of struct fields, of one structure (View.Less:
// sortValuesInEachRecord[·], sortDirections, sortNullPositions). Every function that builds a member (stores a new
// slice into the field / into an element of the field) must build all of them aligned with the same root list:
//   array A is aligned with list X when A is allocated with len(X) and, in a loop over X, A[i] is stored at the loop's
//   own index on every path that goes round the loop — or A starts empty and is appended to exactly once on every
//   such path. X may itself be a local array aligned with another list (sortValues ← sortIndices ← clause.Items).
// If a member gets its entries only on some iterations, every other member has to be filled in the same loop on
// exactly the same iterations; otherwise position k of one array and position k of another describe different items.

func init() {
	Register(&Rule{ID: "R-SRT-11", Props: []string{"C07", "C17"}, Floor: 1,
		Doc:      "the parallel arrays a comparator reads at one index (discovered: the slice parameters indexed by one value in a lib/query function — SortValues.Less — traced at its call sites to fields / field elements of one structure: View.sortValuesInEachRecord[·], sortDirections, sortNullPositions) are built in lock-step: in every function that builds one of them each member is aligned, possibly through intermediate local arrays (sortIndices), with the same list (the ORDER BY items) — allocated with its length and stored at the loop's own index on every way round the loop, or appended exactly once per iteration; a member that is filled on some iterations only (a `continue` or guard that skips a repeated column) while another is filled on all of them pairs every later sort value with the direction and NULLS position of a different item",
		Controls: []string{"CtlParallelSkipsOneArray", "CtlParallelOtherList"},
		Run:      ruleSrt11})
}

// ---- loops over a list ------------------------------------------------------------------------------------------

type listLoop struct {
	fn     *ssa.Function
	loop   *core.Loop
	idx    map[ssa.Value]bool // the values that are "the index of this iteration"
	coll   ssa.Value          // the list whose length bounds the loop
	bodyIn *ssa.BasicBlock    // successor of the header inside the loop
}

// lenOperand: v is len(X) → X
func lenOperand(v ssa.Value) (ssa.Value, bool) {
	for _, o := range core.Origins(v, false) {
		call, ok := o.(*ssa.Call)
		if !ok {
			return nil, false
		}
		b, ok := call.Call.Value.(*ssa.Builtin)
		if !ok || b.Name() != "len" || len(call.Call.Args) != 1 {
			return nil, false
		}
		return call.Call.Args[0], true
	}
	return nil, false
}

func listLoopsOf(fn *ssa.Function) []*listLoop {
	var out []*listLoop
	for _, l := range core.NaturalLoops(fn) {
		h := l.Header
		if len(h.Instrs) == 0 {
			continue
		}
		iff, ok := h.Instrs[len(h.Instrs)-1].(*ssa.If)
		if !ok || len(h.Succs) != 2 {
			continue
		}
		cmp, ok := iff.Cond.(*ssa.BinOp)
		if !ok || cmp.Op != token.LSS {
			continue
		}
		coll, ok := lenOperand(cmp.Y)
		if !ok {
			continue
		}
		// the index: a phi of the header with step 1, or that phi + 1 (range loops count from -1)
		base, off := core.LinearIndex(cmp.X)
		phi, ok := base.(*ssa.Phi)
		if !ok || phi.Block() != h {
			continue
		}
		_, initC, isC, step, ok := core.Induction(phi)
		if !ok || step != 1 || !isC || initC+off != 0 {
			continue
		}
		if !l.Blocks[h.Succs[0]] || l.Blocks[h.Succs[1]] {
			continue
		}
		out = append(out, &listLoop{fn: fn, loop: l, idx: map[ssa.Value]bool{cmp.X: true}, coll: coll, bodyIn: h.Succs[0]})
	}
	return out
}

// goesRoundAvoiding: there is a way from the body entry back to the header that touches no block of avoid and —
// when via is not nil — passes through a block of via.
func (l *listLoop) goesRoundAvoiding(avoid, via map[*ssa.BasicBlock]bool) bool {
	h := l.loop.Header
	// forward from the body entry
	fw := map[*ssa.BasicBlock]bool{}
	var stack []*ssa.BasicBlock
	if !avoid[l.bodyIn] {
		stack = append(stack, l.bodyIn)
	}
	for len(stack) > 0 {
		b := stack[len(stack)-1]
		stack = stack[:len(stack)-1]
		if fw[b] {
			continue
		}
		fw[b] = true
		for _, s := range b.Succs {
			if s != h && l.loop.Blocks[s] && !avoid[s] {
				stack = append(stack, s)
			}
		}
	}
	// backward from the latches
	bw := map[*ssa.BasicBlock]bool{}
	for _, lt := range l.loop.Latches {
		if !avoid[lt] && lt != h {
			stack = append(stack, lt)
		}
	}
	for len(stack) > 0 {
		b := stack[len(stack)-1]
		stack = stack[:len(stack)-1]
		if bw[b] {
			continue
		}
		bw[b] = true
		for _, p := range b.Preds {
			if p != h && l.loop.Blocks[p] && !avoid[p] {
				stack = append(stack, p)
			}
		}
	}
	for b := range fw {
		if bw[b] && (via == nil || via[b]) {
			return true
		}
	}
	return false
}

// ---- array identities -------------------------------------------------------------------------------------------

// arrKey names the array a slice value denotes: the cell of a local variable, the creating MakeSlice, the loop φ of an
// append-built register slice, or the field path ("view.sortDirections", "clause.Items") of a field load.
func arrKey(v ssa.Value, seen map[ssa.Value]bool) interface{} {
	if v == nil || seen[v] {
		return nil
	}
	seen[v] = true
	switch x := v.(type) {
	case *ssa.MakeSlice:
		return x
	case *ssa.Parameter:
		return x
	case *ssa.ChangeType:
		return arrKey(x.X, seen)
	case *ssa.Slice:
		if isZeroOrNil(x.Low) {
			if _, isArr := x.X.Type().Underlying().(*types.Pointer); !isArr {
				return arrKey(x.X, seen)
			}
		}
		return nil
	case *ssa.UnOp:
		if x.Op != token.MUL {
			return nil
		}
		switch c := x.X.(type) {
		case *ssa.Alloc, *ssa.FreeVar:
			return core.RootCell(c)
		case *ssa.FieldAddr:
			return valuePathLabel(c)
		}
		return nil
	case *ssa.Call:
		if b, ok := x.Call.Value.(*ssa.Builtin); ok && b.Name() == "append" {
			return arrKey(x.Call.Args[0], seen)
		}
		if g := x.Call.StaticCallee(); g != nil && g.Blocks != nil {
			return x // an array built by a helper: followed into the helper
		}
		return nil
	case *ssa.Extract:
		if call, ok := x.Tuple.(*ssa.Call); ok {
			if g := call.Call.StaticCallee(); g != nil && g.Blocks != nil {
				return x
			}
		}
		return nil
	case *ssa.Phi:
		var keys []interface{}
		for _, e := range x.Edges {
			if core.IsNilConst(e) {
				continue
			}
			if k := arrKey(e, seen); k != nil {
				dup := false
				for _, o := range keys {
					if o == k {
						dup = true
					}
				}
				if !dup {
					keys = append(keys, k)
				}
			}
		}
		if len(keys) == 1 {
			return keys[0]
		}
		if len(keys) == 0 {
			return x
		}
		return nil
	}
	return nil
}

func keyOf(v ssa.Value) interface{} { return arrKey(v, map[ssa.Value]bool{}) }

var keyLabelPos func(ssa.Value) string

func keyLabel(k interface{}) string {
	switch x := k.(type) {
	case string:
		return x
	case *ssa.Alloc:
		return x.Comment
	case *ssa.Parameter:
		return x.Name()
	case ssa.Value:
		if keyLabelPos != nil {
			return "the slice made at " + keyLabelPos(x)
		}
		return "a local slice"
	}
	return "?"
}

// appendCount: how many elements one append call adds (-1: a spread of unknown length)
func appendCount(call *ssa.Call) int {
	if len(call.Call.Args) < 2 {
		return 0
	}
	if s, ok := call.Call.Args[1].(*ssa.Slice); ok {
		if al, ok := s.X.(*ssa.Alloc); ok {
			if p, ok := al.Type().Underlying().(*types.Pointer); ok {
				if arr, ok := p.Elem().Underlying().(*types.Array); ok {
					return int(arr.Len())
				}
			}
		}
	}
	return -1
}

// ---- alignment of one array -------------------------------------------------------------------------------------

type parAn struct {
	c     *Ctx
	fns   []*ssa.Function // the producer and its closures
	loops map[*ssa.Function][]*listLoop
	// filtered: arrays that get entries on some iterations only, per loop
	filtered map[*listLoop][]interface{}
	fills    map[interface{}]map[*ssa.BasicBlock]bool
	fillLoop map[interface{}]*listLoop
}

type parDom struct {
	root    string      // label of the root list (plus the filter marker)
	rootKey interface{} // the root list itself
	filt    string      // the filter marker
	chain []string
	bad   string // structural break of a link
	unk   string // cannot decide
}

func (a *parAn) innermost(in ssa.Instruction) *listLoop {
	var best *listLoop
	for _, l := range a.loops[in.Parent()] {
		if l.loop.Blocks[in.Block()] && in.Block() != l.loop.Header && (best == nil || len(l.loop.Blocks) < len(best.loop.Blocks)) {
			best = l
		}
	}
	// a site inside a deeper loop that is not a list loop does not count as "once per iteration"
	if best != nil {
		for _, nl := range core.NaturalLoops(in.Parent()) {
			if nl.Blocks[in.Block()] && len(nl.Blocks) < len(best.loop.Blocks) {
				return nil
			}
		}
	}
	return best
}

func (a *parAn) dom(k interface{}, depth int) parDom {
	label := keyLabel(k)
	if depth > 4 {
		return parDom{unk: "the chain of lists behind " + label + " is too long to follow"}
	}
	if v, ok := k.(ssa.Value); ok {
		if _, _, isCall := core.ExtractOf(v); isCall {
			return a.domCall(v, depth)
		}
	}
	var viaCall ssa.Value
	// creations and fill sites
	var lens []ssa.Value // allocated lengths
	created := false
	emptyStart := false
	other := ""
	type site struct {
		in     ssa.Instruction
		idx    ssa.Value // element store
		nAdded int       // append
	}
	var sites []site
	noteCreation := func(v ssa.Value, at ssa.Instruction) {
		for _, o := range core.Origins(v, false) {
			switch x := o.(type) {
			case *ssa.MakeSlice:
				created = true
				if n, ok := core.ConstInt(x.Len); ok && n == 0 {
					emptyStart = true
				} else {
					lens = append(lens, x.Len)
				}
			case *ssa.Const:
				if x.Value == nil {
					created = true
					emptyStart = true
				}
			case *ssa.Call:
				if b, ok := x.Call.Value.(*ssa.Builtin); ok && b.Name() == "append" && keyOf(x) == k {
					continue // counted as an append site
				}
				if g := x.Call.StaticCallee(); g != nil && g.Blocks != nil && viaCall == nil {
					viaCall = x
					continue
				}
				other = "it is the result of a call at " + a.c.Pos(at)
			case *ssa.Extract:
				if kk := keyOf(x); kk != nil && viaCall == nil {
					viaCall = x
					continue
				}
				other = "it is the result of a call at " + a.c.Pos(at)
			default:
				if keyOf(o) == k {
					continue
				}
				other = "it is taken from another value at " + a.c.Pos(at)
			}
		}
	}
	if mk, ok := k.(*ssa.MakeSlice); ok {
		noteCreation(mk, mk)
	}
	if phi, ok := k.(*ssa.Phi); ok {
		created, emptyStart = true, true
		_ = phi
	}
	for _, fn := range a.fns {
		for _, b := range fn.Blocks {
			for _, in := range b.Instrs {
				switch x := in.(type) {
				case *ssa.Store:
					// the variable / field is assigned
					switch ad := x.Addr.(type) {
					case *ssa.Alloc, *ssa.FreeVar:
						if core.RootCell(ad) == k {
							noteCreation(x.Val, x)
						}
					case *ssa.FieldAddr:
						if s, ok := k.(string); ok && valuePathLabel(ad) == s {
							noteCreation(x.Val, x)
						}
					case *ssa.IndexAddr:
						if _, isSl := ad.X.Type().Underlying().(*types.Slice); isSl && keyOf(ad.X) == k {
							sites = append(sites, site{in: x, idx: ad.Index})
						}
					}
				case *ssa.Call:
					if bi, ok := x.Call.Value.(*ssa.Builtin); ok && bi.Name() == "append" && keyOf(x.Call.Args[0]) == k {
						sites = append(sites, site{in: x, nAdded: appendCount(x)})
					}
				}
			}
		}
	}
	if viaCall != nil {
		if created || len(sites) > 0 || other != "" {
			return parDom{unk: label + " is the result of a helper and also built or changed here"}
		}
		d := a.domCall(viaCall, depth)
		if d.bad == "" && d.unk == "" {
			d.chain = append([]string{label}, d.chain...)
		}
		return d
	}
	if !created && other == "" && len(sites) == 0 {
		// nothing here builds it: a root list
		return parDom{root: label, rootKey: k, chain: []string{label}}
	}
	if other != "" {
		return parDom{unk: label + " is not built in this function (" + other + "): its alignment cannot be followed"}
	}
	if len(sites) == 0 {
		return parDom{unk: label + " is allocated but no store into its elements is found"}
	}
	// one loop for all sites
	var loop *listLoop
	for _, s := range sites {
		l := a.innermost(s.in)
		if l == nil {
			return parDom{unk: fmt.Sprintf("%s gets an entry at %s outside a counting loop over a list", label, a.c.Pos(s.in))}
		}
		if loop != nil && l != loop {
			return parDom{unk: fmt.Sprintf("%s is filled in two different loops (%s, %s)", label, a.c.Pos(sites[0].in), a.c.Pos(s.in))}
		}
		loop = l
	}
	xKey := keyOf(loop.coll)
	if xKey == nil {
		return parDom{unk: "the list of the loop that fills " + label + " is not a variable, a field or a local array"}
	}
	isAppend := sites[0].idx == nil
	fillBlocks := map[*ssa.BasicBlock]bool{}
	for _, s := range sites {
		if (s.idx == nil) != isAppend {
			return parDom{unk: label + " is both appended to and stored into by index"}
		}
		fillBlocks[s.in.Block()] = true
		if isAppend {
			if s.nAdded != 1 {
				return parDom{bad: fmt.Sprintf("%s gets %d entries by the append at %s, not one per item of %s", label, s.nAdded, a.c.Pos(s.in), keyLabel(xKey))}
			}
		} else if !loop.idx[s.idx] {
			return parDom{bad: fmt.Sprintf("%s is stored at %s at an index other than the loop's own position in %s", label, a.c.Pos(s.in), keyLabel(xKey))}
		}
	}
	if isAppend {
		if !emptyStart || len(lens) > 0 {
			return parDom{bad: label + " is appended to although it is not empty at the start: its entries are shifted against " + keyLabel(xKey)}
		}
		// never two appends on one way round
		for _, s := range sites {
			n := 0
			for _, in := range s.in.Block().Instrs {
				for _, t := range sites {
					if t.in == in {
						n++
					}
				}
			}
			via := map[*ssa.BasicBlock]bool{}
			for _, t := range sites {
				if t.in.Block() != s.in.Block() && reachesWithin(loop, s.in.Block(), t.in.Block()) {
					via[t.in.Block()] = true
				}
			}
			if n > 1 || len(via) > 0 {
				return parDom{bad: fmt.Sprintf("%s can be appended to twice in one iteration (%s)", label, a.c.Pos(s.in))}
			}
		}
	} else {
		if emptyStart && len(lens) == 0 {
			return parDom{bad: label + " is stored into by index although it is allocated empty"}
		}
		for _, n := range lens {
			lx, ok := lenOperand(n)
			if !ok || keyOf(lx) != xKey {
				return parDom{bad: fmt.Sprintf("%s is not allocated with the length of %s, the list its entries are computed from", label, keyLabel(xKey))}
			}
		}
	}
	a.fills[k] = fillBlocks
	a.fillLoop[k] = loop
	d := a.dom(xKey, depth+1)
	if d.bad != "" || d.unk != "" {
		return d
	}
	d.chain = append([]string{label}, d.chain...)
	if loop.goesRoundAvoiding(fillBlocks, nil) {
		// some iterations leave no entry
		a.filtered[loop] = append(a.filtered[loop], k)
		m := fmt.Sprintf(" ⊃ the items for which the loop at %s leaves an entry", a.c.Pos(loop.bodyIn.Instrs[0]))
		d.root += m
		d.filt += m
		d.chain[0] = label + " (an entry on some iterations only)"
	}
	return d
}

// domCall: the array is the result of a helper with a body: it is aligned with whatever the helper aligns its result
// with — a parameter (or a field path of a parameter) of the helper, taken back to the argument of this call.
func (a *parAn) domCall(v ssa.Value, depth int) parDom {
	call, ri, _ := core.ExtractOf(v)
	g := call.Call.StaticCallee()
	if g == nil || g.Blocks == nil {
		return parDom{unk: "the array is the result of a call that cannot be followed at " + a.c.Pos(call)}
	}
	group := []*ssa.Function{g}
	for i := 0; i < len(group); i++ {
		group = append(group, group[i].AnonFuncs...)
	}
	sub := &parAn{c: a.c, fns: group, loops: map[*ssa.Function][]*listLoop{}, filtered: map[*listLoop][]interface{}{}, fills: map[interface{}]map[*ssa.BasicBlock]bool{}, fillLoop: map[interface{}]*listLoop{}}
	for _, fn := range group {
		sub.loops[fn] = listLoopsOf(fn)
	}
	var dg *parDom
	for _, r := range core.Returns(g) {
		if ri >= len(r.Results) {
			continue
		}
		for _, res := range core.Origins(r.Results[ri], false) {
			if core.IsNilConst(res) {
				continue
			}
			kk := keyOf(res)
			if kk == nil {
				return parDom{unk: "what " + a.c.P.Name(g) + " returns at " + a.c.Pos(r) + " cannot be followed"}
			}
			d := sub.dom(kk, depth+1)
			if d.bad != "" || d.unk != "" {
				return d
			}
			if dg != nil && (dg.rootKey != d.rootKey || dg.filt != d.filt) {
				return parDom{unk: a.c.P.Name(g) + " returns arrays aligned with different lists"}
			}
			dg = &d
		}
	}
	if dg == nil {
		return parDom{unk: a.c.P.Name(g) + " returns no array"}
	}
	// back to the caller: the root is a parameter, or a field path of a parameter
	var ak interface{}
	switch rk := dg.rootKey.(type) {
	case *ssa.Parameter:
		for i, p := range g.Params {
			if p == rk && i < len(call.Call.Args) {
				ak = keyOf(call.Call.Args[i])
			}
		}
	case string:
		base, rest := rk, ""
		if i := strings.Index(rk, "."); i >= 0 {
			base, rest = rk[:i], rk[i:]
		}
		for i, p := range g.Params {
			if p.Name() == base && i < len(call.Call.Args) {
				ak = valuePathLabel(call.Call.Args[i]) + rest
			}
		}
	}
	if ak == nil {
		return parDom{unk: "the list " + keyLabel(dg.rootKey) + " that " + a.c.P.Name(g) + " aligns its result with is not one of its parameters"}
	}
	d2 := a.dom(ak, depth+1)
	if d2.bad != "" || d2.unk != "" {
		return d2
	}
	for i := range dg.chain {
		dg.chain[i] += " (in " + g.Name() + ")"
	}
	d2.chain = append(dg.chain, d2.chain...)
	d2.root += dg.filt
	d2.filt += dg.filt
	return d2
}

func reachesWithin(l *listLoop, from, to *ssa.BasicBlock) bool {
	seen := map[*ssa.BasicBlock]bool{}
	stack := []*ssa.BasicBlock{}
	for _, s := range from.Succs {
		stack = append(stack, s)
	}
	for len(stack) > 0 {
		b := stack[len(stack)-1]
		stack = stack[:len(stack)-1]
		if seen[b] || b == l.loop.Header || !l.loop.Blocks[b] {
			continue
		}
		seen[b] = true
		if b == to {
			return true
		}
		stack = append(stack, b.Succs...)
	}
	return false
}

// ---- family discovery -------------------------------------------------------------------------------------------

type parSlot struct {
	owner string // "lib/query.View.sortDirections"
	elem  bool   // the member is an element of the field
}

func (s parSlot) String() string {
	f := s.owner[strings.LastIndex(s.owner, ".")+1:]
	if s.elem {
		return f + "[·]"
	}
	return f
}

// slotOf: v is a load of a struct field (elem=false) or of an element of a struct field (elem=true)
func slotOf(v ssa.Value) (parSlot, bool) {
	u, ok := v.(*ssa.UnOp)
	if !ok || u.Op != token.MUL {
		return parSlot{}, false
	}
	switch x := u.X.(type) {
	case *ssa.FieldAddr:
		if o := core.FieldOwner(x); o != "" {
			return parSlot{owner: o}, true
		}
	case *ssa.IndexAddr:
		if s, ok := slotOf(x.X); ok && !s.elem {
			return parSlot{owner: s.owner, elem: true}, true
		}
	}
	return parSlot{}, false
}

// coIndexedParams: the slice parameters of fn that are indexed with one common index value (the largest such group)
func coIndexedParams(fn *ssa.Function) []int {
	byIdx := map[ssa.Value]map[int]bool{}
	var order []ssa.Value
	for _, b := range fn.Blocks {
		for _, in := range b.Instrs {
			ia, ok := in.(*ssa.IndexAddr)
			if !ok {
				continue
			}
			for pi, p := range fn.Params {
				if ia.X == ssa.Value(p) {
					if byIdx[ia.Index] == nil {
						byIdx[ia.Index] = map[int]bool{}
						order = append(order, ia.Index)
					}
					byIdx[ia.Index][pi] = true
				}
			}
		}
	}
	// range loops index the ranged parameter with the loop counter as well: values[i] of `for i, val := range values`
	var best []int
	for _, iv := range order {
		set := byIdx[iv]
		if len(set) < 2 {
			continue
		}
		var ps []int
		for pi := range set {
			ps = append(ps, pi)
		}
		sort.Ints(ps)
		if len(ps) > len(best) {
			best = ps
		}
	}
	return best
}

func ruleSrt11(c *Ctx) {
	fns := c.P.FuncsIn(true, "lib/query")
	keyLabelPos = func(v ssa.Value) string { return c.P.Pos(v.Pos()) }
	// families: struct label → slots
	families := map[string]map[parSlot]string{}
	for _, cmp := range fns {
		ps := coIndexedParams(cmp)
		if len(ps) < 2 {
			continue
		}
		for _, caller := range fns {
			for _, call := range core.Calls(caller) {
				if core.StaticCallee(call) != cmp {
					continue
				}
				slots := map[parSlot]bool{}
				stru := ""
				okAll := true
				for _, pi := range ps {
					if pi >= len(call.Common().Args) {
						okAll = false
						break
					}
					s, ok := slotOf(call.Common().Args[pi])
					if !ok {
						okAll = false
						break
					}
					owner := s.owner[:strings.LastIndex(s.owner, ".")]
					if stru != "" && owner != stru {
						okAll = false
						break
					}
					stru = owner
					slots[s] = true
				}
				if !okAll || len(slots) < 2 {
					continue
				}
				if families[stru] == nil {
					families[stru] = map[parSlot]string{}
				}
				for s := range slots {
					families[stru][s] = c.P.Name(cmp) + " called by " + c.P.Name(caller)
				}
			}
		}
	}
	if len(families["lib/query.View"]) < 2 {
		c.Unknown("parallel sort arrays of View", "-", "cannot-analyse: no function of lib/query that indexes several of its slice parameters with one value is called with fields of lib/query.View")
		return
	}
	var strus []string
	for s := range families {
		strus = append(strus, s)
	}
	sort.Strings(strus)
	nReal := 0
	for _, stru := range strus {
		fam := families[stru]
		var slots []parSlot
		for s := range fam {
			slots = append(slots, s)
		}
		sort.Slice(slots, func(i, j int) bool { return slots[i].String() < slots[j].String() })
		var names []string
		for _, s := range slots {
			names = append(names, s.String())
		}
		// producers: top-level functions that (with their closures) build a member
		for _, top := range fns {
			if top.Parent() != nil {
				continue
			}
			group := []*ssa.Function{top}
			for i := 0; i < len(group); i++ {
				group = append(group, group[i].AnonFuncs...)
			}
			built := map[parSlot]interface{}{} // slot → array key
			var firstAt ssa.Instruction
			for _, fn := range group {
				for _, b := range fn.Blocks {
					for _, in := range b.Instrs {
						st, ok := in.(*ssa.Store)
						if !ok || core.IsNilConst(st.Val) {
							continue
						}
						switch ad := st.Addr.(type) {
						case *ssa.FieldAddr:
							s := parSlot{owner: core.FieldOwner(ad)}
							if _, isMember := fam[s]; !isMember {
								continue
							}
							// a cut / re-slice of the field itself builds nothing
							if keyOf(st.Val) == interface{}(valuePathLabel(ad)) {
								continue
							}
							if sl, ok := st.Val.(*ssa.Slice); ok && keyOf(sl.X) == interface{}(valuePathLabel(ad)) {
								continue
							}
							built[s] = valuePathLabel(ad)
							// the field is handed a local array built before: that array is the member
							if k2 := keyOf(st.Val); k2 != nil {
								if _, isMk := k2.(*ssa.MakeSlice); !isMk {
									built[s] = k2
								}
							}
							if firstAt == nil {
								firstAt = st
							}
						case *ssa.IndexAddr:
							u, ok := ad.X.(*ssa.UnOp)
							if !ok {
								continue
							}
							fa, ok := u.X.(*ssa.FieldAddr)
							if !ok {
								continue
							}
							s := parSlot{owner: core.FieldOwner(fa), elem: true}
							if _, isMember := fam[s]; !isMember {
								continue
							}
							// moving entries of the field around (Swap, copy-down) builds nothing
							if vs, ok := slotOf(st.Val); ok && vs == s {
								continue
							}
							k := keyOf(st.Val)
							if k == nil {
								k = "the value stored at " + c.Pos(st)
							}
							built[s] = k
							if firstAt == nil {
								firstAt = st
							}
						}
					}
				}
			}
			if len(built) == 0 {
				continue
			}
			if !c.P.IsControl(top) {
				nReal++
			}
			c.Touch(top)
			key := c.KeyAt(top, "parallel arrays "+strings.Join(names, ", ")+" filled in lock-step")
			an := &parAn{c: c, fns: group, loops: map[*ssa.Function][]*listLoop{}, filtered: map[*listLoop][]interface{}{}, fills: map[interface{}]map[*ssa.BasicBlock]bool{}, fillLoop: map[interface{}]*listLoop{}}
			for _, fn := range group {
				an.loops[fn] = listLoopsOf(fn)
			}
			var bad, unk, chains []string
			roots := map[string][]string{}
			for _, s := range slots {
				k, ok := built[s]
				if !ok {
					bad = append(bad, s.String()+" is not built here although "+strings.Join(names, ", ")+" are read at one index ("+fam[s]+")")
					continue
				}
				d := an.dom(k, 0)
				switch {
				case d.bad != "":
					bad = append(bad, s.String()+": "+d.bad)
				case d.unk != "":
					unk = append(unk, s.String()+": "+d.unk)
				default:
					roots[d.root] = append(roots[d.root], s.String())
					chains = append(chains, s.String()+" ← "+strings.Join(d.chain, " ← "))
				}
			}
			if len(roots) > 1 {
				var rs []string
				for r, ss := range roots {
					rs = append(rs, strings.Join(ss, ", ")+" follow "+r)
				}
				sort.Strings(rs)
				bad = append(bad, "the members are not aligned with one list: "+strings.Join(rs, "; "))
			}
			// members filled on some iterations only: all of them on the same iterations of one loop
			var fl []*listLoop
			for l := range an.filtered {
				fl = append(fl, l)
			}
			sort.Slice(fl, func(i, j int) bool { return c.Pos(fl[i].bodyIn.Instrs[0]) < c.Pos(fl[j].bodyIn.Instrs[0]) })
			for _, l := range fl {
				ks := an.filtered[l]
				for i := range ks {
					for j := range ks {
						if i != j && l.goesRoundAvoiding(an.fills[ks[i]], an.fills[ks[j]]) {
							bad = append(bad, fmt.Sprintf("an iteration of the loop at %s can leave an entry in %s but none in %s", c.Pos(l.bodyIn.Instrs[0]), keyLabel(ks[j]), keyLabel(ks[i])))
						}
					}
				}
			}
			sort.Strings(bad)
			sort.Strings(unk)
			switch {
			case len(bad) > 0:
				c.Bad(key, c.Pos(firstAt), strings.Join(bad, "; ")+": the comparator pairs entry k of each array, so from the first skipped item on a sort value is compared under the direction / NULLS position of another ORDER BY item")
			case len(unk) > 0:
				c.Unknown(key, c.Pos(firstAt), "cannot-analyse: "+strings.Join(unk, "; "))
			default:
				c.Ok(key, c.Pos(firstAt), strings.Join(chains, "; "))
			}
		}
	}
	if nReal == 0 {
		c.Unknown("builders of the parallel sort arrays", "-", "cannot-analyse: no function of lib/query builds a member of the family")
	}
}
