package rules

import (
	"fmt"
	"go/token"
	"go/types"
	"sort"
	"strings"

	"golang.org/x/tools/go/ssa"

	"verif/checker/core"
)

// R-ERR-16 — nil-returning lookups are tested before their result is used.
//
// Lookup function: a csvq function with a body whose results are (…, P, S) with
// P of a nil-able kind (pointer, interface, map, slice, func), S — the last
// result — a bool or an integer (NOT an error: those pairs belong to
// R-ERR-14/R-ERR-1), and at least one return that yields the nil constant for P
// (directly, or by passing on the results of another lookup function).
// Obligation, per call site and per dereferencing use of P (field access,
// dereference, receiver/argument of a function that dereferences the parameter
// without a nil test, interface method call, non-comma-ok type assertion, index,
// slice, store into a map): the use is dominated by
//   - a non-nil test of P itself, or
//   - a test of the companion S that excludes the nil returns: ok is true /
//     idx ≥ 0 (any comparison that makes the interval of idx non-negative), valid
//     only when every nil-constant return of the callee carries false / a
//     negative constant.
// Uses inside private helpers that receive P as an argument count through the
// parameter-dereference summary (2 levels).

func init() {
	Register(&Rule{ID: "R-ERR-16", Props: []string{"C19", "C11"}, Floor: 30,
		Doc: "for every csvq function that returns a nil-able value P together with a non-error companion S (bool, or an int that is negative on the nil path) and has a return yielding nil for P: every caller dereferences P (field access, method call that dereferences its receiver, interface method call, unchecked type assertion, index, argument of a function that dereferences the parameter untested) only where P has been tested non-nil or S has been tested (ok true / idx ≥ 0) and every nil return of the callee carries the failing S. " +
			"A lookup that misses returns (nil, false) / (nil, -1); using the result untested is a nil dereference — in Transaction.Rollback it also skips ReleaseResources and leaves .lock/.temp files behind",
		Controls: []string{"CtlLookupResultUntested"},
		Run:      ruleErr16})
}

type e19Lookup struct {
	fn       *ssa.Function
	pIdx     []int // nil-able result positions that can be the nil constant
	sIsBool  bool
	reliable bool // every nil-constant return carries the failing companion
}

func e19NilableKind(t types.Type) bool {
	switch t.Underlying().(type) {
	case *types.Pointer, *types.Interface, *types.Map, *types.Slice, *types.Signature:
		return true
	}
	return false
}

// e19FindLookups computes the lookup functions (fixpoint over pass-through wrappers).
func e19FindLookups(c *Ctx) map[*ssa.Function]*e19Lookup {
	out := map[*ssa.Function]*e19Lookup{}
	var cands []*ssa.Function
	for _, fn := range c.P.SrcFuncs() {
		res := fn.Signature.Results()
		n := res.Len()
		if n < 2 || fn.Blocks == nil {
			continue
		}
		last := res.At(n - 1).Type()
		if core.IsErrorType(last) {
			continue
		}
		b, ok := last.Underlying().(*types.Basic)
		if !ok || (b.Info()&types.IsBoolean == 0 && b.Info()&types.IsInteger == 0) {
			continue
		}
		has := false
		for i := 0; i < n-1; i++ {
			if e19NilableKind(res.At(i).Type()) {
				has = true
			}
		}
		if has {
			cands = append(cands, fn)
		}
	}
	failing := func(fn *ssa.Function, ret *ssa.Return, isBool bool) bool {
		n := len(ret.Results)
		for _, sv := range core.ReturnOperand(ret, n-1) {
			if sv == nil {
				if isBool {
					continue // zero value false
				}
				return false // zero int is not negative
			}
			if isBool {
				if b, ok := core.ConstBool(sv); ok && !b {
					continue
				}
				// a variable known false at this return
				known := false
				for _, f := range core.FactsAt(ret.Block()) {
					cond, neg := f.Cond, f.Neg
					for {
						u, ok := cond.(*ssa.UnOp)
						if !ok || u.Op != token.NOT {
							break
						}
						cond, neg = u.X, !neg
					}
					if cond == sv && neg {
						known = true
					}
				}
				if !known {
					return false
				}
				continue
			}
			if k, ok := core.ConstInt(sv); !ok || k >= 0 {
				return false
			}
		}
		return true
	}
	for round := 0; round < 3; round++ {
		changed := false
		for _, fn := range cands {
			if out[fn] != nil {
				continue
			}
			res := fn.Signature.Results()
			n := res.Len()
			isBool := res.At(n-1).Type().Underlying().(*types.Basic).Info()&types.IsBoolean != 0
			lk := &e19Lookup{fn: fn, sIsBool: isBool, reliable: true}
			for i := 0; i < n-1; i++ {
				if !e19NilableKind(res.At(i).Type()) {
					continue
				}
				nilRet := false
				for _, ret := range core.Returns(fn) {
					if ret.Block() == fn.Recover {
						continue
					}
					for _, v := range core.ReturnOperand(ret, i) {
						isNil := v == nil || core.IsNilConst(v)
						if !isNil {
							// passing on another lookup's result
							if call, idx, ok := core.ExtractOf(v); ok {
								if g := call.Common().StaticCallee(); g != nil && out[g] != nil {
									for _, pi := range out[g].pIdx {
										if pi == idx {
											nilRet = true
											if !out[g].reliable {
												lk.reliable = false
											}
										}
									}
								}
							}
							continue
						}
						nilRet = true
						if !failing(fn, ret, isBool) {
							lk.reliable = false
						}
					}
				}
				if nilRet {
					lk.pIdx = append(lk.pIdx, i)
				}
			}
			if len(lk.pIdx) > 0 {
				out[fn] = lk
				changed = true
			}
		}
		if !changed {
			break
		}
	}
	return out
}

// e19DerefUse: instruction `in` uses v in a way that panics when v is nil.
func e19DerefUse(in ssa.Instruction, v ssa.Value) string {
	if e19Derefs(in, v, 0) {
		if call, ok := in.(ssa.CallInstruction); ok {
			if f := call.Common().StaticCallee(); f != nil {
				return "passed to " + f.Name() + ", which dereferences it"
			}
		}
		return "dereferenced"
	}
	switch x := in.(type) {
	case ssa.CallInstruction:
		if x.Common().IsInvoke() && x.Common().Value == v {
			return "method " + x.Common().Method.Name() + " called on it"
		}
	case *ssa.TypeAssert:
		if x.X == v && !x.CommaOk {
			return "type-asserted without comma-ok"
		}
	case *ssa.IndexAddr:
		if x.X == v {
			return "indexed"
		}
	case *ssa.Index:
		if x.X == v {
			return "indexed"
		}
	case *ssa.MapUpdate:
		if x.Map == v {
			return "written as a map"
		}
	}
	return ""
}

func ruleErr16(c *Ctx) {
	lookups := e19FindLookups(c)
	var names []string
	for f := range lookups {
		names = append(names, c.P.Name(f))
	}
	sort.Strings(names)
	for _, n := range names {
		c.Anchors[n] = true
	}
	e := e19NewBounds(c)
	seq := e19SeqKey{}
	for _, fn := range c.P.SrcFuncs() {
		if e19IsGeneratedFn(c.P, fn) {
			continue
		}
		if c.P.IsControl(fn) && !strings.Contains(fn.Name(), "Lookup") {
			continue // other rules' controls call lookups too; only this rule's own controls count
		}
		for _, ci := range core.Calls(fn) {
			call, ok := ci.(*ssa.Call)
			if !ok || call.Referrers() == nil {
				continue
			}
			lk := lookups[call.Common().StaticCallee()]
			if lk == nil {
				continue
			}
			n := lk.fn.Signature.Results().Len()
			var sV *ssa.Extract
			ps := map[int]*ssa.Extract{}
			for _, r := range *call.Referrers() {
				if ex, ok := r.(*ssa.Extract); ok {
					if ex.Index == n-1 {
						sV = ex
					}
					for _, pi := range lk.pIdx {
						if pi == ex.Index {
							ps[pi] = ex
						}
					}
				}
			}
			for _, pi := range lk.pIdx {
				p := ps[pi]
				if p == nil {
					continue
				}
				// uses of p, through interface conversions and phis
				type use struct {
					in  ssa.Instruction
					v   ssa.Value
					how string
				}
				var uses []use
				seen := map[ssa.Value]bool{}
				var walk func(v ssa.Value, d int)
				walk = func(v ssa.Value, d int) {
					if seen[v] || d > 2 || v.Referrers() == nil {
						return
					}
					seen[v] = true
					for _, r := range *v.Referrers() {
						if how := e19DerefUse(r, v); how != "" {
							uses = append(uses, use{r, v, how})
							continue
						}
						switch y := r.(type) {
						case *ssa.ChangeInterface:
							walk(y, d+1)
						case *ssa.ChangeType:
							walk(y, d+1)
						}
					}
				}
				walk(p, 0)
				for _, u := range uses {
					c.Sites++
					c.Touch(fn)
					key := seq.key(c, e19KeyFn(c, fn), fmt.Sprintf("result #%d of %s %s", pi, e19ShortFn(c.P.Name(lk.fn)), u.how))
					if core.NonNilAt(p, u.in) || (u.v != p && core.NonNilAt(u.v, u.in)) {
						c.Ok(key, c.Pos(u.in), "dominated by a non-nil test of the result")
						continue
					}
					if sV != nil && lk.reliable {
						if lk.sIsBool {
							if core.SuccessKnown(call, u.in) {
								c.Ok(key, c.Pos(u.in), "dominated by the true outcome of the companion bool; every nil return of the callee carries false")
								continue
							}
						} else if a := e.Eval(sV, u.in, core.KInt); a.Bot || a.Lo >= 0 {
							c.Ok(key, c.Pos(u.in), "the companion index is known ≥ 0 here; every nil return of the callee carries a negative constant")
							continue
						}
					}
					why := "neither the result nor its companion is tested on the way here"
					if !lk.reliable {
						why = "the callee returns nil also with a non-failing companion, and the result itself is not tested"
					}
					c.Bad(key, c.Pos(u.in), fmt.Sprintf("%s returns nil for result #%d when the lookup misses; here the result is %s but %s — nil pointer dereference (panic; in Transaction.Rollback before ReleaseResources, leaving lock/temp files)", c.P.Name(lk.fn), pi, u.how, why))
				}
			}
		}
	}
}
