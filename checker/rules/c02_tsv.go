package rules

import (
	"fmt"
	"go/constant"
	"go/token"
	"go/types"
	"strings"

	"golang.org/x/tools/go/ssa"

	"verif/checker/core"
)

// R-FMT-9 — a TSV file is tab-separated on every path, on both sides.
//
// R-FMT-6 checks that a store of '\t' into a Delimiter field exists on the TSV
// path. That is too weak for the round trip: the import side forces the tab
// whenever the format is TSV (loadViewFromCSVFile: `if fileInfo.Format == TSV {
// fileInfo.Delimiter = '\t' }`, also NewFileInfo), so the export side must do so
// unconditionally as well — a store that happens only when the session delimiter
// is still ',' writes a ';'-separated ".tsv" that is read back as one column.
// The rule executes the dispatching function abstractly for Format == TSV
// (comparisons of the format decided, every other condition taken both ways) and
// demands that no path from the entry reaches the call that builds the CSV
// writer / reader with the Delimiter not forced: the last store into a Delimiter
// field on the path is the constant tab. When the dispatching function does not
// store it itself, the lib/query function it calls for TSV is executed the same
// way (the loader side).

func init() {
	Register(&Rule{ID: "R-FMT-9", Props: []string{"C02"}, Floor: 2,
		Doc:      "for Format == TSV (format comparisons decided, all other conditions taken both ways) every path of EncodeView from the entry to the call that reaches go-text/csv.NewWriter, and every path of loadViewFromFile — continued in the lib/query loader it calls for TSV — to the call that reaches go-text/csv.NewReader, passes a store of the constant '\\t' into a Delimiter field that no later store into a Delimiter field on the path replaces: the tab is forced unconditionally on the export side exactly as the import side forces it",
		Controls: []string{"CtlTsvDelimiterKeptWhenCustom"},
		Run:      ruleFmt9})
}

func fxIsDelimiterStore(in ssa.Instruction) (isStore, isTab bool) {
	st, ok := in.(*ssa.Store)
	if !ok {
		return false, false
	}
	fa, ok := st.Addr.(*ssa.FieldAddr)
	if !ok || core.FieldName(fa) != "Delimiter" {
		return false, false
	}
	r, isC := core.ConstRune(st.Val)
	return true, isC && r == '\t'
}

// fxFormatKeyOf: the Format-typed value fn compares with constants (its dispatch key).
func fxFormatKeyOf(fn *ssa.Function) ssa.Value {
	for _, b := range fn.Blocks {
		for _, in := range b.Instrs {
			bin, ok := in.(*ssa.BinOp)
			if !ok || (bin.Op != token.EQL && bin.Op != token.NEQ) {
				continue
			}
			for _, pair := range [][2]ssa.Value{{bin.X, bin.Y}, {bin.Y, bin.X}} {
				if _, isC := pair[1].(*ssa.Const); isC && fxIsFormatType(pair[0].Type()) {
					return pair[0]
				}
			}
		}
	}
	return nil
}

// fxUnforcedPath searches a path of fn, executed for key == k, from the entry to
// one of the target calls on which the Delimiter is not forced to the tab. It
// returns the target reached unforced (nil when every path is forced) and the
// static lib/query callee of that target.
func fxUnforcedPath(c *Ctx, fn *ssa.Function, key ssa.Value, k constant.Value, isTarget func(ssa.CallInstruction) bool) ssa.CallInstruction {
	sameKey := func(v ssa.Value) bool { return key != nil && (v == key || core.SameCell(v, key)) }
	type state struct {
		b      *ssa.BasicBlock
		forced bool
	}
	seen := map[state]bool{}
	var hit ssa.CallInstruction
	var walk func(b *ssa.BasicBlock, forced bool)
	walk = func(b *ssa.BasicBlock, forced bool) {
		if hit != nil || seen[state{b, forced}] {
			return
		}
		seen[state{b, forced}] = true
		for _, in := range b.Instrs {
			if isSt, isTab := fxIsDelimiterStore(in); isSt {
				forced = isTab
			}
			if ci, ok := in.(ssa.CallInstruction); ok && isTarget(ci) {
				if !forced {
					hit = ci
				}
				return // the writer / reader is built here: the path ends
			}
		}
		if iff, ok := b.Instrs[len(b.Instrs)-1].(*ssa.If); ok {
			if bin, ok := iff.Cond.(*ssa.BinOp); ok && (bin.Op == token.EQL || bin.Op == token.NEQ) {
				x, y := bin.X, bin.Y
				if _, isC := x.(*ssa.Const); isC {
					x, y = y, x
				}
				if cy, isC := y.(*ssa.Const); isC && cy.Value != nil && sameKey(x) {
					if constant.Compare(cy.Value, token.EQL, k) == (bin.Op == token.EQL) {
						walk(b.Succs[0], forced)
					} else {
						walk(b.Succs[1], forced)
					}
					return
				}
			}
		}
		for _, s := range b.Succs {
			walk(s, forced)
		}
	}
	walk(fn.Blocks[0], false)
	return hit
}

func ruleFmt9(c *Ctx) {
	ft := c.P.Type("lib/option", "Format")
	var tsv *types.Const
	if ft != nil {
		for _, k := range core.EnumConsts(ft) {
			if k.Name() == "TSV" {
				tsv = k
			}
		}
	}
	if tsv == nil {
		c.Unknown("anchor:lib/option.TSV", "-", "cannot-analyse: format constant TSV not found")
		return
	}
	check := func(fn *ssa.Function, char, side string) {
		c.Touch(fn)
		key := c.KeyAt(fn, "TSV: delimiter forced to tab on every path ("+side+")")
		set := c.P.ReachersOfNames(char)
		isTarget := func(ci ssa.CallInstruction) bool { return c.P.CallMayReach(ci, set) }
		fkey := fxFormatKeyOf(fn)
		if fkey == nil {
			c.Unknown(key, c.FnPos(fn), "cannot-analyse: the function compares no option.Format value")
			return
		}
		hit := fxUnforcedPath(c, fn, fkey, tsv.Val(), isTarget)
		if hit == nil {
			if n := len(core.CallsWhere(fn, isTarget)); n == 0 {
				c.Unknown(key, c.FnPos(fn), "cannot-analyse: no call reaching "+char+" found")
				return
			}
			c.Ok(key, c.FnPos(fn), "executed for Format == TSV, every path to the call reaching "+char+" stores '\\t' into the Delimiter last")
			return
		}
		// not forced here: the function called for TSV must force it (loader side)
		g := core.StaticCallee(hit)
		if g != nil && g.Blocks != nil && c.P.InPkg(g, "lib/query", core.ControlPkg) && g != fn {
			c.Touch(g)
			// only a callee that forces the tab itself counts; one that has no store
			// at all means the caller was responsible
			hasTab := false
			for _, b := range g.Blocks {
				for _, in := range b.Instrs {
					if _, isTab := fxIsDelimiterStore(in); isTab {
						hasTab = true
					}
				}
			}
			if hasTab {
				gkey := fxFormatKeyOf(g)
				inner := fxUnforcedPath(c, g, gkey, tsv.Val(), isTarget)
				if inner == nil {
					c.Ok(key, c.Pos(hit.(ssa.Instruction)), fmt.Sprintf("%s, which is called for TSV, stores '\\t' into the Delimiter on every path to the call reaching %s", c.P.Name(g), char))
					return
				}
				c.Bad(key, c.Pos(inner.(ssa.Instruction)), fmt.Sprintf("with Format == TSV a path of %s reaches the call that builds the CSV %s without the Delimiter having been set to the tab (the store is conditional or overwritten): the file is %s with another delimiter than the other side uses for TSV", c.P.Name(g), strings.TrimPrefix(side, "the "), map[string]string{"encoder": "written", "loader": "read"}[side]))
				return
			}
		}
		c.Bad(key, c.Pos(hit.(ssa.Instruction)), fmt.Sprintf("with Format == TSV a path of %s reaches the call that builds the CSV %s without the Delimiter having been set to '\\t' last (the store is conditional, missing or overwritten): with a session delimiter other than the default the .tsv file is %s with that delimiter, while the other side forces the tab for TSV — it does not read back as the same table", c.P.Name(fn), map[string]string{"encoder": "writer", "loader": "reader"}[side], map[string]string{"encoder": "written", "loader": "read"}[side]))
	}
	if fn := c.Fn(fxEncodeView); fn != nil {
		check(fn, fxGoText+"/csv.NewWriter", "encoder")
	}
	if fn := c.Fn(fxLoadFromFile); fn != nil {
		check(fn, fxGoText+"/csv.NewReader", "loader")
	}
	for _, fn := range fxCtlFuncs(c) {
		if strings.HasPrefix(fn.Name(), "CtlTsvDelimiter") || strings.HasPrefix(fn.Name(), "okTsvDelimiter") {
			check(fn, fxGoText+"/csv.NewWriter", "encoder")
		}
	}
}
