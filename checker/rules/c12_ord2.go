package rules

import (
	"fmt"
	"go/token"
	"go/types"
	"sort"
	"strings"

	"golang.org/x/tools/go/ssa"

	"verif/checker/core"
)

// R-ORD-2 (engine E7, sibling of R-ORD-1) — publishing the values of a map.
//
// R-ORD-1 accepts, inside a map-ordered loop, a call of a keyed writer that is
// given something of the iteration: "each element goes to its own slot". That
// is true when the writer receives the iteration KEY. A *self-keyed* writer —
// one that computes the container key from the object it stores, like
// (ViewMap).Set (key = view.FileInfo.IdentifiedPath()) and everything built on
// it (SetTemporaryTable, ReplaceTemporaryTable, write-back helpers) — receives
// only the iteration VALUE; two entries of the map go to two slots only if
// distinct map keys imply distinct container keys. When they do not, the entry
// visited last wins and Go randomises which one that is.
//
// Decided: for every map-ordered loop (range over a map) that hands the
// iteration value to a self-keyed writer, every store `m[k] = v` into that map
// ties k to the container key of v:
//   (a) v is the result of a keyed load (a function that reads a keyed
//       container under a key taken from one parameter and returns an object
//       of the map's element type) and k and the load's key argument are the
//       same value up to wrapping (struct literal, conversion, case folding);
//   (b) or k is computed from v alone, through fields the writer's own key
//       expression reads (m[v.FileInfo.IdentifiedPath()] = v, m[v.FileInfo.Path] = v).
// A map keyed by anything else (an alias, a counter, a name the caller chose)
// may hold one container key twice and is reported.
//
// Self-keyed writers and keyed loads are summaries computed over the whole
// program from (*sync.Map).Store/LoadOrStore/Load, map updates and lookups of
// non-local maps, and calls of functions that already have a summary; nothing
// is listed by name.

func init() {
	Register(&Rule{ID: "R-ORD-2", Props: []string{"C12", "C05"}, Floor: 3,
		Doc:      "a map-ordered loop that hands its iteration VALUE to a self-keyed writer (one that derives the container key from the stored object: ViewMap.Set, SetTemporaryTable, ReplaceTemporaryTable and helpers built on them — computed, not listed) ranges over a map whose every entry m[k] = v ties k to v's container key: v is the result of a keyed load whose key argument is k up to wrapping, or k is computed from v through the fields the writer's key expression reads; otherwise two entries can land in one slot and map order decides which one survives",
		Controls: []string{"CtlOrd2PublishByAlias", "CtlOrd2KeyFromOtherField", "CtlOrd2VisitedByName", "CtlOrd2HelperReturnsOtherKey", "CtlOrd2HelperPairMixedUp", "CtlOrd2StructKeyReassigned"},
		Run:      ruleOrd2})
}

type ord2Pair struct{ key, val int }

type ord2Engine struct {
	c      *Ctx
	stores map[*ssa.Function]map[ord2Pair]bool
	loads  map[*ssa.Function]map[int]bool
	atoms  map[string]map[*types.Var]bool
	// rangeLike: wrapper → index of the func parameter it forwards to sync.Map.Range
	rangeLike  map[*ssa.Function]int
	containers map[*types.Named]ord2Container
}

func ruleOrd2(c *Ctx) {
	e := &ord2Engine{c: c, stores: map[*ssa.Function]map[ord2Pair]bool{}, loads: map[*ssa.Function]map[int]bool{}, atoms: map[string]map[*types.Var]bool{}}
	e.summarise()
	oe := &ordEngine{c: c, rangeLike: map[*ssa.Function]int{}}
	oe.findRangeLike()
	e.rangeLike = oe.rangeLike
	e.containers = map[*types.Named]ord2Container{}
	pkgs := []string{"lib/query", "lib/json", "lib/value", "lib/file", "lib/option", "lib/action", "lib/cli"}
	for _, fn := range c.P.FuncsIn(true, pkgs...) {
		for _, b := range fn.Blocks {
			for _, in := range b.Instrs {
				rg, ok := in.(*ssa.Range)
				if !ok {
					continue
				}
				if _, isMap := rg.X.Type().Underlying().(*types.Map); !isMap {
					continue
				}
				body, next := mapLoopBody(rg)
				if next == nil {
					continue // R-ORD-1 reports the loop it cannot find
				}
				e.loop(fn, rg, next, body)
			}
		}
		// callbacks of sync.Map.Range (and of wrappers that forward to it): the
		// entries of a keyed container are visited. Its keys are distinct; handing
		// the visited VALUE to a self-keyed writer is order-insensitive when the
		// visited container is itself keyed by the same fields of its values.
		for _, cs := range e.rangeCallbacks(fn) {
			for _, inner := range core.Calls(cs.cb) {
				g := inner.Common().StaticCallee()
				if g == nil {
					continue
				}
				for _, j := range e.selfKeyed(g) {
					if j >= len(inner.Common().Args) {
						continue
					}
					a := inner.Common().Args[j]
					if _, isStr := a.Type().Underlying().(*types.Basic); isStr {
						continue
					}
					if !core.DependsOn(a, cs.cb.Params[1]) || core.DependsOn(a, cs.cb.Params[0]) {
						continue
					}
					c.Touch(fn)
					key := c.KeyAt(fn, fmt.Sprintf("%s of the visited value in a callback over sync.Map via %s", c.P.Name(g), short2(c.P.CalleeName(cs.call))))
					pub := e.writerAtoms(g, j, 3)
					if cs.container == nil {
						c.Unknown(key, c.Pos(inner), "the entries of a keyed container are handed to the self-keyed writer "+short2(c.P.Name(g))+", but the type of the visited container cannot be told: whether two entries share a container key is not decided")
						continue
					}
					atoms, why := e.containerAtoms(cs.container)
					tname := cs.container.Obj().Name()
					if atoms == nil {
						c.Bad(key, c.Pos(inner), fmt.Sprintf("the entries of a %s are handed to the self-keyed writer %s (container key from %s), but a %s is not keyed by a function of its values: %s; two entries with one container key overwrite each other in the random visiting order", tname, short2(c.P.Name(g)), ord2AtomNames(pub), tname, why))
						continue
					}
					if !ord2SameAtoms(atoms, pub) {
						c.Bad(key, c.Pos(inner), fmt.Sprintf("the entries of a %s are keyed by their %s, the self-keyed writer %s keys them by %s: distinct entries may share a container key and overwrite each other in the random visiting order", tname, ord2AtomNames(atoms), short2(c.P.Name(g)), ord2AtomNames(pub)))
						continue
					}
					c.Ok(key, c.Pos(inner), fmt.Sprintf("distinct entries have distinct container keys: every store into a %s keys the entry by its %s (%s), as %s does", tname, ord2AtomNames(atoms), why, short2(c.P.Name(g))))
				}
			}
		}
	}
}

type ord2Callback struct {
	call      ssa.CallInstruction
	cb        *ssa.Function
	container *types.Named
}

// rangeCallbacks: the closures fn hands to (*sync.Map).Range or to a wrapper
// that forwards them, with the named type of the visited container.
func (e *ord2Engine) rangeCallbacks(fn *ssa.Function) []ord2Callback {
	var out []ord2Callback
	for _, call := range core.Calls(fn) {
		cbIdx := -1
		if e.c.P.CalleeName(call) == "(*sync.Map).Range" {
			cbIdx = 1
		} else if f := call.Common().StaticCallee(); f != nil {
			if i, ok := e.rangeLike[f]; ok {
				cbIdx = i
			}
		}
		if cbIdx < 1 || cbIdx >= len(call.Common().Args) {
			continue
		}
		for _, o := range core.Origins(call.Common().Args[cbIdx], false) {
			mc, ok := o.(*ssa.MakeClosure)
			if !ok {
				continue
			}
			cb := mc.Fn.(*ssa.Function)
			if len(cb.Params) < 2 {
				continue
			}
			out = append(out, ord2Callback{call, cb, ord2ContainerType(call.Common().Args[0])})
		}
	}
	return out
}

// ord2ContainerType: the named struct type the receiver belongs to, climbing
// through embedded fields (TemporaryTables.Range is (SyncMap).Range of the
// *SyncMap embedded in a ViewMap: the container is the ViewMap).
func ord2ContainerType(recv ssa.Value) *types.Named {
	named := func(t types.Type) *types.Named {
		if pt, ok := t.Underlying().(*types.Pointer); ok {
			t = pt.Elem()
		}
		n, _ := t.(*types.Named)
		return n
	}
	v := recv
	best := named(v.Type())
	for i := 0; i < 8; i++ {
		switch x := v.(type) {
		case *ssa.UnOp:
			if x.Op != token.MUL {
				return best
			}
			v = x.X
			continue
		case *ssa.FieldAddr:
			st := derefStructOf(x.X.Type())
			if st == nil || !st.Field(x.Field).Embedded() {
				return best
			}
			if n := named(x.X.Type()); n != nil {
				best = n
			}
			v = x.X
			continue
		case *ssa.Field:
			st := derefStructOf(x.X.Type())
			if st == nil || !st.Field(x.Field).Embedded() {
				return best
			}
			if n := named(x.X.Type()); n != nil {
				best = n
			}
			v = x.X
			continue
		}
		break
	}
	return best
}

func derefStructOf(t types.Type) *types.Struct {
	if pt, ok := t.Underlying().(*types.Pointer); ok {
		t = pt.Elem()
	}
	st, _ := t.Underlying().(*types.Struct)
	return st
}

func ord2SameAtoms(a, b map[*types.Var]bool) bool {
	// the string fields decide the key; pointer fields are only the way to them
	sa, sb := map[*types.Var]bool{}, map[*types.Var]bool{}
	for v := range a {
		if _, ok := v.Type().Underlying().(*types.Basic); ok {
			sa[v] = true
		}
	}
	for v := range b {
		if _, ok := v.Type().Underlying().(*types.Basic); ok {
			sb[v] = true
		}
	}
	if len(sa) == 0 || len(sa) != len(sb) {
		return false
	}
	for v := range sa {
		if !sb[v] {
			return false
		}
	}
	return true
}

// containerAtoms: T is a container keyed by a function of its values — every
// call of a (key, value) store method of T (outside T's own plumbing) either
// computes the key from the value (the fields are returned) or copies an entry
// of another T under the key it is visited with. nil + reason otherwise.
func (e *ord2Engine) containerAtoms(t *types.Named) (map[*types.Var]bool, string) {
	if r, ok := e.containers[t]; ok {
		return r.atoms, r.why
	}
	p := e.c.P
	res := ord2Container{}
	defer func() { e.containers[t] = res }()
	tIsCtl := t.Obj().Pkg() != nil && strings.Contains(t.Obj().Pkg().Path(), core.ControlPkg)
	isT := func(tt types.Type) bool {
		if pt, ok := tt.Underlying().(*types.Pointer); ok {
			tt = pt.Elem()
		}
		n, ok := tt.(*types.Named)
		return ok && n.Obj() == t.Obj()
	}
	// the (key, value) store methods of T
	var pairStores []*ssa.Function
	for _, f := range p.SrcFuncs() {
		if f.Signature.Recv() == nil || !isT(f.Signature.Recv().Type()) || (p.IsControl(f) && !tIsCtl) {
			continue
		}
		for _, pr := range ord2SortedPairs(e.stores[f]) {
			if pr.key != pr.val && pr.key > 0 && pr.val > 0 {
				pairStores = append(pairStores, f)
				break
			}
		}
	}
	if len(pairStores) == 0 {
		res.why = "no (key, value) store method found"
		return nil, res.why
	}
	sort.Slice(pairStores, func(i, j int) bool { return p.Name(pairStores[i]) < p.Name(pairStores[j]) })
	atoms := map[*types.Var]bool{}
	nSelf, nCopy := 0, 0
	for i := 0; i < len(pairStores); i++ {
		ps := pairStores[i]
		edges := p.RealCallers(ps)
		sort.SliceStable(edges, func(i, j int) bool { return p.InstrPos(edges[i].Site) < p.InstrPos(edges[j].Site) })
		for _, ed := range edges {
			h := ed.Caller.Func
			if ed.Site == nil || (p.IsControl(h) && !tIsCtl) {
				continue
			}
			if h.Synthetic != "" && h.Parent() == nil {
				// compiler-made wrapper (pointer receiver, embedding): decided on its callers
				dup := false
				for _, x := range pairStores {
					if x == h {
						dup = true
					}
				}
				if !dup && len(e.stores[h]) > 0 && len(pairStores) < 64 {
					pairStores = append(pairStores, h)
				}
				continue
			}
			com := ed.Site.Common()
			for _, pr := range ord2SortedPairs(e.stores[ps]) {
				if pr.key == pr.val || pr.key >= len(com.Args) || pr.val >= len(com.Args) {
					continue
				}
				k, v := com.Args[pr.key], com.Args[pr.val]
				// (i) key computed from the value
				roots := map[ssa.Value]bool{v: true}
				for _, o := range core.Origins(v, false) {
					roots[o] = true
				}
				f := map[*types.Var]bool{}
				if ord2KeyAtoms(p, k, roots, f, 3) && len(f) > 0 {
					if len(atoms) > 0 && !ord2SameAtoms(atoms, f) {
						res.why = fmt.Sprintf("%s keys an entry by its %s, another store by its %s", p.Name(h), ord2AtomNames(f), ord2AtomNames(atoms))
						return nil, res.why
					}
					for x := range f {
						atoms[x] = true
					}
					nSelf++
					continue
				}
				// (ii) copy of a visited entry of another T under its key
				if par := h.Parent(); par != nil {
					copied := false
					for _, cs := range e.rangeCallbacks(par) {
						if cs.cb != h || cs.container == nil || cs.container.Obj() != t.Obj() {
							continue
						}
						if ord2Wraps(k, h.Params[0], map[ssa.Value]bool{}) && ord2Wraps(v, h.Params[1], map[ssa.Value]bool{}) {
							copied = true
						}
					}
					if copied {
						nCopy++
						continue
					}
				}
				res.why = fmt.Sprintf("%s (%s) stores an entry under a key that is neither computed from the entry nor the key it was visited with", p.Name(h), p.InstrPos(ed.Site))
				return nil, res.why
			}
		}
	}
	if len(atoms) == 0 {
		res.why = "no store computes the key from the value"
		return nil, res.why
	}
	res.atoms = atoms
	res.why = fmt.Sprintf("%d store(s) compute the key from the entry, %d copy a visited entry under its key", nSelf, nCopy)
	return res.atoms, res.why
}

type ord2Container struct {
	atoms map[*types.Var]bool
	why   string
}

// paramsOf: indices of the parameters of f that v is computed from.
func ord2ParamsOf(f *ssa.Function, v ssa.Value) []int {
	var out []int
	for i, p := range f.Params {
		if core.DependsOn(v, p) {
			out = append(out, i)
		}
	}
	return out
}

// ord2ParamsIn: indices of the parameters of f that v IS (up to interface
// conversion and phi): the object itself is stored, not something computed from it.
func ord2ParamsIn(f *ssa.Function, v ssa.Value) []int {
	var out []int
	for _, o := range core.Origins(v, false) {
		for i, p := range f.Params {
			if o == p {
				out = append(out, i)
			}
		}
	}
	sort.Ints(out)
	return out
}

func (e *ord2Engine) summarise() {
	p := e.c.P
	fns := p.SrcFuncs()
	addStore := func(f *ssa.Function, k, v ssa.Value) bool {
		changed := false
		ks, vs := ord2ParamsOf(f, k), ord2ParamsIn(f, v)
		for _, ki := range ks {
			for _, vi := range vs {
				pr := ord2Pair{ki, vi}
				if e.stores[f] == nil {
					e.stores[f] = map[ord2Pair]bool{}
				}
				if !e.stores[f][pr] {
					e.stores[f][pr] = true
					changed = true
				}
			}
		}
		return changed
	}
	addLoad := func(f *ssa.Function, k ssa.Value) bool {
		changed := false
		if f.Signature.Results().Len() == 0 {
			return false
		}
		for _, ki := range ord2ParamsOf(f, k) {
			if e.loads[f] == nil {
				e.loads[f] = map[int]bool{}
			}
			if !e.loads[f][ki] {
				e.loads[f][ki] = true
				changed = true
			}
		}
		return changed
	}
	for changed := true; changed; {
		changed = false
		for _, f := range fns {
			if f.Blocks == nil || len(f.Params) == 0 {
				continue
			}
			for _, b := range f.Blocks {
				for _, in := range b.Instrs {
					switch x := in.(type) {
					case *ssa.MapUpdate:
						if !localMap(x.Map) && addStore(f, x.Key, x.Value) {
							changed = true
						}
					case *ssa.Lookup:
						if _, isMap := x.X.Type().Underlying().(*types.Map); isMap && !localMap(x.X) && addLoad(f, x.Index) {
							changed = true
						}
					case ssa.CallInstruction:
						com := x.Common()
						switch p.CalleeName(x) {
						case "(*sync.Map).Store", "(*sync.Map).LoadOrStore", "(*sync.Map).Swap":
							if len(com.Args) > 2 && addStore(f, com.Args[1], com.Args[2]) {
								changed = true
							}
							continue
						case "(*sync.Map).Load":
							if len(com.Args) > 1 && addLoad(f, com.Args[1]) {
								changed = true
							}
							continue
						}
						g := com.StaticCallee()
						if g == nil || g == f {
							continue
						}
						for _, pr := range ord2SortedPairs(e.stores[g]) {
							if pr.key < len(com.Args) && pr.val < len(com.Args) && addStore(f, com.Args[pr.key], com.Args[pr.val]) {
								changed = true
							}
						}
						for _, ki := range ord2SortedInts(e.loads[g]) {
							if ki < len(com.Args) && addLoad(f, com.Args[ki]) {
								changed = true
							}
						}
					}
				}
			}
		}
	}
}

func ord2SortedPairs(m map[ord2Pair]bool) []ord2Pair {
	var out []ord2Pair
	for k := range m {
		out = append(out, k)
	}
	sort.Slice(out, func(i, j int) bool {
		if out[i].key != out[j].key {
			return out[i].key < out[j].key
		}
		return out[i].val < out[j].val
	})
	return out
}

func ord2SortedInts(m map[int]bool) []int {
	var out []int
	for k := range m {
		out = append(out, k)
	}
	sort.Ints(out)
	return out
}

// selfKeyed: parameter indices j of f such that f stores (something computed
// from) parameter j under a key computed from parameter j.
func (e *ord2Engine) selfKeyed(f *ssa.Function) []int {
	var out []int
	for _, pr := range ord2SortedPairs(e.stores[f]) {
		if pr.key == pr.val {
			out = append(out, pr.key)
		}
	}
	return out
}

func (e *ord2Engine) loop(fn *ssa.Function, rg *ssa.Range, next *ssa.Next, body []*ssa.BasicBlock) {
	c := e.c
	var keyX, valX ssa.Value
	for _, r := range *next.Referrers() {
		if ex, ok := r.(*ssa.Extract); ok {
			switch ex.Index {
			case 1:
				keyX = ex
			case 2:
				valX = ex
			}
		}
	}
	label := mapLabel(rg.X)
	type site struct {
		call ssa.CallInstruction
		g    *ssa.Function
		j    int
	}
	var sites []site
	for _, b := range body {
		for _, in := range b.Instrs {
			call, ok := in.(ssa.CallInstruction)
			if !ok {
				continue
			}
			g := call.Common().StaticCallee()
			if g == nil {
				continue
			}
			for _, j := range e.selfKeyed(g) {
				if j >= len(call.Common().Args) {
					continue
				}
				a := call.Common().Args[j]
				if _, isPtr := a.Type().Underlying().(*types.Pointer); !isPtr {
					if _, isIface := a.Type().Underlying().(*types.Interface); !isIface {
						continue // a string that is its own key: the iteration key or a name
					}
				}
				if core.DependsOn(a, next) {
					sites = append(sites, site{call, g, j})
				}
			}
		}
	}
	if len(sites) == 0 {
		return
	}
	c.Touch(fn)
	for _, s := range sites {
		gname := short2(c.P.Name(s.g))
		key := c.KeyAt(fn, fmt.Sprintf("%s of the iteration value in loop over %s", c.P.Name(s.g), label))
		a := s.call.Common().Args[s.j]
		// which map does the published object come from?
		src := ssa.Value(nil)
		for _, o := range core.Origins(a, false) {
			switch x := o.(type) {
			case *ssa.Extract:
				if x == valX {
					src = rg.X
				}
			case *ssa.Lookup:
				if keyX != nil && (x.Index == keyX || core.DependsOn(x.Index, keyX)) {
					src = x.X
				}
			}
		}
		if src == nil {
			c.Unknown(key, c.Pos(s.call), "the object handed to the self-keyed writer "+gname+" depends on the iteration but is neither the iteration value nor an element looked up under the iteration key: cannot tell which entries share a container key")
			continue
		}
		mk, why := ord2LocalMap(src)
		if mk == nil {
			c.Unknown(key, c.Pos(s.call), "the map whose values are published by "+gname+" is not built in this function ("+why+"): cannot see how its keys relate to the container keys")
			continue
		}
		updates := ord2Updates(fn, mk)
		if len(updates) == 0 {
			c.Ok(key, c.Pos(s.call), "the map is never filled")
			continue
		}
		pub := e.writerAtoms(s.g, s.j, 3)
		var bad []string
		var good []string
		for _, mu := range updates {
			ok, how := e.coherent(mu, pub)
			if ok {
				good = append(good, how)
			} else {
				bad = append(bad, fmt.Sprintf("%s: %s", c.Pos(mu), how))
			}
		}
		if len(bad) > 0 {
			c.Bad(key, c.Pos(s.call), fmt.Sprintf("%s derives the container key from the object it stores (%s), but the map it is fed from is keyed by something else — %s; two entries with one container key overwrite each other and Go's random map order decides which one survives", gname, ord2AtomNames(pub), strings.Join(bad, "; ")))
			continue
		}
		c.Ok(key, c.Pos(s.call), fmt.Sprintf("distinct map keys are distinct container keys: %s", strings.Join(dedup(good), "; ")))
	}
}

// ord2LocalMap: the single MakeMap of this function the value denotes.
func ord2LocalMap(v ssa.Value) (*ssa.MakeMap, string) {
	var mk *ssa.MakeMap
	for _, o := range core.Origins(v, false) {
		m, ok := o.(*ssa.MakeMap)
		if !ok {
			return nil, "it comes from " + mapLabel(o)
		}
		if mk != nil && mk != m {
			return nil, "it is one of several maps"
		}
		mk = m
	}
	if mk == nil {
		return nil, "no origin"
	}
	// the map must not be handed to anything that could fill it out of sight
	aliases := map[ssa.Value]bool{mk: true}
	work := []ssa.Value{mk}
	for len(work) > 0 {
		v := work[0]
		work = work[1:]
		refs := v.Referrers()
		if refs == nil {
			continue
		}
		for _, r := range *refs {
			switch x := r.(type) {
			case *ssa.MapUpdate, *ssa.Lookup, *ssa.Range, *ssa.DebugRef:
			case *ssa.Phi:
				if !aliases[x] {
					aliases[x] = true
					work = append(work, x)
				}
			case *ssa.Store:
				if x.Val != v {
					continue
				}
				al, ok := x.Addr.(*ssa.Alloc)
				if !ok {
					return nil, "it is stored into " + addrDesc(x.Addr)
				}
				for _, rr := range *al.Referrers() {
					switch y := rr.(type) {
					case *ssa.UnOp:
						if !aliases[y] {
							aliases[y] = true
							work = append(work, y)
						}
					case *ssa.Store, *ssa.DebugRef:
					default:
						return nil, "its variable is captured or its address taken"
					}
				}
			case ssa.CallInstruction:
				if bi, ok := x.Common().Value.(*ssa.Builtin); ok && (bi.Name() == "len" || bi.Name() == "delete") {
					continue
				}
				if g := x.Common().StaticCallee(); g != nil && g.Blocks != nil {
					readOnly := true
					for i, a := range x.Common().Args {
						if a == v && (i >= len(g.Params) || !ord2ReadOnlyMapParam(g.Params[i], 2)) {
							readOnly = false
						}
					}
					if readOnly {
						continue // the helper only looks entries up
					}
				}
				return nil, "it is passed to " + x.Common().Value.Name()
			case *ssa.Return:
			default:
				return nil, "it escapes"
			}
		}
	}
	return mk, ""
}

// ord2ReadOnlyMapParam: the callee only reads the map it is given (lookups,
// len, range, handing it on to a callee that only reads it).
func ord2ReadOnlyMapParam(pa *ssa.Parameter, depth int) bool {
	seen := map[ssa.Value]bool{}
	work := []ssa.Value{pa}
	for len(work) > 0 {
		v := work[0]
		work = work[1:]
		if seen[v] {
			continue
		}
		seen[v] = true
		refs := v.Referrers()
		if refs == nil {
			continue
		}
		for _, r := range *refs {
			switch x := r.(type) {
			case *ssa.Lookup, *ssa.Range, *ssa.DebugRef:
			case *ssa.Phi:
				work = append(work, x)
			case *ssa.BinOp: // comparison with nil
			case ssa.CallInstruction:
				if bi, ok := x.Common().Value.(*ssa.Builtin); ok {
					if bi.Name() == "len" {
						continue
					}
					return false
				}
				g := x.Common().StaticCallee()
				if g == nil || g.Blocks == nil || depth == 0 {
					return false
				}
				for i, a := range x.Common().Args {
					if a == v && (i >= len(g.Params) || !ord2ReadOnlyMapParam(g.Params[i], depth-1)) {
						return false
					}
				}
			default:
				return false
			}
		}
	}
	return true
}

// helperPair: the helper g returns, as results #ki and #vi, a key and the
// object that belongs to it: on every return the value result is nil, or the
// result of a keyed load whose key argument is the returned key (up to
// wrapping), or an entry its map parameter already holds under that key, or
// such a pair obtained from another helper. mapParam is the index of the map
// parameter entries are taken from (-1: none).
func (e *ord2Engine) helperPair(g *ssa.Function, ki, vi int, elem types.Type, depth int) (ok bool, mapParam int, how string) {
	p := e.c.P
	mapParam = -1
	if g.Blocks == nil || depth == 0 {
		return false, -1, "the helper " + short2(p.Name(g)) + " cannot be followed"
	}
	rets := core.Returns(g)
	if len(rets) == 0 {
		return false, -1, "the helper " + short2(p.Name(g)) + " never returns"
	}
	var hows []string
	for _, r := range rets {
		keys := core.ReturnOperand(r, ki)
		for _, rv := range core.ReturnOperand(r, vi) {
			if rv == nil {
				continue
			}
			for _, o := range core.Origins(rv, false) {
				if cst, isC := o.(*ssa.Const); isC && cst.IsNil() {
					continue
				}
				sameAsKey := func(a ssa.Value) bool {
					if len(keys) == 0 {
						return false
					}
					for _, k := range keys {
						if k == nil || !ord2SameKey(a, k) {
							return false
						}
					}
					return true
				}
				// an entry of the caller's map under the returned key
				if ex, isEx := o.(*ssa.Extract); isEx {
					if lk, isLk := ex.Tuple.(*ssa.Lookup); isLk {
						o = lk
					}
				}
				if lk, isLk := o.(*ssa.Lookup); isLk {
					idx := -1
					for _, mo := range core.Origins(lk.X, false) {
						for i, pa := range g.Params {
							if mo == pa {
								idx = i
							}
						}
					}
					if idx >= 0 && sameAsKey(lk.Index) && (mapParam < 0 || mapParam == idx) {
						mapParam = idx
						hows = append(hows, "an entry the map already holds under that key")
						continue
					}
					return false, -1, fmt.Sprintf("%s returns an element looked up under something else than the key it returns (%s)", short2(p.Name(g)), p.InstrPos(lk))
				}
				call, idx, isCall := core.ExtractOf(o)
				if !isCall {
					return false, -1, fmt.Sprintf("%s returns a value that is not loaded under the key it returns (%s)", short2(p.Name(g)), p.InstrPos(r))
				}
				h := call.Common().StaticCallee()
				if h == nil {
					return false, -1, fmt.Sprintf("%s returns the result of a dynamic call (%s)", short2(p.Name(g)), p.InstrPos(call))
				}
				if len(e.loads[h]) > 0 && idx < h.Signature.Results().Len() && types.Identical(h.Signature.Results().At(idx).Type(), elem) {
					matched := false
					for _, li := range ord2SortedInts(e.loads[h]) {
						if li < len(call.Common().Args) && sameAsKey(call.Common().Args[li]) {
							matched = true
						}
					}
					if matched {
						hows = append(hows, "loaded by "+short2(p.Name(h))+" under that key")
						continue
					}
					return false, -1, fmt.Sprintf("%s returns a value loaded by %s under %s, and a different value as its key (%s)", short2(p.Name(g)), short2(p.Name(h)), ord2Desc(p, call.Common().Args[ord2SortedInts(e.loads[h])[0]]), p.InstrPos(r))
				}
				// a pair handed on from another helper
				nested := false
				if tup, isT := call.Type().(*types.Tuple); isT && h != g {
					for kj := 0; kj < tup.Len(); kj++ {
						if kj == idx {
							continue
						}
						var kx ssa.Value
						for _, rr := range *call.Referrers() {
							if ex, isEx := rr.(*ssa.Extract); isEx && ex.Index == kj {
								kx = ex
							}
						}
						if kx == nil || !sameAsKey(kx) {
							continue
						}
						if ok2, mp2, how2 := e.helperPair(h, kj, idx, elem, depth-1); ok2 {
							if mp2 >= 0 {
								// the nested helper reads a map: it must be this helper's map parameter
								mi := -1
								if mp2 < len(call.Common().Args) {
									for _, mo := range core.Origins(call.Common().Args[mp2], false) {
										for i, pa := range g.Params {
											if mo == pa {
												mi = i
											}
										}
									}
								}
								if mi < 0 || (mapParam >= 0 && mapParam != mi) {
									continue
								}
								mapParam = mi
							}
							hows = append(hows, how2)
							nested = true
						}
					}
				}
				if nested {
					continue
				}
				return false, -1, fmt.Sprintf("%s returns a value that is not loaded under the key it returns (%s)", short2(p.Name(g)), p.InstrPos(r))
			}
		}
	}
	if len(hows) == 0 {
		return false, -1, short2(p.Name(g)) + " only returns nil"
	}
	return true, mapParam, fmt.Sprintf("the helper %s returns the key together with the value (%s)", short2(p.Name(g)), strings.Join(dedup(hows), ", "))
}

func ord2Updates(fn *ssa.Function, mk *ssa.MakeMap) []*ssa.MapUpdate {
	var out []*ssa.MapUpdate
	for _, b := range fn.Blocks {
		for _, in := range b.Instrs {
			mu, ok := in.(*ssa.MapUpdate)
			if !ok {
				continue
			}
			for _, o := range core.Origins(mu.Map, false) {
				if o == mk {
					out = append(out, mu)
					break
				}
			}
		}
	}
	return out
}

// coherent: the entry stored by mu has a key tied to its value's container key.
func (e *ord2Engine) coherent(mu *ssa.MapUpdate, pub map[*types.Var]bool) (bool, string) {
	p := e.c.P
	elem := mu.Map.Type().Underlying().(*types.Map).Elem()
	origins := core.Origins(mu.Value, false)
	if len(origins) == 0 {
		return false, "the stored value has no origin"
	}
	var hows []string
	for _, o := range origins {
		if cst, ok := o.(*ssa.Const); ok && cst.IsNil() {
			continue
		}
		// (a) looked up under the key
		loadMiss := ""
		if call, idx, ok := core.ExtractOf(o); ok {
			if g := call.Common().StaticCallee(); g != nil && len(e.loads[g]) > 0 {
				res := g.Signature.Results()
				if idx < res.Len() && types.Identical(res.At(idx).Type(), elem) {
					matched := false
					for _, ki := range ord2SortedInts(e.loads[g]) {
						if ki < len(call.Common().Args) && ord2SameKey(call.Common().Args[ki], mu.Key) {
							matched = true
						}
					}
					if matched {
						hows = append(hows, "the value is loaded by "+short2(p.Name(g))+" under the map key")
						continue
					}
					loadMiss = fmt.Sprintf("the value is loaded by %s under %s, the map key is %s — a different value", short2(p.Name(g)), ord2Desc(p, call.Common().Args[ord2SortedInts(e.loads[g])[0]]), ord2Desc(p, mu.Key))
				}
			}
		}
		// (a') the key and the value are two results of one helper call
		if ex, isEx := o.(*ssa.Extract); isEx {
			if call, isCall := ex.Tuple.(*ssa.Call); isCall {
				if g := call.Common().StaticCallee(); g != nil && g.Blocks != nil {
					decided, good, how := false, false, ""
					for _, rr := range *call.Referrers() {
						kx, isK := rr.(*ssa.Extract)
						if !isK || kx.Index == ex.Index || !ord2SameKey(mu.Key, kx) {
							continue
						}
						decided = true
						ok2, mp, how2 := e.helperPair(g, kx.Index, ex.Index, elem, 3)
						how = how2
						if ok2 && mp >= 0 {
							// entries taken from a map: it must be the very map the pair is stored into
							same := mp < len(call.Common().Args)
							if same {
								same = false
								for _, a := range core.Origins(call.Common().Args[mp], false) {
									for _, b := range core.Origins(mu.Map, false) {
										if a == b {
											same = true
										}
									}
								}
							}
							if !same {
								ok2, how = false, "the helper "+short2(p.Name(g))+" takes entries from another map than the one they are stored into"
							}
						}
						good = ok2
					}
					if decided {
						if good {
							hows = append(hows, how)
							continue
						}
						return false, how
					}
				}
			}
		}
		if loadMiss != "" {
			return false, loadMiss
		}
		// (b) key computed from the value through the writer's key fields
		roots := map[ssa.Value]bool{o: true, mu.Value: true}
		fields := map[*types.Var]bool{}
		if ord2KeyAtoms(p, mu.Key, roots, fields, 3) && len(fields) > 0 {
			extra := ""
			basic := false
			for _, f := range ord2SortedVars(fields) {
				if !pub[f] {
					extra = f.Name()
				}
				if _, isB := f.Type().Underlying().(*types.Basic); isB && pub[f] {
					basic = true
				}
			}
			if extra == "" && basic {
				hows = append(hows, "the map key is computed from the value's "+ord2AtomNames(fields))
				continue
			}
			return false, fmt.Sprintf("the map key is computed from the value's %s, the container key from its %s", ord2AtomNames(fields), ord2AtomNames(pub))
		}
		return false, fmt.Sprintf("the map key %s is neither the key the value was loaded under nor computed from the value", ord2Desc(p, mu.Key))
	}
	if len(hows) == 0 {
		return true, "only nil is stored"
	}
	return true, strings.Join(dedup(hows), ", ")
}

func ord2Desc(p *core.Prog, v ssa.Value) string {
	switch x := v.(type) {
	case *ssa.Call:
		return "the result of " + short2(p.CalleeName(x))
	case *ssa.Extract:
		if c, ok := x.Tuple.(*ssa.Call); ok {
			return fmt.Sprintf("result #%d of %s", x.Index, short2(p.CalleeName(c)))
		}
	case *ssa.Parameter:
		return "parameter " + x.Name()
	case *ssa.UnOp:
		if x.Op == token.MUL {
			if al, ok := x.X.(*ssa.Alloc); ok && al.Comment != "" {
				return al.Comment
			}
		}
	}
	return v.Name()
}

var ord2Folders = []string{"strings.ToUpper", "strings.ToLower", "strings.TrimSpace", "path/filepath.Clean", "path/filepath.ToSlash", "path/filepath.FromSlash"}

// ord2SameKey: one of the two values is the other one up to wrapping.
func ord2SameKey(a, b ssa.Value) bool {
	return ord2Wraps(a, b, map[ssa.Value]bool{}) || ord2Wraps(b, a, map[ssa.Value]bool{})
}

// ord2Wraps: x is y, possibly converted, case-folded, or wrapped into a struct
// literal whose other fields are constants. No csvq call and no lookup lies in
// between: those may map two keys to one.
func ord2Wraps(x, y ssa.Value, seen map[ssa.Value]bool) bool {
	if x == y {
		return true
	}
	if x == nil || seen[x] {
		return false
	}
	seen[x] = true
	switch v := x.(type) {
	case *ssa.Phi:
		for _, ed := range v.Edges {
			if !ord2Wraps(ed, y, seen) {
				return false
			}
		}
		return len(v.Edges) > 0
	case *ssa.ChangeType:
		return ord2Wraps(v.X, y, seen)
	case *ssa.Convert:
		return ord2Wraps(v.X, y, seen)
	case *ssa.MakeInterface:
		return ord2Wraps(v.X, y, seen)
	case *ssa.ChangeInterface:
		return ord2Wraps(v.X, y, seen)
	case *ssa.TypeAssert:
		return ord2Wraps(v.X, y, seen)
	case *ssa.Field:
		return ord2Wraps(v.X, y, seen)
	case *ssa.Call:
		if f := v.Common().StaticCallee(); f != nil && len(v.Common().Args) == 1 {
			name := f.String()
			for _, w := range ord2Folders {
				if name == w {
					return ord2Wraps(v.Common().Args[0], y, seen)
				}
			}
		}
	case *ssa.UnOp:
		if v.Op != token.MUL {
			return false
		}
		switch al := v.X.(type) {
		case *ssa.Alloc:
			// two reads of one local variable that is assigned once, before both
			// (a struct-typed key such as `fpath, err := scope.AliasTarget(…)` stays
			// a stack cell because its fields are selected: every use is a load)
			if yl, ok := y.(*ssa.UnOp); ok && yl.Op == token.MUL && yl.X == al && ord2AssignedOnceBefore(al, v, yl) {
				return true
			}
			// a local: whole stores, or a struct literal filled field by field
			found := false
			for _, r := range *al.Referrers() {
				switch s := r.(type) {
				case *ssa.Store:
					if s.Addr == al {
						if !ord2Wraps(s.Val, y, seen) {
							return false
						}
						found = true
					}
				case *ssa.FieldAddr:
					for _, rr := range *s.Referrers() {
						st, ok := rr.(*ssa.Store)
						if !ok || st.Addr != s {
							continue
						}
						if _, isC := st.Val.(*ssa.Const); isC {
							continue
						}
						if !ord2Wraps(st.Val, y, seen) {
							return false
						}
						found = true
					}
				}
			}
			return found
		case *ssa.FieldAddr:
			// a field of a local struct variable that y is a load of (the spilled form of *ssa.Field)
			if yl, ok := y.(*ssa.UnOp); ok && yl.Op == token.MUL && yl.X == al.X {
				return true
			}
			return ord2Wraps(al.X, y, seen)
		}
	}
	return false
}

// ord2AssignedOnceBefore: the local cell al is written by exactly one whole
// store, which dominates both loads; apart from that it is only read (loads,
// field selections that are themselves only loaded). The two loads then yield
// the same value.
func ord2AssignedOnceBefore(al *ssa.Alloc, a, b *ssa.UnOp) bool {
	if al.Referrers() == nil {
		return false
	}
	var def *ssa.Store
	for _, r := range *al.Referrers() {
		switch x := r.(type) {
		case *ssa.DebugRef:
		case *ssa.UnOp:
			if x.Op != token.MUL {
				return false
			}
		case *ssa.Store:
			if x.Addr != al || def != nil {
				return false // the address is stored somewhere, or a second assignment
			}
			def = x
		case *ssa.FieldAddr:
			if x.Referrers() == nil {
				continue
			}
			for _, rr := range *x.Referrers() {
				switch y := rr.(type) {
				case *ssa.DebugRef:
				case *ssa.UnOp:
					if y.Op != token.MUL {
						return false
					}
				default:
					return false // a field is assigned or its address handed on
				}
			}
		default:
			return false // captured, address taken, passed to a call
		}
	}
	return def != nil && core.Dominates(def, a) && core.Dominates(def, b)
}

// ord2KeyAtoms: v is computed from one of the roots through field selections,
// string concatenation with constants, case folding and csvq getters of the
// root; the fields read are collected.
func ord2KeyAtoms(p *core.Prog, v ssa.Value, roots map[ssa.Value]bool, fields map[*types.Var]bool, depth int) bool {
	seen := map[ssa.Value]bool{}
	var walk func(v ssa.Value) bool
	addField := func(t types.Type, idx int) {
		if pt, ok := t.Underlying().(*types.Pointer); ok {
			t = pt.Elem()
		}
		if st, ok := t.Underlying().(*types.Struct); ok && idx < st.NumFields() {
			fields[st.Field(idx)] = true
		}
	}
	walk = func(v ssa.Value) bool {
		if v == nil {
			return false
		}
		if roots[v] {
			return true
		}
		if seen[v] {
			return true
		}
		seen[v] = true
		switch x := v.(type) {
		case *ssa.Const:
			return true
		case *ssa.UnOp:
			if x.Op != token.MUL {
				return false
			}
			if al, ok := x.X.(*ssa.Alloc); ok {
				// a local variable holding the root
				vals, complete := core.StoresTo(al)
				if !complete || len(vals) == 0 {
					return false
				}
				for _, s := range vals {
					if !walk(s) {
						return false
					}
				}
				return true
			}
			return walk(x.X)
		case *ssa.FieldAddr:
			addField(x.X.Type(), x.Field)
			return walk(x.X)
		case *ssa.Field:
			addField(x.X.Type(), x.Field)
			return walk(x.X)
		case *ssa.Phi:
			for _, ed := range x.Edges {
				if !walk(ed) {
					return false
				}
			}
			return true
		case *ssa.ChangeType:
			return walk(x.X)
		case *ssa.Convert:
			return walk(x.X)
		case *ssa.MakeInterface:
			return walk(x.X)
		case *ssa.BinOp:
			if x.Op != token.ADD {
				return false
			}
			return walk(x.X) && walk(x.Y)
		case *ssa.Call:
			f := x.Common().StaticCallee()
			if f == nil {
				return false
			}
			name := f.String()
			for _, w := range ord2Folders {
				if name == w && len(x.Common().Args) == 1 {
					return walk(x.Common().Args[0])
				}
			}
			if f.Blocks == nil || depth == 0 || f.Signature.Results().Len() != 1 {
				return false
			}
			// a csvq getter: every argument derives from the root (or is constant);
			// its result is computed from its parameters the same way
			sub := map[ssa.Value]bool{}
			for i, a := range x.Common().Args {
				if _, isC := a.(*ssa.Const); isC {
					continue
				}
				if !walk(a) || i >= len(f.Params) {
					return false
				}
				sub[f.Params[i]] = true
			}
			if len(sub) == 0 {
				return false
			}
			for _, r := range core.ReturnedValues(f, 0) {
				if !ord2KeyAtoms(p, r, sub, fields, depth-1) {
					return false
				}
			}
			return true
		}
		return false
	}
	return walk(v)
}

// writerAtoms: the fields of the stored object the self-keyed writer g reads to
// compute the container key of its parameter j.
func (e *ord2Engine) writerAtoms(g *ssa.Function, j int, depth int) map[*types.Var]bool {
	ck := fmt.Sprintf("%s#%d", e.c.P.Name(g), j)
	if m, ok := e.atoms[ck]; ok {
		return m
	}
	out := map[*types.Var]bool{}
	e.atoms[ck] = out
	if g.Blocks == nil || j >= len(g.Params) || depth == 0 {
		return out
	}
	roots := map[ssa.Value]bool{g.Params[j]: true}
	keyExpr := func(k ssa.Value) {
		f := map[*types.Var]bool{}
		if ord2KeyAtoms(e.c.P, k, roots, f, 3) {
			for v := range f {
				out[v] = true
			}
		}
	}
	for _, b := range g.Blocks {
		for _, in := range b.Instrs {
			switch x := in.(type) {
			case *ssa.MapUpdate:
				if !localMap(x.Map) && core.DependsOn(x.Key, g.Params[j]) && core.DependsOn(x.Value, g.Params[j]) {
					keyExpr(x.Key)
				}
			case ssa.CallInstruction:
				com := x.Common()
				switch e.c.P.CalleeName(x) {
				case "(*sync.Map).Store", "(*sync.Map).LoadOrStore", "(*sync.Map).Swap":
					if len(com.Args) > 2 && core.DependsOn(com.Args[1], g.Params[j]) && core.DependsOn(com.Args[2], g.Params[j]) {
						keyExpr(com.Args[1])
					}
					continue
				}
				h := com.StaticCallee()
				if h == nil || h == g {
					continue
				}
				for _, pr := range ord2SortedPairs(e.stores[h]) {
					if pr.key >= len(com.Args) || pr.val >= len(com.Args) {
						continue
					}
					if !core.DependsOn(com.Args[pr.key], g.Params[j]) || !core.DependsOn(com.Args[pr.val], g.Params[j]) {
						continue
					}
					if pr.key == pr.val {
						// handed on as a whole: the callee computes the key
						f := map[*types.Var]bool{}
						if ord2KeyAtoms(e.c.P, com.Args[pr.key], roots, f, 3) {
							for v := range f {
								out[v] = true
							}
							for v := range e.writerAtoms(h, pr.key, depth-1) {
								out[v] = true
							}
						}
						continue
					}
					keyExpr(com.Args[pr.key])
				}
			}
		}
	}
	return out
}

func ord2SortedVars(m map[*types.Var]bool) []*types.Var {
	var out []*types.Var
	for v := range m {
		out = append(out, v)
	}
	sort.Slice(out, func(i, j int) bool {
		if out[i].Name() != out[j].Name() {
			return out[i].Name() < out[j].Name()
		}
		return out[i].Pos() < out[j].Pos()
	})
	return out
}

func ord2AtomNames(m map[*types.Var]bool) string {
	var names []string
	for _, v := range ord2SortedVars(m) {
		names = append(names, v.Name())
	}
	if len(names) == 0 {
		return "fields that could not be resolved"
	}
	return strings.Join(names, ", ")
}
