package rules

import (
	"fmt"
	"go/constant"
	"go/token"
	"go/types"
	"strings"

	"golang.org/x/tools/go/ssa"

	"verif/checker/core"
)

// R-SCP-9 — flow propagation is complete.
//
// R-SCP-5 decides WHAT a function does with the flow of the statements it ran,
// but only in functions that have a flow result themselves. A helper that runs
// statements and returns only an error drops the flow silently: EXIT / RETURN /
// BREAK / CONTINUE reached inside a sourced file or an EXECUTE string would no
// longer transfer control in the caller.

func init() {
	Register(&Rule{ID: "R-SCP-9", Props: []string{"C15"}, Floor: 15,
		Doc:      "every call in lib/query that yields a StatementFlow from running statements (its callee can reach Processor.execute) has that flow extracted and used, and sits in a function that itself returns a (StatementFlow, error) pair — where R-SCP-5 decides what becomes of it — or is the documented consumer: the executor of a user-defined function body (the statement list originates from UserDefinedFunction.Statements; RETURN ends the function, BREAK / CONTINUE end at the loops of the body) — which still has to take the flow, compare it with Exit and return a non-nil error on every return of that branch, because EXECUTE and SOURCE inside the body can run EXIT and an expression has no other way to terminate the procedure. A function without a flow result that runs any other statement list drops EXIT/RETURN/BREAK/CONTINUE",
		Controls: []string{"CtlFlowDroppedByHelper", "CtlFlowBodyDropsExit", "CtlFlowBodyExitReturnsNil"},
		Run:      ruleScp9})
}

func c9HasFlow(t types.Type) (idx int, ok bool) {
	switch x := t.(type) {
	case *types.Tuple:
		for i := 0; i < x.Len(); i++ {
			if core.NamedOf(x.At(i).Type()) == scpTFlow {
				return i, true
			}
		}
	default:
		if core.NamedOf(t) == scpTFlow {
			return 0, true
		}
	}
	return 0, false
}

func ruleScp9(c *Ctx) {
	start := len(c.Obs)
	exec := c.Fn("lib/query.(*Processor).execute")
	if exec == nil {
		return
	}
	btypes := brBlockTypes(c)
	isExec := func(f *ssa.Function) bool { return f == exec }
	for _, fn := range c.P.FuncsIn(true, "lib/query") {
		if c.P.IsControl(fn) && !strings.Contains(fn.Name(), "Flow") {
			continue // controls of other rules
		}
		n := 0
		_, fnHasFlow := c9HasFlow(fn.Signature.Results())
		for _, b := range fn.Blocks {
			for _, in := range b.Instrs {
				call, ok := in.(*ssa.Call)
				if !ok {
					continue
				}
				fidx, has := c9HasFlow(call.Type())
				if !has || !c.P.CallReaches(call, isExec) {
					continue
				}
				n++
				c.Sites++
				c.Touch(fn)
				callee := callDesc(c.P, call)
				key := c.KeyAt(fn, fmt.Sprintf("flow of statements run by call #%d (%s) is propagated", n, shortCallee(callee)))
				// the flow value
				var flow ssa.Value
				if _, isTuple := call.Type().(*types.Tuple); isTuple {
					for _, r := range *call.Referrers() {
						if ex, ok := r.(*ssa.Extract); ok && ex.Index == fidx {
							flow = ex
						}
					}
				} else {
					flow = call
				}
				used := false
				if flow != nil && flow.Referrers() != nil {
					for _, r := range *flow.Referrers() {
						if _, dbg := r.(*ssa.DebugRef); !dbg {
							used = true
						}
					}
				}
				// the documented consumer: a user-defined function body
				body := false
				for _, a := range call.Call.Args {
					sl, ok := a.Type().Underlying().(*types.Slice)
					if !ok || core.NamedOf(sl.Elem()) != "lib/parser.Statement" {
						continue
					}
					all := true
					os := core.Origins(a, false)
					for _, o := range os {
						if owner, ok := brOrigin(o, btypes); !ok || owner != "lib/query.UserDefinedFunction.Statements" {
							all = false
						}
					}
					if all && len(os) > 0 {
						body = true
					}
				}
				switch {
				case body:
					// An expression has no flow to hand on: RETURN ends the function, BREAK / CONTINUE end at the loop
					// inside the body — but EXIT (reached through EXECUTE or SOURCE in the body, which the grammar of a
					// function body cannot exclude) terminates the procedure, so it has to leave as an error.
					good, why := c9ExitLeaves(c, fn, flow)
					c.Check(good, key, c.Pos(call), "the statement list is the body of a user-defined function: RETURN ends the function here, and the flow Exit is tested and leaves the function as an error on every return of that branch",
						fmt.Sprintf("%s runs the body of a user-defined function through %s and %s: EXIT executed inside the body (EXECUTE 'EXIT', a sourced file) ends only the function call — the function yields NULL and the procedure goes on with the next statement instead of terminating", c.P.Name(fn), callee, why))
				case !fnHasFlow:
					c.Bad(key, c.Pos(call), fmt.Sprintf("%s runs statements through %s but has no StatementFlow result: the flow of those statements is dropped here, so EXIT, RETURN, BREAK and CONTINUE reached inside them (a sourced file, an EXECUTE string, a block) no longer transfer control in the caller — the script simply goes on with the next statement", c.P.Name(fn), callee))
				case !used:
					c.Bad(key, c.Pos(call), fmt.Sprintf("%s discards the StatementFlow returned by %s: EXIT, RETURN, BREAK and CONTINUE reached inside the executed statements are lost", c.P.Name(fn), callee))
				default:
					c.Ok(key, c.Pos(call), "the flow is taken and this function returns a flow itself (what becomes of it: R-SCP-5)")
				}
			}
		}
	}
	c.negControls(start, "okFlowHelperReturnsFlow", "okFlowFunctionBody")
}

// c9ExitLeaves: the flow value is compared with the constant Exit of its type, and every return of the
// branch taken when they are equal carries an error that is not nil.
func c9ExitLeaves(c *Ctx, fn *ssa.Function, flow ssa.Value) (bool, string) {
	if flow == nil || flow.Referrers() == nil {
		return false, "does not take the StatementFlow it returns"
	}
	named, _ := flow.Type().(*types.Named)
	if named == nil || named.Obj().Pkg() == nil {
		return false, "the flow has no named type"
	}
	exitConst, _ := named.Obj().Pkg().Scope().Lookup("Exit").(*types.Const)
	if exitConst == nil {
		return false, "the package of the flow type has no constant Exit"
	}
	errIdx := fn.Signature.Results().Len() - 1
	if errIdx < 0 || !core.IsErrorType(fn.Signature.Results().At(errIdx).Type()) {
		return false, "has no error result through which EXIT could leave"
	}
	tested := false
	for _, r := range *flow.Referrers() {
		bo, ok := r.(*ssa.BinOp)
		if !ok || (bo.Op != token.EQL && bo.Op != token.NEQ) {
			continue
		}
		other := bo.Y
		if other == flow {
			other = bo.X
		}
		k, ok := other.(*ssa.Const)
		if !ok || k.Value == nil || !constant.Compare(k.Value, token.EQL, exitConst.Val()) {
			continue
		}
		for _, u := range *bo.Referrers() {
			iff, ok := u.(*ssa.If)
			if !ok {
				continue
			}
			taken := iff.Block().Succs[0]
			if bo.Op == token.NEQ {
				taken = iff.Block().Succs[1]
			}
			if len(taken.Preds) != 1 {
				continue
			}
			tested = true
			n := 0
			for _, ret := range core.Returns(fn) {
				if ret.Block() != taken && !taken.Dominates(ret.Block()) {
					continue
				}
				n++
				for _, v := range core.ReturnOperand(ret, errIdx) {
					if v == nil || curErrKind(c, v, ret) != core.NonNil {
						return false, "returns without an error at " + c.Pos(ret) + " when the flow is Exit"
					}
				}
			}
			if n == 0 {
				return false, "tests the flow for Exit but does not return on that branch"
			}
		}
	}
	if !tested {
		return false, "never tests the flow for Exit"
	}
	return true, ""
}

func shortCallee(s string) string {
	for i := len(s) - 1; i >= 0; i-- {
		if s[i] == '.' || s[i] == ')' {
			return s[i+1:]
		}
	}
	return s
}
