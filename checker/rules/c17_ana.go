package rules

import (
	"fmt"
	"go/constant"
	"go/token"
	"go/types"
	"sort"
	"strings"

	"golang.org/x/tools/go/ssa"

	"verif/checker/core"
)

// C17 — analytic functions. Decided: the partition is ordered before it is
// analysed and the sort state is reset afterwards (R-ANA-1); every function name
// the scanner turns into a function token has a registry entry (R-ANA-2); the
// registries bind each name to its own implementation (R-ANA-3).

const (
	fxAnalyze    = "lib/query.Analyze"
	fxOrderBy    = "lib/query.(*View).OrderBy"
	fxEvalAnFunc = "lib/query.(*View).evalAnalyticFunction"
)

func init() {
	Register(&Rule{ID: "R-ANA-1", Props: []string{"C17"}, Floor: 3,
		Doc:      "in View.evalAnalyticFunction (i) no path leads from the Analyze call to the OrderBy call, (ii) every path that takes the `OrderByClause != nil` edge reaches Analyze only through OrderBy, (iii) every path from the Analyze call to a return stores nil into view.sortValuesInEachRecord (the state the rank functions and LIMIT WITH TIES consult)",
		Controls: []string{"CtlAnalyzeBeforeOrder"},
		Run:      ruleAna1})
	Register(&Rule{ID: "R-ANA-2", Props: []string{"C17"}, Floor: 23,
		Doc:      "every name of the string lists from which Scanner.Scan produces the tokens AGGREGATE_FUNCTION, LIST_FUNCTION, ANALYTIC_FUNCTION, FUNCTION_NTH, FUNCTION_WITH_INS (lists found by role: the list ranged by the classifier method whose result guards the assignment of that token) and the keyword-tokenised COUNT and VAR has an entry in the registry that evaluates it (AggregateFunctions for aggregate names, AnalyticFunctions for the others)",
		Controls: []string{"CtlRegistryMissesNTile"},
		Run:      ruleAna2})
	Register(&Rule{ID: "R-ANA-3", Props: []string{"C17"}, Floor: 23,
		Doc:      "the registries AnalyticFunctions (13 entries) and AggregateFunctions (10 entries) — map literal or switch/if-chain function — equal the frozen name → implementation table cell by cell (a swapped pair such as RANK ↔ DENSE_RANK, a missing or an extra name is reported)",
		Controls: []string{"CtlRegistrySwapsRank"},
		Run:      ruleAna3})
}

// ---------------------------------------------------------------------------
// R-ANA-1

// fxDist: number of static calls from fn to target (0 = fn is target), -1 when
// farther than depth.
func fxDist(p *core.Prog, fn *ssa.Function, target string, depth int) int {
	if fn == nil {
		return -1
	}
	if p.FnRef(fn) == target {
		return 0
	}
	if depth == 0 || fn.Blocks == nil {
		return -1
	}
	best := -1
	for _, call := range core.Calls(fn) {
		if f := core.StaticCallee(call); f != nil && f != fn {
			if d := fxDist(p, f, target, depth-1); d >= 0 && (best < 0 || d+1 < best) {
				best = d + 1
			}
		}
	}
	return best
}

func ruleAna1(c *Ctx) {
	if fn := c.Fn(fxEvalAnFunc); fn != nil {
		fxCheckOrderBeforeAnalyze(c, fn)
	}
	for _, fn := range fxCtlFuncs(c) {
		if strings.HasPrefix(fn.Name(), "CtlAnalyze") || strings.HasPrefix(fn.Name(), "okAnalyze") {
			c.Touch(fn)
			fxCheckOrderBeforeAnalyze(c, fn)
		}
	}
}

func fxCheckOrderBeforeAnalyze(c *Ctx, fn *ssa.Function) {
	var order, analyze []ssa.Instruction
	for _, call := range core.Calls(fn) {
		f := core.StaticCallee(call)
		if f == nil {
			continue
		}
		// Analyze and OrderBy reach each other inside the evaluator (ORDER BY may
		// contain analytic functions, partitions may contain subqueries), so a
		// site is classified by which of the two it is closer to in static calls —
		// the function itself or an extracted helper.
		da, do := fxDist(c.P, f, fxAnalyze, 2), fxDist(c.P, f, fxOrderBy, 2)
		switch {
		case da < 0 && do < 0:
		case da >= 0 && (do < 0 || da < do):
			analyze = append(analyze, call.(ssa.Instruction))
		case do >= 0 && (da < 0 || do < da):
			order = append(order, call.(ssa.Instruction))
		default:
			c.Unknown(c.KeyAt(fn, "call of "+f.Name()), c.Pos(call.(ssa.Instruction)), "this call orders and analyses in one step: the rule cannot see the order of the two")
			return
		}
	}
	k1 := c.KeyAt(fn, "OrderBy precedes Analyze")
	k2 := c.KeyAt(fn, "ORDER BY clause present => ordered before Analyze")
	k3 := c.KeyAt(fn, "sort state reset after Analyze")
	if len(analyze) == 0 {
		c.Unknown(k1, c.FnPos(fn), "cannot-analyse: no call of Analyze found")
		return
	}
	if len(order) == 0 {
		c.Bad(k1, c.Pos(analyze[0]), "the partition is never ordered: no call of (*View).OrderBy before Analyze, so ORDER BY inside OVER() is ignored")
		return
	}
	isOrder := func(in ssa.Instruction) bool {
		for _, o := range order {
			if o == in {
				return true
			}
		}
		return false
	}
	// (i)
	bad := false
	for _, a := range analyze {
		for _, o := range order {
			if core.Reachable(a, o, nil) {
				c.Bad(k1, c.Pos(o), fmt.Sprintf("OrderBy at %s can execute after Analyze at %s: the analytic function is computed over unordered partitions", c.Pos(o), c.Pos(a)))
				bad = true
			}
		}
	}
	if !bad {
		c.Ok(k1, c.Pos(order[0]), "no path from the Analyze call to the OrderBy call")
	}
	// (ii)
	var start []ssa.Instruction // first instruction after which the clause is known to be present
	for _, b := range fn.Blocks {
		iff, ok := b.Instrs[len(b.Instrs)-1].(*ssa.If)
		if !ok {
			continue
		}
		v, neq, ok := core.NilCmp(iff.Cond)
		if !ok {
			continue
		}
		fa := fxFieldLoad(v)
		if fa == nil || core.FieldName(fa) != "OrderByClause" {
			continue
		}
		t := b.Succs[0]
		if !neq {
			t = b.Succs[1]
		}
		if len(t.Instrs) > 0 {
			start = append(start, t.Instrs[0])
		}
	}
	reachesAnalyzeUnordered := func(from ssa.Instruction, inclusive bool) ssa.Instruction {
		var hit ssa.Instruction
		isAn := func(in ssa.Instruction) bool {
			for _, a := range analyze {
				if a == in {
					return true
				}
			}
			return false
		}
		if inclusive {
			if isOrder(from) {
				return nil
			}
			if isAn(from) {
				return from
			}
		}
		core.WalkFrom(from, func(in ssa.Instruction) bool {
			if isOrder(in) {
				return false
			}
			if isAn(in) {
				hit = in
				return false
			}
			return true
		})
		return hit
	}
	if len(start) == 0 {
		// unconditional ordering: every path from the entry must order first
		var hit ssa.Instruction
		core.WalkFromEntry(fn, func(in ssa.Instruction) bool {
			if isOrder(in) {
				return false
			}
			for _, a := range analyze {
				if a == in {
					hit = in
					return false
				}
			}
			return true
		})
		if hit != nil {
			c.Bad(k2, c.Pos(hit), "Analyze is reachable without passing OrderBy and no `OrderByClause != nil` test guards the ordering")
		} else {
			c.Ok(k2, c.Pos(order[0]), "OrderBy is passed on every path to Analyze")
		}
	} else {
		var hit ssa.Instruction
		for _, s := range start {
			if h := reachesAnalyzeUnordered(s, true); h != nil {
				hit = h
			}
		}
		if hit != nil {
			c.Bad(k2, c.Pos(hit), "with an ORDER BY clause present, Analyze can be reached without OrderBy having run")
		} else {
			c.Ok(k2, c.Pos(order[0]), "from the `OrderByClause != nil` edge every path to Analyze passes OrderBy")
		}
	}
	// (iii)
	isResetStore := func(in ssa.Instruction) bool {
		st, ok := in.(*ssa.Store)
		if !ok || !core.IsNilConst(st.Val) {
			return false
		}
		fa, ok := st.Addr.(*ssa.FieldAddr)
		return ok && core.FieldOwner(fa) == "lib/query.View.sortValuesInEachRecord"
	}
	// a helper (or deferred closure) resets when every path through it does
	var mustReset func(f *ssa.Function, depth int) bool
	mustReset = func(f *ssa.Function, depth int) bool {
		if f == nil || f.Blocks == nil || !c.P.InPkg(f, "lib/query", core.ControlPkg) {
			return false
		}
		return core.EscapeFromEntry(f, func(in ssa.Instruction) bool {
			if isResetStore(in) {
				return true
			}
			if call, ok := in.(*ssa.Call); ok && depth > 0 {
				return mustReset(core.StaticCallee(call), depth-1)
			}
			return false
		}, nil) == nil
	}
	isReset := func(in ssa.Instruction) bool {
		if isResetStore(in) {
			return true
		}
		if call, ok := in.(*ssa.Call); ok {
			return mustReset(core.StaticCallee(call), 1)
		}
		return false
	}
	var esc ssa.Instruction
	for _, a := range analyze {
		deferred := false
		for _, ci := range core.Calls(fn) {
			if d, ok := ci.(*ssa.Defer); ok && core.Dominates(d, a) && mustReset(core.StaticCallee(d), 1) {
				deferred = true // runs at every exit after Analyze
			}
		}
		if deferred {
			continue
		}
		if e := core.EscapeWithout(a, isReset, nil); e != nil {
			esc = e
		}
	}
	if esc != nil {
		c.Bad(k3, c.Pos(esc), fmt.Sprintf("a path from the Analyze call reaches the exit at %s without `view.sortValuesInEachRecord = nil`: the next analytic function without ORDER BY, and LIMIT … WITH TIES, would see the stale sort keys of this one", c.Pos(esc)))
	} else {
		c.Ok(k3, c.Pos(analyze[0]), "every path from Analyze to a return clears sortValuesInEachRecord")
	}
}

// ---------------------------------------------------------------------------
// registries (shared by R-ANA-2 and R-ANA-3)

type fxRegistry struct {
	form string
	impl map[string]string // name -> implementation label
	pos  map[string]string
	at   string
}

// fxImplLabel names what a registry value is: a function, or the named type of
// the value stored in the interface.
func fxImplLabel(v ssa.Value) string {
	for _, o := range core.Origins(v, false) {
		switch x := fxStripConv(o).(type) {
		case *ssa.Function:
			return x.Name()
		case *ssa.MakeClosure:
			if f, ok := x.Fn.(*ssa.Function); ok {
				return f.Name()
			}
		default:
			t := x.Type()
			if p, ok := t.(*types.Pointer); ok {
				t = p.Elem()
			}
			if n, ok := t.(*types.Named); ok {
				return n.Obj().Name()
			}
		}
	}
	return "?"
}

// fxLoadRegistry reads registry `name` of package pkg: a package-level map
// literal keyed by string, or a function of that name whose switch / if-chain on
// a string returns the implementation.
func fxLoadRegistry(c *Ctx, pkg, name string) *fxRegistry {
	sp := c.P.SSAPkgs[pkg]
	if sp == nil {
		return nil
	}
	if g, ok := sp.Members[name].(*ssa.Global); ok {
		entries, ok := core.GlobalMapLiteral(g)
		if !ok {
			return nil
		}
		r := &fxRegistry{form: "map literal", impl: map[string]string{}, pos: map[string]string{}, at: c.P.Pos(g.Pos())}
		for _, e := range entries {
			k, ok := core.ConstString(e.Key)
			if e.Key == nil || !ok {
				return nil
			}
			// MakeInterface hides the concrete type from Origins: look at it directly
			v := e.Val
			if mi, ok := v.(*ssa.MakeInterface); ok {
				v = mi.X
			}
			r.impl[k] = fxImplLabel(v)
			r.pos[k] = c.Pos(e.At)
		}
		c.Anchors[pkg+"."+name] = true
		return r
	}
	if fn, ok := sp.Members[name].(*ssa.Function); ok && fn.Blocks != nil {
		var best *core.Dispatch
		for _, d := range core.Dispatches(fn) {
			if b, ok := d.Key.Type().Underlying().(*types.Basic); ok && b.Info()&types.IsString != 0 && (best == nil || len(d.Arms) > len(best.Arms)) {
				best = d
			}
		}
		if best == nil {
			return nil
		}
		r := &fxRegistry{form: "switch/if-chain", impl: map[string]string{}, pos: map[string]string{}, at: c.FnPos(fn)}
		for _, a := range best.Arms {
			if a.Default {
				continue
			}
			label := "?"
			for _, in := range best.RegionInstrs(a) {
				if ret, ok := in.(*ssa.Return); ok && len(ret.Results) > 0 {
					v := ret.Results[0]
					if mi, ok := v.(*ssa.MakeInterface); ok {
						v = mi.X
					}
					label = fxImplLabel(v)
				}
			}
			for _, k := range a.Keys {
				if s, ok := core.ConstString(k); ok {
					r.impl[s] = label
					if len(a.Block.Instrs) > 0 {
						r.pos[s] = c.Pos(a.Block.Instrs[0])
					}
				}
			}
		}
		c.Anchors[pkg+"."+name] = true
		return r
	}
	return nil
}

// ---------------------------------------------------------------------------
// R-ANA-2

// token constant -> registry that must know the names tokenised as it
var fxTokenRegistry = []struct{ Token, Registry string }{
	{"AGGREGATE_FUNCTION", "AggregateFunctions"},
	{"LIST_FUNCTION", "AnalyticFunctions"},
	{"ANALYTIC_FUNCTION", "AnalyticFunctions"},
	{"FUNCTION_NTH", "AnalyticFunctions"},
	{"FUNCTION_WITH_INS", "AnalyticFunctions"},
}

// fxScannerLists resolves, for each token constant, the []string list of
// lib/parser from which Scan produces it: the value `token` receives that
// constant on an edge guarded by a call of a classifier method, and the
// classifier ranges over one package-level []string.
func fxScannerLists(c *Ctx, scan *ssa.Function) map[string][]string {
	out := map[string][]string{}
	pk := c.P.ByPath["lib/parser"]
	if pk == nil {
		return out
	}
	tokVal := map[string]constant.Value{}
	for _, tr := range fxTokenRegistry {
		if k, ok := pk.Types.Scope().Lookup(tr.Token).(*types.Const); ok {
			tokVal[tr.Token] = k.Val()
		}
	}
	classifierOf := func(b *ssa.BasicBlock, extra []core.Fact) *ssa.Function {
		facts := append(append([]core.Fact(nil), extra...), core.FactsAt(b)...)
		for _, f := range facts {
			if f.Neg {
				continue
			}
			if call, ok := f.Cond.(*ssa.Call); ok {
				if m := core.StaticCallee(call); m != nil && c.P.InPkg(m, "lib/parser") {
					return m
				}
			}
		}
		return nil
	}
	listOf := func(m *ssa.Function) ([]string, bool) {
		var lists [][]string
		for _, b := range m.Blocks {
			for _, in := range b.Instrs {
				u, ok := in.(*ssa.UnOp)
				if !ok {
					continue
				}
				g, ok := u.X.(*ssa.Global)
				if !ok {
					continue
				}
				if l, ok := core.GlobalStringSlice(g); ok {
					lists = append(lists, l)
				}
			}
		}
		if len(lists) != 1 {
			return nil, false
		}
		return lists[0], true
	}
	record := func(v ssa.Value, b *ssa.BasicBlock, extra []core.Fact) {
		k, ok := v.(*ssa.Const)
		if !ok || k.Value == nil || k.Value.Kind() != constant.Int {
			return
		}
		for name, tv := range tokVal {
			if constant.Compare(k.Value, token.EQL, tv) {
				if m := classifierOf(b, extra); m != nil {
					if l, ok := listOf(m); ok {
						out[name] = l
						c.Funcs[c.P.Name(m)] = true
					}
				}
			}
		}
	}
	for _, b := range scan.Blocks {
		for _, in := range b.Instrs {
			switch x := in.(type) {
			case *ssa.Phi:
				for i, e := range x.Edges {
					p := b.Preds[i]
					record(e, p, core.EdgeFacts(p, b))
				}
			case *ssa.Store:
				record(x.Val, b, nil)
			}
		}
	}
	return out
}

func ruleAna2(c *Ctx) {
	scan := c.Fn("lib/parser.(*Scanner).Scan")
	if scan == nil {
		return
	}
	regs := map[string]*fxRegistry{}
	for _, n := range []string{"AnalyticFunctions", "AggregateFunctions"} {
		regs[n] = fxLoadRegistry(c, "lib/query", n)
		if regs[n] == nil {
			c.Unknown("anchor:lib/query."+n, "-", "cannot-analyse: registry lib/query."+n+" is neither a map literal keyed by string nor a function dispatching on a string")
			return
		}
	}
	lists := fxScannerLists(c, scan)
	check := func(tok, name, registry, pos string) {
		key := fmt.Sprintf("lib/parser token %s: name %s in lib/query.%s", tok, name, registry)
		r := regs[registry]
		if _, ok := r.impl[strings.ToUpper(name)]; ok {
			c.OkN(key, r.pos[strings.ToUpper(name)], "registered", 1)
		} else {
			c.Bad(key, r.at, fmt.Sprintf("the scanner tokenises %s as %s and the parser builds a function call from it, but %s has no entry %q: every use ends in \"function %s does not exist\"", name, tok, registry, strings.ToUpper(name), name))
		}
	}
	for _, tr := range fxTokenRegistry {
		l, ok := lists[tr.Token]
		if !ok || len(l) == 0 {
			c.Unknown("lib/parser.(*Scanner).Scan: list of token "+tr.Token, c.FnPos(scan), "cannot-analyse: no assignment of this token guarded by a classifier method that ranges over one []string literal")
			continue
		}
		for _, n := range l {
			check(tr.Token, n, tr.Registry, "")
		}
	}
	// names tokenised as keywords but parsed as aggregate function calls
	pk := c.P.ByPath["lib/parser"]
	for _, kw := range []string{"COUNT", "VAR"} {
		if pk == nil || pk.Types.Scope().Lookup(kw) == nil {
			c.Unknown("anchor:lib/parser."+kw, "-", "cannot-analyse: keyword token "+kw+" not declared")
			continue
		}
		check("keyword", kw, "AggregateFunctions", "")
	}
	// controls: a registry literal in the control package
	for _, name := range []string{"CtlRegistryMissesNTile"} {
		r := fxLoadRegistry(c, core.ControlPkg, name)
		if r == nil {
			continue
		}
		for _, n := range lists["ANALYTIC_FUNCTION"] {
			key := fmt.Sprintf("%s.%s: name %s", core.ControlPkg, name, n)
			if _, ok := r.impl[n]; ok {
				c.Ok(key, r.at, "registered")
			} else {
				c.Bad(key, r.at, "no entry for "+n)
			}
		}
	}
}

// ---------------------------------------------------------------------------
// R-ANA-3

// frozen name -> implementation tables (docs/_posts/reference/analytic-functions.md,
// aggregate-functions.md)
var fxAnalyticImpl = map[string]string{
	"ROW_NUMBER": "RowNumber", "RANK": "Rank", "DENSE_RANK": "DenseRank", "CUME_DIST": "CumeDist",
	"PERCENT_RANK": "PercentRank", "NTILE": "NTile", "FIRST_VALUE": "FirstValue", "LAST_VALUE": "LastValue",
	"NTH_VALUE": "NthValue", "LAG": "Lag", "LEAD": "Lead", "LISTAGG": "AnalyticListAgg", "JSON_AGG": "AnalyticJsonAgg",
}

var fxAggregateImpl = map[string]string{
	"COUNT": "Count", "MAX": "Max", "MIN": "Min", "SUM": "Sum", "AVG": "Avg",
	"STDEV": "StdEV", "STDEVP": "StdEVP", "VAR": "Var", "VARP": "VarP", "MEDIAN": "Median",
}

func fxCompareRegistry(c *Ctx, label string, r *fxRegistry, spec map[string]string) {
	var names []string
	for n := range spec {
		names = append(names, n)
	}
	sort.Strings(names)
	for _, n := range names {
		key := fmt.Sprintf("%s: entry %s", label, n)
		got, ok := r.impl[n]
		switch {
		case !ok:
			c.Bad(key, r.at, fmt.Sprintf("cell %s: no entry, the specification binds it to %s", n, spec[n]))
		case got != spec[n]:
			c.Bad(key, r.pos[n], fmt.Sprintf("cell %s: bound to %s, the specification binds it to %s — %s(...) would compute another function's result", n, got, spec[n], n))
		default:
			c.OkN(key, r.pos[n], r.form+": bound to "+got, 1)
		}
	}
	var extra []string
	for n := range r.impl {
		if _, ok := spec[n]; !ok {
			extra = append(extra, n)
		}
	}
	sort.Strings(extra)
	for _, n := range extra {
		c.Bad(fmt.Sprintf("%s: entry %s", label, n), r.pos[n], fmt.Sprintf("cell %s: bound to %s but absent from the specification table (add it to the rule together with its documentation)", n, r.impl[n]))
	}
}

func ruleAna3(c *Ctx) {
	for _, t := range []struct {
		name string
		spec map[string]string
	}{{"AnalyticFunctions", fxAnalyticImpl}, {"AggregateFunctions", fxAggregateImpl}} {
		r := fxLoadRegistry(c, "lib/query", t.name)
		if r == nil {
			c.Unknown("anchor:lib/query."+t.name, "-", "cannot-analyse: registry lib/query."+t.name+" is neither a map literal keyed by string nor a function dispatching on a string")
			continue
		}
		fxCompareRegistry(c, "lib/query."+t.name, r, t.spec)
	}
	// controls: the same registry as a switch with two names swapped
	if r := fxLoadRegistry(c, core.ControlPkg, "CtlRegistrySwapsRank"); r != nil {
		spec := map[string]string{"RANK": "Rank", "DENSE_RANK": "DenseRank", "ROW_NUMBER": "RowNumber"}
		fxCompareRegistry(c, core.ControlPkg+".CtlRegistrySwapsRank", r, spec)
	}
	if r := fxLoadRegistry(c, core.ControlPkg, "okRegistrySwitch"); r != nil {
		spec := map[string]string{"RANK": "Rank", "DENSE_RANK": "DenseRank", "ROW_NUMBER": "RowNumber"}
		fxCompareRegistry(c, core.ControlPkg+".okRegistrySwitch", r, spec)
	}
}
