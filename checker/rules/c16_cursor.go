package rules

import (
	"fmt"
	"go/token"
	"go/types"
	"sort"
	"strings"

	"golang.org/x/tools/go/ssa"

	"verif/checker/core"
)

// C16 — cursor snapshot and positioning.
//
//	R-CUR-1  who may write Cursor.view, and from what; only Open reaches Select
//	R-CUR-2  closed-cursor guards: no dereference of a nil view; Open refuses an open cursor
//	R-CUR-4  WHILE … IN cursor fetches NEXT, and NEXT means index+1 (fetch-position table)
//	R-CUR-5  Open/Close state stores on every (successful) path
//
// The rules are written against a "cursor type": lib/query.Cursor, plus the
// control types of the overlay package (the field `view` is unexported, so the
// controls bring their own struct with the same field and method names).

func init() {
	Register(&Rule{ID: "R-CUR-1", Props: []string{"C16"}, Floor: 9,
		Doc:      "Cursor.view is stored only by Open (the result of a Select call), by Close (nil) and by constructors into a fresh Cursor (a fresh NewView); no other method of Cursor can reach Select in the call graph: a fetch never re-runs the query, the snapshot taken by OPEN is what FETCH reads",
		Controls: []string{"CtlCursor).Count", "CtlCursor).reload"},
		Run:      ruleCur1})
	Register(&Rule{ID: "R-CUR-2", Props: []string{"C16"}, Floor: 4,
		Doc:      "in every method of Cursor each dereference of the loaded c.view (field access, method call on it) is dominated by a test that showed this field non-nil; every store of a view in Open is dominated by the test that the cursor is closed, and the open branch of that test only reaches returns with a non-nil error",
		Controls: []string{"CtlCursor).Fetch", "CtlCursor).Open", "CtlUnguardedHelperCursor).last"},
		Run:      ruleCur2})
	Register(&Rule{ID: "R-CUR-4", Props: []string{"C16"}, Floor: 10,
		Doc:      "WhileInCursor passes a FetchPosition whose only initialised part is Position.Token = parser.NEXT; FetchCursor forwards that token (or the default NEXT) unchanged through ReferenceScope.FetchCursor and CursorMap.Fetch to Cursor.Fetch; Cursor.Fetch, evaluated for each fetch-position token, first stores index+1 for NEXT, index-1 for PRIOR, 0 for FIRST, RecordLen()-1 for LAST, number for ABSOLUTE and index+number for RELATIVE",
		Controls: []string{"CtlCursor).Fetch", "CtlMoveHelperCursor).move", "CtlSatCursor).Fetch"},
		Run:      ruleCur4})
	Register(&Rule{ID: "R-CUR-9", Props: []string{"C16"}, Floor: 1,
		Doc:      "in Cursor.Fetch (or the private helper that holds its position switch), evaluated for position RELATIVE, index + number is stored only on paths whose branch conditions — read as linear inequalities over index, number and RecordLen() — bound the sum from below and from above: the operand of FETCH RELATIVE is any int, an unguarded sum wraps around and a step far past one end parks the pointer at the other",
		Controls: []string{"CtlCursor).Fetch", "CtlMoveHelperCursor).move"},
		Run:      ruleCur9})
	Register(&Rule{ID: "R-CUR-5", Props: []string{"C16"}, Floor: 4,
		Doc:      "every path of Open that can return a nil error stores the new view, index = -1 and fetched = false; every path of Close that can return a nil error stores view = nil",
		Controls: []string{"CtlCursor).Open", "CtlCursor).Close"},
		Run:      ruleCur5})
}

type curType struct {
	named   *types.Named
	name    string // "lib/query.Cursor"
	control bool
	methods map[string]*ssa.Function
}

func (ct *curType) field(n string) string { return ct.name + "." + n }

// curTypes resolves lib/query.Cursor and the control cursor types.
func curTypes(c *Ctx) []*curType {
	var out []*curType
	add := func(short, name string, control bool) {
		t := c.P.Type(short, name)
		if t == nil {
			if !control {
				c.Unknown("anchor:"+short+"."+name, "-", "cannot-analyse: type "+short+"."+name+" not found")
			}
			return
		}
		nt, ok := t.(*types.Named)
		if !ok {
			return
		}
		st, ok := nt.Underlying().(*types.Struct)
		if !ok {
			return
		}
		has := map[string]bool{}
		for i := 0; i < st.NumFields(); i++ {
			has[st.Field(i).Name()] = true
		}
		if !has["view"] || !has["index"] || !has["fetched"] {
			if !control {
				c.Unknown("anchor:"+short+"."+name+" fields", "-", "cannot-analyse: "+name+" no longer has the fields view, index, fetched")
			}
			return
		}
		ct := &curType{named: nt, name: short + "." + name, control: control, methods: map[string]*ssa.Function{}}
		ms := types.NewMethodSet(types.NewPointer(nt))
		for i := 0; i < ms.Len(); i++ {
			mn := ms.At(i).Obj().Name()
			for _, pat := range []string{"%s.(*%s).%s", "%s.(%s).%s"} {
				if f := c.FnOpt(fmt.Sprintf(pat, short, name, mn)); f != nil {
					ct.methods[mn] = f
				}
			}
		}
		out = append(out, ct)
	}
	add("lib/query", "Cursor", false)
	if pk := c.P.ByPath[core.ControlPkg]; pk != nil {
		var names []string
		for _, n := range pk.Types.Scope().Names() {
			if _, ok := pk.Types.Scope().Lookup(n).(*types.TypeName); ok && strings.HasSuffix(n, "Cursor") {
				names = append(names, n)
			}
		}
		sort.Strings(names)
		for _, n := range names {
			add(core.ControlPkg, n, true)
		}
	}
	return out
}

func (ct *curType) method(c *Ctx, name string) *ssa.Function {
	if f := ct.methods[name]; f != nil {
		return f
	}
	if !ct.control {
		c.Unknown("anchor:"+ct.name+"."+name, "-", "cannot-analyse: method "+name+" of "+ct.name+" not found")
	}
	return nil
}

func (ct *curType) sortedMethods() []string {
	var ns []string
	for n := range ct.methods {
		ns = append(ns, n)
	}
	sort.Strings(ns)
	return ns
}

// curStoresToField lists the stores into <ct>.<field> in fn.
func curStoresToField(fn *ssa.Function, owner string) []*ssa.Store {
	var out []*ssa.Store
	for _, b := range fn.Blocks {
		for _, in := range b.Instrs {
			if st, ok := in.(*ssa.Store); ok {
				if fa, ok := st.Addr.(*ssa.FieldAddr); ok && core.FieldOwner(fa) == owner {
					out = append(out, st)
				}
			}
		}
	}
	return out
}

func curIsSelectFn(p *core.Prog) func(*ssa.Function) bool {
	return func(f *ssa.Function) bool { return p.FnRef(f) == "lib/query.Select" }
}

// curViewOrigin describes where a stored view comes from.
func curViewOrigin(c *Ctx, v ssa.Value) (kinds map[string]bool) {
	kinds = map[string]bool{}
	curViewOriginInto(c, v, kinds, 0)
	return kinds
}

// curViewOriginInto looks through Copy (a copy of a snapshot is a snapshot) and
// through csvq helpers that merely return what they obtained (result #0 of a
// helper is whatever its returns yield; its failure returns `nil, <non-nil
// error>` yield nothing).
func curViewOriginInto(c *Ctx, v ssa.Value, kinds map[string]bool, depth int) {
	p := c.P
	through := func(call *ssa.Call, idx int) bool {
		g := core.StaticCallee(call)
		if g == nil || g.Blocks == nil || depth >= 4 || p.FnRef(g) == "lib/query.Select" {
			return false
		}
		if !(p.InPkg(g, "lib/query") || p.IsControl(g)) || idx >= g.Signature.Results().Len() {
			return false
		}
		rets := core.Returns(g)
		if len(rets) == 0 {
			return false
		}
		errIdx := core.ErrorResultIndex(g)
		sub := map[string]bool{}
		for _, r := range rets {
			vals := core.ReturnOperand(r, idx)
			for _, rv := range vals {
				if rv == nil {
					sub["nil"] = true
					continue
				}
				if core.IsNilConst(rv) && errIdx >= 0 && errIdx != idx {
					failure := true
					for _, ev := range core.ReturnOperand(r, errIdx) {
						if ev == nil || curErrKind(c, ev, r) != core.NonNil {
							failure = false
						}
					}
					if failure {
						continue // `return nil, err`: the caller does not get a view on this path
					}
				}
				curViewOriginInto(c, rv, sub, depth+1)
			}
		}
		// only pure forwarders are looked through: a helper that builds or loads
		// the view itself stays the origin
		for k := range sub {
			if strings.HasPrefix(k, "other:") {
				return false
			}
		}
		for k := range sub {
			kinds[k] = true
		}
		return true
	}
	for _, o := range core.Origins(v, false) {
		switch x := o.(type) {
		case *ssa.Const:
			if x.Value == nil {
				kinds["nil"] = true
				continue
			}
		case *ssa.Extract:
			if call, ok := x.Tuple.(*ssa.Call); ok {
				if through(call, x.Index) {
					continue
				}
				if x.Index == 0 {
					kinds["call:"+p.CalleeName(call)] = true
					continue
				}
			}
		case *ssa.Call:
			// a copy of a snapshot is a snapshot
			if p.CalleeName(x) == "lib/query.(*View).Copy" && len(x.Call.Args) == 1 && depth < 4 {
				curViewOriginInto(c, x.Call.Args[0], kinds, depth+1)
				continue
			}
			if _, isTuple := x.Type().(*types.Tuple); !isTuple && through(x, 0) {
				continue
			}
			kinds["call:"+p.CalleeName(x)] = true
			continue
		}
		kinds["other:"+valueLabel(o)] = true
	}
}

// curOpenHelpers: methods of the cursor type whose every caller (in the call
// graph) is Open or another such helper — they are part of Open.
func curOpenHelpers(c *Ctx, ct *curType) map[*ssa.Function]bool {
	helpers := map[*ssa.Function]bool{}
	open := ct.methods["Open"]
	if open == nil {
		return helpers
	}
	outer := func(f *ssa.Function) *ssa.Function {
		for f != nil && f.Parent() != nil {
			f = f.Parent()
		}
		return f
	}
	for changed := true; changed; {
		changed = false
		for _, mn := range ct.sortedMethods() {
			fn := ct.methods[mn]
			if fn == open || helpers[fn] {
				continue
			}
			edges := scpCallers(c, fn, true)
			n, all := 0, true
			for _, e := range edges {
				caller := outer(e.Caller.Func)
				if caller == fn {
					continue
				}
				n++
				if caller != open && !helpers[caller] {
					all = false
				}
			}
			if n > 0 && all {
				helpers[fn] = true
				changed = true
			}
		}
	}
	return helpers
}

func curKindList(k map[string]bool) string {
	var out []string
	for n := range k {
		out = append(out, n)
	}
	sort.Strings(out)
	return strings.Join(out, ", ")
}

func ruleCur1(c *Ctx) {
	start := len(c.Obs)
	defer func() { c.negControls(start, "OkCursor).Open", "OkCursor).selectView") }()
	cts := curTypes(c)
	for _, ct := range cts {
		owner := ct.field("view")
		open, closeFn := ct.methods["Open"], ct.methods["Close"]
		helpers := curOpenHelpers(c, ct)
		for _, fn := range c.P.SrcFuncs() {
			sts := curStoresToField(fn, owner)
			for i, st := range sts {
				c.Touch(fn)
				key := c.KeyAt(fn, fmt.Sprintf("store #%d to %s", i+1, owner))
				kinds := curViewOrigin(c, st.Val)
				base := st.Addr.(*ssa.FieldAddr).X
				_, fresh := base.(*ssa.Alloc)
				switch {
				case fn == open:
					if len(kinds) == 1 && kinds["call:lib/query.Select"] {
						c.Ok(key, c.Pos(st), "Open stores the result of Select")
					} else {
						c.Bad(key, c.Pos(st), "Open stores a view that is not (only) the result of a Select call: "+curKindList(kinds)+" — the cursor would not read a snapshot of its own query")
					}
				case fn == closeFn:
					c.Check(len(kinds) == 1 && kinds["nil"], key, c.Pos(st), "Close stores nil", "Close stores something other than nil into view: "+curKindList(kinds))
				case fresh && fn.Parent() == nil:
					if (len(kinds) == 1 && (kinds["call:lib/query.NewView"] || kinds["nil"])) || (len(kinds) == 2 && kinds["call:lib/query.NewView"] && kinds["nil"]) {
						c.Ok(key, c.Pos(st), "constructor: a fresh view into a fresh cursor")
					} else {
						c.Bad(key, c.Pos(st), "a constructor puts a view into a new cursor that is not a fresh NewView(): "+curKindList(kinds)+" — the cursor would share its rows with whoever owns that view")
					}
				default:
					c.Bad(key, c.Pos(st), fmt.Sprintf("%s writes %s; only Open, Close and the constructors may: the rows a cursor iterates over must be the snapshot taken by OPEN until CLOSE", c.P.Name(fn), owner))
				}
			}
		}
		for _, mn := range ct.sortedMethods() {
			fn := ct.methods[mn]
			if fn == open {
				continue
			}
			c.Touch(fn)
			key := c.KeyAt(fn, "cannot reach Select")
			if helpers[fn] {
				c.Ok(key, c.FnPos(fn), "every caller of this method is Open (or another helper of Open): it is part of Open")
				continue
			}
			c.Check(!c.P.FnReaches(fn, curIsSelectFn(c.P)), key, c.FnPos(fn), "Select is not reachable in the call graph", fmt.Sprintf("%s can reach Select: the cursor's rows could be recomputed after OPEN (rows fetched so far and rows to come would belong to different snapshots)", c.P.Name(fn)))
		}
		if open == nil && !ct.control {
			ct.method(c, "Open")
		}
		if closeFn == nil && !ct.control {
			ct.method(c, "Close")
		}
	}
}

// curViewLoads lists the loads of <recv>.view in fn.
func curViewLoads(fn *ssa.Function, owner string) []*ssa.UnOp {
	var out []*ssa.UnOp
	for _, b := range fn.Blocks {
		for _, in := range b.Instrs {
			if u, ok := in.(*ssa.UnOp); ok && u.Op == token.MUL {
				if fa, ok := u.X.(*ssa.FieldAddr); ok && core.FieldOwner(fa) == owner {
					out = append(out, u)
				}
			}
		}
	}
	return out
}

func ruleCur2(c *Ctx) {
	start := len(c.Obs)
	for _, ct := range curTypes(c) {
		owner := ct.field("view")
		for _, mn := range ct.sortedMethods() {
			fn := ct.methods[mn]
			n := 0
			var firstBad ssa.Instruction
			var firstPos ssa.Instruction
			for _, ld := range curViewLoads(fn, owner) {
				for _, r := range *ld.Referrers() {
					deref := false
					switch x := r.(type) {
					case *ssa.FieldAddr:
						deref = x.X == ssa.Value(ld)
					case *ssa.Field:
						deref = x.X == ssa.Value(ld)
					case *ssa.UnOp:
						deref = x.Op == token.MUL && x.X == ssa.Value(ld)
					case ssa.CallInstruction:
						com := x.Common()
						if com.IsInvoke() {
							deref = com.Value == ssa.Value(ld)
						} else if f := com.StaticCallee(); f != nil && f.Signature.Recv() != nil && len(com.Args) > 0 && com.Args[0] == ssa.Value(ld) {
							deref = true
						}
					}
					if !deref {
						continue
					}
					n++
					if firstPos == nil {
						firstPos = r
					}
					if !core.NonNilAt(ld, r) && firstBad == nil {
						firstBad = r
					}
				}
			}
			if n == 0 {
				continue
			}
			c.Touch(fn)
			c.Sites += n
			key := c.KeyAt(fn, "dereferences of c.view are guarded")
			if firstBad != nil {
				if ok, why := curGuardedHelper(c, ct, fn, 0); ok {
					c.Ok(key, c.Pos(firstPos), fmt.Sprintf("%d dereference(s) in a private helper: %s", n, why))
					continue
				}
				c.Bad(key, c.Pos(firstBad), fmt.Sprintf("%s dereferences c.view at %s without a dominating test that it is non-nil: on a cursor that is declared but not open (or was closed) this is a nil dereference — an internal Fatal Error instead of the 'cursor is closed' error", c.P.Name(fn), c.Pos(firstBad)))
			} else {
				c.Ok(key, c.Pos(firstPos), fmt.Sprintf("%d dereference(s), each dominated by the c.view != nil side of a test of the same field", n))
			}
		}
		// Open refuses an open cursor
		open := ct.method(c, "Open")
		if open == nil {
			continue
		}
		c.Touch(open)
		key := c.KeyAt(open, "refuses an open cursor before assigning")
		sts := curStoresToField(open, owner)
		if len(sts) == 0 {
			c.Unknown(key, c.FnPos(open), "Open stores no view")
			continue
		}
		var guard *ssa.If
		bad := ""
		for _, st := range sts {
			ok := false
			for _, f := range core.FactsAt(st.Block()) {
				x, neq, isCmp := core.NilCmp(f.Cond)
				if !isCmp {
					continue
				}
				a := core.Addr(x)
				if a == nil || !core.SameAddr(a, st.Addr) {
					continue
				}
				if holdsNil := neq == f.Neg; holdsNil {
					ok = true
					guard = f.If
				}
			}
			if !ok {
				bad = fmt.Sprintf("the store of the new view at %s is not dominated by a test that c.view is nil: OPEN on an open cursor silently replaces the rows (and resets the position) of a cursor that is being fetched", c.Pos(st))
			}
		}
		if bad == "" && guard != nil {
			// the "already open" edge must end in an error
			x, neq, _ := core.NilCmp(guard.Cond)
			_ = x
			gb := guard.Block()
			openEdge := gb.Succs[1]
			if neq {
				openEdge = gb.Succs[0]
			}
			errIdx := core.ErrorResultIndex(open)
			region := core.RegionFrom(openEdge)
			rets := 0
			for _, r := range core.Returns(open) {
				if !region[r.Block()] || errIdx < 0 {
					continue
				}
				// only returns that are not reachable from the closed edge as well
				rets++
				for _, v := range core.ValuesOnPathsFrom(gb, openEdge, r.Results[errIdx], r) {
					if curErrKind(c, v, r) != core.NonNil {
						bad = fmt.Sprintf("when the cursor is already open the return at %s can yield a nil error: the statement reports success although nothing was opened", c.Pos(r))
					}
				}
			}
			if rets == 0 {
				bad = "the already-open branch reaches no return"
			}
		}
		if bad != "" {
			c.Bad(key, c.FnPos(open), bad)
		} else {
			c.Ok(key, c.Pos(guard), "every store of the view is dominated by c.view == nil; the other branch returns a constructed error")
		}
	}
	c.negControls(start, "OkCursor).Fetch", "OkCursor).Open", "OkMoveHelperCursor).move", "OkMoveHelperCursor).Fetch")
}

// curGuardedHelper: fn is a method of the cursor type that is only called from
// methods of the same cursor, on the caller's own receiver, at sites where the
// caller has shown its c.view non-nil (a dominating test of the same field with
// no store to the field in between) — or from another such helper.
func curGuardedHelper(c *Ctx, ct *curType, fn *ssa.Function, depth int) (bool, string) {
	if depth > 2 || len(fn.Params) == 0 {
		return false, ""
	}
	isMethod := map[*ssa.Function]bool{}
	for _, m := range ct.methods {
		isMethod[m] = true
	}
	owner := ct.field("view")
	n := 0
	var callers []string
	for _, e := range scpCallers(c, fn, true) {
		caller := e.Caller.Func
		if caller == fn {
			continue
		}
		n++
		site := e.Site.(ssa.Instruction)
		args := e.Site.Common().Args
		if !isMethod[caller] || len(caller.Params) == 0 || len(args) == 0 || scpResolveCell(args[0]) != ssa.Value(caller.Params[0]) {
			return false, ""
		}
		guarded := false
		for _, f := range core.FactsAt(site.Block()) {
			x, neq, isCmp := core.NilCmp(f.Cond)
			if !isCmp || neq == f.Neg {
				continue // not a "non-nil" fact
			}
			ld, ok := x.(*ssa.UnOp)
			if !ok || ld.Op != token.MUL {
				continue
			}
			fa, ok := ld.X.(*ssa.FieldAddr)
			if !ok || core.FieldOwner(fa) != owner || scpResolveCell(fa.X) != ssa.Value(caller.Params[0]) {
				continue
			}
			// no store to the field between the test and the call
			clean := true
			for _, st := range curStoresToField(caller, owner) {
				if core.Reachable(ld, st, nil) && core.Reachable(st, site, nil) {
					clean = false
				}
			}
			if clean {
				guarded = true
			}
		}
		if !guarded {
			if ok, _ := curGuardedHelper(c, ct, caller, depth+1); !ok {
				return false, ""
			}
		}
		callers = append(callers, caller.Name())
	}
	if n == 0 {
		return false, ""
	}
	sort.Strings(callers)
	return true, fmt.Sprintf("every call site (%s) passes the caller's own cursor and is dominated by the caller's c.view != nil test", strings.Join(callers, ", "))
}

// ---------------------------------------------------------------------------
// R-CUR-5 must-store

func ruleCur5(c *Ctx) {
	start := len(c.Obs)
	for _, ct := range curTypes(c) {
		for _, spec := range []struct {
			method string
			fields []string
			want   map[string]func(v ssa.Value) bool
			desc   map[string]string
		}{
			{"Open", []string{"view", "index", "fetched"}, map[string]func(v ssa.Value) bool{
				"view":    func(v ssa.Value) bool { return !core.IsNilConst(v) },
				"index":   func(v ssa.Value) bool { n, ok := core.ConstInt(v); return ok && n == -1 },
				"fetched": func(v ssa.Value) bool { b, ok := core.ConstBool(v); return ok && !b },
			}, map[string]string{"view": "the new view", "index": "-1", "fetched": "false"}},
			{"Close", []string{"view"}, map[string]func(v ssa.Value) bool{
				"view": func(v ssa.Value) bool { return core.IsNilConst(v) },
			}, map[string]string{"view": "nil"}},
		} {
			fn := ct.method(c, spec.method)
			if fn == nil {
				continue
			}
			c.Touch(fn)
			errIdx := core.ErrorResultIndex(fn)
			var succ []*ssa.Return
			for _, r := range core.Returns(fn) {
				if errIdx < 0 {
					succ = append(succ, r)
					continue
				}
				mayNil := false
				for _, v := range core.ReturnOperand(r, errIdx) {
					if v == nil || curErrKind(c, v, r) != core.NonNil {
						mayNil = true
					}
				}
				if mayNil {
					succ = append(succ, r)
				}
			}
			for _, f := range spec.fields {
				key := c.KeyAt(fn, fmt.Sprintf("success path stores %s = %s", f, spec.desc[f]))
				if len(succ) == 0 {
					c.Unknown(key, c.FnPos(fn), "no return with a possibly-nil error")
					continue
				}
				owner := ct.field(f)
				good := map[ssa.Instruction]bool{}
				for _, st := range curStoresToField(fn, owner) {
					if spec.want[f](st.Val) {
						good[st] = true
					}
				}
				bad := ""
				for _, r := range succ {
					if core.ReachesAvoiding(fn, r, func(in ssa.Instruction) bool { return good[in] }) {
						if spec.method == "Open" {
							bad = fmt.Sprintf("the successful return at %s is reachable without storing %s = %s: a re-opened cursor would keep the %s of its previous life (FETCH continues where the old cursor stopped / reads the old rows)", c.Pos(r), f, spec.desc[f], f)
						} else {
							bad = fmt.Sprintf("the successful return at %s is reachable without storing view = nil: the cursor stays open after CLOSE, keeps its rows alive and cannot be opened again", c.Pos(r))
						}
						break
					}
					// the wanted store must also be the last one before the return
					for _, st := range curStoresToField(fn, owner) {
						if !good[st] && core.Reachable(st, r, func(in ssa.Instruction) bool { return good[in] }) {
							bad = fmt.Sprintf("after the store at %s the return at %s is reachable without %s being set to %s again", c.Pos(st), c.Pos(r), f, spec.desc[f])
						}
					}
				}
				if bad != "" {
					c.Bad(key, c.FnPos(fn), bad)
				} else {
					c.Ok(key, c.FnPos(fn), fmt.Sprintf("%d successful return(s), each preceded by the store on every path", len(succ)))
				}
			}
		}
	}
	c.negControls(start, "OkCursor).Open", "OkCursor).Close")
}

// ---------------------------------------------------------------------------
// R-CUR-4 WHILE … IN fetches NEXT; the fetch-position table

func curParserConst(c *Ctx, name string) (int64, bool) {
	pk := c.P.ByPath["lib/parser"]
	if pk == nil {
		return 0, false
	}
	k, ok := pk.Types.Scope().Lookup(name).(*types.Const)
	if !ok {
		return 0, false
	}
	return scpConstInt64(k)
}

// curFieldPath returns the root address and the field names selected from it.
func curFieldPath(addr ssa.Value) (root ssa.Value, path []string) {
	for {
		fa, ok := addr.(*ssa.FieldAddr)
		if !ok {
			return addr, path
		}
		path = append([]string{core.FieldName(fa)}, path...)
		addr = fa.X
	}
}

// curSubStores collects the stores into al or any field path below it; ok=false
// when the address escapes otherwise.
func curSubStores(al *ssa.Alloc) (stores map[string][]ssa.Value, ok bool) {
	stores = map[string][]ssa.Value{}
	ok = true
	var visit func(a ssa.Value, path string)
	visit = func(a ssa.Value, path string) {
		for _, r := range *a.Referrers() {
			switch x := r.(type) {
			case *ssa.FieldAddr:
				visit(x, strings.TrimPrefix(path+"."+core.FieldName(x), "."))
			case *ssa.Store:
				if x.Addr == a {
					stores[path] = append(stores[path], x.Val)
				} else {
					ok = false
				}
			case *ssa.UnOp, *ssa.DebugRef:
			default:
				ok = false
			}
		}
	}
	visit(al, "")
	return
}

func ruleCur4(c *Ctx) {
	start := len(c.Obs)
	defer func() { c.negControls(start, "OkMoveHelperCursor).move", "OkCursor).Fetch", "OkSatCursor).Fetch") }()
	next, okN := curParserConst(c, "NEXT")
	if !okN {
		c.Unknown("anchor:lib/parser.NEXT", "-", "cannot-analyse: parser.NEXT is not a constant")
		return
	}
	wic := c.Fn("lib/query.(*Processor).WhileInCursor")
	fc := c.Fn("lib/query.FetchCursor")
	if wic == nil || fc == nil {
		return
	}
	// (a) WhileInCursor → FetchCursor with {Position.Token: NEXT}
	calls := c.P.CallsNamed(wic, "lib/query.FetchCursor")
	if len(calls) == 0 {
		c.Unknown(c.KeyAt(wic, "fetch"), c.FnPos(wic), "cannot-analyse: WhileInCursor does not call FetchCursor")
	}
	posParam := -1
	for i, p := range fc.Params {
		if core.NamedOf(p.Type()) == "lib/parser.FetchPosition" {
			posParam = i
		}
	}
	for i, call := range calls {
		key := c.KeyAt(wic, fmt.Sprintf("FetchCursor #%d is called with position NEXT", i+1))
		in := call.(ssa.Instruction)
		if posParam < 0 || posParam >= len(call.Common().Args) {
			c.Unknown(key, c.Pos(in), "FetchCursor has no parser.FetchPosition parameter")
			continue
		}
		arg := call.Common().Args[posParam]
		ld, ok := arg.(*ssa.UnOp)
		al, ok2 := (ssa.Value)(nil), false
		if ok && ld.Op == token.MUL {
			al, ok2 = ld.X.(*ssa.Alloc)
		}
		if !ok2 {
			c.Bad(key, c.Pos(in), "the fetch position is not a local constant of WhileInCursor ("+valueLabel(arg)+"): the loop may step in a direction chosen elsewhere")
			continue
		}
		stores, complete := curSubStores(al.(*ssa.Alloc))
		bad := ""
		if !complete {
			bad = "the address of the fetch position escapes"
		}
		var paths []string
		for path := range stores {
			paths = append(paths, path)
		}
		sort.Strings(paths)
		for _, path := range paths {
			vals := stores[path]
			for _, v := range vals {
				n, isInt := core.ConstInt(v)
				switch {
				case path == "Position.Token" && isInt && n == next:
				case path == "Position.Token":
					bad = fmt.Sprintf("Position.Token is set to %s, not to parser.NEXT: the loop does not advance row by row to the end (it repeats a row, runs backwards or never terminates)", valueLabel(v))
				case path == "Number" && !core.IsNilConst(v):
					bad = "a Number is set on the loop's fetch position"
				case path == "Position.Literal" || path == "Position.Line" || path == "Position.Char" || path == "Position.SourceFile" || path == "BaseExpr" || path == "Number":
				default:
					bad = "the fetch position is built in an unrecognised way (store to " + path + ")"
				}
			}
		}
		if len(stores["Position.Token"]) == 0 && bad == "" {
			// the zero Token is "empty": FetchCursor defaults to NEXT (checked below)
			c.Ok(key, c.Pos(in), "the position is left empty, FetchCursor's default applies")
			continue
		}
		if bad != "" {
			c.Bad(key, c.Pos(in), bad)
		} else {
			c.Ok(key, c.Pos(in), "FetchPosition{Position: Token{Token: parser.NEXT}} and nothing else")
		}
	}
	// (b) FetchCursor forwards the token (default NEXT)
	type hop struct {
		fn  *ssa.Function
		idx int
	}
	var cur []hop
	{
		key := c.KeyAt(fc, "forwards Position.Token (default NEXT)")
		var fwd ssa.CallInstruction
		for _, call := range core.Calls(fc) {
			f := core.StaticCallee(call)
			if f == nil || f.Signature.Recv() == nil || !scpIsPtrTo(f.Signature.Recv().Type(), scpTRefScope) {
				continue
			}
			for j, a := range call.Common().Args {
				if b, ok := a.Type().Underlying().(*types.Basic); !ok || b.Kind() != types.Int {
					continue
				}
				okAll, any := true, false
				for _, o := range core.Origins(a, false) {
					if n, isInt := core.ConstInt(o); isInt {
						okAll = okAll && n == next
						any = any || n == next
						continue
					}
					if u, ok := o.(*ssa.UnOp); ok && u.Op == token.MUL {
						root, path := curFieldPath(u.X)
						if al, ok := root.(*ssa.Alloc); ok && strings.Join(path, ".") == "Position.Token" {
							if curHoldsParam(al, fc.Params[posParam]) {
								any = true
								continue
							}
						}
					}
					okAll = false
				}
				if any {
					fwd = call
					if okAll {
						c.Ok(key, c.Pos(call.(ssa.Instruction)), "argument #"+fmt.Sprint(j)+" of "+f.Name()+" is fetchPosition.Position.Token or the constant NEXT")
						cur = []hop{{f, j}}
					} else {
						c.Bad(key, c.Pos(call.(ssa.Instruction)), "the position handed to "+f.Name()+" can be something other than the requested token or parser.NEXT")
					}
				}
			}
		}
		if fwd == nil {
			c.Unknown(key, c.FnPos(fc), "cannot-analyse: FetchCursor does not hand a position to a *ReferenceScope method")
		}
	}
	// (c) the parameter is forwarded unchanged down to the cursor's Fetch
	cts := curTypes(c)
	fetchOf := map[*ssa.Function]*curType{}
	for _, ct := range cts {
		if f := ct.methods["Fetch"]; f != nil {
			fetchOf[f] = ct
		}
	}
	type target struct {
		fn  *ssa.Function
		idx int
		ct  *curType
	}
	var targets []target
	for depth := 0; depth < 5 && len(cur) > 0; depth++ {
		var nxt []hop
		for _, h := range cur {
			if ct, ok := fetchOf[h.fn]; ok {
				targets = append(targets, target{h.fn, h.idx, ct})
				continue
			}
			if h.fn.Blocks == nil || h.idx >= len(h.fn.Params) {
				continue
			}
			prm := h.fn.Params[h.idx]
			key := c.KeyAt(h.fn, "forwards the fetch position unchanged")
			n := 0
			// calls in the function and in its closures (a captured parameter is read
			// through its cell)
			var scan func(f *ssa.Function, depth int)
			scan = func(f *ssa.Function, depth int) {
				for _, call := range core.Calls(f) {
					g := core.StaticCallee(call)
					if g == nil {
						continue
					}
					if _, isClosure := call.Common().Value.(*ssa.MakeClosure); isClosure {
						continue
					}
					for j, a := range call.Common().Args {
						if a == ssa.Value(prm) || scpResolveCell(a) == ssa.Value(prm) {
							n++
							nxt = append(nxt, hop{g, j})
						}
					}
				}
				if depth < 2 {
					for _, af := range f.AnonFuncs {
						scan(af, depth+1)
					}
				}
			}
			scan(h.fn, 0)
			c.Touch(h.fn)
			if n == 0 {
				c.Bad(key, c.FnPos(h.fn), "the position parameter is not passed on as it is")
			} else {
				c.Ok(key, c.FnPos(h.fn), fmt.Sprintf("parameter %s is passed on unchanged (%d call(s))", prm.Name(), n))
			}
		}
		cur = nxt
	}
	// control cursor types are evaluated directly (first int parameter)
	for _, ct := range cts {
		if !ct.control {
			continue
		}
		if f := ct.methods["Fetch"]; f != nil {
			for i, p := range f.Params {
				if b, ok := p.Type().Underlying().(*types.Basic); ok && b.Kind() == types.Int {
					targets = append(targets, target{f, i, ct})
					break
				}
			}
		}
	}
	realTarget := false
	for _, t := range targets {
		if !t.ct.control {
			realTarget = true
		}
		curFetchTable(c, t.fn, t.idx, t.ct)
	}
	if !realTarget {
		c.Unknown("anchor:Cursor.Fetch via FetchCursor", "-", "cannot-analyse: the position of FetchCursor is not forwarded to (*Cursor).Fetch")
	}
}

// R-CUR-9 (written after be64c59, DESIGN §4 D58): the RELATIVE move cannot wrap.
func ruleCur9(c *Ctx) {
	start := len(c.Obs)
	defer func() { c.negControls(start, "OkSatCursor).Fetch") }()
	real := false
	for _, ct := range curTypes(c) {
		f := ct.methods["Fetch"]
		if f == nil || f.Blocks == nil {
			continue
		}
		// the position is the first int parameter, the number the second
		for i, p := range f.Params {
			if b, ok := p.Type().Underlying().(*types.Basic); ok && b.Kind() == types.Int {
				if !ct.control {
					real = true
				}
				curFetchTableIn(c, f, i, ct, 0, true)
				break
			}
		}
	}
	if !real {
		c.Unknown("anchor:lib/query.(*Cursor).Fetch", "-", "cannot-analyse: (*Cursor).Fetch with an int position parameter not found")
	}
}

func curHoldsParam(al *ssa.Alloc, prm *ssa.Parameter) bool {
	n, good := 0, true
	for _, r := range *al.Referrers() {
		if st, ok := r.(*ssa.Store); ok && st.Addr == al {
			n++
			good = good && st.Val == ssa.Value(prm)
		}
	}
	return n == 1 && good
}

// curFetchTable evaluates Cursor.Fetch for every fetch-position token.
func curFetchTable(c *Ctx, fn *ssa.Function, idx int, ct *curType) {
	curFetchTableIn(c, fn, idx, ct, 0, false)
}

// wrapOnly = R-CUR-9: only the RELATIVE arm is evaluated, and the obligation is
// that index + number is computed only on paths whose branch conditions bound the
// sum on both sides (it cannot wrap around).
func curFetchTableIn(c *Ctx, fn *ssa.Function, idx int, ct *curType, depth int, wrapOnly bool) {
	c.Touch(fn)
	pos := fn.Params[idx]
	// the position switch may live in a private helper of the cursor: a call of a
	// cursor method on the same receiver that receives the position, executed
	// before any index store of this function
	if depth < 2 {
		for _, call := range core.Calls(fn) {
			g := core.StaticCallee(call)
			cv, isCall := call.(*ssa.Call)
			args := call.Common().Args
			if g == nil || !isCall || g.Blocks == nil || len(args) == 0 || len(fn.Params) == 0 || scpResolveCell(args[0]) != ssa.Value(fn.Params[0]) {
				continue
			}
			isMethod := false
			for _, m := range ct.methods {
				if m == g {
					isMethod = true
				}
			}
			if !isMethod {
				continue
			}
			for j, a := range args {
				if a != ssa.Value(pos) {
					continue
				}
				// every index store of fn comes after the call
				first := true
				for _, st := range curStoresToField(fn, ct.field("index")) {
					if !core.Dominates(cv, st) {
						first = false
					}
				}
				if !first {
					continue
				}
				if !wrapOnly {
					c.Ok(c.KeyAt(fn, "hands the fetch position to "+g.Name()), c.Pos(cv), "the first move of the pointer is made by "+c.P.Name(g)+", called before any index store of this function")
				}
				curFetchTableIn(c, g, j, ct, depth+1, wrapOnly)
				return
			}
		}
	}
	var number ssa.Value
	for i, p := range fn.Params {
		if b, ok := p.Type().Underlying().(*types.Basic); ok && b.Kind() == types.Int && i != idx {
			number = p
		}
	}
	owner := ct.field("index")
	isIndexLoad := func(v ssa.Value) bool {
		u, ok := v.(*ssa.UnOp)
		if !ok || u.Op != token.MUL {
			return false
		}
		fa, ok := u.X.(*ssa.FieldAddr)
		return ok && core.FieldOwner(fa) == owner
	}
	isRecordLen := func(v ssa.Value) bool {
		call, ok := v.(*ssa.Call)
		if !ok || len(call.Call.Args) == 0 {
			return false
		}
		if f := core.StaticCallee(call); f == nil || f.Name() != "RecordLen" {
			return false
		}
		u, ok := call.Call.Args[0].(*ssa.UnOp)
		if !ok {
			return false
		}
		fa, ok := u.X.(*ssa.FieldAddr)
		return ok && core.FieldOwner(fa) == ct.field("view")
	}
	type row struct {
		name  string
		check func(v ssa.Value) bool
		want  string
	}
	lin := func(pred func(ssa.Value) bool, off int64) func(v ssa.Value) bool {
		return func(v ssa.Value) bool {
			b, o := core.LinearIndex(v)
			return b != nil && pred(b) && o == off
		}
	}
	rows := []row{
		{"NEXT", lin(isIndexLoad, 1), "index + 1"},
		{"PRIOR", lin(isIndexLoad, -1), "index - 1"},
		{"FIRST", func(v ssa.Value) bool { n, ok := core.ConstInt(v); return ok && n == 0 }, "0"},
		{"LAST", lin(isRecordLen, -1), "RecordLen() - 1"},
		{"ABSOLUTE", func(v ssa.Value) bool { return number != nil && v == number }, "number"},
		{"RELATIVE", func(v ssa.Value) bool {
			b, ok := v.(*ssa.BinOp)
			return ok && b.Op == token.ADD && number != nil && ((isIndexLoad(b.X) && b.Y == number) || (isIndexLoad(b.Y) && b.X == number))
		}, "index + number"},
	}
	for _, r := range rows {
		tok, ok := curParserConst(c, r.name)
		key := c.KeyAt(fn, "position "+r.name+" moves to "+r.want)
		if wrapOnly {
			if r.name != "RELATIVE" {
				continue
			}
			key = c.KeyAt(fn, "position RELATIVE: index + number cannot wrap around")
		}
		if !ok {
			c.Unknown(key, c.FnPos(fn), "parser."+r.name+" is not a constant")
			continue
		}
		e := &scpFlowEval{assume: map[ssa.Value]int64{pos: tok}, nilness: map[ssa.Value]bool{}, stop: map[*ssa.BasicBlock]bool{}}
		paths := e.run(fn.Blocks[0], 0, scpNewFlowState())
		if e.over {
			c.Unknown(key, c.FnPos(fn), "too many paths")
			continue
		}
		n, bad := 0, ""
		exact, saturated := 0, 0
		var at ssa.Instruction
		if wrapOnly {
			unbounded := ""
			for _, p := range paths {
				for _, st := range p.stores {
					fa, ok := st.Addr.(*ssa.FieldAddr)
					if !ok || core.FieldOwner(fa) != owner {
						continue
					}
					if r.check(st.Val) {
						n++
						at = st
						lo, hi := curSumBounded(p.facts, isIndexLoad, isRecordLen, number)
						switch {
						case !lo && !hi:
							unbounded = "neither end"
						case !hi && unbounded == "":
							unbounded = "the upper end"
						case !lo && unbounded == "":
							unbounded = "the lower end"
						}
					}
					break
				}
			}
			switch {
			case n == 0:
				c.Ok(key, c.FnPos(fn), "no path computes index + number")
			case unbounded != "":
				c.Bad(key, c.Pos(at), "index + number is stored on a path whose branch conditions bound "+unbounded+" of the sum: number is the user's FETCH RELATIVE operand (any int), so the sum wraps around and a step far past the last row parks the pointer before the first one (and vice versa): the following PRIOR / NEXT fetch returns the wrong row")
			default:
				c.OkN(key, c.Pos(at), fmt.Sprintf("%d path(s) store index + number, each behind branch conditions that bound the sum below and above", n), n)
			}
			continue
		}
		for _, p := range paths {
			for _, st := range p.stores {
				fa, ok := st.Addr.(*ssa.FieldAddr)
				if !ok || core.FieldOwner(fa) != owner {
					continue
				}
				n++
				at = st
				if r.name == "RELATIVE" && !r.check(st.Val) {
					// a saturated move: the boundary is stored instead of index + number on a
					// path whose conditions imply that index + number lies beyond that boundary
					if why := curSaturated(st.Val, p.facts, isIndexLoad, isRecordLen, number); why != "" {
						saturated++
						break
					}
				}
				if r.check(st.Val) {
					exact++
				}
				if !r.check(st.Val) {
					bad = fmt.Sprintf("for position %s the first store to the cursor index (at %s) is not %s: FETCH %s lands on the wrong row", r.name, c.Pos(st), r.want, r.name)
				}
				break
			}
		}
		switch {
		case n == 0:
			c.Bad(key, c.FnPos(fn), "for position "+r.name+" no path moves the cursor index")
		case bad != "":
			c.Bad(key, c.Pos(at), bad)
		case exact == 0:
			c.Bad(key, c.Pos(at), "for position "+r.name+" no path stores "+r.want+": every path parks the pointer on a boundary")
		case saturated > 0:
			c.OkN(key, c.Pos(at), fmt.Sprintf("%d path(s) evaluated: %d store %s, %d store the boundary that %s is proved to lie beyond (saturated move)", len(paths), exact, r.want, saturated, r.want), len(paths))
		default:
			c.OkN(key, c.Pos(at), fmt.Sprintf("%d path(s) evaluated, the first index store on each is %s", len(paths), r.want), len(paths))
		}
	}
}

// curLin is i·index + n·number + r·RecordLen() + k.
type curLin struct {
	i, n, r, k int64
}

func curLinSub(a, b curLin) curLin { return curLin{a.i - b.i, a.n - b.n, a.r - b.r, a.k - b.k} }

func curLinNorm(v ssa.Value, depth int, isIndexLoad, isRecordLen func(ssa.Value) bool, number ssa.Value) (curLin, bool) {
	if depth > 8 {
		return curLin{}, false
	}
	if k, ok := core.ConstInt(v); ok {
		return curLin{k: k}, true
	}
	switch {
	case number != nil && v == number:
		return curLin{n: 1}, true
	case isIndexLoad(v):
		return curLin{i: 1}, true
	case isRecordLen(v):
		return curLin{r: 1}, true
	}
	b, ok := v.(*ssa.BinOp)
	if !ok || (b.Op != token.ADD && b.Op != token.SUB) {
		return curLin{}, false
	}
	x, ok1 := curLinNorm(b.X, depth+1, isIndexLoad, isRecordLen, number)
	y, ok2 := curLinNorm(b.Y, depth+1, isIndexLoad, isRecordLen, number)
	if !ok1 || !ok2 {
		return curLin{}, false
	}
	if b.Op == token.SUB {
		y = curLin{-y.i, -y.n, -y.r, -y.k}
	}
	return curLin{x.i + y.i, x.n + y.n, x.r + y.r, x.k + y.k}, true
}

// curFactLin reads a branch fact as the linear inequality e ≥ 0.
func curFactLin(f scpFlowFact, isIndexLoad, isRecordLen func(ssa.Value) bool, number ssa.Value) (curLin, bool) {
	b, ok := f.cond.(*ssa.BinOp)
	if !ok {
		return curLin{}, false
	}
	x, ok1 := curLinNorm(b.X, 0, isIndexLoad, isRecordLen, number)
	y, ok2 := curLinNorm(b.Y, 0, isIndexLoad, isRecordLen, number)
	if !ok1 || !ok2 {
		return curLin{}, false
	}
	var e curLin
	op, truth := b.Op, f.val
	switch {
	case (op == token.LSS && truth) || (op == token.GEQ && !truth): // x < y
		e = curLinSub(y, x)
		e.k--
	case (op == token.LEQ && truth) || (op == token.GTR && !truth): // x ≤ y
		e = curLinSub(y, x)
	case (op == token.GTR && truth) || (op == token.LEQ && !truth): // x > y
		e = curLinSub(x, y)
		e.k--
	case (op == token.GEQ && truth) || (op == token.LSS && !truth): // x ≥ y
		e = curLinSub(x, y)
	default:
		return curLin{}, false
	}
	return e, true
}

// curSumBounded reports whether the branch facts of a path bound index + number
// from below (a fact of the form index + number + k ≥ 0) and from above (a fact of
// the form a·RecordLen() + k − index − number ≥ 0, a ∈ {0, 1}).
func curSumBounded(facts []scpFlowFact, isIndexLoad, isRecordLen func(ssa.Value) bool, number ssa.Value) (lo, hi bool) {
	for _, f := range facts {
		e, ok := curFactLin(f, isIndexLoad, isRecordLen, number)
		if !ok {
			continue
		}
		if e.i == 1 && e.n == 1 && e.r == 0 {
			lo = true
		}
		if e.i == -1 && e.n == -1 && (e.r == 0 || e.r == 1) {
			hi = true
		}
	}
	return
}

// curSaturated decides whether storing val instead of index + number is a
// saturated move: val is a boundary of the result set (−1 or the record count)
// and one of the branch facts of the path, read as a linear inequality over
// {index, number, RecordLen()}, implies that index + number lies on or beyond
// that boundary (where Fetch would park the pointer on the same value anyway).
// Returns the reason, "" when it is not.
func curSaturated(val ssa.Value, facts []scpFlowFact, isIndexLoad, isRecordLen func(ssa.Value) bool, number ssa.Value) string {
	type lin = curLin
	sub := curLinSub
	// goal ≥ 0 is what must follow from the path
	var goal lin
	what := ""
	if k, ok := core.ConstInt(val); ok && k == -1 {
		goal, what = lin{i: -1, n: -1, k: -1}, "index + number ≤ −1" // −1 − (i+n) ≥ 0
	} else if isRecordLen(val) {
		goal, what = lin{i: 1, n: 1, r: -1}, "index + number ≥ RecordLen()" // (i+n) − r ≥ 0
	} else {
		return ""
	}
	for _, f := range facts {
		e, ok := curFactLin(f, isIndexLoad, isRecordLen, number)
		if !ok {
			continue
		}
		d := sub(goal, e)
		if d.i == 0 && d.n == 0 && d.r == 0 && d.k >= 0 {
			return what + " follows from the branch condition"
		}
	}
	return ""
}

// ---------------------------------------------------------------------------
// sentinel errors: `var errX = errors.New(…)` stored once, by the package
// initialiser, is non-nil wherever it is read.

var curSentinelMemo = map[*ssa.Global]bool{}
var curSentinelDone = map[*ssa.Global]bool{}

func curSentinelNonNil(c *Ctx, g *ssa.Global) bool {
	if curSentinelDone[g] {
		return curSentinelMemo[g]
	}
	curSentinelDone[g] = true
	if g.Pkg == nil {
		return false
	}
	init := g.Pkg.Func("init")
	if init == nil {
		return false
	}
	n := 0
	for _, b := range init.Blocks {
		for _, in := range b.Instrs {
			if st, ok := in.(*ssa.Store); ok && st.Addr == ssa.Value(g) {
				n++
				if core.ClassifyNil(st.Val, st) != core.NonNil {
					return false
				}
			}
		}
	}
	if n != 1 {
		return false
	}
	for _, fn := range c.P.SrcFuncs() {
		for _, b := range fn.Blocks {
			for _, in := range b.Instrs {
				if st, ok := in.(*ssa.Store); ok && st.Addr == ssa.Value(g) {
					return false
				}
			}
		}
	}
	curSentinelMemo[g] = true
	return true
}

// curErrKind is core.ClassifyNil extended by sentinel errors.
func curErrKind(c *Ctx, v ssa.Value, at ssa.Instruction) core.NilKind {
	k := core.ClassifyNil(v, at)
	if k != core.MaybeNil || v == nil {
		return k
	}
	all := true
	for _, o := range core.Origins(v, false) {
		u, ok := o.(*ssa.UnOp)
		if !ok || u.Op != token.MUL {
			all = false
			break
		}
		g, ok := u.X.(*ssa.Global)
		if !ok || !curSentinelNonNil(c, g) {
			all = false
			break
		}
	}
	if all {
		return core.NonNil
	}
	return k
}

// R-CUR-6 (added after seeded change C16-1, DESIGN §8): the "no row" exits of
// Cursor.Fetch park the pointer on a boundary.
func init() {
	Register(&Rule{ID: "R-CUR-6", Props: []string{"C16"}, Floor: 2,
		Doc: "every exit of Cursor.Fetch that returns no row and no error stores a boundary value into Cursor.index first — −1 on the before-first side, the record count on the after-last side — so that a later relative move starts from the clamped position, not from a raw overshoot",
		Run: ruleCur6})
}

func ruleCur6(c *Ctx) {
	fn := c.Fn("lib/query.(*Cursor).Fetch")
	if fn == nil {
		return
	}
	n := 0
	for _, r := range core.Returns(fn) {
		if len(r.Results) != 2 {
			continue
		}
		vals0 := core.ReturnOperand(r, 0)
		vals1 := core.ReturnOperand(r, 1)
		allNil := func(vs []ssa.Value) bool {
			for _, v := range vs {
				if v != nil && !core.IsNilConst(v) {
					return false
				}
			}
			return len(vs) > 0
		}
		if !allNil(vals0) || !allNil(vals1) {
			continue
		}
		n++
		key := c.KeyAt(fn, fmt.Sprintf("no-row exit #%d", n))
		// the last store to Cursor.index on the way into this return (same block)
		var last *ssa.Store
		for _, in := range r.Block().Instrs {
			if st, ok := in.(*ssa.Store); ok {
				if fa, ok := st.Addr.(*ssa.FieldAddr); ok && core.FieldOwner(fa) == "lib/query.Cursor.index" {
					last = st
				}
			}
		}
		if last == nil {
			c.Bad(key, c.Pos(r), "this exit returns no row without parking Cursor.index on a boundary: after an overshoot the pointer keeps the raw value, so FETCH PRIOR / RELATIVE afterwards addresses the wrong row and IS IN RANGE disagrees with the position")
			continue
		}
		ok := false
		what := ""
		if k, isConst := core.ConstInt(last.Val); isConst && k == -1 {
			ok, what = true, "−1 (before the first row)"
		}
		if call, isCall := last.Val.(*ssa.Call); isCall {
			name := c.P.CalleeName(call)
			if name == "lib/query.(*View).RecordLen" || name == "lib/query.(*View).Len" || name == "builtin:len" {
				ok, what = true, "the record count (after the last row)"
			}
		}
		c.Check(ok, key, c.Pos(last), "parks the pointer on "+what, "the value stored into Cursor.index before the no-row exit is neither −1 nor the record count")
	}
	if n < 2 {
		c.Unknown(c.KeyAt(fn, "no-row exits"), c.FnPos(fn), fmt.Sprintf("cannot-analyse: expected the before-first and after-last exits of Fetch, found %d", n))
	}
}
