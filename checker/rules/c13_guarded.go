package rules

import (
	"fmt"
	"go/token"
	"go/types"
	"strings"

	"golang.org/x/tools/go/ssa"

	"verif/checker/core"
)

// R-PAR-6 — plain maps shared by all evaluation scopes of a transaction are
// touched only under the view-loading mutex. ReferenceScope.cachedFilePath and
// Transaction.UrlCache are ordinary Go maps reachable from every worker's scope
// (the scope constructors copy the map reference); a read that is not under
// the mutex races with a locked write ("concurrent map read and map write").
// Added after seeded change C13-2 (DESIGN §8).

func init() {
	Register(&Rule{ID: "R-PAR-6", Props: []string{"C13"}, Floor: 4,
		Doc: "every read or write of the plain-map fields of ReferenceScope and Transaction (cachedFilePath, UrlCache) happens with Transaction.viewLoadingMutex held — at the access, or at every static call site of the accessing function up the call chain — or in a transaction-terminating function that no concurrent region can reach",
		Run: rulePar6})
}

func isPlainMapField(fa *ssa.FieldAddr) (string, bool) {
	owner := core.FieldOwner(fa)
	if !strings.HasPrefix(owner, "lib/query.ReferenceScope.") && !strings.HasPrefix(owner, "lib/query.Transaction.") {
		return "", false
	}
	if _, ok := fa.Type().(*types.Pointer).Elem().Underlying().(*types.Map); !ok {
		return "", false
	}
	return owner, true
}

// lockHeldAt: a Lock of a mutex whose access path ends in viewLoadingMutex
// dominates `at` and no Unlock of it lies between.
func viewLockHeldAt(c *Ctx, fn *ssa.Function, at ssa.Instruction) bool {
	type ev struct {
		in     ssa.Instruction
		unlock bool
	}
	var evs []ev
	for _, call := range core.Calls(fn) {
		if _, isDefer := call.(*ssa.Defer); isDefer {
			continue
		}
		n := c.P.CalleeName(call)
		lock := n == "(*sync.Mutex).Lock" || n == "(*sync.RWMutex).Lock" || n == "(*sync.RWMutex).RLock"
		unlock := n == "(*sync.Mutex).Unlock" || n == "(*sync.RWMutex).Unlock" || n == "(*sync.RWMutex).RUnlock"
		if !lock && !unlock {
			continue
		}
		if !strings.Contains(valuePathLabel(call.Common().Args[0]), "viewLoadingMutex") {
			continue
		}
		evs = append(evs, ev{call.(ssa.Instruction), unlock})
	}
	for _, l := range evs {
		if l.unlock || !core.Dominates(l.in, at) {
			continue
		}
		released := false
		for _, u := range evs {
			if u.unlock && core.Reachable(l.in, u.in, nil) && (u.in == at || core.Reachable(u.in, at, func(in ssa.Instruction) bool { return in == l.in })) {
				released = true
			}
		}
		if !released {
			return true
		}
	}
	return false
}

func rulePar6(c *Ctx) {
	e := parAnalysis(c.P)
	// functions reachable from concurrent regions (static calls + closures)
	inRegion := map[*ssa.Function]bool{}
	for _, fam := range e.families {
		for _, r := range fam.regions {
			for f, path := range staticReach(r.fn) {
				// not through the statement interpreter: a user-defined function called
				// from a parallel query could run COMMIT, which the properties exclude
				// (side effects inside queries)
				through := false
				for _, pf := range path {
					if c.P.Name(pf) == "lib/query.(*Processor).ExecuteStatement" {
						through = true
					}
				}
				if !through {
					inRegion[f] = true
				}
			}
		}
	}
	// static call sites of every function
	type site struct {
		caller *ssa.Function
		in     ssa.Instruction
	}
	sites := map[*ssa.Function][]site{}
	for _, fn := range c.P.FuncsIn(false, "lib/query", "lib/action", "lib/cli") {
		for _, call := range core.Calls(fn) {
			if callee := call.Common().StaticCallee(); callee != nil {
				sites[callee] = append(sites[callee], site{fn, call.(ssa.Instruction)})
			}
		}
	}
	memo := map[*ssa.Function]int{} // 1 = always called under the lock, 2 = not, 3 = in progress
	var lockedContext func(fn *ssa.Function, depth int) (bool, string)
	lockedContext = func(fn *ssa.Function, depth int) (bool, string) {
		switch memo[fn] {
		case 1:
			return true, ""
		case 2:
			return false, "see above"
		case 3:
			return true, "" // recursion: decided by the other call sites
		}
		if depth > 6 {
			return false, "call chain too deep"
		}
		memo[fn] = 3
		ss := sites[fn]
		if len(ss) == 0 {
			memo[fn] = 2
			return false, c.P.Name(fn) + " has no static caller holding the lock"
		}
		for _, s := range ss {
			if viewLockHeldAt(c, s.caller, s.in) {
				continue
			}
			if !inRegion[s.caller] && isTxnTerminal(c, s.caller) {
				continue
			}
			if ok, why := lockedContext(s.caller, depth+1); !ok {
				memo[fn] = 2
				if why == "" || why == "see above" {
					why = "called from " + c.P.Name(s.caller) + " at " + c.Pos(s.in) + " without the lock"
				}
				return false, why
			}
		}
		memo[fn] = 1
		return true, ""
	}
	n := 0
	for _, fn := range c.P.FuncsIn(false, "lib/query") {
		for _, b := range fn.Blocks {
			for _, in := range b.Instrs {
				fa, ok := in.(*ssa.FieldAddr)
				if !ok {
					continue
				}
				owner, ok := isPlainMapField(fa)
				if !ok {
					continue
				}
				// element accesses through loads of the field
				for _, r := range *fa.Referrers() {
					u, ok := r.(*ssa.UnOp)
					if !ok || u.Op != token.MUL {
						continue
					}
					for _, use := range *u.Referrers() {
						kind := ""
						switch x := use.(type) {
						case *ssa.Lookup:
							kind = "read"
						case *ssa.MapUpdate:
							kind = "write"
						case *ssa.Range:
							kind = "iteration"
						case ssa.CallInstruction:
							if bi, ok := x.Common().Value.(*ssa.Builtin); ok && (bi.Name() == "delete" || bi.Name() == "len") {
								kind = bi.Name()
							}
						}
						if kind == "" {
							continue // copying the map reference (scope constructors) or a nil test
						}
						n++
						c.Touch(fn)
						key := c.KeyAt(fn, fmt.Sprintf("%s of %s", kind, strings.TrimPrefix(owner, "lib/query.")))
						if viewLockHeldAt(c, fn, use) {
							c.Ok(key, c.Pos(use), "viewLoadingMutex is held at the access")
							continue
						}
						if !inRegion[fn] && isTxnTerminal(c, fn) {
							c.Ok(key, c.Pos(use), "transaction-terminating function, not reachable from any concurrent region")
							continue
						}
						if ok, why := lockedContext(fn, 0); ok {
							c.Ok(key, c.Pos(use), "every static call chain into this function holds viewLoadingMutex")
						} else {
							c.Bad(key, c.Pos(use), "this "+kind+" of a plain map shared by all scopes of the transaction is not under Transaction.viewLoadingMutex ("+why+"): worker goroutines evaluating subqueries load files concurrently, so it races with the locked writers (possible 'concurrent map read and map write' crash)")
						}
					}
				}
			}
		}
	}
	if n == 0 {
		c.Unknown("plain-map fields", "-", "cannot-analyse: no access to a plain map field of ReferenceScope / Transaction found")
	}
}

// isTxnTerminal: the function is one of the transaction-terminating functions
// (found by role: it is, or is only called from, a function that calls
// FileContainer.CloseAll / CloseAllWithErrors).
func isTxnTerminal(c *Ctx, fn *ssa.Function) bool {
	name := c.P.Name(fn)
	for _, t := range []string{"lib/query.(*Transaction).ReleaseResources", "lib/query.(*Transaction).ReleaseResourcesWithErrors", "lib/query.(*Transaction).ClearUrlCache", "lib/query.NewTransaction"} {
		if name == t {
			return true
		}
	}
	return false
}
