package rules

import (
	"fmt"
	"go/token"
	"go/types"
	"strings"

	"golang.org/x/tools/go/ssa"

	"verif/checker/core"
)

// R-ANA-4 — LEAD is the mirror image of LAG.
//
// Both functions share one helper. The mirror is obtained either by reversing
// the partition before the helper runs (today's spelling: Lead.Execute calls
// Partition.Reverse, Lag.Execute does not), or by a sign parameter of the helper
// to which the two pass opposite non-zero constants. In the second spelling every
// scan of the helper that STARTS at a mirrored position must also WALK in the
// mirrored direction: a loop whose induction variable is initialised from an
// expression depending on the sign parameter must step by an amount depending on
// it as well (the NULL-skipping loop of IGNORE NULLS `for i := target; …; i--`
// with target = pos + direction*offset walks towards the current row for LEAD).

func init() {
	Register(&Rule{ID: "R-ANA-4", Props: []string{"C17"}, Floor: 1,
		Doc:      "the implementations registered for LAG and LEAD (resolved through the AnalyticFunctions registry) delegate to the same helper and are mirror images: either exactly one of them reverses the partition (Partition.Reverse) before the call, or the helper has an integer parameter receiving opposite non-zero constants from the two and every loop of the helper whose induction variable's initial value data-depends on that parameter has a step that data-depends on it too (no scan starts at a mirrored position and walks in a fixed direction)",
		Controls: []string{"CtlMirrorLead"},
		Run:      ruleAna4})
}

func ruleAna4(c *Ctx) {
	reg := fxLoadRegistry(c, "lib/query", "AnalyticFunctions")
	if reg == nil {
		c.Unknown("anchor:lib/query.AnalyticFunctions", "-", "cannot-analyse: registry not readable")
		return
	}
	resolve := func(name string) *ssa.Function {
		impl, ok := reg.impl[name]
		if !ok {
			c.Unknown("anchor:AnalyticFunctions["+name+"]", reg.at, "cannot-analyse: no registry entry "+name)
			return nil
		}
		if f := c.FnOpt("lib/query.(" + impl + ").Execute"); f != nil {
			return f
		}
		return c.Fn("lib/query.(*" + impl + ").Execute")
	}
	lag, lead := resolve("LAG"), resolve("LEAD")
	if lag != nil && lead != nil {
		fxCheckMirror(c, lag, lead)
	}
	var cl, cd, ol, od *ssa.Function
	for _, fn := range fxCtlFuncs(c) {
		switch fn.Name() {
		case "CtlMirrorLag":
			cl = fn
		case "CtlMirrorLead":
			cd = fn
		case "okMirrorLag":
			ol = fn
		case "okMirrorLead":
			od = fn
		}
	}
	if cl != nil && cd != nil {
		fxCheckMirror(c, cl, cd)
	}
	if ol != nil && od != nil {
		fxCheckMirror(c, ol, od)
	}
}

func fxIsIntType(t types.Type) bool {
	b, ok := t.Underlying().(*types.Basic)
	return ok && b.Info()&types.IsInteger != 0
}

// fxDependsOn: v is computed from p (through arithmetic, conversions and phis).
func fxDependsOn(v ssa.Value, p ssa.Value) bool {
	seen := map[ssa.Value]bool{}
	var walk func(v ssa.Value) bool
	walk = func(v ssa.Value) bool {
		if v == p {
			return true
		}
		if seen[v] {
			return false
		}
		seen[v] = true
		switch x := v.(type) {
		case *ssa.BinOp:
			return walk(x.X) || walk(x.Y)
		case *ssa.UnOp:
			return walk(x.X)
		case *ssa.Convert:
			return walk(x.X)
		case *ssa.Phi:
			for _, e := range x.Edges {
				if walk(e) {
					return true
				}
			}
		}
		return false
	}
	return walk(v)
}

func fxCheckMirror(c *Ctx, lag, lead *ssa.Function) {
	c.Touch(lag)
	c.Touch(lead)
	key := c.KeyAt(lead, "mirror image of "+c.P.Name(lag))
	// the shared helper: the same-package function both call
	helperCall := func(fn *ssa.Function) map[*ssa.Function]*ssa.Call {
		out := map[*ssa.Function]*ssa.Call{}
		for _, ci := range core.Calls(fn) {
			if call, ok := ci.(*ssa.Call); ok {
				if f := core.StaticCallee(call); f != nil && f.Blocks != nil && core.FnPkg(f) == core.FnPkg(fn) && f.Signature.Recv() == nil {
					out[f] = call
				}
			}
		}
		return out
	}
	lc, dc := helperCall(lag), helperCall(lead)
	var H *ssa.Function
	for f := range lc {
		// the largest common callee; ties broken by name (lc is a map)
		if dc[f] != nil && (H == nil || len(f.Blocks) > len(H.Blocks) || (len(f.Blocks) == len(H.Blocks) && c.P.Name(f) < c.P.Name(H))) {
			H = f
		}
	}
	if H == nil {
		c.Unknown(key, c.FnPos(lead), "cannot-analyse: the two implementations do not delegate to a common helper of their package; the rule cannot compare them")
		return
	}
	c.Touch(H)
	reverses := func(fn *ssa.Function, before *ssa.Call) bool {
		for _, ci := range core.Calls(fn) {
			f := core.StaticCallee(ci)
			if f != nil && f.Name() == "Reverse" && f.Signature.Recv() != nil && strings.HasSuffix(core.NamedOf(f.Signature.Recv().Type()), ".Partition") {
				if core.Dominates(ci.(ssa.Instruction), before) {
					return true
				}
			}
		}
		return false
	}
	lr, dr := reverses(lag, lc[H]), reverses(lead, dc[H])
	// a sign parameter: an integer parameter of H receiving opposite non-zero constants
	var sign *ssa.Parameter
	la, da := lc[H].Common().Args, dc[H].Common().Args
	for i, p := range H.Params {
		if i >= len(la) || i >= len(da) || !fxIsIntType(p.Type()) {
			continue
		}
		a, oka := core.ConstInt(la[i])
		b, okb := core.ConstInt(da[i])
		if oka && okb && a != 0 && a == -b {
			sign = p
		}
	}
	switch {
	case lr != dr && sign == nil:
		who := c.P.Name(lead)
		if lr {
			who = c.P.Name(lag)
		}
		c.Ok(key, c.Pos(dc[H]), fmt.Sprintf("both call %s; only %s reverses the partition first", c.P.Name(H), who))
		return
	case lr == dr && sign == nil:
		c.Bad(key, c.Pos(dc[H]), fmt.Sprintf("both call %s with the partition in the same order and without a direction argument of opposite sign: LEAD computes the same as LAG", c.P.Name(H)))
		return
	case lr != dr && sign != nil:
		c.Bad(key, c.Pos(dc[H]), fmt.Sprintf("the partition is reversed for one of the two AND %s receives opposite directions: the two mirrors cancel", c.P.Name(H)))
		return
	}
	// mirror by sign: every scan that starts at a mirrored position walks in the mirrored direction
	bad := ""
	loops := 0
	for _, b := range H.Blocks {
		for _, in := range b.Instrs {
			phi, ok := in.(*ssa.Phi)
			if !ok || !fxIsIntType(phi.Type()) {
				continue
			}
			var step ssa.Value
			var inits []ssa.Value
			for _, e := range phi.Edges {
				if bin, isB := e.(*ssa.BinOp); isB && (bin.Op == token.ADD || bin.Op == token.SUB) && (bin.X == ssa.Value(phi) || bin.Y == ssa.Value(phi)) {
					step = bin.Y
					if bin.Y == ssa.Value(phi) {
						step = bin.X
					}
				} else if e != ssa.Value(phi) {
					inits = append(inits, e)
				}
			}
			if step == nil {
				continue
			}
			mirrored := false
			for _, i := range inits {
				if fxDependsOn(i, sign) {
					mirrored = true
				}
			}
			if !mirrored {
				continue
			}
			loops++
			if !fxDependsOn(step, sign) {
				bad = fmt.Sprintf("the loop variable %s of %s starts at a position computed from the direction parameter %s (mirrored for LEAD) but steps by %s, which does not depend on it: for one of LAG / LEAD the scan walks towards the current row instead of away from it (IGNORE NULLS then returns a value from the wrong side)", phi.Comment, c.P.Name(H), sign.Name(), valueLabel(step))
			}
		}
	}
	if bad != "" {
		c.Bad(key, c.Pos(dc[H]), bad)
	} else {
		c.Ok(key, c.Pos(dc[H]), fmt.Sprintf("%s receives opposite directions; %d scan(s) starting at a mirrored position step with the direction", c.P.Name(H), loops))
	}
}
