package rules

import (
	"fmt"
	"go/token"
	"go/types"
	"sort"
	"strings"

	"golang.org/x/tools/go/ssa"

	"verif/checker/core"
)

// R-NODE-1: query-level memos of a ReferenceScope live exactly as long as one query.
//
// ReferenceScope carries, in unexported fields, state that is valid for one
// outermost query only: the memo "table identifier → resolved file path" and
// the frozen NOW(). CreateNode fills them where it finds them empty, every
// derived scope inherits them, and the statement-level scope (the root built
// from a Transaction) has none — so the next statement resolves `t` again,
// against the repository / working directory / time that hold then.

func init() {
	Register(&Rule{ID: "R-NODE-1", Props: []string{"C03", "C20"}, Floor: 8,
		Doc:      "the query-level memos of lib/query.ReferenceScope (its unexported fields: node list, resolved-path memo, frozen NOW) are never created at statement level: every value stored into such a field — by composite literal or assignment, anywhere in lib/query — is (a) the zero value, (b) the same field of another ReferenceScope (inheritance by a derived scope), (c) for the node list, a slice made in the function and filled from the parent's, or (d) a fresh value stored under the dominating test that the field is still empty (== nil / IsZero: the lazy initialisation of CreateNode), in a function that derives the scope from its receiver. A constructor that builds a scope from nothing (no receiver scope) may therefore set exported fields only: a memo allocated there is shared by every statement of the session, and `SELECT … FROM t` after SET @@REPOSITORY / CHDIR keeps reading the file resolved before. Decides where the memos are born, not what they contain",
		Controls: []string{"CtlMemoBornWithRootScope"},
		Run:      ruleNode1})
}

func ruleNode1(c *Ctx) {
	check := func(structT types.Type, pkgFns []*ssa.Function, label string) int {
		st, ok := structT.Underlying().(*types.Struct)
		if !ok {
			return 0
		}
		ptrT := types.NewPointer(structT)
		n := 0
		for _, fn := range pkgFns {
			// does the function derive from a scope it was given (receiver / parameter / captured)?
			derives := false
			for _, p := range fn.Params {
				if types.Identical(p.Type(), ptrT) {
					derives = true
				}
			}
			for _, fv := range fn.FreeVars {
				if types.Identical(fv.Type(), ptrT) || types.Identical(fv.Type(), types.NewPointer(ptrT)) {
					derives = true
				}
			}
			k := map[string]int{}
			for _, b := range fn.Blocks {
				for _, in := range b.Instrs {
					s, ok := in.(*ssa.Store)
					if !ok {
						continue
					}
					fa, ok := s.Addr.(*ssa.FieldAddr)
					if !ok || !types.Identical(fa.X.Type(), ptrT) {
						continue
					}
					f := st.Field(fa.Field)
					if f.Exported() {
						continue
					}
					k[f.Name()]++
					n++
					c.Touch(fn)
					key := c.KeyAt(fn, fmt.Sprintf("%s.%s store #%d", label, f.Name(), k[f.Name()]))
					why, ok := nodeStoreOK(c, fn, s, fa, ptrT, derives)
					if ok {
						c.Ok(key, c.Pos(s), why)
					} else {
						c.Bad(key, c.Pos(s), why)
					}
				}
			}
		}
		return n
	}
	rsT := c.P.Type("lib/query", "ReferenceScope")
	if rsT == nil {
		c.Unknown("anchor: lib/query.ReferenceScope", "-", "cannot-analyse: type not found")
		return
	}
	sites := check(rsT, c.P.FuncsIn(false, "lib/query"), "ReferenceScope")
	// the control package has a stand-in struct of the same shape
	var ctlFns []*ssa.Function
	for _, fn := range c.P.SrcFuncs() {
		if c.P.IsControl(fn) {
			ctlFns = append(ctlFns, fn)
		}
	}
	if ctlT := c.P.Type(core.ControlPkg, "ctlNodeScope"); ctlT != nil {
		check(ctlT, ctlFns, "ctlNodeScope")
	}
	c.Sites += sites
}

func nodeStoreOK(c *Ctx, fn *ssa.Function, s *ssa.Store, fa *ssa.FieldAddr, ptrT types.Type, derives bool) (string, bool) {
	var reasons []string
	allOK := true
	for _, o := range core.Origins(s.Val, true) {
		switch x := o.(type) {
		case *ssa.Const:
			reasons = append(reasons, "zero value")
			continue
		case *ssa.UnOp:
			if x.Op == token.MUL {
				if ofa, ok := x.X.(*ssa.FieldAddr); ok && ofa.Field == fa.Field && types.Identical(ofa.X.Type(), ptrT) && ofa.X != fa.X {
					reasons = append(reasons, "inherited from "+valuePathLabel(ofa.X))
					continue
				}
			}
		case *ssa.MakeSlice:
			// the node list: a longer copy of the parent's
			if derives && nodeFilledFromParent(x, fa.Field, ptrT) {
				reasons = append(reasons, "a copy of the parent's list with one more element")
				continue
			}
		}
		if isZeroValueOf(o) {
			reasons = append(reasons, "zero value")
			continue
		}
		if derives && nodeLazyPhi(s.Val, o, fa.Field, ptrT) {
			reasons = append(reasons, "fresh value chosen where the inherited one was found empty (lazy initialisation in a derived scope)")
			continue
		}
		if derives && nodeLazyGuard(s, fa) {
			reasons = append(reasons, "fresh value stored where the field was found empty (lazy initialisation in a derived scope)")
			continue
		}
		allOK = false
		if !derives {
			reasons = append(reasons, fmt.Sprintf("a fresh value (%s) is stored into the query-level field by a function that builds the scope from nothing: the memo is born with the statement-level scope and is shared by every later statement (stale table resolution / frozen time across statements)", describeValue(c.P, o)))
		} else {
			reasons = append(reasons, fmt.Sprintf("a fresh value (%s) replaces the field unconditionally: derived scopes must inherit the memo of the query they belong to", describeValue(c.P, o)))
		}
	}
	sort.Strings(reasons)
	return strings.Join(dedup(reasons), "; "), allOK
}

func isZeroValueOf(v ssa.Value) bool {
	switch x := v.(type) {
	case *ssa.Const:
		return true
	case *ssa.UnOp:
		// load of a fresh local that was never stored (zero struct: time.Time{})
		if al, ok := x.X.(*ssa.Alloc); ok && x.Op == token.MUL {
			vals, complete := core.StoresTo(al)
			return complete && len(vals) == 0
		}
	}
	return false
}

// nodeFilledFromParent: the made slice receives elements loaded from the same field of another scope
func nodeFilledFromParent(ms *ssa.MakeSlice, field int, ptrT types.Type) bool {
	parentField := func(v ssa.Value) bool {
		l, ok := v.(*ssa.UnOp)
		if !ok || l.Op != token.MUL {
			return false
		}
		ofa, ok := l.X.(*ssa.FieldAddr)
		return ok && ofa.Field == field && types.Identical(ofa.X.Type(), ptrT)
	}
	for _, r := range *ms.Referrers() {
		// copy(list[1:], parent.list)
		if sl, ok := r.(*ssa.Slice); ok {
			for _, rr := range *sl.Referrers() {
				if call, ok := rr.(*ssa.Call); ok {
					if b, ok := call.Call.Value.(*ssa.Builtin); ok && b.Name() == "copy" && len(call.Call.Args) == 2 && call.Call.Args[0] == ssa.Value(sl) && parentField(call.Call.Args[1]) {
						return true
					}
				}
			}
		}
		ia, ok := r.(*ssa.IndexAddr)
		if !ok {
			continue
		}
		for _, rr := range *ia.Referrers() {
			st, ok := rr.(*ssa.Store)
			if !ok || st.Addr != ia {
				continue
			}
			for _, o := range core.Origins(st.Val, true) {
				if u, ok := o.(*ssa.UnOp); ok && u.Op == token.MUL {
					if eia, ok := u.X.(*ssa.IndexAddr); ok {
						if l, ok := eia.X.(*ssa.UnOp); ok && l.Op == token.MUL {
							if ofa, ok := l.X.(*ssa.FieldAddr); ok && ofa.Field == field && types.Identical(ofa.X.Type(), ptrT) {
								return true
							}
						}
					}
				}
			}
		}
	}
	return false
}

// nodeLazyGuard: the store is dominated by a branch on the emptiness of the same field of the same object
func nodeLazyGuard(s *ssa.Store, fa *ssa.FieldAddr) bool {
	sameField := func(v ssa.Value) bool {
		switch x := v.(type) {
		case *ssa.UnOp:
			if x.Op == token.MUL {
				if ofa, ok := x.X.(*ssa.FieldAddr); ok && ofa.Field == fa.Field && ofa.X == fa.X {
					return true
				}
			}
		case *ssa.FieldAddr:
			return x.Field == fa.Field && x.X == fa.X
		}
		return false
	}
	for b := s.Block(); b != nil; b = b.Idom() {
		id := b.Idom()
		if id == nil || len(id.Instrs) == 0 {
			continue
		}
		iff, ok := id.Instrs[len(id.Instrs)-1].(*ssa.If)
		if !ok || len(id.Succs) != 2 {
			continue
		}
		switch cnd := iff.Cond.(type) {
		case *ssa.BinOp:
			if (cnd.Op == token.EQL && id.Succs[0] == b || cnd.Op == token.NEQ && id.Succs[1] == b) &&
				(sameField(cnd.X) && core.IsNilConst(cnd.Y) || sameField(cnd.Y) && core.IsNilConst(cnd.X)) {
				return true
			}
		case *ssa.Call:
			// node.now.IsZero(): a method named IsZero / IsEmpty on the field (value or address)
			if f := cnd.Common().StaticCallee(); f != nil && (f.Name() == "IsZero" || f.Name() == "IsEmpty") && len(cnd.Common().Args) == 1 && id.Succs[0] == b {
				if sameField(cnd.Common().Args[0]) {
					return true
				}
			}
		}
	}
	return false
}

// nodeLazyPhi: the stored value is φ(inherited, fresh) and the fresh edge is taken only where the inherited value
// was tested empty (`v := parent.f; if v == nil { v = make(…) }`, `if v.IsZero() { v = … }`)
func nodeLazyPhi(stored ssa.Value, fresh ssa.Value, field int, ptrT types.Type) bool {
	inherited := func(v ssa.Value) bool {
		l, ok := v.(*ssa.UnOp)
		if !ok || l.Op != token.MUL {
			return false
		}
		ofa, ok := l.X.(*ssa.FieldAddr)
		return ok && ofa.Field == field && types.Identical(ofa.X.Type(), ptrT)
	}
	phi, ok := stored.(*ssa.Phi)
	if !ok {
		return false
	}
	var inh ssa.Value
	for _, e := range phi.Edges {
		if inherited(e) {
			inh = e
		}
	}
	if inh == nil {
		return false
	}
	for i, e := range phi.Edges {
		isFresh := false
		for _, o := range core.Origins(e, true) {
			if o == fresh {
				isFresh = true
			}
		}
		if !isFresh || inherited(e) {
			continue
		}
		// the edge's predecessor must lie under the "inherited is empty" outcome of a test of inh
		pred := phi.Block().Preds[i]
		guarded := false
		for b := pred; b != nil && !guarded; b = b.Idom() {
			id := b.Idom()
			if id == nil || len(id.Instrs) == 0 || len(id.Succs) != 2 {
				continue
			}
			iff, ok := id.Instrs[len(id.Instrs)-1].(*ssa.If)
			if !ok {
				continue
			}
			under := func(succ int) bool { return id.Succs[succ] == b || id.Succs[succ].Dominates(b) }
			switch cnd := iff.Cond.(type) {
			case *ssa.BinOp:
				isNilTest := cnd.X == inh && core.IsNilConst(cnd.Y) || cnd.Y == inh && core.IsNilConst(cnd.X)
				if isNilTest && (cnd.Op == token.EQL && under(0) || cnd.Op == token.NEQ && under(1)) {
					guarded = true
				}
			case *ssa.Call:
				if f := cnd.Common().StaticCallee(); f != nil && (f.Name() == "IsZero" || f.Name() == "IsEmpty") && len(cnd.Common().Args) == 1 && cnd.Common().Args[0] == inh && under(0) {
					guarded = true
				}
			}
		}
		if !guarded {
			return false
		}
	}
	return true
}
