package rules

import (
	"fmt"
	"go/constant"
	"go/token"
	"go/types"
	"strings"

	"golang.org/x/tools/go/ssa"

	"verif/checker/core"
)

// Rules added after seeded changes (DESIGN §8).

func init() {
	Register(&Rule{ID: "R-SCAN-1", Props: []string{"C18", "C19"}, Floor: 2,
		Doc: "the scanner never reads past the end of the program text: every element read of Scanner.src is dominated by a test of that very index against len(src), or reads srcPos − k (k ≥ 1), the rune just consumed (srcPos only advances after a non-EOF peek) — an unchecked s.src[s.srcPos] panics on the last rune (e.g. a trailing bare CR), so the parser would no longer be total",
		Run: ruleScan1})
	Register(&Rule{ID: "R-PAR-7", Props: []string{"C12"}, Floor: 10,
		Doc: "aggregates are sequential reductions: no function statically reachable from an entry of the AggregateFunctions / AnalyticFunctions registries starts a goroutine or calls a task runner — a chunked parallel sum adds floats in a --cpu-dependent association and changes the last bits of the result",
		Run: rulePar7})
}

func ruleScan1(c *Ctx) {
	n := 0
	for _, fn := range c.P.FuncsIn(false, "lib/parser") {
		for _, b := range fn.Blocks {
			for _, in := range b.Instrs {
				ia, ok := in.(*ssa.IndexAddr)
				if !ok {
					continue
				}
				src := false
				for _, o := range core.Origins(ia.X, true) {
					if u, ok := o.(*ssa.UnOp); ok {
						if fa, ok := u.X.(*ssa.FieldAddr); ok && core.FieldOwner(fa) == "lib/parser.Scanner.src" {
							src = true
						}
					}
				}
				if !src {
					continue
				}
				n++
				c.Touch(fn)
				key := c.KeyAt(fn, fmt.Sprintf("read of Scanner.src #%d", n))
				idx := ia.Index
				// (a) srcPos - k
				if bo, ok := idx.(*ssa.BinOp); ok && bo.Op == token.SUB {
					if k, isConst := core.ConstInt(bo.Y); isConst && k >= 1 {
						if u, ok := bo.X.(*ssa.UnOp); ok {
							if fa, ok := u.X.(*ssa.FieldAddr); ok && core.FieldOwner(fa) == "lib/parser.Scanner.srcPos" {
								c.Ok(key, c.Pos(ia), "reads srcPos − k: the rune just consumed")
								continue
							}
						}
					}
				}
				// (b) dominated by a bounds test of the same index value
				guarded := false
				isLenSrc := func(v ssa.Value) bool {
					call, ok := v.(*ssa.Call)
					if !ok {
						return false
					}
					bi, ok := call.Common().Value.(*ssa.Builtin)
					if !ok || bi.Name() != "len" {
						return false
					}
					for _, o := range core.Origins(call.Common().Args[0], true) {
						if u, ok := o.(*ssa.UnOp); ok {
							if fa, ok := u.X.(*ssa.FieldAddr); ok && core.FieldOwner(fa) == "lib/parser.Scanner.src" {
								return true
							}
						}
					}
					return false
				}
				for _, f := range core.FactsAt(b) {
					bo, ok := f.Cond.(*ssa.BinOp)
					if !ok {
						continue
					}
					switch {
					case bo.Op == token.LEQ && isLenSrc(bo.X) && bo.Y == idx && f.Neg: // !(len <= idx)
						guarded = true
					case bo.Op == token.LSS && bo.X == idx && isLenSrc(bo.Y) && !f.Neg: // idx < len
						guarded = true
					case bo.Op == token.GEQ && bo.X == idx && isLenSrc(bo.Y) && f.Neg: // !(idx >= len)
						guarded = true
					case bo.Op == token.GTR && isLenSrc(bo.X) && bo.Y == idx && !f.Neg: // len > idx
						guarded = true
					}
				}
				c.Check(guarded, key, c.Pos(ia), "dominated by a test of the same index against len(src)",
					"this read of the program text is not guarded by a test of its index against len(src): on the last rune of the input (e.g. a trailing bare CR) it indexes past the end and the scanner panics instead of returning EOF or a syntax error")
			}
		}
	}
}

func rulePar7(c *Ctx) {
	e := parAnalysis(c.P)
	// registry entries: functions stored into the package-level maps
	var roots []*ssa.Function
	for _, gname := range []string{"AggregateFunctions", "AnalyticFunctions"} {
		pk := c.P.SSAPkgs["lib/query"]
		if pk == nil {
			continue
		}
		init := pk.Func("init")
		g, _ := pk.Members[gname].(*ssa.Global)
		if init == nil || g == nil {
			c.Unknown("registry "+gname, "-", "cannot-analyse: registry not found")
			continue
		}
		for _, b := range init.Blocks {
			for _, in := range b.Instrs {
				mu, ok := in.(*ssa.MapUpdate)
				if !ok {
					continue
				}
				for _, o := range core.Origins(mu.Value, false) {
					switch x := o.(type) {
					case *ssa.Function:
						roots = append(roots, x)
					case *ssa.MakeClosure:
						roots = append(roots, x.Fn.(*ssa.Function))
					case *ssa.Alloc:
						// a struct value implementing AnalyticFunction: its methods
						if p, ok := x.Type().Underlying().(interface{ Elem() interface{} }); ok {
							_ = p
						}
					}
				}
				// struct-typed entries (analytic functions): add the methods of the value's type
				t := mu.Value.Type()
				if mi, ok := mu.Value.(*ssa.MakeInterface); ok {
					t = mi.X.Type()
				}
				ms := c.P.SSA.MethodSets.MethodSet(t)
				for i := 0; i < ms.Len(); i++ {
					if f := c.P.SSA.MethodValue(ms.At(i)); f != nil && c.P.InPkg(f, "lib/query") {
						roots = append(roots, f)
					}
				}
			}
		}
	}
	seen := map[*ssa.Function]bool{}
	for _, r := range roots {
		if seen[r] {
			continue
		}
		seen[r] = true
		c.Touch(r)
		key := c.P.Name(r) + ": sequential"
		bad := ""
		for f, path := range staticReach(r) {
			if !c.P.InPkg(f, "lib/query") {
				continue
			}
			through := false
			for _, pf := range path {
				if n := c.P.Name(pf); n == "lib/query.Evaluate" || n == "lib/query.(*Processor).ExecuteStatement" {
					through = true // evaluating an argument expression is not part of the reduction
				}
			}
			if through || c.P.Name(f) == "lib/query.Evaluate" {
				continue
			}
			for _, call := range core.Calls(f) {
				if _, isGo := call.(*ssa.Go); isGo {
					bad = fmt.Sprintf("%s starts a goroutine at %s", c.P.Name(f), c.Pos(call.(ssa.Instruction)))
				}
				if callee := call.Common().StaticCallee(); callee != nil {
					if _, isRunner := e.runners[callee]; isRunner {
						bad = fmt.Sprintf("%s hands work to the task runner %s at %s", c.P.Name(f), c.P.Name(callee), c.Pos(call.(ssa.Instruction)))
					}
				}
			}
		}
		c.Check(bad == "", key, c.FnPos(r), "no goroutine and no task runner in the reduction", bad+": the reduction is split into --cpu-dependent chunks, and floating-point addition is not associative — SUM/AVG differ in their last digits between --cpu values")
	}
}

func init() {
	Register(&Rule{ID: "R-ESC-3", Props: []string{"C18"}, Floor: 1,
		Doc: "printers quote identifiers through Identifier.String: no String() method of a lib/parser syntax-tree node other than Identifier's own reads the raw Identifier.Literal of a child — printing the raw text drops the back-quotes and escapes, so the printed query re-parses differently (`user-list`.name → user - list.name) or not at all",
		Run: ruleEsc3})
}

func ruleEsc3(c *Ctx) {
	n := 0
	for _, fn := range c.P.FuncsIn(false, "lib/parser") {
		if fn.Name() != "String" || fn.Signature.Recv() == nil {
			continue
		}
		recvName := core.NamedOf(fn.Signature.Recv().Type())
		if recvName == "lib/parser.Identifier" {
			continue
		}
		n++
		// the method and the helpers it calls inside lib/parser
		bad := ""
		for f := range staticReach(fn) {
			if !c.P.InPkg(f, "lib/parser") || f.Blocks == nil {
				continue
			}
			if f.Name() == "String" && f != fn {
				continue // a child's own printer
			}
			if f.Signature.Recv() != nil && core.NamedOf(f.Signature.Recv().Type()) == "lib/parser.Identifier" {
				continue
			}
			for _, b := range f.Blocks {
				for _, in := range b.Instrs {
					var lit ssa.Value
					switch x := in.(type) {
					case *ssa.Field:
						if core.NamedOf(x.X.Type()) == "lib/parser.Identifier" && core.FieldName(x) == "Literal" {
							lit = x
						}
					case *ssa.UnOp:
						if fa, ok := x.X.(*ssa.FieldAddr); ok && x.Op == token.MUL && core.NamedOf(fa.X.Type()) == "lib/parser.Identifier" && core.FieldName(fa) == "Literal" {
							lit = x
						}
					}
					if lit == nil || lit.Referrers() == nil {
						continue
					}
					// an emptiness test (len, == "") is not printing
					for _, r := range *lit.Referrers() {
						switch u := r.(type) {
						case *ssa.DebugRef:
						case *ssa.BinOp:
							if u.Op != token.EQL && u.Op != token.NEQ {
								bad = fmt.Sprintf("%s uses the raw Identifier.Literal at %s", c.P.Name(f), c.Pos(in))
							}
						case ssa.CallInstruction:
							if bi, ok := u.Common().Value.(*ssa.Builtin); ok && bi.Name() == "len" {
								continue
							}
							bad = fmt.Sprintf("%s uses the raw Identifier.Literal at %s", c.P.Name(f), c.Pos(in))
						default:
							bad = fmt.Sprintf("%s uses the raw Identifier.Literal at %s", c.P.Name(f), c.Pos(in))
						}
					}
				}
			}
		}
		c.Touch(fn)
		c.Check(bad == "", c.P.Name(fn)+": identifiers printed through Identifier.String", c.FnPos(fn), "no raw Identifier.Literal in this printer",
			bad+": the printed text loses the identifier's quoting and escaping and no longer re-parses to the same tree")
	}
	if n == 0 {
		c.Unknown("String methods", "-", "cannot-analyse: no String() methods found in lib/parser")
	}
}

// R-SCAN-2 --------------------------------------------------------------------

func init() {
	Register(&Rule{ID: "R-SCAN-2", Props: []string{"C18", "C19"}, Floor: 6,
		Doc:      "the scanner's loops end at the end of the input: in every loop of a lib/parser Scanner method that tests the look-ahead against EOF, the edge on which the character IS EOF leaves the loop (its target is outside the loop body) — at EOF nothing more can be consumed, so a loop that goes on (a `break` that only leaves a switch) never terminates and the parser hangs on an unclosed quote",
		Controls: []string{"CtlEOFBreaksOnlySwitch"},
		Run:      ruleScan2})
}

func ruleScan2(c *Ctx) {
	eofVal := int64(-1)
	if pk := c.P.ByPath["lib/parser"]; pk != nil {
		if k, ok := pk.Types.Scope().Lookup("EOF").(*types.Const); ok {
			if v, ok := constant.Int64Val(k.Val()); ok {
				eofVal = v
			}
		} else {
			c.Unknown("EOF", "-", "cannot-analyse: lib/parser declares no constant EOF")
			return
		}
	}
	n := 0
	for _, fn := range c.P.FuncsIn(true, "lib/parser") {
		isScanner := false
		if len(fn.Params) > 0 && strings.HasSuffix(core.NamedOf(fn.Params[0].Type()), "Scanner") {
			isScanner = true
		}
		if c.P.IsControl(fn) && strings.Contains(fn.Name(), "EOF") {
			isScanner = true
		}
		if !isScanner {
			continue
		}
		loops := core.NaturalLoops(fn)
		k := 0
		for _, b := range fn.Blocks {
			if len(b.Instrs) == 0 {
				continue
			}
			iff, ok := b.Instrs[len(b.Instrs)-1].(*ssa.If)
			if !ok || len(b.Succs) != 2 {
				continue
			}
			bo, ok := iff.Cond.(*ssa.BinOp)
			if !ok || (bo.Op != token.EQL && bo.Op != token.NEQ) {
				continue
			}
			isEOF := func(v ssa.Value) bool {
				kv, ok := core.ConstInt(v)
				return ok && kv == eofVal && isRuneLike(v.Type())
			}
			if !isEOF(bo.X) && !isEOF(bo.Y) {
				continue
			}
			l := core.InnermostLoop(loops, b)
			if l == nil {
				continue
			}
			k++
			n++
			c.Touch(fn)
			eofEdge := b.Succs[0]
			if bo.Op == token.NEQ {
				eofEdge = b.Succs[1]
			}
			key := c.KeyAt(fn, fmt.Sprintf("EOF test #%d leaves its loop", k))
			c.Check(!l.Blocks[eofEdge], key, c.Pos(iff), "the EOF edge leaves the loop",
				"when the look-ahead is EOF the loop goes on (the branch target is still inside the loop body — a `break` that only leaves a switch?): nothing more can be consumed at the end of the input, so the scanner never returns")
		}
	}
	if n == 0 {
		c.Unknown("EOF tests", "-", "cannot-analyse: no loop of a Scanner method tests against EOF")
	}
}

func isRuneLike(t types.Type) bool {
	b, ok := t.Underlying().(*types.Basic)
	return ok && (b.Kind() == types.Int32 || b.Kind() == types.UntypedRune || b.Kind() == types.Int || b.Kind() == types.UntypedInt)
}
