package rules

// R-LOCK-23 (after the tenth round, by hand). A reader's note said that FOR UPDATE on parenthesized
// operands of a set operation locks nothing. Reproduced on the binary: while
// `(SELECT k FROM t) UNION (SELECT k FROM u) FOR UPDATE; <long loop>` ran, no lock file existed and a
// second process read u at once; with a bare left operand only t was locked. selectSetEntity handed
// the flag on to selectEntity but evaluated a parser.Subquery operand with Select, which looks at the
// operand's own context only. The clause: every form of operand of a set operation receives the
// FOR UPDATE flag of the query.

import (
	"fmt"
	"go/token"
	"go/types"

	"golang.org/x/tools/go/ssa"

	"verif/checker/core"
)

const lock23LoadView = "lib/query.LoadView"

func init() {
	Register(&Rule{ID: "R-LOCK-23", Props: []string{"C09"}, Floor: 2,
		Doc: "every form of operand of a set operation receives the FOR UPDATE flag: the flag parameters are found by a fixpoint from the forUpdate parameter of LoadView " +
			"(a bool parameter handed on to a flag parameter of a callee, as it is or after `if … { p = true }`); a function with a flag parameter p whose expression parameter receives, at some call site, " +
			"the LHS / RHS field of a parser.SelectSet evaluates one operand; in it, every call of a function of csvq that can reach LoadView (not through the statement interpreter) " +
			"either passes p to a flag parameter of the callee, or takes as an argument a local query value one of whose fields is stored under the true branch of p " +
			"(the operand's own context is marked FOR UPDATE before it is evaluated), or stands under the false branch of p — genuine defect repaired: a parenthesized operand was " +
			"evaluated without the flag, its tables stayed unlocked until the end of the transaction",
		Controls: []string{"CtlSetOperandDropsForUpdate"},
		Run:      ruleLock23})
}

type lock23Param struct {
	fn  *ssa.Function
	idx int
}

func lock23ParamIndex(fn *ssa.Function, v ssa.Value) int {
	for i, q := range fn.Params {
		if q == v {
			return i
		}
	}
	return -1
}

func ruleLock23(c *Ctx) {
	p := c.P
	lv := c.Fn(lock23LoadView)
	if lv == nil {
		return
	}
	flags := map[lock23Param]bool{}
	for i, q := range lv.Params {
		if b, ok := q.Type().Underlying().(*types.Basic); ok && b.Kind() == types.Bool && q.Name() == "forUpdate" {
			flags[lock23Param{lv, i}] = true
		}
	}
	if len(flags) == 0 {
		c.Unknown(lock23LoadView+": flag parameter", c.FnPos(lv), "LoadView has no bool parameter forUpdate: the anchor of the rule is gone")
		return
	}
	fns := p.FuncsIn(true, "lib/query")
	argBase := func(call ssa.CallInstruction, g *ssa.Function) int {
		// index shift between Args and Params (none: for a static call Args include the receiver)
		return 0
	}
	for changed := true; changed; {
		changed = false
		for _, fn := range fns {
			for _, call := range core.Calls(fn) {
				g := core.StaticCallee(call)
				if g == nil {
					continue
				}
				args := call.Common().Args
				for i, a := range args {
					if !flags[lock23Param{g, i + argBase(call, g)}] {
						continue
					}
					for _, o := range core.Origins(a, false) {
						if j := lock23ParamIndex(fn, o); j >= 0 && !flags[lock23Param{fn, j}] {
							flags[lock23Param{fn, j}] = true
							changed = true
						}
					}
				}
			}
		}
	}
	loaders := p.CanReach([]string{lock23LoadView}, txnBarrier)

	// operand evaluators
	isSetOperand := func(v ssa.Value) bool {
		for _, o := range core.Origins(v, false) {
			switch x := o.(type) {
			case *ssa.Field:
				if n := core.FieldName(x); (n == "LHS" || n == "RHS") && core.NamedOf(x.X.Type()) == "lib/parser.SelectSet" {
					return true
				}
			case *ssa.UnOp:
				if fa, ok := x.X.(*ssa.FieldAddr); ok && x.Op == token.MUL {
					if n := core.FieldName(fa); (n == "LHS" || n == "RHS") && core.NamedOf(fa.X.Type()) == "lib/parser.SelectSet" {
						return true
					}
				}
			}
		}
		return false
	}
	evaluators := map[*ssa.Function]bool{}
	for _, fn := range fns {
		for _, call := range core.Calls(fn) {
			g := core.StaticCallee(call)
			if g == nil {
				continue
			}
			hasFlag := false
			for i := range g.Params {
				if flags[lock23Param{g, i}] {
					hasFlag = true
				}
			}
			if !hasFlag {
				continue
			}
			for _, a := range call.Common().Args {
				if types.IsInterface(a.Type()) && isSetOperand(a) {
					evaluators[g] = true
				}
			}
		}
	}
	for _, fn := range fns {
		if !evaluators[fn] {
			continue
		}
		var flag ssa.Value
		for i, q := range fn.Params {
			if flags[lock23Param{fn, i}] {
				flag = q
			}
		}
		c.Touch(fn)
		n := map[string]int{}
		for _, call := range core.Calls(fn) {
			g := core.StaticCallee(call)
			if g == nil || !loaders[g] {
				continue
			}
			c.Sites++
			n[g.Name()]++
			key := c.KeyAt(fn, fmt.Sprintf("operand evaluated by %s #%d receives the FOR UPDATE flag", g.Name(), n[g.Name()]))
			aware := ""
			args := call.Common().Args
			for i, a := range args {
				if !flags[lock23Param{g, i}] {
					continue
				}
				for _, o := range core.Origins(a, false) {
					if o == flag {
						aware = "the flag is passed to the flag parameter of " + g.Name()
					}
				}
			}
			if aware == "" {
				for _, f := range core.FactsAt(call.Block()) {
					if f.Cond == flag && f.Neg {
						aware = "under the false branch of the flag"
					}
				}
			}
			if aware == "" {
				for _, a := range args {
					u, ok := a.(*ssa.UnOp)
					if !ok || u.Op != token.MUL {
						continue
					}
					al, ok := u.X.(*ssa.Alloc)
					if !ok {
						continue
					}
					for _, r := range *al.Referrers() {
						fa, ok := r.(*ssa.FieldAddr)
						if !ok {
							continue
						}
						for _, rr := range *fa.Referrers() {
							s, ok := rr.(*ssa.Store)
							if !ok || s.Addr != fa {
								continue
							}
							for _, f := range core.FactsAt(s.Block()) {
								if f.Cond == flag && !f.Neg {
									aware = fmt.Sprintf("the %s of the operand's own query is stored under the true branch of the flag at %s before the query is evaluated", core.FieldName(fa), c.Pos(s))
								}
							}
						}
					}
				}
			}
			if aware != "" {
				c.Ok(key, c.Pos(call), aware)
			} else {
				c.Bad(key, c.Pos(call), fmt.Sprintf("%s evaluates one form of operand of a set operation with %s at %s without the FOR UPDATE flag %s of the query: the tables of that operand are read without a lock although the statement says FOR UPDATE — another process can rewrite them before this transaction ends", fn.Name(), g.Name(), c.Pos(call), flag.Name()))
			}
		}
	}
}
