package rules

// Calling contexts of a private helper (shared by R-FMT-1 / -4 / -11 / -12 / -16).
//
// The rules about the output path locate their constructs through the writer handed to
// EncodeView. When the encode / write block is moved into a helper, that writer (and the
// options, the view, the FileInfo) become parameters of the helper: what they are is
// decided by the callers. A parameter of a function all of whose callers are static call
// sites is followed to the argument of each of these sites — one calling context per site,
// judged separately (context-sensitive, so nothing is merged or lost).

import (
	"golang.org/x/tools/go/ssa"

	"verif/checker/core"
)

// fxRootFn: the top-level function a closure belongs to.
func fxRootFn(fn *ssa.Function) *ssa.Function {
	for fn != nil && fn.Parent() != nil {
		fn = fn.Parent()
	}
	return fn
}

// fxStaticSites: the call sites of g when every caller of g in the program (controls do not
// count for repository functions) calls it statically, so that the sites enumerate all the
// values its parameters can take; nil otherwise (exported entry points without callers,
// functions called through a function value or an interface).
func fxStaticSites(c *Ctx, g *ssa.Function) []ssa.CallInstruction {
	if g == nil || g.Blocks == nil || g.Parent() != nil {
		return nil
	}
	edges := c.P.RealCallers(g)
	if len(edges) == 0 {
		return nil
	}
	var out []ssa.CallInstruction
	seen := map[ssa.CallInstruction]bool{}
	for _, e := range edges {
		if e.Site == nil || core.StaticCallee(e.Site) != g || fxRootFn(e.Caller.Func) == g {
			return nil
		}
		if _, isCall := e.Site.(*ssa.Call); !isCall {
			return nil // go / defer: not the straight-line helper the contexts are about
		}
		if !seen[e.Site] {
			seen[e.Site] = true
			out = append(out, e.Site)
		}
	}
	return out
}

// fxParamOf: v is (only) a parameter of a top-level function — directly, through interface
// conversions or through a local cell that holds nothing else; returns it with its index.
func fxParamOf(v ssa.Value) (*ssa.Parameter, int) {
	os := core.Origins(v, false)
	if len(os) != 1 {
		return nil, -1
	}
	p, ok := os[0].(*ssa.Parameter)
	if !ok || p.Parent() == nil || p.Parent().Parent() != nil {
		return nil, -1
	}
	for i, q := range p.Parent().Params {
		if q == p {
			return p, i
		}
	}
	return nil, -1
}

// fxCtxVal is a value seen from one calling context: V lives in Fn; Chain are the calls that
// lead from Fn down to the function the value was asked about (Chain[0] is an instruction
// of Fn, the last one calls the function that holds the construct). Chain is empty when the
// value is not a parameter whose callers are all known.
type fxCtxVal struct {
	V     ssa.Value
	Fn    *ssa.Function
	Chain []ssa.CallInstruction
}

// At: the instruction of Fn that stands for the construct `in` of the innermost function.
func (x fxCtxVal) At(in ssa.Instruction) ssa.Instruction {
	if len(x.Chain) > 0 {
		return x.Chain[0].(ssa.Instruction)
	}
	return in
}

// fxLift follows v (a value of fn) to the calling contexts that decide it: while it is a
// parameter of a function whose callers are all static call sites, it is replaced by the
// argument at each site (at most depth levels). Every result is one context.
func fxLift(c *Ctx, v ssa.Value, fn *ssa.Function, depth int) []fxCtxVal {
	p, idx := fxParamOf(v)
	if p == nil || depth <= 0 {
		return []fxCtxVal{{V: v, Fn: fn}}
	}
	sites := fxStaticSites(c, p.Parent())
	if len(sites) == 0 {
		return []fxCtxVal{{V: v, Fn: fn}}
	}
	var out []fxCtxVal
	for _, s := range sites {
		if idx >= len(s.Common().Args) {
			return []fxCtxVal{{V: v, Fn: fn}}
		}
		for _, up := range fxLift(c, s.Common().Args[idx], s.Parent(), depth-1) {
			chain := append(append([]ssa.CallInstruction(nil), up.Chain...), s)
			out = append(out, fxCtxVal{V: up.V, Fn: up.Fn, Chain: chain})
		}
	}
	return out
}

// fxUp1 maps v, a value of the function called by chain[level-1], one level up: the
// argument handed for it at that call. ok=false when v is not a parameter of that function.
func fxUp1(chain []ssa.CallInstruction, v ssa.Value, level int) (ssa.Value, bool) {
	if level <= 0 || level > len(chain) {
		return v, false
	}
	p, idx := fxParamOf(v)
	site := chain[level-1]
	if p == nil || p.Parent() != core.StaticCallee(site) || idx >= len(site.Common().Args) {
		return v, false
	}
	return site.Common().Args[idx], true
}

// fxMapUp maps v (a value at level `level` of the chain; len(chain) = the innermost function)
// up the chain as far as it is a parameter; returns the value and the level it lives at
// (0 = the function that holds chain[0]).
func fxMapUp(chain []ssa.CallInstruction, v ssa.Value, level int) (ssa.Value, int) {
	for level > 0 {
		w, ok := fxUp1(chain, v, level)
		if !ok {
			break
		}
		v, level = w, level-1
	}
	return v, level
}
