package rules

// Substrate rules.
//
// Some rules decide conditions on which every value-level property rests: no value object is returned to its
// pool while something still refers to it (R-POOL-1/2/3/5), no memory is written by two goroutines without
// synchronisation (R-PAR-1) or through somebody else's spare capacity (R-ALIAS-1), no cell or syntax tree shared
// with another holder is written in place (R-ISO-4, R-AST-1). A violation of one of them corrupts whatever is
// computed next — the rows of a SELECT (C03), a comparison (C06), a sort (C07), a bucket (C04), a cursor row (C16),
// an analytic value (C17), the bytes written by COMMIT (C01, C02), the table a later statement reads (C05, C08,
// C20) — and the independently seeded changes (DESIGN §8) show that this is how such properties are broken in
// practice: thirteen of them were first caught only under a property the rule was not registered for. They are
// therefore run with every property whose observable behaviour they protect. This file runs last (file name) and
// only widens the Props of rules that are already registered.

var substrateRules = []string{"R-POOL-1", "R-POOL-2", "R-POOL-3", "R-POOL-5", "R-PAR-1", "R-ALIAS-1", "R-ISO-4", "R-AST-1"}

var substrateProps = []string{"C01", "C02", "C03", "C04", "C05", "C06", "C07", "C08", "C12", "C13", "C14", "C15", "C16", "C17", "C19", "C20"}

func init() {
	for _, r := range registry {
		isSub := false
		for _, id := range substrateRules {
			if r.ID == id {
				isSub = true
			}
		}
		if !isSub {
			continue
		}
		have := map[string]bool{}
		for _, p := range r.Props {
			have[p] = true
		}
		for _, p := range substrateProps {
			if !have[p] {
				r.Props = append(r.Props, p)
			}
		}
	}
}
