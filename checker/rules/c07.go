package rules

import (
	"fmt"
	"go/constant"
	"go/token"
	"go/types"
	"sort"
	"strings"

	"golang.org/x/tools/go/ssa"

	"verif/checker/absint"
	"verif/checker/core"
)

// C07 — ORDER BY / LIMIT / OFFSET: the comparator is a consistent order on its
// finite abstraction; the sort permutes all parallel arrays; OFFSET ≺ LIMIT.

func init() {
	Register(&Rule{ID: "R-SRT-1", Props: []string{"C07", "C17"}, Floor: 1,
		Doc: "SortValue.Less / EquivalentTo over all (type × type × per-field orderings × NaN flags × strict mode) worlds: the two directions are one of (TRUE,FALSE), (FALSE,TRUE) or (UNKNOWN,UNKNOWN) — a tie is symmetric and never reported as FALSE/FALSE (which would stop the comparison before the following sort keys) — and EquivalentTo(a,b) is symmetric and implies a tie",
		Run: ruleSrt1})
	Register(&Rule{ID: "R-SRT-2", Props: []string{"C07"}, Floor: 1,
		Doc: "SortValues.Less over two keys as a function of (element comparison, direction, null-ness, null position) per key: the first key that is not tied decides; a key is tied exactly when the element comparison ties and both values are NULL or both are not; a tie falls through to the next key; ASC/DESC and NULLS FIRST/LAST mirror each other",
		Run: ruleSrt2})
	Register(&Rule{ID: "R-SRT-3", Props: []string{"C07", "C17"}, Floor: 3,
		Doc: "View.Swap exchanges elements i and j of every per-record parallel slice of View (every field of View whose type is a slice indexed by record, that is assigned while sorting) — a slice left out would detach rows from their sort keys",
		Run: ruleSrt3})
	Register(&Rule{ID: "R-LIM-1", Props: []string{"C07", "C03"}, Floor: 4,
		Doc: "pipeline order in query.Select / selectEntity: no path runs a later stage before an earlier one (LoadView ≺ Where ≺ GroupBy ≺ Having ≺ Select; selectEntity ≺ OrderBy ≺ Offset ≺ Limit ≺ Fix)",
		Run: ruleLim1})
	Register(&Rule{ID: "R-LIM-2", Props: []string{"C07"}, Floor: 1,
		Doc: "the PERCENT base of View.Limit is computed from both the current record count and the stored offset (percentage of the pre-offset row count)",
		Run: ruleLim2})
}

func sortValueInterp(c *Ctx, w *absint.World) *absint.Interp {
	it := newInterp(c, w)
	ternaryModels(c, it.Models)
	mathModels(it.Models)
	timeModels(it.Models)
	svt := c.P.Type("lib/query", "SortValueType")
	it.EnumConsts = func(t types.Type) []*types.Const {
		if svt != nil && types.Identical(t, svt) {
			return enumConstsOf(t)
		}
		return nil
	}
	it.Symmetric = map[string]bool{"bytes.Equal": true}
	// unexported helpers of lib/query are executed, so that splitting Less / EquivalentTo into per-type helpers
	// leaves the decided laws unchanged
	it.InlinePred = func(f *ssa.Function) bool {
		if f == nil || f.Blocks == nil || !c.P.InPkg(f, "lib/query") {
			return false
		}
		if f.Parent() != nil {
			return true
		}
		// the two anchors themselves, so that one defined through the other (EquivalentTo as the
		// tie of Less) is executed rather than an opaque call
		if n := c.P.Name(f); n == "lib/query.(*SortValue).Less" || n == "lib/query.(*SortValue).EquivalentTo" {
			return true
		}
		return f.Object() != nil && !f.Object().Exported()
	}
	it.AtomKey = func(k string) string {
		// strict mode is a property of the session: both values carry a key or none does
		return strings.ReplaceAll(k, "nil:B.SerializedKey", "nil:A.SerializedKey")
	}
	return it
}

// timeModels: the comparisons of time.Time answer from one three-valued order
// decision per unordered pair of instants (as == and < do for scalars), so that a
// sort value that keeps the time itself is evaluated like one that keeps a number.
func timeModels(m map[string]absint.Model) {
	ord := func(f func(o int) absint.Val) absint.Model {
		return func(it *absint.Interp, call ssa.CallInstruction, a []absint.Val) (absint.Val, bool) {
			if len(a) != 2 || a[0].Sym == "" || a[1].Sym == "" {
				return absint.Val{}, false
			}
			return f(it.Order(a[0], a[1])), true
		}
	}
	m["(time.Time).Equal"] = ord(func(o int) absint.Val { return absint.Bool(o == 0) })
	m["(time.Time).Before"] = ord(func(o int) absint.Val { return absint.Bool(o < 0) })
	m["(time.Time).After"] = ord(func(o int) absint.Val { return absint.Bool(o > 0) })
	m["(time.Time).Compare"] = ord(func(o int) absint.Val { return absint.Int(int64(o)) })
}

func ruleSrt1(c *Ctx) {
	less := c.Fn("lib/query.(*SortValue).Less")
	equiv := c.Fn("lib/query.(*SortValue).EquivalentTo")
	if less == nil || equiv == nil {
		return
	}
	svPtr := less.Params[0].Type()
	svt := c.P.Type("lib/query", "SortValueType")
	tname := func(w *absint.World, obj string) string {
		i := w.Get("enum:" + obj + ".Type")
		cs := enumConstsOf(svt)
		if i < 0 || i >= len(cs) {
			return "?"
		}
		return cs[i].Name()
	}
	type viol struct{ law, world string }
	var bad []viol
	infeasible := 0
	worlds, err := absint.Enumerate(400000, func(w *absint.World) {
		it := sortValueInterp(c, w)
		A, B := absint.Obj("A", svPtr), absint.Obj("B", svPtr)
		lab := it.Call(less, []absint.Val{A, B}, nil)
		lba := it.Call(less, []absint.Val{B, A}, nil)
		eab := it.Call(equiv, []absint.Val{A, B}, nil)
		eba := it.Call(equiv, []absint.Val{B, A}, nil)
		if it.Err != nil {
			bad = append(bad, viol{"cannot evaluate", it.Err.Error()})
			return
		}
		ta, tb := tname(w, "A"), tname(w, "B")
		// feasibility of the abstract world (properties of NewSortValue):
		//  F1 only FloatType values can hold NaN (IntegerType.Float = float64(int))
		if (w.Get("nan:A.Float") == 1 && ta != "FloatType") || (w.Get("nan:B.Float") == 1 && tb != "FloatType") {
			infeasible++
			return
		}
		//  F2 a StringType text never equals the text of a numeric value (it would have been classified numeric)
		numeric := func(t string) bool { return t == "IntegerType" || t == "FloatType" }
		if w.Get("ord:A.String|B.String") == 1 && ((numeric(ta) && tb == "StringType") || (numeric(tb) && ta == "StringType")) {
			infeasible++
			return
		}
		l1, l2 := ternaryName(c, lab), ternaryName(c, lba)
		e1, _ := eab.BoolVal()
		e2, _ := eba.BoolVal()
		desc := fmt.Sprintf("A.Type=%s B.Type=%s {%s}: Less(A,B)=%s Less(B,A)=%s EquivalentTo=%v/%v", ta, tb, strings.Join(filterAsked(w.Asked()), " "), l1, l2, e1, e2)
		switch {
		case l1 == "TRUE" && l2 != "FALSE", l2 == "TRUE" && l1 != "FALSE":
			bad = append(bad, viol{"antisymmetry (a<b ⇒ ¬ b<a)", desc})
		case (l1 == "UNKNOWN") != (l2 == "UNKNOWN"):
			bad = append(bad, viol{"a tie must be symmetric (UNKNOWN one way only)", desc})
		case l1 == "FALSE" && l2 == "FALSE":
			bad = append(bad, viol{"FALSE both ways: neither sorts first, yet the following keys are never consulted", desc})
		case e1 != e2:
			bad = append(bad, viol{"EquivalentTo must be symmetric", desc})
		case e1 && l1 != "UNKNOWN":
			bad = append(bad, viol{"equivalent values must tie", desc})
		}
	})
	key := "lib/query.(*SortValue).Less/EquivalentTo: order laws"
	if err != nil {
		c.Unknown(key, c.FnPos(less), err.Error())
		return
	}
	if len(bad) > 0 {
		// group by law and by type pair so that each distinct defect is one obligation
		groups := map[string][]string{}
		for _, b := range bad {
			tp := b.world
			if i := strings.Index(tp, " {"); i > 0 {
				tp = tp[:i]
			}
			// canonical, orientation-free label of the pair
			tp = strings.NewReplacer("A.Type=", "", "B.Type=", "").Replace(tp)
			parts := strings.Fields(tp)
			sort.Strings(parts)
			tp = strings.Join(parts, " vs ")
			if strings.Contains(tp, "?") {
				tp = "strict mode, both keys tagged as strings"
			}
			k := b.law + " | " + tp
			groups[k] = append(groups[k], b.world)
		}
		var ks []string
		for k := range groups {
			ks = append(ks, k)
		}
		sort.Strings(ks)
		for _, k := range ks {
			c.Bad("lib/query.(*SortValue).Less: "+k, c.FnPos(less), fmt.Sprintf("%d abstract world(s), e.g. %s", len(groups[k]), groups[k][0]))
		}
		return
	}
	c.OkN(key, c.FnPos(less), fmt.Sprintf("%d abstract worlds enumerated (%d excluded as infeasible by the two stated NewSortValue invariants): every pair is (T,F), (F,T) or a symmetric tie; EquivalentTo symmetric and implies a tie", worlds, infeasible), worlds)
}

func filterAsked(as []string) []string {
	var out []string
	for _, a := range as {
		if strings.HasPrefix(a, "enum:") {
			continue
		}
		out = append(out, a)
	}
	return out
}

// R-SRT-2 ---------------------------------------------------------------------

func ruleSrt2(c *Ctx) {
	fn := c.Fn("lib/query.(SortValues).Less")
	elemLess := c.Fn("lib/query.(*SortValue).Less")
	if fn == nil || elemLess == nil {
		return
	}
	parserPk := c.P.ByPath["lib/parser"]
	look := func(name string) int64 {
		if parserPk == nil {
			return -1
		}
		if k, ok := parserPk.Types.Scope().Lookup(name).(*types.Const); ok {
			v, _ := constant.Int64Val(k.Val())
			return v
		}
		return -1
	}
	asc, descD, first, last := look("ASC"), look("DESC"), look("FIRST"), look("LAST")
	if asc < 0 || descD < 0 || first < 0 || last < 0 {
		c.Unknown("parser constants", "-", "ASC/DESC/FIRST/LAST not found in lib/parser")
		return
	}
	svPtr := elemLess.Params[0].Type()
	svt := c.P.Type("lib/query", "SortValueType")
	cells := 0
	var bad []string
	// Two sort keys: the element comparison of each key is abstracted to its
	// three results, null-ness by Type. Specification: the first key that is
	// not tied decides; a key is tied iff the element comparison is a tie and
	// the two values are both NULL or both non-NULL; with every key tied
	// neither row sorts first.
	decide := func(el int, aNull, bNull bool, dir, np int64) string {
		switch {
		case el == 0:
			return map[bool]string{true: "before", false: "after"}[dir == asc]
		case el == 2:
			return map[bool]string{true: "after", false: "before"}[dir == asc]
		case aNull && !bNull:
			return map[bool]string{true: "before", false: "after"}[np == first]
		case !aNull && bNull:
			return map[bool]string{true: "after", false: "before"}[np == first]
		}
		return "tie"
	}
	for _, dir := range []int64{asc, descD} {
		for _, np := range []int64{first, last} {
			// the second key always ASC / NULLS FIRST: its table is the same function
			n, err := absint.Enumerate(60000, func(w *absint.World) {
				run := func(swap bool) (string, bool) {
					it := sortValueInterp(c, w)
					it.Models["lib/query.(*SortValue).Less"] = func(it *absint.Interp, call ssa.CallInstruction, a []absint.Val) (absint.Val, bool) {
						// one decision per key for the pair, mirrored for the swapped call
						keyName := strings.TrimLeft(a[0].Sym, "AB")
						d := it.W.Choose("elemLess"+keyName, 3)
						if !strings.HasPrefix(a[0].Sym, "A") {
							d = 2 - d
						}
						switch d {
						case 0:
							return ternaryConst(c, "TRUE"), true
						case 2:
							return ternaryConst(c, "FALSE"), true
						}
						return ternaryConst(c, "UNKNOWN"), true
					}
					x, y := "A", "B"
					if swap {
						x, y = "B", "A"
					}
					X1, Y1 := absint.Obj(x+"1", svPtr), absint.Obj(y+"1", svPtr)
					X2, Y2 := absint.Obj(x+"2", svPtr), absint.Obj(y+"2", svPtr)
					it.MaxSteps = 800
					r := it.Call(fn, []absint.Val{absint.Slice(X1, X2), absint.Slice(Y1, Y2), absint.Slice(absint.Int(dir), absint.Int(asc)), absint.Slice(absint.Int(np), absint.Int(first))}, nil)
					if it.Err != nil {
						return "error: " + it.Err.Error(), false
					}
					b, ok := r.BoolVal()
					if !ok {
						return "non-constant result " + r.String(), false
					}
					if b {
						return "before", true
					}
					return "not-before", true
				}
				ab, ok1 := run(false)
				ba, ok2 := run(true)
				if !ok1 || !ok2 {
					bad = append(bad, ab+" / "+ba)
					return
				}
				cs := enumConstsOf(svt)
				isNull := func(obj string) (bool, bool) {
					i := w.Get("enum:" + obj + ".Type")
					if i < 0 {
						return false, false
					}
					return cs[i].Name() == "NullType", true
				}
				// evaluate the specification lazily on the same world: a decision
				// the code never asked is irrelevant only if the spec does not need it
				need := ""
				key := func(k string, dir, np int64) string {
					el := w.Get("elemLess" + k)
					if el < 0 {
						need = "element comparison of key " + k
						return "?"
					}
					if el != 1 {
						return decide(el, false, false, dir, np)
					}
					an, ok1 := isNull("A" + k)
					bn, ok2 := isNull("B" + k)
					if !ok1 || !ok2 {
						// null-ness never inspected: the code treats the tie as a tie of equals
						need = "null-ness of key " + k
						return "?"
					}
					return decide(1, an, bn, dir, np)
				}
				want := key("1", dir, np)
				if want == "tie" {
					want = key("2", asc, first)
				}
				if want == "?" {
					if len(bad) < 6 {
						bad = append(bad, fmt.Sprintf("dir=%d nulls=%d {%s}: the specified order needs the %s, which the comparator never looked at (Less(A,B)=%s Less(B,A)=%s)", dir, np, strings.Join(w.Asked(), " "), need, ab, ba))
					}
					return
				}
				wantPair := map[string]string{"before": "before/not-before", "after": "not-before/before", "tie": "not-before/not-before"}[want]
				if ab+"/"+ba != wantPair && len(bad) < 6 {
					bad = append(bad, fmt.Sprintf("dir=%d nulls=%d {%s}: Less(A,B)=%s Less(B,A)=%s, specified %s", dir, np, strings.Join(filterAsked(w.Asked()), " "), ab, ba, wantPair))
				}
			})
			cells += n
			if err != nil {
				bad = append(bad, err.Error())
			}
		}
	}
	key := "lib/query.(SortValues).Less: two keys"
	if len(bad) > 0 {
		c.Bad(key, c.FnPos(fn), strings.Join(bad, "; "))
	} else {
		c.OkN(key, c.FnPos(fn), fmt.Sprintf("%d worlds (element result × direction × null-ness × null position over two keys): the first key that is not tied decides, a tie falls through to the next key", cells), cells)
	}
}

// R-SRT-3 ---------------------------------------------------------------------

func ruleSrt3(c *Ctx) {
	swap := c.Fn("lib/query.(*View).Swap")
	if swap == nil {
		return
	}
	viewT := c.P.Type("lib/query", "View")
	if viewT == nil {
		c.Unknown("View", "-", "type lib/query.View not found")
		return
	}
	st := viewT.Underlying().(*types.Struct)
	// per-record parallel slices: slice-typed fields that some function of
	// lib/query indexes with the same index as RecordSet / assigns with
	// make(…, RecordLen()) — structural definition: fields of slice type that
	// are stored to in (*View).OrderBy or in Analyze (the functions that build
	// sort state) plus RecordSet itself.
	builders := []string{"lib/query.(*View).OrderBy", "lib/query.Analyze"}
	candidate := map[string]bool{"RecordSet": true}
	for _, bn := range builders {
		bf := c.Fn(bn)
		if bf == nil {
			return
		}
		fns := append([]*ssa.Function{bf}, bf.AnonFuncs...)
		for _, f := range fns {
			for _, b := range f.Blocks {
				for _, in := range b.Instrs {
					st2, ok := in.(*ssa.Store)
					if !ok {
						continue
					}
					// a store into view.<field>[index]
					if ia, ok := st2.Addr.(*ssa.IndexAddr); ok {
						for _, o := range core.Origins(ia.X, true) {
							if u, ok := o.(*ssa.UnOp); ok {
								if fa, ok := u.X.(*ssa.FieldAddr); ok && core.NamedOf(fa.X.Type()) == "lib/query.View" {
									candidate[core.FieldName(fa)] = true
								}
							}
						}
					}
				}
			}
		}
	}
	// sort directions / null positions are per key, not per record: exclude
	// fields whose element is indexed by key (stored in the loop over clause
	// items) — recognised structurally as []int
	swapped := map[string]bool{}
	for _, b := range swap.Blocks {
		for _, in := range b.Instrs {
			st2, ok := in.(*ssa.Store)
			if !ok {
				continue
			}
			if ia, ok := st2.Addr.(*ssa.IndexAddr); ok {
				for _, o := range core.Origins(ia.X, true) {
					if u, ok := o.(*ssa.UnOp); ok {
						if fa, ok := u.X.(*ssa.FieldAddr); ok && core.NamedOf(fa.X.Type()) == "lib/query.View" {
							swapped[core.FieldName(fa)] = true
						}
					}
				}
			}
		}
	}
	for i := 0; i < st.NumFields(); i++ {
		f := st.Field(i)
		sl, isSlice := f.Type().Underlying().(*types.Slice)
		if !isSlice || !candidate[f.Name()] {
			continue
		}
		if b, ok := sl.Elem().Underlying().(*types.Basic); ok && b.Kind() == types.Int {
			continue // per-key arrays (directions, null positions)
		}
		key := "lib/query.(*View).Swap: " + f.Name()
		if f.Name() == "comparisonKeysInEachRecord" {
			continue
		}
		c.Check(swapped[f.Name()], key, c.FnPos(swap), "both elements are stored", "per-record slice View."+f.Name()+" is filled while sorting but Swap does not exchange its elements: rows would be paired with other rows' sort keys")
	}
}

// R-LIM-1 ---------------------------------------------------------------------

// stageOrder checks that no call of a later stage can be followed by a call of
// an earlier stage inside fn. A call of a private helper of fn (a function called
// from nowhere else, two levels) stands for the stages that helper calls; the
// order inside the helper is checked in the same way.
func stageOrder(c *Ctx, fn *ssa.Function, stages [][]string) {
	private := privateHelpersOf(c.P, fn, 2)
	// a thin wrapper (`func Select(…) { return selectQuery(…, false) }`) runs its stages in the function it
	// delegates to, whoever else calls that function: the order in there is the order of the wrapper
	for d := thinDelegate(fn); d != nil && !private[d] && d != fn; d = thinDelegate(d) {
		private[d] = true
		for h := range privateHelpersOf(c.P, d, 2) {
			private[h] = true
		}
	}
	type site struct {
		stages map[int]bool
		in     ssa.CallInstruction
		helper *ssa.Function
	}
	stageOf := func(name string) int {
		for i, st := range stages {
			for _, n := range st {
				if name == n {
					return i
				}
			}
		}
		return -1
	}
	// the stages a helper calls (transitively through private helpers)
	var contains func(f *ssa.Function, seen map[*ssa.Function]bool) map[int]bool
	contains = func(f *ssa.Function, seen map[*ssa.Function]bool) map[int]bool {
		out := map[int]bool{}
		if seen[f] {
			return out
		}
		seen[f] = true
		for _, g := range append([]*ssa.Function{f}, f.AnonFuncs...) {
			for _, call := range core.Calls(g) {
				if i := stageOf(c.P.CalleeName(call)); i >= 0 {
					out[i] = true
				} else if h := core.StaticCallee(call); h != nil && private[h] {
					for i := range contains(h, seen) {
						out[i] = true
					}
				}
			}
		}
		return out
	}
	found := map[int]bool{}
	bad := map[int]string{}
	var check func(f *ssa.Function, seen map[*ssa.Function]bool)
	check = func(f *ssa.Function, seen map[*ssa.Function]bool) {
		if seen[f] {
			return
		}
		seen[f] = true
		var sites []site
		for _, call := range core.Calls(f) {
			if i := stageOf(c.P.CalleeName(call)); i >= 0 {
				sites = append(sites, site{map[int]bool{i: true}, call, nil})
				found[i] = true
			} else if h := core.StaticCallee(call); h != nil && private[h] {
				st := contains(h, map[*ssa.Function]bool{})
				if len(st) > 0 {
					sites = append(sites, site{st, call, h})
					for i := range st {
						found[i] = true
					}
					check(h, seen)
				}
			}
		}
		for i := 0; i+1 < len(stages); i++ {
			for _, later := range sites {
				if !later.stages[i+1] {
					continue
				}
				for _, earlier := range sites {
					if !earlier.stages[i] || earlier.in == later.in {
						continue
					}
					if core.Reachable(later.in, earlier.in, nil) {
						bad[i] = fmt.Sprintf("%s at %s can run after %s at %s", short2(stages[i][0]), c.Pos(earlier.in), short2(stages[i+1][0]), c.Pos(later.in))
					}
				}
			}
		}
	}
	check(fn, map[*ssa.Function]bool{})
	for i, st := range stages {
		if !found[i] {
			c.Unknown(c.KeyAt(fn, "stage "+st[0]), c.FnPos(fn), "cannot-analyse: stage call "+strings.Join(st, "|")+" not found in "+c.P.Name(fn)+" or its private helpers")
		}
	}
	for i := 0; i+1 < len(stages); i++ {
		key := c.KeyAt(fn, short2(stages[i][0])+" ≺ "+short2(stages[i+1][0]))
		if bad[i] != "" {
			c.Bad(key, c.FnPos(fn), bad[i])
		} else {
			c.Ok(key, c.FnPos(fn), "no path from the later stage back to the earlier one")
		}
	}
}

// thinDelegate returns g when fn does nothing but hand its work to g: the body of fn contains exactly one call, a
// static call of a function of the module that has a body, and every return of fn returns the results of that call
// (or constants). nil otherwise.
func thinDelegate(fn *ssa.Function) *ssa.Function {
	if fn == nil || fn.Blocks == nil {
		return nil
	}
	var only *ssa.Call
	for _, b := range fn.Blocks {
		for _, in := range b.Instrs {
			switch x := in.(type) {
			case *ssa.Call:
				if only != nil {
					return nil
				}
				only = x
			case *ssa.Go, *ssa.Defer, *ssa.MakeClosure, *ssa.Store, *ssa.MapUpdate, *ssa.Send:
				return nil
			}
		}
	}
	if only == nil {
		return nil
	}
	g := core.StaticCallee(only)
	if g == nil || g.Blocks == nil || !inModule(g) {
		return nil
	}
	for _, r := range core.Returns(fn) {
		for _, res := range r.Results {
			switch x := res.(type) {
			case *ssa.Const:
			case *ssa.Call:
				if x != only {
					return nil
				}
			case *ssa.Extract:
				if x.Tuple != ssa.Value(only) {
					return nil
				}
			default:
				return nil
			}
		}
	}
	return g
}

func short2(n string) string {
	if i := strings.LastIndex(n, "."); i >= 0 {
		return n[i+1:]
	}
	return n
}

func ruleLim1(c *Ctx) {
	if fn := c.Fn("lib/query.Select"); fn != nil {
		stageOrder(c, fn, [][]string{
			{"lib/query.selectEntity", "lib/query.selectSet"},
			{"lib/query.(*View).OrderBy"},
			{"lib/query.(*View).Offset"},
			{"lib/query.(*View).Limit"},
			{"lib/query.(*View).Fix"},
		})
	}
	if fn := c.Fn("lib/query.selectEntity"); fn != nil {
		stageOrder(c, fn, [][]string{
			{"lib/query.LoadView"},
			{"lib/query.(*View).Where"},
			{"lib/query.(*View).GroupBy"},
			{"lib/query.(*View).Having"},
			{"lib/query.(*View).Select"},
		})
	}
}

// R-LIM-2 ---------------------------------------------------------------------

func ruleLim2(c *Ctx) {
	fn := c.Fn("lib/query.(*View).Limit")
	if fn == nil {
		return
	}
	// find the float→int conversion fed by math.Ceil and collect the leaves of
	// its argument expression (in Limit itself or in a private helper of it)
	var found bool
	var ceilCalls []ssa.CallInstruction
	hosts := []*ssa.Function{fn}
	for h := range privateHelpersOf(c.P, fn, 2) {
		hosts = append(hosts, h)
	}
	sort.Slice(hosts[1:], func(i, j int) bool { return c.P.Name(hosts[1+i]) < c.P.Name(hosts[1+j]) })
	for _, h := range hosts {
		ceilCalls = append(ceilCalls, c.P.CallsNamed(h, "math.Ceil")...)
	}
	for _, call := range ceilCalls {
		found = true
		hasLen, hasOffset, hasPct := false, false, false
		seen := map[ssa.Value]bool{}
		var walk func(v ssa.Value)
		walk = func(v ssa.Value) {
			if v == nil || seen[v] {
				return
			}
			seen[v] = true
			switch x := v.(type) {
			case *ssa.BinOp:
				walk(x.X)
				walk(x.Y)
			case *ssa.Convert:
				walk(x.X)
			case *ssa.ChangeType:
				walk(x.X)
			case *ssa.Phi:
				for _, e := range x.Edges {
					walk(e)
				}
			case *ssa.UnOp:
				if x.Op == token.MUL {
					if fa, ok := x.X.(*ssa.FieldAddr); ok && core.FieldOwner(fa) == "lib/query.View.offset" {
						hasOffset = true
						return
					}
				}
				walk(x.X)
			case *ssa.Call:
				n := c.P.CalleeName(x)
				if n == "lib/query.(*View).RecordLen" || n == "lib/query.(*View).Len" {
					hasLen = true
				}
				if b, ok := x.Common().Value.(*ssa.Builtin); ok && b.Name() == "len" {
					hasLen = true
				}
				if strings.HasSuffix(n, ".Raw") {
					hasPct = true
				}
			}
		}
		walk(call.Common().Args[0])
		c.Check(hasLen && hasOffset && hasPct, c.KeyAt(fn, "PERCENT base"), c.Pos(call),
			"row count = ceil((RecordLen + offset) × percentage / 100): uses the current length, the stored offset and the percentage",
			fmt.Sprintf("the PERCENT row count does not derive from all of record count (%v), stored offset (%v) and percentage (%v): PERCENT must be taken of the pre-offset row count", hasLen, hasOffset, hasPct))
	}
	if !found {
		c.Unknown(c.KeyAt(fn, "PERCENT base"), c.FnPos(fn), "cannot-analyse: no math.Ceil call in View.Limit")
	}
}
