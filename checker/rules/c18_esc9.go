package rules

import (
	"fmt"
	"go/constant"
	"go/token"
	"go/types"
	"sort"
	"strings"

	"golang.org/x/tools/go/ssa"

	"verif/checker/core"
)

// R-ESC-9 — a printer consults every field of its node on every path.
//
// The grammar stores each optional keyword and each child in a field of its
// own (Join.Direction = LEFT while Join.JoinType is empty for `LEFT JOIN`, OUTER
// being optional). A String() method that reaches a return without having
// either printed a field or branched on it has silently dropped whatever the
// field held: the printed query still parses, but to another tree.
//
// For every String() method P of a lib/parser syntax-tree struct and every field
// F of the struct except the embedded position (*BaseExpr), the rule decides by
// a forward must-analysis over P's control-flow graph that F is CONSULTED on
// every path from the entry to a return. A value is derived from F when it is
// read from the field (Field / FieldAddr on the node, also through the cell a
// receiver is spilled into) or computed from derived values (field of a field,
// len, comparison, conversion, φ, index, type test, the result of a call that
// takes derived arguments). F is consulted at
//   a branch        whose condition is derived from F (IsEmpty(), != nil, a switch
//                   on Token, a type switch, the bound of a range loop),
//   a store/append  of a derived value (an element of the []string being built,
//                   a variadic argument), a return of one,
//   a call          that takes a derived value together with an accumulator
//                   (another argument of slice / pointer / map type: appendOptional
//                   (s, e.X), buf.WriteString(…)) or whose result is not used.
// A value computed early (`d := j.Direction.String()`) counts where it is used,
// not where it is read. When P hands the node itself to a lib/parser function
// (e.IsForUpdate(), e.restrictionString()), the fields that function consults on
// every one of ITS paths (same analysis, recursively) are what the call's result
// is derived from.
//
// Discriminated fields: the grammar fills some fields only together with a
// particular value of another one (LimitClause.Position only for FETCH). They
// are a frozen table below; each entry names the live condition, and the rule
// re-checks the clause under it: branch conditions are evaluated under the
// assumption (comparisons of Token numbers with constants, nil tests, len,
// strings.EqualFold on the field, helper predicates of lib/parser evaluated
// through their bodies), infeasible edges are pruned, and F must be consulted on
// every remaining path.

func init() {
	Register(&Rule{ID: "R-ESC-9", Props: []string{"C18"}, Floor: 150,
		Doc:      "every String() method of a lib/parser syntax-tree struct consults every field of the struct (all but the embedded *BaseExpr) on every path from entry to return: a value derived from the field reaches a branch condition (IsEmpty, != nil, switch on Token, type switch, range bound), a store / append / return, or a call that takes it together with an accumulator, on each path — also inside lib/parser functions that are handed the node (their own every-path set, recursively); a path on which a field is neither printed nor tested drops an optional keyword or child silently (LEFT JOIN printed as JOIN). Fields the grammar fills only together with a value of another field (frozen table of 10: LimitClause.Position/Value/Unit/Restriction by Type, JoinCondition.Using by On, WindowFramePosition.Unbounded/Offset by Direction, Placeholder.Ordinal by Name, Function.From/For by Name) are checked on the paths that remain after the branch conditions have been evaluated under the live condition",
		Controls: []string{"CtlNodeFieldDroppedOnFallThrough", "CtlNodeFieldReadEarlyUsedInOneArm", "CtlNodeFieldHelperSkipsField"},
		Run:      ruleEsc9})
}

// ---------------------------------------------------------------------------
// assumptions

const (
	fxAtIntIs    = iota // the integer at path equals k
	fxAtIntNot          // … differs from k
	fxAtNil             // the interface / slice / pointer at path is nil
	fxAtNonNil          //
	fxAtStrEmpty        // the string at path is empty
	fxAtFoldEq          // strings.EqualFold(path, …) holds
)

type fxAtom struct {
	kind  int
	path  string
	konst string // name of a lib/parser constant, or a decimal number
	k     int64
}

func (a fxAtom) String() string {
	switch a.kind {
	case fxAtIntIs:
		return a.path + " == " + a.konst
	case fxAtIntNot:
		return a.path + " != " + a.konst
	case fxAtNil:
		return a.path + " == nil"
	case fxAtNonNil:
		return a.path + " != nil"
	case fxAtStrEmpty:
		return a.path + ` == ""`
	case fxAtFoldEq:
		return "EqualFold(" + a.path + ", …)"
	}
	return "?"
}

type fxAssume []fxAtom

func (a fxAssume) String() string {
	var s []string
	for _, x := range a {
		s = append(s, x.String())
	}
	return strings.Join(s, " && ")
}

type fxFieldExc struct {
	live   []fxAssume // alternatives; the field must be consulted under each
	reason string
}

// The discriminated fields (lib/parser/parser.y builds the nodes).
var fxFieldExceptions = map[string]fxFieldExc{
	"lib/parser.LimitClause.Position": {
		live:   []fxAssume{{{kind: fxAtIntIs, path: "Type.Token", konst: "FETCH"}}},
		reason: "only `[offset] FETCH {FIRST|NEXT} n {ROW|ROWS} …` has a Position; `LIMIT n …` and a bare OFFSET clause leave it empty (parser.y, limit_clause)"},
	"lib/parser.LimitClause.Value": {
		live:   []fxAssume{{{kind: fxAtIntIs, path: "Type.Token", konst: "LIMIT"}}, {{kind: fxAtIntIs, path: "Type.Token", konst: "FETCH"}}},
		reason: "a bare OFFSET clause is a LimitClause with an empty Type and no count (parser.y, limit_clause)"},
	"lib/parser.LimitClause.Unit": {
		live:   []fxAssume{{{kind: fxAtIntIs, path: "Type.Token", konst: "LIMIT"}}, {{kind: fxAtIntIs, path: "Type.Token", konst: "FETCH"}}},
		reason: "a bare OFFSET clause is a LimitClause with an empty Type and no unit (parser.y, limit_clause)"},
	"lib/parser.LimitClause.Restriction": {
		live:   []fxAssume{{{kind: fxAtIntIs, path: "Type.Token", konst: "LIMIT"}}, {{kind: fxAtIntIs, path: "Type.Token", konst: "FETCH"}}},
		reason: "a bare OFFSET clause is a LimitClause with an empty Type and no ONLY / WITH TIES (parser.y, limit_clause)"},
	"lib/parser.JoinCondition.Using": {
		live:   []fxAssume{{{kind: fxAtNil, path: "On"}}},
		reason: "ON and USING are alternatives: the grammar sets exactly one of them (parser.y, join_condition)"},
	"lib/parser.WindowFramePosition.Unbounded": {
		live:   []fxAssume{{{kind: fxAtIntNot, path: "Direction.Token", konst: "CURRENT"}}},
		reason: "CURRENT ROW has neither UNBOUNDED nor an offset (parser.y, window_frame_low / window_frame_high)"},
	"lib/parser.WindowFramePosition.Offset": {
		live:   []fxAssume{{{kind: fxAtIntNot, path: "Direction.Token", konst: "CURRENT"}, {kind: fxAtIntIs, path: "Unbounded.Token", konst: "0"}}},
		reason: "the offset is given only for `n PRECEDING` / `n FOLLOWING` (parser.y, window_frame_low / window_frame_high)"},
	"lib/parser.Placeholder.Ordinal": {
		live:   []fxAssume{{{kind: fxAtStrEmpty, path: "Name"}}},
		reason: "only a positional placeholder `?` is identified by its ordinal; a named one `:name` prints its literal (parser.y, placeholder)"},
	"lib/parser.Function.From": {
		live:   []fxAssume{{{kind: fxAtFoldEq, path: "Name"}}},
		reason: "FROM belongs to the one rule SUBSTRING(str FROM pos [FOR len]); every other function call leaves it empty (parser.y, function)"},
	"lib/parser.Function.For": {
		live:   []fxAssume{{{kind: fxAtFoldEq, path: "Name"}, {kind: fxAtIntNot, path: "From.Token", konst: "0"}}},
		reason: "FOR is accepted only after SUBSTRING(str FROM pos (parser.y, function)"},
}

// ---------------------------------------------------------------------------
// the analysis

type fxFields struct {
	a      *fxAst
	consts map[string]int64
	memo   map[string]map[string]bool
	busy   map[string]bool
	bad    []string // constants of the exception table that do not resolve
}

// run of the analysis over one function
type fxFieldsRun struct {
	an     *fxFields
	fn     *ssa.Function
	bind   map[*ssa.Parameter]string // parameter → field path from the node ("" = the node itself)
	assume fxAssume
	nodeT  types.Type // the concrete type of the node, when known (decides type switches on it)
	dep    map[ssa.Value]map[string]bool
	sinks  map[string][]ssa.Instruction // field → where it is consulted (for diagnostics)

	exitMissing   func(field string) *ssa.Return // a reachable return not preceded by a consultation on every path
	reachedReturn bool
}

func fxBindSig(fn *ssa.Function, bind map[*ssa.Parameter]string) string {
	var s []string
	for i, p := range fn.Params {
		if path, ok := bind[p]; ok {
			s = append(s, fmt.Sprintf("%d=%s", i, path))
		}
	}
	return strings.Join(s, ",")
}

// path: v is read from the field path (from the node); "" is the node itself.
func (r *fxFieldsRun) path(v ssa.Value) (string, bool) {
	join := func(p, f string) string {
		if p == "" {
			return f
		}
		return p + "." + f
	}
	for depth := 0; depth < 8; depth++ {
		switch x := v.(type) {
		case *ssa.Parameter:
			p, ok := r.bind[x]
			return p, ok
		case *ssa.Field:
			p, ok := r.path(x.X)
			if !ok {
				return "", false
			}
			return join(p, core.FieldName(x)), true
		case *ssa.FieldAddr:
			p, ok := r.path(x.X)
			if !ok {
				return "", false
			}
			return join(p, core.FieldName(x)), true
		case *ssa.UnOp:
			if x.Op != token.MUL {
				return "", false
			}
			v = x.X
		case *ssa.Alloc:
			// a cell that is stored exactly once: the one a struct parameter is spilled
			// into, or the variable of a type-switch case (`q := e.(T)`)
			var val ssa.Value
			n := 0
			for _, ref := range *x.Referrers() {
				if st, ok := ref.(*ssa.Store); ok && st.Addr == ssa.Value(x) {
					n++
					val = st.Val
				}
			}
			if n != 1 {
				return "", false
			}
			v = val
		case *ssa.ChangeType:
			v = x.X
		case *ssa.MakeInterface: // the node handed on as a QueryExpression
			v = x.X
		case *ssa.ChangeInterface:
			v = x.X
		case *ssa.TypeAssert: // … and taken out again
			v = x.X
		case *ssa.Extract:
			ta, ok := x.Tuple.(*ssa.TypeAssert)
			if !ok || x.Index != 0 {
				return "", false
			}
			v = ta.X
		default:
			return "", false
		}
	}
	return "", false
}

func fxTop(path string) string {
	if i := strings.Index(path, "."); i >= 0 {
		return path[:i]
	}
	return path
}

func fxIsRefKind(t types.Type) bool {
	switch t.Underlying().(type) {
	case *types.Slice, *types.Pointer, *types.Map, *types.Chan:
		return true
	}
	return false
}

func (r *fxFieldsRun) addDep(v ssa.Value, fs map[string]bool) bool {
	if len(fs) == 0 {
		return false
	}
	m := r.dep[v]
	if m == nil {
		m = map[string]bool{}
		r.dep[v] = m
	}
	ch := false
	for f := range fs {
		if !m[f] {
			m[f] = true
			ch = true
		}
	}
	return ch
}

// depOf: the fields v is derived from.
func (r *fxFieldsRun) depOf(v ssa.Value) map[string]bool {
	if v == nil {
		return nil
	}
	if p, ok := r.path(v); ok && p != "" {
		return map[string]bool{fxTop(p): true}
	}
	return r.dep[v]
}

func (r *fxFieldsRun) isNode(v ssa.Value) bool {
	p, ok := r.path(v)
	return ok && p == ""
}

// computeDeps: forward closure of "derived from field F".
func (r *fxFieldsRun) computeDeps() {
	for round := 0; round < 32; round++ {
		changed := false
		for _, b := range r.fn.Blocks {
			for _, in := range b.Instrs {
				v, isVal := in.(ssa.Value)
				if !isVal {
					continue
				}
				switch x := in.(type) {
				case *ssa.Call:
					// what a committing call (append, appendOptional(s, …)) returns is the
					// accumulator: the derived value has been consulted there and is not
					// followed any further — least fixpoint, an accumulator starts underived
					if !r.isSinkCall(x) {
						if r.addDep(v, r.callDeps(x)) {
							changed = true
						}
					}
				case *ssa.Alloc, *ssa.MakeClosure:
					// memory is not followed: a store is where the value is consulted
				default:
					for _, op := range in.Operands(nil) {
						if *op == nil {
							continue
						}
						if r.addDep(v, r.depOf(*op)) {
							changed = true
						}
					}
				}
			}
		}
		if !changed {
			return
		}
	}
}

// callDeps: what the result of a call is derived from.
func (r *fxFieldsRun) callDeps(call ssa.CallInstruction) map[string]bool {
	com := call.Common()
	out := map[string]bool{}
	args := append([]ssa.Value(nil), com.Args...)
	if com.IsInvoke() {
		args = append(args, com.Value)
	}
	g := core.StaticCallee(call)
	nodeArg := -1
	for i, a := range args {
		if r.isNode(a) {
			if nodeArg < 0 && !com.IsInvoke() && i < len(com.Args) {
				nodeArg = i
			}
			continue
		}
		for f := range r.depOf(a) {
			out[f] = true
		}
	}
	if nodeArg >= 0 {
		if g != nil && g.Blocks != nil && r.an.a.c.P.InPkg(g, "lib/parser", core.ControlPkg) && nodeArg < len(g.Params) {
			// the fields the callee consults on every one of its paths
			inner := map[*ssa.Parameter]string{g.Params[nodeArg]: ""}
			for f := range r.an.must(g, inner, r.assume, r.nodeT) {
				out[f] = true
			}
		} else {
			// the whole node goes to foreign code (fmt.Sprintf("%v", e)): every field may be printed
			for _, f := range r.an.allFields(args[nodeArg].Type()) {
				out[f] = true
			}
		}
	}
	return out
}

// isSinkCall: the call commits its derived arguments (it is not just a
// computation whose result is consulted later).
func (r *fxFieldsRun) isSinkCall(call ssa.CallInstruction) bool {
	com := call.Common()
	if _, isGo := call.(*ssa.Go); isGo {
		return true
	}
	if _, isDefer := call.(*ssa.Defer); isDefer {
		return true
	}
	v := call.Value()
	if v == nil || v.Referrers() == nil || len(*v.Referrers()) == 0 || com.Signature().Results().Len() == 0 {
		return true
	}
	if bi, ok := com.Value.(*ssa.Builtin); ok {
		return bi.Name() == "append" || bi.Name() == "copy"
	}
	args := append([]ssa.Value(nil), com.Args...)
	if com.IsInvoke() {
		args = append(args, com.Value)
	}
	for _, a := range args {
		if fxIsRefKind(a.Type()) && !r.isNode(a) && len(r.depOf(a)) == 0 {
			if _, isConst := a.(*ssa.Const); !isConst {
				return true // an accumulator travels with the derived value
			}
		}
	}
	return false
}

// gen: the fields consulted by an instruction.
func (r *fxFieldsRun) gen(in ssa.Instruction) map[string]bool {
	switch x := in.(type) {
	case *ssa.If:
		return r.depOf(x.Cond)
	case *ssa.Store:
		return r.depOf(x.Val)
	case *ssa.MapUpdate:
		out := map[string]bool{}
		for _, v := range []ssa.Value{x.Key, x.Value} {
			for f := range r.depOf(v) {
				out[f] = true
			}
		}
		return out
	case *ssa.Send:
		return r.depOf(x.X)
	case *ssa.Panic:
		return r.depOf(x.X)
	case *ssa.Return:
		out := map[string]bool{}
		for _, v := range x.Results {
			for f := range r.depOf(v) {
				out[f] = true
			}
		}
		return out
	case ssa.CallInstruction:
		if r.isSinkCall(x) {
			return r.callDeps(x)
		}
	}
	return nil
}

// ---------------------------------------------------------------------------
// branch conditions under an assumption

const (
	fxUnk = iota
	fxTrue
	fxFalse
)

func fxTri(b bool) int {
	if b {
		return fxTrue
	}
	return fxFalse
}

func fxNotTri(t int) int {
	switch t {
	case fxTrue:
		return fxFalse
	case fxFalse:
		return fxTrue
	}
	return fxUnk
}

type fxIntFact struct {
	known bool
	val   int64
	not   []int64
}

func (r *fxFieldsRun) intOf(v ssa.Value, depth int) fxIntFact {
	if k, ok := core.ConstInt(v); ok {
		return fxIntFact{known: true, val: k}
	}
	switch x := v.(type) {
	case *ssa.Convert:
		return r.intOf(x.X, depth)
	case *ssa.ChangeType:
		return r.intOf(x.X, depth)
	case *ssa.Call:
		if bi, ok := x.Common().Value.(*ssa.Builtin); ok && bi.Name() == "len" && len(x.Common().Args) == 1 {
			if p, ok := r.path(x.Common().Args[0]); ok {
				for _, a := range r.assume {
					if a.kind == fxAtStrEmpty && a.path == p {
						return fxIntFact{known: true, val: 0}
					}
				}
			}
		}
		return fxIntFact{}
	}
	if p, ok := r.path(v); ok {
		var f fxIntFact
		for _, a := range r.assume {
			if a.path != p {
				continue
			}
			switch a.kind {
			case fxAtIntIs:
				return fxIntFact{known: true, val: a.k}
			case fxAtIntNot:
				f.not = append(f.not, a.k)
			}
		}
		return f
	}
	return fxIntFact{}
}

func fxCmpInts(op token.Token, l, rr int64) int {
	switch op {
	case token.EQL:
		return fxTri(l == rr)
	case token.NEQ:
		return fxTri(l != rr)
	case token.LSS:
		return fxTri(l < rr)
	case token.LEQ:
		return fxTri(l <= rr)
	case token.GTR:
		return fxTri(l > rr)
	case token.GEQ:
		return fxTri(l >= rr)
	}
	return fxUnk
}

// cond evaluates a boolean value under the assumption.
func (r *fxFieldsRun) cond(v ssa.Value, depth int) int {
	if len(r.assume) == 0 && r.nodeT == nil {
		return fxUnk
	}
	switch x := v.(type) {
	case *ssa.Extract:
		// `case T:` of a type switch on the node itself, whose concrete type is known
		if ta, ok := x.Tuple.(*ssa.TypeAssert); ok && ta.CommaOk && x.Index == 1 && r.nodeT != nil {
			if p, ok := r.path(ta.X); ok && p == "" {
				if _, isI := ta.AssertedType.Underlying().(*types.Interface); !isI {
					return fxTri(types.Identical(ta.AssertedType, r.nodeT))
				}
			}
		}
	case *ssa.Const:
		if b, ok := core.ConstBool(x); ok {
			return fxTri(b)
		}
	case *ssa.UnOp:
		if x.Op == token.NOT {
			return fxNotTri(r.cond(x.X, depth))
		}
	case *ssa.BinOp:
		if !fxIsCmp(x.Op) {
			return fxUnk
		}
		// nil tests
		if x.Op == token.EQL || x.Op == token.NEQ {
			for _, pr := range [][2]ssa.Value{{x.X, x.Y}, {x.Y, x.X}} {
				if !core.IsNilConst(pr[1]) {
					continue
				}
				if p, ok := r.path(pr[0]); ok {
					for _, a := range r.assume {
						if a.path == p && (a.kind == fxAtNil || a.kind == fxAtNonNil) {
							return fxTri((a.kind == fxAtNil) == (x.Op == token.EQL))
						}
					}
				}
				return fxUnk
			}
			// string emptiness
			for _, pr := range [][2]ssa.Value{{x.X, x.Y}, {x.Y, x.X}} {
				if s, ok := core.ConstString(pr[1]); ok && s == "" {
					if p, ok := r.path(pr[0]); ok {
						for _, a := range r.assume {
							if a.path == p && a.kind == fxAtStrEmpty {
								return fxTri(x.Op == token.EQL)
							}
						}
					}
					return fxUnk
				}
			}
		}
		l, rr := r.intOf(x.X, depth), r.intOf(x.Y, depth)
		if l.known && rr.known {
			return fxCmpInts(x.Op, l.val, rr.val)
		}
		if x.Op == token.EQL || x.Op == token.NEQ {
			for _, pr := range [][2]fxIntFact{{l, rr}, {rr, l}} {
				if pr[1].known {
					for _, n := range pr[0].not {
						if n == pr[1].val {
							return fxTri(x.Op == token.NEQ)
						}
					}
				}
			}
		}
	case *ssa.Phi:
		res := -1
		for _, e := range x.Edges {
			t := r.cond(e, depth)
			if t == fxUnk || (res >= 0 && t != res) {
				return fxUnk
			}
			res = t
		}
		if res >= 0 {
			return res
		}
	case *ssa.Call:
		com := x.Common()
		if com.IsInvoke() {
			return fxUnk
		}
		if r.an.a.c.P.CalleeName(x) == "strings.EqualFold" {
			for _, arg := range com.Args {
				if p, ok := r.path(arg); ok {
					for _, a := range r.assume {
						if a.path == p && a.kind == fxAtFoldEq {
							return fxTrue
						}
					}
				}
			}
			return fxUnk
		}
		g := core.StaticCallee(x)
		if depth == 0 || g == nil || g.Blocks == nil || !r.an.a.c.P.InPkg(g, "lib/parser", core.ControlPkg) {
			return fxUnk
		}
		// a predicate of lib/parser: follow its body under the assumption
		inner := &fxFieldsRun{an: r.an, fn: g, bind: map[*ssa.Parameter]string{}, assume: r.assume, nodeT: r.nodeT}
		for i, arg := range com.Args {
			if i < len(g.Params) {
				if p, ok := r.path(arg); ok {
					inner.bind[g.Params[i]] = p
				}
			}
		}
		b := g.Blocks[0]
		for steps := 0; steps < 64; steps++ {
			switch t := b.Instrs[len(b.Instrs)-1].(type) {
			case *ssa.Jump:
				b = b.Succs[0]
			case *ssa.If:
				switch inner.cond(t.Cond, depth-1) {
				case fxTrue:
					b = b.Succs[0]
				case fxFalse:
					b = b.Succs[1]
				default:
					return fxUnk
				}
			case *ssa.Return:
				if len(t.Results) != 1 {
					return fxUnk
				}
				if _, isPhi := t.Results[0].(*ssa.Phi); isPhi {
					return fxUnk // which edge was taken is not tracked
				}
				return inner.cond(t.Results[0], depth-1)
			default:
				return fxUnk
			}
		}
	}
	return fxUnk
}

// ---------------------------------------------------------------------------
// must-analysis

func fxAssumeSig(a fxAssume) string { return a.String() }

// must: the fields consulted on every path from the entry of fn to a return.
func fxTypeSig(t types.Type) string {
	if t == nil {
		return ""
	}
	return t.String()
}

func (an *fxFields) must(fn *ssa.Function, bind map[*ssa.Parameter]string, assume fxAssume, nodeT types.Type) map[string]bool {
	key := an.a.c.P.Name(fn) + "|" + fxBindSig(fn, bind) + "|" + fxAssumeSig(assume) + "|" + fxTypeSig(nodeT)
	if m, ok := an.memo[key]; ok {
		return m
	}
	r, res := an.analyse(fn, bind, assume, nodeT)
	if r != nil { // not cut short by recursion
		an.memo[key] = res
	}
	return res
}

func (an *fxFields) analyse(fn *ssa.Function, bind map[*ssa.Parameter]string, assume fxAssume, nodeT types.Type) (*fxFieldsRun, map[string]bool) {
	key := an.a.c.P.Name(fn) + "|" + fxBindSig(fn, bind) + "|" + fxAssumeSig(assume) + "|" + fxTypeSig(nodeT)
	if an.busy[key] {
		return nil, map[string]bool{}
	}
	an.busy[key] = true
	defer delete(an.busy, key)

	r := &fxFieldsRun{an: an, fn: fn, bind: bind, assume: assume, nodeT: nodeT, dep: map[ssa.Value]map[string]bool{}, sinks: map[string][]ssa.Instruction{}}
	r.computeDeps()
	gen := map[*ssa.BasicBlock]map[string]bool{}
	for _, b := range fn.Blocks {
		g := map[string]bool{}
		for _, in := range b.Instrs {
			for f := range r.gen(in) {
				g[f] = true
				r.sinks[f] = append(r.sinks[f], in)
			}
		}
		gen[b] = g
	}
	// feasible edges
	feasible := func(b *ssa.BasicBlock, i int) bool {
		iff, ok := b.Instrs[len(b.Instrs)-1].(*ssa.If)
		if !ok {
			return true
		}
		switch r.cond(iff.Cond, 3) {
		case fxTrue:
			return i == 0
		case fxFalse:
			return i == 1
		}
		return true
	}
	reach := map[*ssa.BasicBlock]bool{fn.Blocks[0]: true}
	work := []*ssa.BasicBlock{fn.Blocks[0]}
	type edge struct{ from, to *ssa.BasicBlock }
	live := map[edge]bool{}
	for len(work) > 0 {
		b := work[len(work)-1]
		work = work[:len(work)-1]
		for i, s := range b.Succs {
			if !feasible(b, i) {
				continue
			}
			live[edge{b, s}] = true
			if !reach[s] {
				reach[s] = true
				work = append(work, s)
			}
		}
	}
	// OUT[b] = (∩ OUT[pred]) ∪ gen[b]; nil = ⊤
	out := map[*ssa.BasicBlock]map[string]bool{}
	for changed := true; changed; {
		changed = false
		for _, b := range fn.Blocks {
			if !reach[b] {
				continue
			}
			var in map[string]bool
			if b == fn.Blocks[0] {
				in = map[string]bool{}
			} else {
				for _, p := range b.Preds {
					if !reach[p] || !live[edge{p, b}] {
						continue
					}
					po, has := out[p]
					if !has {
						continue // ⊤
					}
					if in == nil {
						in = map[string]bool{}
						for f := range po {
							in[f] = true
						}
					} else {
						for f := range in {
							if !po[f] {
								delete(in, f)
							}
						}
					}
				}
				if in == nil {
					continue // all predecessors still ⊤
				}
			}
			for f := range gen[b] {
				in[f] = true
			}
			old, has := out[b]
			if !has || len(old) != len(in) {
				out[b] = in
				changed = true
			}
		}
	}
	var res map[string]bool
	for _, ret := range core.Returns(fn) {
		b := ret.Block()
		if !reach[b] {
			continue
		}
		o := out[b]
		if res == nil {
			res = map[string]bool{}
			for f := range o {
				res[f] = true
			}
		} else {
			for f := range res {
				if !o[f] {
					delete(res, f)
				}
			}
		}
	}
	if res == nil {
		res = map[string]bool{} // no return is reachable: nothing is established
	}
	r.exitMissing = func(f string) *ssa.Return {
		for _, ret := range core.Returns(fn) {
			if reach[ret.Block()] && !out[ret.Block()][f] {
				return ret
			}
		}
		return nil
	}
	r.reachedReturn = false
	for _, ret := range core.Returns(fn) {
		if reach[ret.Block()] {
			r.reachedReturn = true
		}
	}
	return r, res
}

func (an *fxFields) allFields(t types.Type) []string {
	if p, ok := t.Underlying().(*types.Pointer); ok {
		t = p.Elem()
	}
	st, ok := t.Underlying().(*types.Struct)
	if !ok {
		return nil
	}
	var out []string
	for i := 0; i < st.NumFields(); i++ {
		f := st.Field(i)
		if f.Embedded() && core.NamedOf(f.Type()) == "lib/parser.BaseExpr" {
			continue
		}
		out = append(out, f.Name())
	}
	return out
}

func (an *fxFields) resolve(a fxAssume) (fxAssume, bool) {
	out := make(fxAssume, len(a))
	ok := true
	for i, at := range a {
		out[i] = at
		if at.kind != fxAtIntIs && at.kind != fxAtIntNot {
			continue
		}
		if k, has := an.consts[at.konst]; has {
			out[i].k = k
			continue
		}
		var n int64
		if _, err := fmt.Sscanf(at.konst, "%d", &n); err == nil {
			out[i].k = n
			continue
		}
		ok = false
	}
	return out, ok
}

func ruleEsc9(c *Ctx) {
	a := fxNewAst(c)
	if a == nil {
		return
	}
	an := &fxFields{a: a, consts: map[string]int64{}, memo: map[string]map[string]bool{}, busy: map[string]bool{}}
	if pk := c.P.ByPath["lib/parser"]; pk != nil {
		sc := pk.Types.Scope()
		for _, n := range sc.Names() {
			if k, ok := sc.Lookup(n).(*types.Const); ok && k.Val().Kind() == constant.Int {
				if v, ok := constant.Int64Val(k.Val()); ok {
					an.consts[n] = v
				}
			}
		}
	}
	ps := a.printers("CtlNodeField", "okNodeField")
	if len(ps) == 0 {
		c.Unknown("printers", "-", "cannot-analyse: no String() method of a syntax-tree type found in lib/parser")
		return
	}
	usedExc := map[string]bool{}
	for _, p := range ps {
		fields := an.allFields(p.node.Type())
		if len(fields) == 0 {
			continue
		}
		c.Touch(p.fn)
		bind := map[*ssa.Parameter]string{p.node: ""}
		nodeT := p.node.Type()
		if pt, ok := nodeT.Underlying().(*types.Pointer); ok {
			nodeT = pt.Elem()
		}
		run, base := an.analyse(p.fn, bind, nil, nodeT)
		for _, f := range fields {
			key := c.KeyAt(p.fn, "field "+f+" is consulted on every path")
			report := func(why string) {
				c.Bad(key, c.FnPos(p.fn), why)
				if p.ctl && strings.HasPrefix(p.fn.Name(), "ok") {
					c.Unknown("negative-control:"+key, "-", "the rule reports "+p.fn.Name()+", which spells an accepted idiom correctly: "+why)
				}
			}
			var at []string
			seen := map[string]bool{}
			for _, in := range run.sinks[f] {
				if pos := c.Pos(in); !seen[pos] {
					seen[pos] = true
					at = append(at, pos[strings.LastIndex(pos, ":")+1:])
				}
			}
			sort.Slice(at, func(i, j int) bool {
				if len(at[i]) != len(at[j]) {
					return len(at[i]) < len(at[j])
				}
				return at[i] < at[j]
			})
			where := "it is neither printed nor tested anywhere in the method"
			if len(at) > 0 {
				where = "it is printed or tested only at line(s) " + strings.Join(at, ", ")
			}
			if base[f] {
				c.Ok(key, c.FnPos(p.fn), fmt.Sprintf("printed or tested on every path (consulted at line(s) %s)", strings.Join(at, ", ")))
				continue
			}
			short := p.name[strings.LastIndex(p.name, ".")+1:]
			exc, isExc := fxFieldExceptions[p.name+"."+f]
			if !isExc || p.ctl {
				exit := ""
				if ret := run.exitMissing(f); ret != nil {
					exit = " — e.g. the path that ends in the return at " + c.Pos(ret)
				}
				report(fmt.Sprintf("a path from the entry of %s to a return consults neither the value of %s.%s nor a test of it%s; %s: whatever the grammar stored in the field (an optional keyword such as LEFT in `LEFT JOIN`, a child) is dropped from the printed query on that path, which then parses to another tree", c.P.Name(p.fn), short, f, exit, where))
				continue
			}
			usedExc[p.name+"."+f] = true
			lapsed := ""
			var conds []string
			for _, alt := range exc.live {
				ra, ok := an.resolve(alt)
				if !ok {
					lapsed = "a constant named in the live condition (" + alt.String() + ") is not declared in lib/parser"
					break
				}
				conds = append(conds, ra.String())
				r2, m := an.analyse(p.fn, bind, ra, nodeT)
				if !r2.reachedReturn {
					lapsed = "no return is reachable under the live condition " + ra.String()
					break
				}
				if !m[f] {
					exit := ""
					if ret := r2.exitMissing(f); ret != nil {
						exit = " (return at " + c.Pos(ret) + ")"
					}
					lapsed = fmt.Sprintf("with %s a path to a return%s consults neither %s.%s nor a test of it; %s", ra.String(), exit, short, f, where)
					break
				}
			}
			if lapsed == "" {
				c.Ok(key, c.FnPos(p.fn), fmt.Sprintf("discriminated field: %s [side condition checked: consulted on every path that remains when %s]", exc.reason, strings.Join(conds, " / when ")))
			} else {
				report("discriminated field (" + exc.reason + "), but the side condition fails: " + lapsed + " — the field is dropped from the printed query there")
			}
		}
	}
	var names []string
	for n := range fxFieldExceptions {
		names = append(names, n)
	}
	sort.Strings(names)
	for _, n := range names {
		if !usedExc[n] {
			c.Unknown("exception:"+n, "-", "the frozen table of discriminated fields names "+n+", but no String() method needed the entry: the node or field is gone, or the field is now consulted on every path (remove the entry)")
		}
	}
}
